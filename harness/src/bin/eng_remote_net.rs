//! E3 for C20: two REAL `ractor_cluster::NodeServer`s in one process, connected through the
//! public external-transport API over a programmable chaos link (fragmentation, scheduling
//! jitter, byte/frame exact cuts), driven by scenario lines under a paused virtual clock.
//!
//! stdin, one case per line:
//!   net seed=<u64> chunk=<n> jitter=<0|1|2> [tcp=1] | <op> ; <op> ; ...
//!     tcp=1: the two nodes are connected through node B's REAL TCP listener on 127.0.0.1 and
//!     `ractor_cluster::client_connect` (real-time runtime; `settle` then waits — bounded, else exit 2 —
//!     for the logical condition "everything accepted has arrived, expected replies are in, both
//!     sessions mirror the live actors and groups"); no cut ops in this mode
//! ops:
//!   spawn <i> | connect | join <i> <g> | leave <i> <g> | exit <i> | kill <i>
//!   cast <sender> <via> <i> <variant 0|1> <bloblen>
//!   call <caller> <via> <i> <mode> <delay_ms> <timeout_ms|0> <bloblen>
//!   abandon <rid> | settle | advance <ms>
//!   cut <dir> bytes <n> | cut <dir> frames <k> | cut now | obs | stale
//! stdout: one Coq-syntax term per case:
//!   mkObs <sent> <recv> <calls> <snaps> <stale>
//!
//! jitter=1: before every forwarded chunk the writer yields to the scheduler a PRNG chosen
//!           0..=3 times (no virtual time passes);
//! jitter=2: before every forwarded chunk the writer sleeps a PRNG chosen 0..=3 virtual
//!           microseconds (tokio timers have 1 ms granularity, so this costs ~1 virtual ms
//!           per chunk).
//! Set RV_NET_DEBUG=1 for link counters / progress on stderr, RV_NET_TRACE=1 for every read.
use std::collections::{BTreeMap, BTreeSet, HashMap};
use std::future::Future;
use std::io;
use std::pin::Pin;
use std::sync::atomic::{AtomicBool, Ordering};
use std::sync::{Arc, Mutex};
use std::task::{Context, Poll, Waker};
use std::time::Duration;

use ractor::concurrency::JoinHandle;
use ractor::rpc::CallResult;
use ractor::{Actor, ActorCell, ActorId, ActorProcessingErr, ActorRef, ActorStatus, MessagingErr, RpcReplyPort};
use ractor_cluster::node::NodeServerSessionInformation;
use ractor_cluster::{BoxRead, BoxWrite, ClusterBidiStream, NodeEventSubscription, NodeServer, NodeServerMessage};
use rv_harness::*;
use tokio::io::{AsyncRead, AsyncWrite, DuplexStream, ReadBuf, ReadHalf, WriteHalf};

static PANICKED: AtomicBool = AtomicBool::new(false);

fn infra(msg: impl AsRef<str>) -> ! {
    eprintln!("eng_remote_net: INFRA FAILURE: {}", msg.as_ref());
    std::process::exit(2)
}

/// The code under test got stuck / misbehaved in a way the driver cannot continue from: this is an
/// OBSERVATION (the case is reported as `stuck "<why>"`, the remaining cases as `skipped`), not an
/// infrastructure problem.
struct Stuck(String);
fn stuck(msg: impl AsRef<str>) -> ! {
    std::panic::panic_any(Stuck(msg.as_ref().to_string()))
}

fn debug() -> bool {
    std::env::var_os("RV_NET_DEBUG").is_some()
}

fn trace() -> bool {
    std::env::var_os("RV_NET_TRACE").is_some()
}

// ------------------------------------------------------------------ PRNG / hash

#[derive(Clone)]
struct XorShift(u64);
impl XorShift {
    fn new(seed: u64) -> Self {
        let mut s = seed ^ 0x9E37_79B9_7F4A_7C15;
        if s == 0 {
            s = 0x1234_5678_9ABC_DEF1;
        }
        let mut r = XorShift(s);
        for _ in 0..4 {
            r.next();
        }
        r
    }
    fn next(&mut self) -> u64 {
        let mut x = self.0;
        x ^= x >> 12;
        x ^= x << 25;
        x ^= x >> 27;
        self.0 = x;
        x.wrapping_mul(0x2545_F491_4F6C_DD1D)
    }
    fn bytes(&mut self, n: usize) -> Vec<u8> {
        let mut v = Vec::with_capacity(n + 8);
        while v.len() < n {
            v.extend_from_slice(&self.next().to_le_bytes());
        }
        v.truncate(n);
        v
    }
}

fn fnv1a(data: &[u8]) -> u64 {
    let mut h: u64 = 0xcbf2_9ce4_8422_2325;
    for b in data {
        h ^= *b as u64;
        h = h.wrapping_mul(0x0000_0100_0000_01b3);
    }
    h
}

// ------------------------------------------------------------------ chaos transport

#[derive(Clone, Copy, Debug)]
enum Cut {
    Bytes(u64),
    Frames(u64),
}

/// Incremental parser of the cluster wire format: 8-byte BE length + payload.
#[derive(Clone, Default)]
struct Parser {
    hdr: [u8; 8],
    hdr_len: usize,
    remaining: u64,
}

impl Parser {
    /// Consume `data`; stop early right after the `stop_after`-th completed frame.
    /// Returns (frames completed, bytes consumed).
    fn scan(&mut self, data: &[u8], stop_after: Option<u64>) -> (u64, usize) {
        let mut p = 0usize;
        let mut frames = 0u64;
        if stop_after == Some(0) {
            return (0, 0);
        }
        while p < data.len() {
            let mut done = false;
            if self.hdr_len < 8 {
                let take = (8 - self.hdr_len).min(data.len() - p);
                self.hdr[self.hdr_len..self.hdr_len + take].copy_from_slice(&data[p..p + take]);
                self.hdr_len += take;
                p += take;
                if self.hdr_len == 8 {
                    self.remaining = u64::from_be_bytes(self.hdr);
                    if self.remaining == 0 {
                        done = true;
                    }
                }
            } else {
                let take = self.remaining.min((data.len() - p) as u64);
                self.remaining -= take;
                p += take as usize;
                if self.remaining == 0 {
                    done = true;
                }
            }
            if done {
                frames += 1;
                self.hdr_len = 0;
                if stop_after == Some(frames) {
                    break;
                }
            }
        }
        (frames, p)
    }
}

#[derive(Default)]
struct Dir {
    bytes: u64,
    frames: u64,
    cut: Option<Cut>,
    parser: Parser,
}

/// One per connection, shared by both ends and the driver.
struct Link {
    dead: bool,
    chunk: usize,
    jitter: u8,
    rng: XorShift,
    dirs: [Dir; 2],
    /// reader of direction d -> slot d; writer of direction d -> slot 2 + d
    wakers: [Option<Waker>; 4],
}

impl Link {
    fn new(chunk: usize, jitter: u8, seed: u64) -> Self {
        Link {
            dead: false,
            chunk,
            jitter,
            rng: XorShift::new(seed ^ 0x00C0_FFEE_D00D_F00D),
            dirs: [Dir::default(), Dir::default()],
            wakers: [None, None, None, None],
        }
    }
    fn cut(&mut self) {
        if self.dead {
            return;
        }
        self.dead = true;
        for w in self.wakers.iter_mut() {
            if let Some(w) = w.take() {
                w.wake();
            }
        }
    }
}

struct Chaos {
    stream: DuplexStream,
    link: Arc<Mutex<Link>>,
    /// direction of this end's writes: 0 = A->B, 1 = B->A
    wdir: usize,
    label: String,
}

impl ClusterBidiStream for Chaos {
    fn split(self: Box<Self>) -> (BoxRead, BoxWrite) {
        let (r, w) = tokio::io::split(self.stream);
        (
            Box::new(ChaosRead { inner: r, link: self.link.clone(), dir: 1 - self.wdir }),
            Box::new(ChaosWrite { inner: w, link: self.link, dir: self.wdir, armed: false, yields: 0, sleep: None }),
        )
    }
    fn peer_label(&self) -> Option<String> {
        Some(format!("{}:peer", self.label))
    }
    fn local_label(&self) -> Option<String> {
        Some(format!("{}:local", self.label))
    }
}

struct ChaosRead {
    inner: ReadHalf<DuplexStream>,
    link: Arc<Mutex<Link>>,
    dir: usize,
}

impl AsyncRead for ChaosRead {
    fn poll_read(mut self: Pin<&mut Self>, cx: &mut Context<'_>, buf: &mut ReadBuf<'_>) -> Poll<io::Result<()>> {
        let this = &mut *self;
        let before = buf.filled().len();
        match Pin::new(&mut this.inner).poll_read(cx, buf) {
            Poll::Ready(r) => {
                if trace() {
                    eprintln!("    read dir{} +{} bytes {:?}", this.dir, buf.filled().len() - before, r.as_ref().err());
                }
                Poll::Ready(r)
            }
            Poll::Pending => {
                // nothing buffered: everything forwarded before a cut was already drained
                let mut l = this.link.lock().unwrap();
                if l.dead {
                    if trace() {
                        eprintln!("    read dir{} EOF (link cut)", this.dir);
                    }
                    Poll::Ready(Ok(())) // EOF
                } else {
                    l.wakers[this.dir] = Some(cx.waker().clone());
                    Poll::Pending
                }
            }
        }
    }
}

struct ChaosWrite {
    inner: WriteHalf<DuplexStream>,
    link: Arc<Mutex<Link>>,
    dir: usize,
    /// jitter for the current chunk already drawn
    armed: bool,
    yields: u32,
    sleep: Option<Pin<Box<tokio::time::Sleep>>>,
}

fn broken() -> io::Error {
    io::Error::new(io::ErrorKind::BrokenPipe, "chaos link cut")
}

impl AsyncWrite for ChaosWrite {
    fn poll_write(mut self: Pin<&mut Self>, cx: &mut Context<'_>, buf: &[u8]) -> Poll<io::Result<usize>> {
        let this = &mut *self;
        let d = this.dir;
        let mut l = this.link.lock().unwrap();
        if l.dead {
            return Poll::Ready(Err(broken()));
        }
        if matches!(l.dirs[d].cut, Some(Cut::Bytes(0)) | Some(Cut::Frames(0))) {
            l.cut();
            return Poll::Ready(Err(broken()));
        }
        if buf.is_empty() {
            return Poll::Ready(Ok(0));
        }
        // ---- jitter before the chunk is forwarded
        if l.jitter != 0 {
            if !this.armed {
                this.armed = true;
                let k = (l.rng.next() % 4) as u32;
                if l.jitter == 1 {
                    this.yields = k;
                } else if k > 0 {
                    this.sleep = Some(Box::pin(tokio::time::sleep(Duration::from_micros(k as u64))));
                }
            }
            if this.yields > 0 {
                this.yields -= 1;
                l.wakers[2 + d] = None;
                cx.waker().wake_by_ref();
                return Poll::Pending;
            }
            if let Some(s) = this.sleep.as_mut() {
                match s.as_mut().poll(cx) {
                    Poll::Pending => {
                        l.wakers[2 + d] = Some(cx.waker().clone());
                        return Poll::Pending;
                    }
                    Poll::Ready(()) => this.sleep = None,
                }
            }
        }
        // ---- how much may be forwarded
        let mut allowed = buf.len();
        if l.chunk > 0 {
            allowed = allowed.min(l.chunk);
        }
        match l.dirs[d].cut {
            Some(Cut::Bytes(n)) => allowed = allowed.min(n.min(usize::MAX as u64) as usize),
            Some(Cut::Frames(k)) => {
                let mut probe = l.dirs[d].parser.clone();
                let (_, upto) = probe.scan(&buf[..allowed], Some(k));
                allowed = allowed.min(upto);
            }
            None => {}
        }
        match Pin::new(&mut this.inner).poll_write(cx, &buf[..allowed]) {
            Poll::Pending => {
                l.wakers[2 + d] = Some(cx.waker().clone());
                Poll::Pending
            }
            Poll::Ready(Err(e)) => Poll::Ready(Err(e)),
            Poll::Ready(Ok(n)) => {
                this.armed = false;
                let dir = &mut l.dirs[d];
                let (frames, _) = dir.parser.scan(&buf[..n], None);
                dir.bytes += n as u64;
                dir.frames += frames;
                let mut cut_now = false;
                match dir.cut {
                    Some(Cut::Bytes(b)) => {
                        let left = b.saturating_sub(n as u64);
                        dir.cut = Some(Cut::Bytes(left));
                        cut_now = left == 0;
                    }
                    Some(Cut::Frames(k)) => {
                        let left = k.saturating_sub(frames);
                        dir.cut = Some(Cut::Frames(left));
                        cut_now = left == 0;
                    }
                    None => {}
                }
                if cut_now {
                    l.cut();
                }
                Poll::Ready(Ok(n))
            }
        }
    }

    fn poll_flush(mut self: Pin<&mut Self>, cx: &mut Context<'_>) -> Poll<io::Result<()>> {
        let this = &mut *self;
        if this.link.lock().unwrap().dead {
            return Poll::Ready(Err(broken()));
        }
        Pin::new(&mut this.inner).poll_flush(cx)
    }

    fn poll_shutdown(mut self: Pin<&mut Self>, cx: &mut Context<'_>) -> Poll<io::Result<()>> {
        let this = &mut *self;
        Pin::new(&mut this.inner).poll_shutdown(cx)
    }
}

// ------------------------------------------------------------------ probe actor

#[derive(ractor_cluster::RactorClusterMessage)]
enum ProbeMsg {
    CastA(u64, u64, u64, Vec<u8>),
    CastB(u64, u64, u64, Vec<u8>),
    #[rpc]
    Call(u64, u64, u64, u64, u64, u64, Vec<u8>, RpcReplyPort<Vec<u8>>),
}

struct RecvRec {
    i: u64,
    variant: u64,
    sender: u64,
    seq: u64,
    via: u64,
    len: u64,
    hash: u64,
}

type RecvLog = Arc<Mutex<Vec<RecvRec>>>;

struct Probe {
    idx: u64,
    log: RecvLog,
    /// set at the very beginning of pre_start (the cell exists and is advertised from then on)
    slot: Arc<Mutex<Option<ActorCell>>>,
    /// a slow pre_start: it completes only when the driver adds a permit
    gate: Option<Arc<tokio::sync::Semaphore>>,
}

struct ProbeState {
    held: Vec<RpcReplyPort<Vec<u8>>>,
}

impl Actor for Probe {
    type Msg = ProbeMsg;
    type State = ProbeState;
    type Arguments = ();

    async fn pre_start(&self, myself: ActorRef<ProbeMsg>, _: ()) -> Result<ProbeState, ActorProcessingErr> {
        *self.slot.lock().unwrap() = Some(myself.get_cell());
        if let Some(g) = &self.gate {
            if let Ok(p) = g.acquire().await {
                p.forget();
            }
        }
        Ok(ProbeState { held: Vec::new() })
    }

    async fn handle(&self, myself: ActorRef<ProbeMsg>, msg: ProbeMsg, state: &mut ProbeState) -> Result<(), ActorProcessingErr> {
        let rec = |variant: u64, sender: u64, seq: u64, via: u64, blob: &[u8]| {
            self.log.lock().unwrap().push(RecvRec {
                i: self.idx,
                variant,
                sender,
                seq,
                via,
                len: blob.len() as u64,
                hash: fnv1a(blob),
            });
        };
        match msg {
            ProbeMsg::CastA(s, q, v, blob) => rec(0, s, q, v, &blob),
            ProbeMsg::CastB(s, q, v, blob) => rec(1, s, q, v, &blob),
            ProbeMsg::Call(caller, seq, via, rid, delay_ms, mode, blob, port) => {
                rec(2, caller, seq, via, &blob);
                let mut reply = rid.to_be_bytes().to_vec();
                reply.extend_from_slice(&myself.get_id().pid().to_be_bytes());
                match mode {
                    0 => {
                        let _ = port.send(reply);
                    }
                    1 => {
                        tokio::spawn(async move {
                            tokio::time::sleep(Duration::from_millis(delay_ms)).await;
                            let _ = port.send(reply);
                        });
                    }
                    2 => state.held.push(port),
                    _ => drop(port),
                }
            }
        }
        Ok(())
    }
}

// ------------------------------------------------------------------ node events

#[derive(Clone, Copy, PartialEq, Eq, Debug)]
enum EvKind {
    Ready,
    Disc,
}
type Events = Arc<Mutex<Vec<(usize, EvKind, ActorId)>>>;

struct Sub {
    node: usize,
    events: Events,
}
impl NodeEventSubscription for Sub {
    fn node_session_opened(&self, _: NodeServerSessionInformation) {}
    fn node_session_disconnected(&self, s: NodeServerSessionInformation) {
        self.events.lock().unwrap().push((self.node, EvKind::Disc, s.actor.get_id()));
    }
    fn node_session_authenticated(&self, _: NodeServerSessionInformation) {}
    fn node_session_ready(&self, s: NodeServerSessionInformation) {
        self.events.lock().unwrap().push((self.node, EvKind::Ready, s.actor.get_id()));
    }
}

// ------------------------------------------------------------------ driver

fn u(s: &str) -> u64 {
    s.parse().unwrap_or_else(|_| infra(format!("bad number {s:?}")))
}

fn alive(c: &ActorCell) -> bool {
    c.get_status() < ActorStatus::Stopping
}

#[derive(Default, Clone, Copy)]
struct Outcome {
    out: u64,
    a: u64,
    b: u64,
}

fn record(slot: &Arc<Mutex<Outcome>>, res: Result<CallResult<Vec<u8>>, MessagingErr<ProbeMsg>>) {
    let o = match res {
        Ok(CallResult::Success(bytes)) => {
            if bytes.len() == 16 {
                let mut x = [0u8; 8];
                let mut y = [0u8; 8];
                x.copy_from_slice(&bytes[..8]);
                y.copy_from_slice(&bytes[8..]);
                Outcome { out: 1, a: u64::from_be_bytes(x), b: u64::from_be_bytes(y) }
            } else {
                Outcome { out: 6, a: bytes.len() as u64, b: 0 }
            }
        }
        Ok(CallResult::Timeout) => Outcome { out: 2, a: 0, b: 0 },
        Ok(CallResult::SenderError) => Outcome { out: 3, a: 0, b: 0 },
        Err(_) => Outcome { out: 4, a: 0, b: 0 },
    };
    let mut s = slot.lock().unwrap();
    if s.out == 0 {
        *s = o;
    }
}

struct ProbeInfo {
    cell: ActorCell,
    pid: u64,
    handle: JoinHandle<()>,
    gate: Option<Arc<tokio::sync::Semaphore>>,
}

struct CallRec {
    rid: u64,
    via: u64,
    i: u64,
    caller: u64,
    slot: Arc<Mutex<Outcome>>,
    handle: Option<tokio::task::JoinHandle<()>>,
    answers: bool, // the probe answers this call (mode 0 / 1)
}

struct World {
    case: u64,
    seed: u64,
    chunk: usize,
    jitter: u8,
    rng: XorShift,
    nodes: [ActorRef<NodeServerMessage>; 2],
    events: Events,
    sess: Option<[NodeServerSessionInformation; 2]>,
    connect_done: bool,
    tcp: bool,
    tcp_gave_up: bool,
    port_b: u16,
    ok_sends: usize,
    link: Option<Arc<Mutex<Link>>>,
    probes: BTreeMap<u64, ProbeInfo>,
    handles: BTreeMap<(u64, u64), ActorCell>,
    seqs: HashMap<u64, u64>,
    groups: BTreeSet<u64>,
    log: RecvLog,
    sent: Vec<String>,
    calls: Vec<CallRec>,
    snaps: Vec<String>,
    stale: Vec<String>,
}

async fn wait_until<F: FnMut() -> bool>(what: &str, mut cond: F) {
    let deadline = tokio::time::Instant::now() + Duration::from_secs(30);
    loop {
        if cond() {
            return;
        }
        if tokio::time::Instant::now() >= deadline {
            stuck(format!("timed out (30 virtual s) waiting for: {what}"));
        }
        tokio::time::sleep(Duration::from_millis(1)).await;
    }
}

async fn sessions_of(n: &ActorRef<NodeServerMessage>) -> HashMap<u64, NodeServerSessionInformation> {
    match ractor::call_t!(n, NodeServerMessage::GetSessions, 1000) {
        Ok(m) => m,
        Err(e) => stuck(format!("GetSessions failed: {e}")),
    }
}

impl World {
    /// group key k = 1000 * scope + g; scope 0 is the default scope
    fn gname(&self, k: u64) -> String {
        format!("c{}g{}", self.case, k % 1000)
    }
    fn sname(&self, k: u64) -> String {
        if k / 1000 == 0 {
            ractor::pg::DEFAULT_SCOPE.to_string()
        } else {
            format!("c{}s{}", self.case, k / 1000)
        }
    }

    fn probe(&self, i: u64) -> &ProbeInfo {
        self.probes.get(&i).unwrap_or_else(|| infra(format!("probe {i} was never spawned")))
    }

    fn session_cells(&self, via: u64) -> Vec<ActorCell> {
        match &self.sess {
            None => vec![],
            Some(s) => s[via as usize]
                .actor
                .get_cell()
                .get_children()
                .into_iter()
                .filter(|c| !c.get_id().is_local())
                .collect(),
        }
    }

    fn proxy(&mut self, via: u64, i: u64) -> Option<ActorCell> {
        if via > 1 {
            infra(format!("bad via {via}"));
        }
        if let Some(c) = self.handles.get(&(via, i)) {
            return Some(c.clone());
        }
        let pid = self.probes.get(&i)?.pid;
        let found = self.session_cells(via).into_iter().find(|c| c.get_id().pid() == pid)?;
        self.handles.insert((via, i), found.clone());
        Some(found)
    }

    fn next_seq(&mut self, sender: u64) -> u64 {
        let e = self.seqs.entry(sender).or_insert(0);
        let s = *e;
        *e += 1;
        s
    }

    async fn connect(&mut self) {
        if self.connect_done {
            infra("connect appears twice");
        }
        self.connect_done = true;
        // --- bump node B's node_id counter with a connection whose peer end is already gone
        let disc_before = self.events.lock().unwrap().iter().filter(|e| e.0 == 1 && e.1 == EvKind::Disc).count();
        let (x, y) = tokio::io::duplex(1024);
        drop(y);
        let dummy = Arc::new(Mutex::new(Link::new(0, 0, 1)));
        if self.nodes[1]
            .cast(NodeServerMessage::ConnectionOpenedExternal {
                stream: Box::new(Chaos { stream: x, link: dummy, wdir: 1, label: "bump".into() }),
                is_server: true,
            })
            .is_err()
        {
            stuck("node B rejected the bump connection");
        }
        let ev = self.events.clone();
        wait_until("node B to report the bump session disconnected", || {
            ev.lock().unwrap().iter().filter(|e| e.0 == 1 && e.1 == EvKind::Disc).count() > disc_before
        })
        .await;
        let mark = self.events.lock().unwrap().len();

        // --- the real connection
        let (sa, sb) = tokio::io::duplex(64 * 1024);
        let link = Arc::new(Mutex::new(Link::new(self.chunk, self.jitter, self.seed)));
        if self.tcp {
            // node A dials node B's real listener
            if let Err(e) = ractor_cluster::client_connect(&self.nodes[0], format!("127.0.0.1:{}", self.port_b)).await {
                stuck(format!("tcp connect to 127.0.0.1:{} failed: {e}", self.port_b));
            }
        } else {
            let ca = Chaos { stream: sa, link: link.clone(), wdir: 0, label: "a".into() };
            let cb = Chaos { stream: sb, link: link.clone(), wdir: 1, label: "b".into() };
            // the dialling side goes through the public helper for external transports
            if ractor_cluster::client_connect_external(&self.nodes[0], Box::new(ca)).await.is_err()
                || self.nodes[1].cast(NodeServerMessage::ConnectionOpenedExternal { stream: Box::new(cb), is_server: true }).is_err()
            {
                stuck("node server rejected the real connection");
            }
        }
        // The transport delivers every byte, uncut and in order. If the sessions nevertheless tear
        // down or never become ready (a broken frame reader / handshake), that is an OBSERVATION about
        // the code under test, not an infrastructure problem: the case goes on without a session
        // (snapshots report up = false, sends through remote references find no proxy).
        let ev = self.events.clone();
        let deadline = tokio::time::Instant::now() + Duration::from_secs(30);
        let became_ready = loop {
            {
                let e = ev.lock().unwrap();
                let tail = &e[mark..];
                if tail.iter().any(|x| x.1 == EvKind::Disc) {
                    break false;
                }
                if tail.iter().any(|x| x.0 == 0 && x.1 == EvKind::Ready) && tail.iter().any(|x| x.0 == 1 && x.1 == EvKind::Ready) {
                    break true;
                }
            }
            if tokio::time::Instant::now() >= deadline {
                break false;
            }
            tokio::time::sleep(Duration::from_millis(1)).await;
        };
        if !became_ready {
            if debug() {
                eprintln!("  connect: the sessions did not become ready on an uncut transport");
            }
            self.link = Some(link);
            return;
        }
        let sa = sessions_of(&self.nodes[0]).await;
        let sb = sessions_of(&self.nodes[1]).await;
        if sa.len() != 1 || sb.len() != 1 {
            // not what a healthy pair of nodes shows; an observation: go on without a session
            if debug() {
                eprintln!("  connect: expected one session per node, got {} / {}", sa.len(), sb.len());
            }
            self.link = Some(link);
            return;
        }
        let ia = sa.into_values().next().unwrap();
        let ib = sb.into_values().next().unwrap();
        // NOTE: the node ids are whatever the library assigned (0 on A and 1 on B after the bump on a
        // healthy tree). They are not checked here: the snapshots classify group members by the node id
        // of their ActorId, so sessions that were given the SAME node id show up as one node's remote
        // members missing from every group (the remote references of the two sessions collide).
        if debug() {
            eprintln!("  connect: node ids a={} b={} is_server a={} b={}", ia.node_id, ib.node_id, ia.is_server, ib.is_server);
        }
        // The handshake carries library-random values (connection id, challenges) of varying
        // encoded length, so the number of PRNG draws so far is not reproducible. The link is
        // quiescent here (we only observe after every task went idle): restart the jitter stream.
        {
            let mut l = link.lock().unwrap();
            l.rng = XorShift::new(self.seed ^ 0x00C0_FFEE_D00D_F00D);
            if debug() {
                eprintln!(
                    "  connected: handshake bytes {}/{} frames {}/{}",
                    l.dirs[0].bytes, l.dirs[1].bytes, l.dirs[0].frames, l.dirs[1].frames
                );
            }
        }
        self.sess = Some([ia, ib]);
        self.link = Some(link);
    }

    fn do_cast(&mut self, sender: u64, via: u64, i: u64, variant: u64, len: usize) {
        let blob = self.rng.bytes(len);
        let hash = fnv1a(&blob);
        let seq = self.next_seq(sender);
        let ok = match self.proxy(via, i) {
            None => false,
            Some(cell) => {
                let r: ActorRef<ProbeMsg> = cell.into();
                let m = if variant == 0 { ProbeMsg::CastA(sender, seq, via, blob) } else { ProbeMsg::CastB(sender, seq, via, blob) };
                r.cast(m).is_ok()
            }
        };
        if ok {
            self.ok_sends += 1;
        }
        self.sent.push(format!("(mkS {via} {i} {sender} {seq} {variant} {len} {hash} {})", coq_bool(ok)));
    }

    /// tcp mode: wait (real time, bounded) until nothing is on its way any more, judged logically
    async fn settle_logical(&mut self) {
        // Real time is only used to notice that NOTHING changes any more: the wait goes on as long as
        // there is progress (bounded by 120 s overall => infrastructure failure); if the observable state
        // has been frozen for 10 s and the condition still does not hold, that is an observation (the
        // snapshot will show it) and later waits no longer insist on the part that cannot be reached.
        let deadline = std::time::Instant::now() + Duration::from_secs(120);
        let mut last_fp = String::new();
        let mut frozen_since = std::time::Instant::now();
        loop {
            let arrived = self.log.lock().unwrap().len() >= self.ok_sends;
            let answered = self.calls.iter().all(|c| !c.answers || c.slot.lock().unwrap().out != 0);
            let mut live: Vec<u64> = self.probes.values().filter(|p| alive(&p.cell)).map(|p| p.pid).collect();
            live.sort();
            let mut mirrored = self.sess.is_some();
            for via in 0..2u64 {
                let mut px: Vec<u64> = self.session_cells(via).iter().filter(|c| alive(c)).map(|c| c.get_id().pid()).collect();
                px.sort();
                mirrored &= px == live;
            }
            for g in self.groups.clone() {
                let ms = self.members(g);
                let mut loc: Vec<u64> = ms.iter().filter(|m| m.get_id().is_local()).map(|m| m.get_id().pid()).collect();
                loc.sort();
                for node in 0..2u64 {
                    let mut rem: Vec<u64> = ms
                        .iter()
                        .filter_map(|m| match m.get_id() {
                            ActorId::Remote { node_id, pid } if node_id == node => Some(pid),
                            _ => None,
                        })
                        .collect();
                    rem.sort();
                    mirrored &= rem == loc;
                }
            }
            let want_mirror = !self.tcp_gave_up && self.sess.is_some();
            if arrived && answered && (mirrored || !want_mirror) {
                return;
            }
            let fp = format!(
                "{}|{}|{:?}|{}",
                self.log.lock().unwrap().len(),
                self.calls.iter().filter(|c| c.slot.lock().unwrap().out != 0).count(),
                (0..2u64).map(|v| self.session_cells(v).len()).collect::<Vec<_>>(),
                self.groups.iter().map(|g| self.members(*g).len()).sum::<usize>()
            );
            if fp != last_fp {
                last_fp = fp;
                frozen_since = std::time::Instant::now();
            } else if frozen_since.elapsed() >= Duration::from_secs(10) {
                if debug() {
                    eprintln!("  tcp settle: frozen (arrived={arrived} answered={answered} mirrored={mirrored})");
                }
                self.tcp_gave_up = true;
                return;
            }
            if std::time::Instant::now() >= deadline {
                infra(format!(
                    "tcp mode: still changing after 120 s (arrived={arrived} answered={answered} mirrored={mirrored})"
                ));
            }
            tokio::time::sleep(Duration::from_millis(5)).await;
        }
    }

    async fn do_call(&mut self, caller: u64, via: u64, i: u64, mode: u64, delay: u64, timeout_ms: u64, len: usize) {
        let blob = self.rng.bytes(len);
        let hash = fnv1a(&blob);
        let seq = self.next_seq(caller);
        let rid = self.calls.len() as u64;
        let slot = Arc::new(Mutex::new(Outcome::default()));
        let mut handle = None;
        let px = self.proxy(via, i);
        let ok = px.is_some();
        match px {
            None => slot.lock().unwrap().out = 4,
            Some(cell) => {
                let r: ActorRef<ProbeMsg> = cell.into();
                let timeout = if timeout_ms > 0 { Some(Duration::from_millis(timeout_ms)) } else { None };
                let mut fut = Box::pin(async move {
                    r.call(move |p| ProbeMsg::Call(caller, seq, via, rid, delay, mode, blob, p), timeout).await
                });
                // `ActorRef::call` sends on its first poll: poll once here so that the wire order of
                // the driver's sends is the order of the ops, then let a task await the reply.
                match futures::poll!(fut.as_mut()) {
                    Poll::Ready(res) => record(&slot, res),
                    Poll::Pending => {
                        let s2 = slot.clone();
                        handle = Some(tokio::spawn(async move {
                            let res = fut.await;
                            record(&s2, res);
                        }));
                    }
                }
            }
        }
        self.sent.push(format!("(mkS {via} {i} {caller} {seq} 2 {len} {hash} {})", coq_bool(ok)));
        if ok {
            self.ok_sends += 1;
        }
        self.calls.push(CallRec { rid, via, i, caller, slot, handle, answers: ok && mode <= 1 });
    }

    fn members(&self, g: u64) -> Vec<ActorCell> {
        ractor::pg::get_scoped_members(&self.sname(g), &self.gname(g))
    }

    fn obs(&mut self) {
        let up = match &self.sess {
            None => false,
            Some(s) => alive(&s[0].actor.get_cell()) && alive(&s[1].actor.get_cell()),
        };
        // actors
        let mut actors = Vec::new();
        for (i, p) in &self.probes {
            let gs: Vec<u64> =
                self.groups.iter().copied().filter(|g| self.members(*g).iter().any(|m| m.get_id() == p.cell.get_id())).collect();
            actors.push(format!("({}, {}, {}, {})", i, p.pid, coq_bool(alive(&p.cell)), coq_nums(gs)));
        }
        // proxies
        let mut prox: Vec<(u64, u64, bool)> = Vec::new();
        for via in 0..2u64 {
            for c in self.session_cells(via) {
                let pid = c.get_id().pid();
                prox.push((via, pid, alive(&c)));
                if let Some((i, _)) = self.probes.iter().find(|(_, p)| p.pid == pid) {
                    self.handles.entry((via, *i)).or_insert(c);
                }
            }
        }
        prox.sort();
        let prox: Vec<String> = prox.into_iter().map(|(v, p, a)| format!("({}, {}, {})", v, p, coq_bool(a))).collect();
        // groups
        let mut groups = Vec::new();
        for g in &self.groups {
            let mut ms: Vec<(u64, u64)> = self
                .members(*g)
                .iter()
                .map(|m| match m.get_id() {
                    ActorId::Local(p) => (0, p),
                    ActorId::Remote { node_id, pid } => (1 + node_id, pid),
                })
                .collect();
            ms.sort();
            let ms: Vec<String> = ms.into_iter().map(|(k, p)| format!("({k}, {p})")).collect();
            groups.push(format!("({}, {})", g, coq_list(&ms)));
        }
        self.snaps.push(format!("(mkSnap {} {} {} {})", coq_bool(up), coq_list(&actors), coq_list(&prox), coq_list(&groups)));
        if debug() {
            if let Some(l) = &self.link {
                let l = l.lock().unwrap();
                eprintln!(
                    "  obs: link dead={} bytes {}/{} frames {}/{} cut {:?}/{:?}",
                    l.dead, l.dirs[0].bytes, l.dirs[1].bytes, l.dirs[0].frames, l.dirs[1].frames, l.dirs[0].cut, l.dirs[1].cut
                );
            }
        }
    }

    fn do_stale(&mut self) {
        let hs: Vec<((u64, u64), ActorCell)> = self.handles.iter().map(|(k, v)| (*k, v.clone())).collect();
        for ((via, i), cell) in hs {
            let r: ActorRef<ProbeMsg> = cell.clone().into();
            let ok = r.cast(ProbeMsg::CastA(999, 0, via, vec![])).is_ok();
            let ng = self.groups.iter().filter(|g| self.members(**g).iter().any(|m| m.get_id() == cell.get_id())).count();
            self.stale.push(format!("({}, {}, {}, {}, {})", via, i, coq_bool(ok), coq_bool(alive(&cell)), ng));
        }
    }

    async fn op(&mut self, w: &[&str]) {
        let need = |n: usize| {
            if w.len() != n {
                infra(format!("op {:?}: expected {} words", w, n));
            }
        };
        match w[0] {
            "spawn" => {
                need(2);
                let i = u(w[1]);
                if self.probes.contains_key(&i) {
                    infra(format!("probe {i} spawned twice"));
                }
                let slot = Arc::new(Mutex::new(None));
                let (r, h) = match Actor::spawn(None, Probe { idx: i, log: self.log.clone(), slot, gate: None }, ()).await {
                    Ok(x) => x,
                    Err(e) => stuck(format!("probe spawn failed: {e}")),
                };
                self.probes.insert(i, ProbeInfo { pid: r.get_id().pid(), cell: r.get_cell(), handle: h, gate: None });
            }
            "spawnslow" => {
                // the actor exists (and is advertised) but stays in pre_start until `release <i>`
                need(2);
                let i = u(w[1]);
                if self.probes.contains_key(&i) {
                    infra(format!("probe {i} spawned twice"));
                }
                let slot: Arc<Mutex<Option<ActorCell>>> = Arc::new(Mutex::new(None));
                let gate = Arc::new(tokio::sync::Semaphore::new(0));
                let probe = Probe { idx: i, log: self.log.clone(), slot: slot.clone(), gate: Some(gate.clone()) };
                let handle = tokio::spawn(async move {
                    if let Ok((_r, h)) = Actor::spawn(None, probe, ()).await {
                        let _ = h.await;
                    }
                });
                let s2 = slot.clone();
                wait_until("the slow probe to enter pre_start", move || s2.lock().unwrap().is_some()).await;
                let cell = slot.lock().unwrap().clone().unwrap();
                self.probes.insert(i, ProbeInfo { pid: cell.get_id().pid(), cell, handle, gate: Some(gate) });
            }
            "release" => {
                need(2);
                if let Some(g) = &self.probe(u(w[1])).gate {
                    g.add_permits(1);
                }
            }
            "connect" => {
                need(1);
                self.connect().await
            }
            "join" | "leave" => {
                need(3);
                let (i, g) = (u(w[1]), u(w[2]));
                self.groups.insert(g);
                let cell = self.probe(i).cell.clone();
                if w[0] == "join" {
                    ractor::pg::join_scoped(self.sname(g), self.gname(g), vec![cell]);
                } else {
                    ractor::pg::leave_scoped(self.sname(g), self.gname(g), vec![cell]);
                }
            }
            "exit" => {
                need(2);
                self.probe(u(w[1])).cell.stop(None)
            }
            "kill" => {
                need(2);
                self.probe(u(w[1])).cell.kill()
            }
            "cast" => {
                need(6);
                self.do_cast(u(w[1]), u(w[2]), u(w[3]), u(w[4]), u(w[5]) as usize)
            }
            "call" => {
                need(8);
                self.do_call(u(w[1]), u(w[2]), u(w[3]), u(w[4]), u(w[5]), u(w[6]), u(w[7]) as usize).await
            }
            "abandon" => {
                need(2);
                let rid = u(w[1]) as usize;
                let c = self.calls.get_mut(rid).unwrap_or_else(|| infra(format!("abandon: no call {rid}")));
                let mut s = c.slot.lock().unwrap();
                if s.out == 0 {
                    s.out = 5;
                }
                drop(s);
                if let Some(h) = c.handle.take() {
                    h.abort();
                }
            }
            "settle" => {
                need(1);
                if self.tcp {
                    self.settle_logical().await
                } else {
                    tokio::time::sleep(Duration::from_millis(20)).await
                }
            }
            "advance" => {
                need(2);
                let ms = if self.tcp { u(w[1]).min(30) } else { u(w[1]) };
                tokio::time::sleep(Duration::from_millis(ms)).await
            }
            "cut" if self.tcp => infra("cut is not available in tcp mode"),
            "cut" => {
                let link = self.link.clone().unwrap_or_else(|| infra("cut before connect"));
                let mut l = link.lock().unwrap();
                if w.len() == 2 && w[1] == "now" {
                    l.cut();
                } else {
                    need(4);
                    let d = u(w[1]) as usize;
                    if d > 1 {
                        infra("cut: bad direction");
                    }
                    l.dirs[d].cut = Some(match w[2] {
                        "bytes" => Cut::Bytes(u(w[3])),
                        "frames" => Cut::Frames(u(w[3])),
                        o => infra(format!("cut: unknown unit {o}")),
                    });
                }
            }
            "obs" => {
                need(1);
                self.obs()
            }
            "stale" => {
                need(1);
                self.do_stale()
            }
            other => infra(format!("unknown op {other:?}")),
        }
    }
}

async fn join_bounded(what: &str, h: JoinHandle<()>) {
    match tokio::time::timeout(Duration::from_secs(10), h).await {
        Ok(_) => {}
        Err(_) => stuck(format!("{what} did not stop within 10 virtual s")),
    }
}

async fn run_case(case: u64, line: String) -> String {
    let (head, ops) = line.split_once('|').unwrap_or_else(|| infra(format!("no '|' in {line:?}")));
    let hw: Vec<&str> = head.split_whitespace().collect();
    if hw.first() != Some(&"net") {
        infra(format!("unknown case kind in {line:?}"));
    }
    let (mut seed, mut chunk, mut jitter) = (0u64, 0usize, 0u8);
    let mut tcp = false;
    for kv in &hw[1..] {
        let (k, v) = kv.split_once('=').unwrap_or_else(|| infra(format!("bad header item {kv:?}")));
        match k {
            "seed" => seed = u(v),
            "chunk" => chunk = u(v) as usize,
            "jitter" => jitter = u(v) as u8,
            "tcp" => tcp = u(v) == 1,
            _ => infra(format!("unknown header key {k:?}")),
        }
    }

    // --- the two nodes
    let events: Events = Arc::new(Mutex::new(Vec::new()));
    let mut nodes = Vec::new();
    let mut node_handles = Vec::new();
    // tcp mode: a free loopback port for node B's listener
    let port_b: u16 = if tcp {
        match std::net::TcpListener::bind("127.0.0.1:0").and_then(|l| l.local_addr()) {
            Ok(a) => a.port(),
            Err(e) => infra(format!("no free loopback port: {e}")),
        }
    } else {
        0
    };
    for (n, name) in ["a", "b"].iter().enumerate() {
        let mut server =
            NodeServer::new(if n == 1 { port_b } else { 0 }, "cookie".into(), name.to_string(), "host".into(), None, None);
        if tcp {
            server = server.with_listen_addr(std::net::IpAddr::V4(std::net::Ipv4Addr::LOCALHOST));
        }
        let (r, h) = match Actor::spawn(None, server, ()).await {
            Ok(x) => x,
            Err(e) => stuck(format!("node server {name} failed to start: {e}")),
        };
        if r
            .cast(NodeServerMessage::SubscribeToEvents { id: "h".into(), subscription: Box::new(Sub { node: n, events: events.clone() }) })
            .is_err()
        {
            stuck("subscribe failed");
        }
        let _ = sessions_of(&r).await; // mailbox barrier (subscription + PortChanged installed)
        nodes.push(r);
        node_handles.push(h);
    }
    let b = nodes.pop().unwrap();
    let a = nodes.pop().unwrap();

    let mut w = World {
        case,
        seed,
        chunk,
        jitter,
        rng: XorShift::new(seed),
        nodes: [a, b],
        events,
        sess: None,
        link: None,
        probes: BTreeMap::new(),
        handles: BTreeMap::new(),
        seqs: HashMap::new(),
        connect_done: false,
        tcp,
        tcp_gave_up: false,
        port_b,
        ok_sends: 0,
        groups: BTreeSet::new(),
        log: Arc::new(Mutex::new(Vec::new())),
        sent: Vec::new(),
        calls: Vec::new(),
        snaps: Vec::new(),
        stale: Vec::new(),
    };

    for op in ops.split(';') {
        let words: Vec<&str> = op.split_whitespace().collect();
        if words.is_empty() {
            continue;
        }
        w.op(&words).await;
    }

    // --- assemble the observation before tearing anything down
    let recv: Vec<String> = w
        .log
        .lock()
        .unwrap()
        .iter()
        .map(|r| format!("(mkR {} {} {} {} {} {} {})", r.i, r.variant, r.sender, r.seq, r.via, r.len, r.hash))
        .collect();
    let calls: Vec<String> = w
        .calls
        .iter()
        .map(|c| {
            let o = *c.slot.lock().unwrap();
            let (a, b) = if o.out == 1 || o.out == 6 { (o.a, o.b) } else { (0, 0) };
            format!("(mkC {} {} {} {} {} {} {})", c.rid, c.via, c.i, c.caller, o.out, a, b)
        })
        .collect();
    let out = format!(
        "mkObs {} {} {} {} {}",
        coq_list(&w.sent),
        coq_list(&recv),
        coq_list(&calls),
        coq_list(&w.snaps),
        coq_list(&w.stale)
    );
    if debug() {
        if let Some(l) = &w.link {
            let l = l.lock().unwrap();
            eprintln!(
                "  end: link dead={} bytes {}/{} frames {}/{} virtual now {:?}",
                l.dead, l.dirs[0].bytes, l.dirs[1].bytes, l.dirs[0].frames, l.dirs[1].frames, tokio::time::Instant::now()
            );
        }
    }

    // --- teardown: next case must start from clean process-global registries
    for c in w.calls.iter_mut() {
        if let Some(h) = c.handle.take() {
            h.abort();
        }
    }
    w.handles.clear();
    w.sess = None;
    for n in &w.nodes {
        n.stop(None);
    }
    for (k, h) in node_handles.into_iter().enumerate() {
        join_bounded(&format!("node server {k}"), h).await;
    }
    let probes = std::mem::take(&mut w.probes);
    for p in probes.values() {
        if let Some(g) = &p.gate {
            g.add_permits(1);
        }
        p.cell.stop(None);
    }
    for (i, p) in probes {
        join_bounded(&format!("probe {i}"), p.handle).await;
    }
    tokio::time::sleep(Duration::from_millis(1)).await;
    let left: Vec<String> = ractor::registry::pid_registry::get_all_pids()
        .into_iter()
        .filter(|c| c.supports_remoting())
        .map(|c| c.get_id().to_string())
        .collect();
    if !left.is_empty() {
        stuck(format!("remotable actors survive the end of case {case}: {left:?}"));
    }
    // Members that are still enrolled now are stopped actors that never left their groups (that is
    // judged on the snapshots); remove them so that the next case starts from a clean pg.
    for key in ractor::pg::which_scopes_and_groups() {
        let ms = ractor::pg::get_scoped_members(&key.get_scope(), &key.get_group());
        ractor::pg::leave_scoped(key.get_scope(), key.get_group(), ms);
    }
    out
}

fn main() {
    let default_hook = std::panic::take_hook();
    std::panic::set_hook(Box::new(move |info| {
        PANICKED.store(true, Ordering::SeqCst);
        default_hook(info);
    }));
    let lines = stdin_lines();
    let remaining = lines.len();
    for (case, line) in lines.into_iter().enumerate() {
        if debug() {
            eprintln!("case {case}: {line}");
        }
        let t0 = std::time::Instant::now();
        let rt = tokio::runtime::Builder::new_current_thread()
            .enable_all()
            .start_paused(!line.contains(" tcp=1"))
            .build()
            .unwrap_or_else(|e| infra(format!("runtime: {e}")));
        let res = std::panic::catch_unwind(std::panic::AssertUnwindSafe(|| rt.block_on(run_case(case as u64, line.clone()))));
        let out = match res {
            Ok(o) if !PANICKED.load(Ordering::SeqCst) => o,
            Ok(_) => "stuck \"a panic occurred in some task during the case\"".to_string(),
            Err(p) => match p.downcast_ref::<Stuck>() {
                Some(s) => format!("stuck \"{}\"", s.0.replace('"', "'")),
                None => "stuck \"the driver panicked\"".to_string(),
            },
        };
        // after a case that got stuck the process-global registries are not trustworthy: the rest
        // of the batch is not evaluated
        let bad = out.starts_with("stuck");
        if !bad {
            drop(rt);
        } else {
            std::mem::forget(rt);
        }
        println!("{out}");
        if bad {
            if let Some(n) = remaining.checked_sub(case + 1) {
                for _ in 0..n {
                    println!("skipped");
                }
            }
            std::process::exit(0);
        }
        if debug() {
            eprintln!("  wall {:?}", t0.elapsed()); // diagnostics only, never used for decisions
        }
    }
}
