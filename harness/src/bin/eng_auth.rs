//! E3 for C17 (FSM part): drives the real `ServerAuthenticationProcess` /
//! `ClientAuthenticationProcess` (through the cfg-gated `ractor_cluster::node::verif_auth`
//! wrappers) with scripted peers.
//!
//! stdin, one case per line:
//!   sfsm <start:init|wcs> <cookie idx> <op> ; <op> ; ...
//!   cfsm <cookie idx> <op> ; <op> ; ...
//! ops (messages an adversarial peer sends, or session operations):
//!   empty | name <n> <cs> <cid> | sstatus <st> | cstatus <0|1> | schal <n> <cs> <ch>
//!   | cchal <ch> <dspec> | sack <dspec> | start | force
//! dspec (how the peer computes the digest it presents):
//!   k:<cookie idx>:<ch|I>[:g<j>]   digest of challenge ch (I = the challenge this FSM issued)
//!                                   under cookie idx, optionally mangled (j = 1..5)
//!   raw:<j>                         j=0 empty, j=1 32 zero bytes, j=2 32 0xff bytes
//! stdout: one Coq term per case: (resolved ops, states after each op), digests as
//! symbolic codes (see lib/c17.py).
use std::collections::HashMap;

use ractor_cluster::node::verif_auth::{
    challenge_digest, proto_auth as pa, ClientFsm, ClientView, ServerFsm, ServerView,
};
use rv_harness::*;

const K: u64 = 1 << 32;
const G: u64 = 1 << 44;
const RAW: u64 = 1 << 50;
const UNKNOWN: u64 = 1 << 60;

fn u(s: &str) -> u64 {
    s.parse().unwrap_or_else(|_| panic!("bad number {s:?}"))
}
fn cookie_str(k: u64) -> String {
    c17_cookie(k)
}
fn sname(n: u64) -> String {
    format!("s{n}")
}
fn unname(s: &str) -> u64 {
    s.strip_prefix('s').and_then(|x| x.parse().ok()).unwrap_or(u64::MAX)
}

/// digests known so far (bytes -> symbolic code)
struct Digests {
    known: HashMap<Vec<u8>, u64>,
    /// cookie index of the FSM under test: the only cookie the FSM itself ever hashes with
    own: u64,
    /// the digest this FSM last put on the wire (what a cookie-less peer could replay)
    last_sent: Option<(Vec<u8>, u64)>,
}

impl Digests {
    fn new(own: u64) -> Self {
        Self { known: HashMap::new(), own, last_sent: None }
    }
    fn learn_challenge(&mut self, ch: u32) {
        let d = challenge_digest(&cookie_str(self.own), ch);
        self.known.insert(d, 1 + ch as u64 + self.own * K);
    }
    fn sym(&self, d: &[u8]) -> u64 {
        self.known.get(d).copied().unwrap_or(UNKNOWN)
    }
    /// resolve a digest spec against the challenge currently issued by the FSM
    fn resolve(&mut self, spec: &str, issued: u32) -> (Vec<u8>, u64) {
        let p: Vec<&str> = spec.split(':').collect();
        match p[0] {
            // echo: replay the digest the FSM itself sent last (zeros if it sent none)
            "E" => match &self.last_sent {
                Some((b, c)) => (b.clone(), *c),
                None => (vec![0u8; 32], RAW + 1),
            },
            "raw" => {
                let j = u(p[1]);
                let bytes = match j {
                    0 => vec![],
                    1 => vec![0u8; 32],
                    _ => vec![0xffu8; 32],
                };
                (bytes, RAW + j)
            }
            "k" => {
                let k = u(p[1]);
                let ch = if p[2] == "I" { issued } else { u(p[2]) as u32 };
                self.learn_challenge(ch);
                let mut bytes = challenge_digest(&cookie_str(k), ch);
                let mut code = 1 + ch as u64 + k * K;
                if p.len() > 3 {
                    let j = u(p[3].trim_start_matches('g'));
                    match j {
                        1 => {
                            let l = bytes.len() - 1;
                            bytes[l] ^= 1;
                        }
                        2 => {
                            bytes.pop();
                        }
                        3 => bytes.push(0),
                        4 => bytes[0] ^= 0x80,
                        _ => bytes[16] ^= 0x10,
                    }
                    code += G * j;
                }
                (bytes, code)
            }
            other => panic!("bad digest spec {other}"),
        }
    }
}

fn auth_msg(m: pa::authentication_message::Msg) -> pa::AuthenticationMessage {
    pa::AuthenticationMessage { msg: Some(m) }
}

/// Parse one scripted auth message; returns (wire message, Coq term of the resolved message)
fn build_msg(w: &[&str], dg: &mut Digests, issued: u32) -> (pa::AuthenticationMessage, String) {
    use pa::authentication_message::Msg;
    match w[0] {
        "empty" => (pa::AuthenticationMessage { msg: None }, "AEmpty".into()),
        "name" => (
            auth_msg(Msg::Name(pa::NameMessage {
                name: sname(u(w[1])),
                flags: Some(pa::NodeFlags { version: 1 }),
                connection_string: sname(u(w[2])),
                connection_id: u(w[3]),
            })),
            format!("AName {} {} {}", u(w[1]), u(w[2]), u(w[3])),
        ),
        "sstatus" => (
            auth_msg(Msg::ServerStatus(pa::ServerStatus { status: u(w[1]) as u32 as i32 })),
            format!("AServerStatus {}", u(w[1])),
        ),
        "cstatus" => (
            auth_msg(Msg::ClientStatus(pa::ClientStatus { status: w[1] == "1" })),
            format!("AClientStatus {}", coq_bool(w[1] == "1")),
        ),
        "schal" => {
            let ch = u(w[3]) as u32;
            dg.learn_challenge(ch);
            (
                auth_msg(Msg::ServerChallenge(pa::Challenge {
                    name: sname(u(w[1])),
                    flags: Some(pa::NodeFlags { version: 1 }),
                    challenge: ch,
                    connection_string: sname(u(w[2])),
                })),
                format!("AServerChallenge {} {} {}", u(w[1]), u(w[2]), ch),
            )
        }
        "cchal" => {
            let ch = u(w[1]) as u32;
            dg.learn_challenge(ch);
            let (bytes, code) = dg.resolve(w[2], issued);
            (
                auth_msg(Msg::ClientChallenge(pa::ChallengeReply { challenge: ch, digest: bytes })),
                format!("AClientChallenge {ch} {code}"),
            )
        }
        "sack" => {
            let (bytes, code) = dg.resolve(w[1], issued);
            (
                auth_msg(Msg::ServerAck(pa::ChallengeAck { digest: bytes })),
                format!("AServerAck {code}"),
            )
        }
        other => panic!("unknown message {other}"),
    }
}

fn sview_term(v: &ServerView, dg: &Digests) -> String {
    match v {
        ServerView::WaitingOnPeerName => "SWaitName".into(),
        ServerView::HavePeerName(n, cs, id) => format!("SHaveName {} {} {}", unname(n), unname(cs), id),
        ServerView::WaitingOnClientStatus => "SWaitClientStatus".into(),
        ServerView::WaitingOnClientChallengeReply(c, d) => format!("SWaitReply {} {}", c, dg.sym(d)),
        ServerView::Ok(d) => format!("SOk {}", dg.sym(d)),
        ServerView::Close => "SClose".into(),
    }
}

fn cview_term(v: &ClientView, dg: &Digests) -> String {
    match v {
        ClientView::WaitingForServerStatus => "CWaitStatus".into(),
        ClientView::WaitingForServerChallenge(s) => format!("CWaitChallenge {}", *s as u32),
        ClientView::WaitingForServerChallengeAck(n, cs, sch, r, my, e) => format!(
            "CWaitAck {} {} {} {} {} {}",
            unname(n),
            unname(cs),
            sch,
            dg.sym(r),
            my,
            dg.sym(e)
        ),
        ClientView::Ok => "COk".into(),
        ClientView::Close => "CClose".into(),
    }
}

fn run_sfsm(rest: &str) -> String {
    let mut it = rest.splitn(3, ' ');
    let start = it.next().unwrap();
    let own = u(it.next().unwrap());
    let ck = cookie_str(own);
    let ops = it.next().unwrap_or("");
    let mut fsm = ServerFsm::init();
    if start == "wcs" {
        fsm.set_waiting_on_client_status();
    }
    let mut dg = Digests::new(own);
    let mut ops_out = vec![];
    let mut states = vec![];
    for op in ops.split(';') {
        let w: Vec<&str> = op.split_whitespace().collect();
        if w.is_empty() {
            continue;
        }
        let before = fsm.view();
        let issued = match &before {
            ServerView::WaitingOnClientChallengeReply(c, _) => *c,
            _ => 0,
        };
        let mut msg_term = None;
        match w[0] {
            "start" => fsm.start_challenge(&ck),
            "force" => {
                if matches!(before, ServerView::HavePeerName(..)) {
                    fsm.set_waiting_on_client_status();
                }
            }
            _ => {
                let (m, t) = build_msg(&w, &mut dg, issued);
                fsm.next(m, &ck);
                msg_term = Some(t);
            }
        }
        let after = fsm.view();
        let mut rnd = 0u32;
        if let ServerView::WaitingOnClientChallengeReply(c, _) = &after {
            if !matches!(before, ServerView::WaitingOnClientChallengeReply(..)) {
                rnd = *c;
            }
            dg.learn_challenge(*c);
        }
        ops_out.push(match (w[0], msg_term) {
            ("start", _) => format!("SStart {rnd}"),
            ("force", _) => "SForceWaitStatus".to_string(),
            (_, Some(t)) => format!("SMsg ({t}) {rnd}"),
            _ => unreachable!(),
        });
        states.push(sview_term(&after, &dg));
    }
    format!("({}, {})", coq_list(&ops_out), coq_list(&states))
}

fn run_cfsm(rest: &str) -> String {
    let mut it = rest.splitn(2, ' ');
    let own = u(it.next().unwrap());
    let ck = cookie_str(own);
    let ops = it.next().unwrap_or("");
    let mut fsm = ClientFsm::init();
    let mut dg = Digests::new(own);
    let mut ops_out = vec![];
    let mut states = vec![];
    for op in ops.split(';') {
        let w: Vec<&str> = op.split_whitespace().collect();
        if w.is_empty() {
            continue;
        }
        let before = fsm.view();
        let issued = match &before {
            ClientView::WaitingForServerChallengeAck(_, _, _, _, my, _) => *my,
            _ => 0,
        };
        let (m, t) = build_msg(&w, &mut dg, issued);
        fsm.next(m, &ck);
        let after = fsm.view();
        let mut rnd = 0u32;
        if let ClientView::WaitingForServerChallengeAck(_, _, _, r, my, _) = &after {
            if !matches!(before, ClientView::WaitingForServerChallengeAck(..)) {
                rnd = *my;
            }
            dg.learn_challenge(*my);
            // the session sends ClientChallenge{challenge: my, digest: r}
            dg.last_sent = Some((r.clone(), dg.sym(r)));
        }
        ops_out.push(format!("(({t}), {rnd})"));
        states.push(cview_term(&after, &dg));
    }
    format!("({}, {})", coq_list(&ops_out), coq_list(&states))
}

fn main() {
    for line in stdin_lines() {
        let (kind, rest) = line.split_once(' ').unwrap_or((&line, ""));
        match kind {
            "sfsm" => println!("{}", run_sfsm(rest)),
            "cfsm" => println!("{}", run_cfsm(rest)),
            // hash <k1> <ch1> <k2> <ch2>: are the two real digests equal?
            "hash" => {
                let w: Vec<&str> = rest.split_whitespace().collect();
                let a = challenge_digest(&cookie_str(u(w[0])), u(w[1]) as u32);
                let b = challenge_digest(&cookie_str(u(w[2])), u(w[3]) as u32);
                println!("({}, {})", coq_bool(a == b), a.len());
            }
            other => panic!("unknown case kind {other}"),
        }
    }
}
