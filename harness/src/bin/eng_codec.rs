//! E3 for C19: drives the REAL codecs of /repo on inputs chosen by lib/c19.py and prints
//! the results as Coq terms (the syntax of coq/Cluster/Codec.v and Frame.v).
//!
//! stdin, one case per line (hex strings; `-` = empty):
//!   bc dec <ty> <hex>                      BytesConvertable::from_bytes under catch_unwind
//!   bc rt <ty> <value>                     into_bytes, then from_bytes
//!   enum de <cast|call|reply> <tag> <args> <meta|none>     derived Message::deserialize
//!   enum rt <idx> <v>|<v>|...              build a value, serialize, deserialize
//!   job de <keyty> <cast|call|reply> <tag> <args> <meta|none>   Job<K,HMsg>::deserialize
//!   job rt <keyty> <key> <submit> <ttl|none> <idx> <v>|...
//!   jo rt <submit|now> <ttl|none|secs:S>   JobOptions into_bytes / from_bytes
//!   jo de <hex>                            JobOptions::from_bytes on arbitrary bytes
//!   actor <enum|job> <msg>;<msg>;...       live actor fed through send_serialized; msg = kind:tag:args:meta
//!   valid <hex>                            prost decode of a payload (canonical re-encoding)
//!   stream <max> <hex> <sizes> <mode>      read_network_message loop over a fragmenting reader
//!   sreader <max> <hex> <sizes> <mode>     the real SessionReader actor over the same reader
//!   live <max> <close|hold|dropfirst> <hex> [mem|tcp] [server|client] [sizes]
//!                                          a live NodeServer with an authenticated link to a second node
//!                                          and two raw inbound sessions; <hex> is written into one of them
//! stdout: one Coq-syntax term per case.
use std::alloc::{GlobalAlloc, Layout, System};
use std::panic::{catch_unwind, AssertUnwindSafe};
use std::pin::Pin;
use std::sync::atomic::{AtomicUsize, Ordering};
use std::sync::{Arc, Mutex};
use std::task::{Context, Poll};
use std::time::{Duration, UNIX_EPOCH};

use ractor::factory::{Job, JobOptions};
use ractor::message::SerializedMessage;
use ractor::{Actor, ActorProcessingErr, ActorRef, ActorStatus, BytesConvertable, Message, RpcReplyPort};
use ractor_cluster::session_verif::{self, ReaderEvent, VerifFrameReader};
use ractor_cluster::RactorClusterMessage;
use rv_harness::*;
use tokio::io::{AsyncRead, ReadBuf};

// ---------------------------------------------------------------------------------------
// allocation meter: the largest single allocation request since the last reset

struct Meter;
static MAX_ALLOC: AtomicUsize = AtomicUsize::new(0);
unsafe impl GlobalAlloc for Meter {
    unsafe fn alloc(&self, l: Layout) -> *mut u8 {
        MAX_ALLOC.fetch_max(l.size(), Ordering::Relaxed);
        System.alloc(l)
    }
    unsafe fn dealloc(&self, p: *mut u8, l: Layout) {
        System.dealloc(p, l)
    }
    unsafe fn realloc(&self, p: *mut u8, l: Layout, n: usize) -> *mut u8 {
        MAX_ALLOC.fetch_max(n, Ordering::Relaxed);
        System.realloc(p, l, n)
    }
    unsafe fn alloc_zeroed(&self, l: Layout) -> *mut u8 {
        MAX_ALLOC.fetch_max(l.size(), Ordering::Relaxed);
        System.alloc_zeroed(l)
    }
}
#[global_allocator]
static GLOBAL: Meter = Meter;

// ---------------------------------------------------------------------------------------
// dynamic values (mirror of Codec.v's `val`)

#[derive(Clone, Debug, PartialEq)]
enum V {
    N(u128),
    Z(i128),
    B(bool),
    S(Vec<u8>),
    U,
    VN(Vec<u128>),
    VZ(Vec<i128>),
    VB(Vec<bool>),
}

fn z(n: i128) -> String {
    if n < 0 {
        format!("({})%Z", n)
    } else {
        format!("{}%Z", n)
    }
}

fn show(v: &V) -> String {
    match v {
        V::N(n) => format!("VE (VN {n})"),
        V::Z(n) => format!("VE (VZ {})", z(*n)),
        V::B(b) => format!("VE (VB {})", coq_bool(*b)),
        V::S(s) => format!("VStr {}", bytes(s)),
        V::U => "VUnit".to_string(),
        V::VN(l) => format!("VVec {}", coq_list(&l.iter().map(|n| format!("VN {n}")).collect::<Vec<_>>())),
        V::VZ(l) => format!("VVec {}", coq_list(&l.iter().map(|n| format!("VZ {}", z(*n))).collect::<Vec<_>>())),
        V::VB(l) => format!("VVec {}", coq_list(&l.iter().map(|b| format!("VB {}", coq_bool(*b))).collect::<Vec<_>>())),
    }
}

fn bytes(b: &[u8]) -> String {
    coq_nums(b.iter().map(|x| *x as u64))
}

fn unhex(s: &str) -> Vec<u8> {
    if s == "-" {
        return vec![];
    }
    assert!(s.len() % 2 == 0, "odd hex {s:?}");
    (0..s.len() / 2).map(|i| u8::from_str_radix(&s[2 * i..2 * i + 2], 16).expect("hex")).collect()
}

/// a type the harness can move between the dynamic view and the real Rust type
trait Conv: BytesConvertable + Sized {
    fn to_v(&self) -> V;
    fn from_v(v: &V) -> Self;
    fn parse(s: &str) -> V;
}

macro_rules! conv_unsigned {
    ($($t:ty),*) => {$(
        impl Conv for $t {
            fn to_v(&self) -> V { V::N(*self as u128) }
            fn from_v(v: &V) -> Self { match v { V::N(n) => *n as $t, _ => panic!("type") } }
            fn parse(s: &str) -> V { V::N(s.parse::<u128>().expect("num")) }
        }
        impl Conv for Vec<$t> {
            fn to_v(&self) -> V { V::VN(self.iter().map(|x| *x as u128).collect()) }
            fn from_v(v: &V) -> Self { match v { V::VN(l) => l.iter().map(|n| *n as $t).collect(), _ => panic!("type") } }
            fn parse(s: &str) -> V { V::VN(list(s).iter().map(|x| x.parse::<u128>().expect("num")).collect()) }
        }
    )*};
}
macro_rules! conv_signed {
    ($($t:ty),*) => {$(
        impl Conv for $t {
            fn to_v(&self) -> V { V::Z(*self as i128) }
            fn from_v(v: &V) -> Self { match v { V::Z(n) => *n as $t, _ => panic!("type") } }
            fn parse(s: &str) -> V { V::Z(s.parse::<i128>().expect("num")) }
        }
        impl Conv for Vec<$t> {
            fn to_v(&self) -> V { V::VZ(self.iter().map(|x| *x as i128).collect()) }
            fn from_v(v: &V) -> Self { match v { V::VZ(l) => l.iter().map(|n| *n as $t).collect(), _ => panic!("type") } }
            fn parse(s: &str) -> V { V::VZ(list(s).iter().map(|x| x.parse::<i128>().expect("num")).collect()) }
        }
    )*};
}
conv_unsigned!(u8, u16, u32, u64, u128);
conv_signed!(i8, i16, i32, i64, i128);

fn list(s: &str) -> Vec<&str> {
    if s == "-" {
        vec![]
    } else {
        s.split(',').collect()
    }
}

// floats travel as their bit patterns
impl Conv for f32 {
    fn to_v(&self) -> V { V::N(self.to_bits() as u128) }
    fn from_v(v: &V) -> Self { match v { V::N(n) => f32::from_bits(*n as u32), _ => panic!("type") } }
    fn parse(s: &str) -> V { V::N(s.parse::<u128>().expect("num")) }
}
impl Conv for f64 {
    fn to_v(&self) -> V { V::N(self.to_bits() as u128) }
    fn from_v(v: &V) -> Self { match v { V::N(n) => f64::from_bits(*n as u64), _ => panic!("type") } }
    fn parse(s: &str) -> V { V::N(s.parse::<u128>().expect("num")) }
}
impl Conv for Vec<f32> {
    fn to_v(&self) -> V { V::VN(self.iter().map(|x| x.to_bits() as u128).collect()) }
    fn from_v(v: &V) -> Self { match v { V::VN(l) => l.iter().map(|n| f32::from_bits(*n as u32)).collect(), _ => panic!("type") } }
    fn parse(s: &str) -> V { <Vec<u32>>::parse(s) }
}
impl Conv for Vec<f64> {
    fn to_v(&self) -> V { V::VN(self.iter().map(|x| x.to_bits() as u128).collect()) }
    fn from_v(v: &V) -> Self { match v { V::VN(l) => l.iter().map(|n| f64::from_bits(*n as u64)).collect(), _ => panic!("type") } }
    fn parse(s: &str) -> V { <Vec<u64>>::parse(s) }
}
impl Conv for bool {
    fn to_v(&self) -> V { V::B(*self) }
    fn from_v(v: &V) -> Self { match v { V::B(b) => *b, _ => panic!("type") } }
    fn parse(s: &str) -> V { V::B(s == "1") }
}
impl Conv for Vec<bool> {
    fn to_v(&self) -> V { V::VB(self.clone()) }
    fn from_v(v: &V) -> Self { match v { V::VB(l) => l.clone(), _ => panic!("type") } }
    fn parse(s: &str) -> V { V::VB(list(s).iter().map(|x| *x == "1").collect()) }
}
impl Conv for char {
    fn to_v(&self) -> V { V::N(*self as u32 as u128) }
    fn from_v(v: &V) -> Self { match v { V::N(n) => char::from_u32(*n as u32).expect("scalar value"), _ => panic!("type") } }
    fn parse(s: &str) -> V { V::N(s.parse::<u128>().expect("num")) }
}
impl Conv for Vec<char> {
    fn to_v(&self) -> V { V::VN(self.iter().map(|x| *x as u32 as u128).collect()) }
    fn from_v(v: &V) -> Self { match v { V::VN(l) => l.iter().map(|n| char::from_u32(*n as u32).expect("scalar value")).collect(), _ => panic!("type") } }
    fn parse(s: &str) -> V { <Vec<u32>>::parse(s) }
}
impl Conv for String {
    fn to_v(&self) -> V { V::S(self.as_bytes().to_vec()) }
    fn from_v(v: &V) -> Self { match v { V::S(s) => String::from_utf8(s.clone()).expect("utf8 value"), _ => panic!("type") } }
    fn parse(s: &str) -> V { V::S(unhex(s)) }
}
impl Conv for () {
    fn to_v(&self) -> V { V::U }
    fn from_v(_: &V) -> Self {}
    fn parse(_: &str) -> V { V::U }
}

/// A user type whose conversion panics (with a non-string payload) on input that is not UTF-8.
#[derive(Clone, Debug, PartialEq)]
struct Boom(Vec<u8>);
impl BytesConvertable for Boom {
    fn into_bytes(self) -> Vec<u8> {
        self.0
    }
    fn from_bytes(bytes: Vec<u8>) -> Self {
        if std::str::from_utf8(&bytes).is_err() {
            std::panic::panic_any(42usize);
        }
        Boom(bytes)
    }
}
impl Conv for Boom {
    fn to_v(&self) -> V { V::S(self.0.clone()) }
    fn from_v(v: &V) -> Self { match v { V::S(s) => Boom(s.clone()), _ => panic!("type") } }
    fn parse(s: &str) -> V { V::S(unhex(s)) }
}

macro_rules! with_ty {
    ($name:expr, $T:ident => $body:expr) => {
        match $name {
            "u8" => { type $T = u8; $body }
            "u16" => { type $T = u16; $body }
            "u32" => { type $T = u32; $body }
            "u64" => { type $T = u64; $body }
            "u128" => { type $T = u128; $body }
            "i8" => { type $T = i8; $body }
            "i16" => { type $T = i16; $body }
            "i32" => { type $T = i32; $body }
            "i64" => { type $T = i64; $body }
            "i128" => { type $T = i128; $body }
            "f32" => { type $T = f32; $body }
            "f64" => { type $T = f64; $body }
            "bool" => { type $T = bool; $body }
            "char" => { type $T = char; $body }
            "str" => { type $T = String; $body }
            "unit" => { type $T = (); $body }
            "boom" => { type $T = Boom; $body }
            "vu8" => { type $T = Vec<u8>; $body }
            "vu16" => { type $T = Vec<u16>; $body }
            "vu32" => { type $T = Vec<u32>; $body }
            "vu64" => { type $T = Vec<u64>; $body }
            "vu128" => { type $T = Vec<u128>; $body }
            "vi8" => { type $T = Vec<i8>; $body }
            "vi16" => { type $T = Vec<i16>; $body }
            "vi32" => { type $T = Vec<i32>; $body }
            "vi64" => { type $T = Vec<i64>; $body }
            "vi128" => { type $T = Vec<i128>; $body }
            "vf32" => { type $T = Vec<f32>; $body }
            "vf64" => { type $T = Vec<f64>; $body }
            "vbool" => { type $T = Vec<bool>; $body }
            "vchar" => { type $T = Vec<char>; $body }
            other => panic!("unknown type {other}"),
        }
    };
}

fn quiet<R>(f: impl FnOnce() -> R) -> Result<R, ()> {
    catch_unwind(AssertUnwindSafe(f)).map_err(|_| ())
}

fn bc_dec<T: Conv>(b: Vec<u8>) -> String {
    match quiet(|| T::from_bytes(b)) {
        Ok(v) => format!("Some ({})", show(&v.to_v())),
        Err(()) => "None".to_string(),
    }
}

fn bc_rt<T: Conv>(s: &str) -> String {
    let v = T::parse(s);
    let enc = match quiet(|| T::from_v(&v).into_bytes()) {
        Ok(e) => e,
        Err(()) => return "(PANIC_ENC, None)".to_string(),
    };
    let back = bc_dec::<T>(enc.clone());
    format!("({}, {})", bytes(&enc), back)
}

// ---------------------------------------------------------------------------------------
// the derived enum under test

#[derive(RactorClusterMessage)]
#[allow(dead_code)]
enum HMsg {
    Unit,
    Tup(u32, String),
    St { a: i16, b: Vec<u64>, c: bool },
    Chr(char, Vec<char>),
    Wide(u128, i128, f64),
    Bomb(Boom),
    Bytes(Vec<u8>, ()),
    #[rpc]
    CallFirst(RpcReplyPort<u8>, u16, String),
    #[rpc]
    CallMid(i32, RpcReplyPort<String>, Vec<i8>),
    #[rpc]
    CallLast(u64, bool, RpcReplyPort<Vec<u8>>),
    #[rpc]
    CallOnly(RpcReplyPort<()>),
    #[rpc]
    CallSt { x: u8, reply: RpcReplyPort<u32>, y: f32 },
    EmptySt {},
    Many(u8, i64, String, Vec<u16>, bool, ()),
    #[rpc]
    CallMany { a: String, b: Vec<u8>, c: char, reply: RpcReplyPort<Vec<i32>> },
}

const FIELD_TYS: [&[&str]; 15] = [
    &[],
    &["u32", "str"],
    &["i16", "vu64", "bool"],
    &["char", "vchar"],
    &["u128", "i128", "f64"],
    &["boom"],
    &["vu8", "unit"],
    &["u16", "str"],
    &["i32", "vi8"],
    &["u64", "bool"],
    &[],
    &["u8", "f32"],
    &[],
    &["u8", "i64", "str", "vu16", "bool", "unit"],
    &["str", "vu8", "char"],
];

fn view(m: &HMsg) -> (usize, Vec<V>) {
    match m {
        HMsg::Unit => (0, vec![]),
        HMsg::Tup(a, b) => (1, vec![a.to_v(), b.to_v()]),
        HMsg::St { a, b, c } => (2, vec![a.to_v(), b.to_v(), c.to_v()]),
        HMsg::Chr(a, b) => (3, vec![a.to_v(), b.to_v()]),
        HMsg::Wide(a, b, c) => (4, vec![a.to_v(), b.to_v(), c.to_v()]),
        HMsg::Bomb(a) => (5, vec![a.to_v()]),
        HMsg::Bytes(a, b) => (6, vec![a.to_v(), b.to_v()]),
        HMsg::CallFirst(_, a, b) => (7, vec![a.to_v(), b.to_v()]),
        HMsg::CallMid(a, _, b) => (8, vec![a.to_v(), b.to_v()]),
        HMsg::CallLast(a, b, _) => (9, vec![a.to_v(), b.to_v()]),
        HMsg::CallOnly(_) => (10, vec![]),
        HMsg::CallSt { x, reply: _, y } => (11, vec![x.to_v(), y.to_v()]),
        HMsg::EmptySt {} => (12, vec![]),
        HMsg::Many(a, b, c, d, e, f) => (13, vec![a.to_v(), b.to_v(), c.to_v(), d.to_v(), e.to_v(), f.to_v()]),
        HMsg::CallMany { a, b, c, reply: _ } => (14, vec![a.to_v(), b.to_v(), c.to_v()]),
    }
}

fn port<T: Send + 'static>() -> RpcReplyPort<T> {
    let (tx, _rx) = ractor::concurrency::oneshot::<T>();
    tx.into()
}

fn port_t<T: Send + 'static>() -> RpcReplyPort<T> {
    let (tx, _rx) = ractor::concurrency::oneshot::<T>();
    (tx, Duration::from_secs(30)).into()
}

fn build(idx: usize, v: &[V]) -> HMsg {
    match idx {
        0 => HMsg::Unit,
        1 => HMsg::Tup(Conv::from_v(&v[0]), Conv::from_v(&v[1])),
        2 => HMsg::St { a: Conv::from_v(&v[0]), b: Conv::from_v(&v[1]), c: Conv::from_v(&v[2]) },
        3 => HMsg::Chr(Conv::from_v(&v[0]), Conv::from_v(&v[1])),
        4 => HMsg::Wide(Conv::from_v(&v[0]), Conv::from_v(&v[1]), Conv::from_v(&v[2])),
        5 => HMsg::Bomb(Conv::from_v(&v[0])),
        6 => HMsg::Bytes(Conv::from_v(&v[0]), Conv::from_v(&v[1])),
        7 => HMsg::CallFirst(port(), Conv::from_v(&v[0]), Conv::from_v(&v[1])),
        8 => HMsg::CallMid(Conv::from_v(&v[0]), port(), Conv::from_v(&v[1])),
        9 => HMsg::CallLast(Conv::from_v(&v[0]), Conv::from_v(&v[1]), port()),
        10 => HMsg::CallOnly(port()),
        11 => HMsg::CallSt { x: Conv::from_v(&v[0]), reply: port(), y: Conv::from_v(&v[1]) },
        12 => HMsg::EmptySt {},
        13 => HMsg::Many(
            Conv::from_v(&v[0]),
            Conv::from_v(&v[1]),
            Conv::from_v(&v[2]),
            Conv::from_v(&v[3]),
            Conv::from_v(&v[4]),
            Conv::from_v(&v[5]),
        ),
        14 => HMsg::CallMany { a: Conv::from_v(&v[0]), b: Conv::from_v(&v[1]), c: Conv::from_v(&v[2]), reply: port() },
        _ => panic!("variant index"),
    }
}

fn parse_fields(idx: usize, s: &str) -> Vec<V> {
    let tys = FIELD_TYS[idx];
    if tys.is_empty() {
        return vec![];
    }
    let parts: Vec<&str> = s.split('|').collect();
    assert_eq!(parts.len(), tys.len(), "field count for variant {idx}");
    tys.iter().zip(parts).map(|(t, p)| with_ty!(*t, T => <T as Conv>::parse(p))).collect()
}

fn show_view(idx: usize, vals: &[V]) -> String {
    format!("({}, {})", idx, coq_list(&vals.iter().map(show).collect::<Vec<_>>()))
}

fn smsg(kind: &str, tag: &str, args: &str, meta: &str) -> SerializedMessage {
    let variant = String::from_utf8(unhex(tag)).expect("tags are generated as utf8");
    let metadata = if meta == "none" { None } else { Some(unhex(meta)) };
    match kind {
        "cast" => SerializedMessage::Cast { variant, args: unhex(args), metadata },
        "call" => SerializedMessage::Call { variant, args: unhex(args), reply: port(), metadata },
        "callt" => SerializedMessage::Call { variant, args: unhex(args), reply: port_t(), metadata },
        "reply" => SerializedMessage::CallReply(7, unhex(args)),
        other => panic!("kind {other}"),
    }
}

fn show_smsg(m: &SerializedMessage) -> String {
    let meta = |m: &Option<Vec<u8>>| match m {
        None => "None".to_string(),
        Some(b) => format!("(Some {})", bytes(b)),
    };
    match m {
        SerializedMessage::Cast { variant, args, metadata } => {
            format!("SCast {} {} {}", bytes(variant.as_bytes()), bytes(args), meta(metadata))
        }
        SerializedMessage::Call { variant, args, metadata, .. } => {
            format!("SCall {} {} {}", bytes(variant.as_bytes()), bytes(args), meta(metadata))
        }
        SerializedMessage::CallReply(..) => "SReply".to_string(),
    }
}

fn enum_de(m: SerializedMessage) -> String {
    match quiet(|| HMsg::deserialize(m)) {
        Ok(Ok(v)) => {
            let (i, vals) = view(&v);
            format!("Some {}", show_view(i, &vals))
        }
        Ok(Err(_)) => "None".to_string(),
        Err(()) => "PANIC".to_string(),
    }
}

fn clone_smsg(m: &SerializedMessage) -> SerializedMessage {
    match m {
        SerializedMessage::Cast { variant, args, metadata } => {
            SerializedMessage::Cast { variant: variant.clone(), args: args.clone(), metadata: metadata.clone() }
        }
        SerializedMessage::Call { variant, args, metadata, .. } => {
            SerializedMessage::Call { variant: variant.clone(), args: args.clone(), reply: port(), metadata: metadata.clone() }
        }
        SerializedMessage::CallReply(a, b) => SerializedMessage::CallReply(*a, b.clone()),
    }
}

// ---------------------------------------------------------------------------------------
// the encode entry point the cluster really uses: Message::box_message for a remote pid,
// Message::from_boxed on the receiving side

fn enum_box_rt(idx: usize, vals: &[V]) -> String {
    let remote = ractor::ActorId::Remote { node_id: 7, pid: 9 };
    let boxed = match quiet(|| build(idx, vals).box_message(&remote)) {
        Ok(Ok(b)) => b,
        Ok(Err(_)) => return "(None, None)".to_string(),
        Err(()) => return "(None, PANIC)".to_string(),
    };
    let shown = match boxed.serialized_msg.as_ref() {
        Some(s) => format!("(Some ({}))", show_smsg(s)),
        None => "None".to_string(),
    };
    let back = match quiet(|| HMsg::from_boxed(boxed)) {
        Ok(Ok(v)) => {
            let (i, vals) = view(&v);
            format!("Some {}", show_view(i, &vals))
        }
        Ok(Err(_)) => "None".to_string(),
        Err(()) => "PANIC".to_string(),
    };
    // a local pid boxes without serializing and unboxes to the same value
    let local = ractor::ActorId::Local(3);
    let same = match build(idx, vals).box_message(&local) {
        Ok(b) => b.serialized_msg.is_none() && matches!(HMsg::from_boxed(b), Ok(ref v) if view(v) == (idx, vals.to_vec())),
        Err(_) => false,
    };
    if !same {
        return format!("({shown}, LOCAL_BOX_DIFFERS)");
    }
    format!("({shown}, {back})")
}

// primitive message types: the blanket Message impl of every BytesConvertable type

fn prim_de<T: Conv + Message>(m: SerializedMessage) -> String {
    match quiet(|| <T as Message>::deserialize(m)) {
        Ok(Ok(v)) => format!("POk ({})", show(&v.to_v())),
        Ok(Err(_)) => "PErr".to_string(),
        Err(()) => "PPanic".to_string(),
    }
}

fn prim_rt<T: Conv + Message>(s: &str) -> String {
    let v = T::parse(s);
    if !<T as Message>::serializable() {
        return "(NOT_SERIALIZABLE, PErr)".to_string();
    }
    let remote = ractor::ActorId::Remote { node_id: 7, pid: 9 };
    let ser = match quiet(|| T::from_v(&v).box_message(&remote)) {
        Ok(Ok(mut b)) => match b.serialized_msg.take() {
            Some(s) => s,
            None => return "(NOT_SERIALIZED, PErr)".to_string(),
        },
        Ok(Err(_)) => return "(SER_ERR, PErr)".to_string(),
        Err(()) => return "(SER_PANIC, PErr)".to_string(),
    };
    format!("({}, {})", show_smsg(&ser), prim_de::<T>(clone_smsg(&ser)))
}

macro_rules! with_prim {
    ($name:expr, $T:ident => $body:expr) => {
        match $name {
            "u8" => { type $T = u8; $body }
            "u32" => { type $T = u32; $body }
            "i64" => { type $T = i64; $body }
            "u128" => { type $T = u128; $body }
            "f64" => { type $T = f64; $body }
            "bool" => { type $T = bool; $body }
            "char" => { type $T = char; $body }
            "str" => { type $T = String; $body }
            "unit" => { type $T = (); $body }
            "vu8" => { type $T = Vec<u8>; $body }
            "vi16" => { type $T = Vec<i16>; $body }
            "vchar" => { type $T = Vec<char>; $body }
            other => panic!("unknown primitive message type {other}"),
        }
    };
}

// a message type that is not network serializable: the trait's defaults
#[derive(ractor_cluster::RactorMessage)]
#[allow(dead_code)]
enum Plain {
    A,
    B(u32),
}

fn plain_probe(m: SerializedMessage) -> String {
    let remote = ractor::ActorId::Remote { node_id: 7, pid: 9 };
    let not_ser = !Plain::serializable();
    let ser_err = matches!(quiet(|| Plain::A.serialize()), Ok(Err(_)));
    let box_err = matches!(quiet(|| Plain::B(1).box_message(&remote)), Ok(Err(_)));
    let de_err = matches!(quiet(|| Plain::deserialize(m)), Ok(Err(_)));
    format!("({}, {}, {}, {})", coq_bool(not_ser), coq_bool(ser_err), coq_bool(box_err), coq_bool(de_err))
}

// a user message type whose serialize misbehaves (returns a call reply)
struct Weird;
impl Message for Weird {
    fn serializable() -> bool {
        true
    }
    fn serialize(self) -> Result<SerializedMessage, ractor::message::BoxedDowncastErr> {
        Ok(SerializedMessage::CallReply(1, vec![1, 2, 3]))
    }
}

// ---------------------------------------------------------------------------------------
// reply bridges generated for #[rpc] variants: typed reply -> bytes -> typed reply

fn reply_ty(idx: usize) -> &'static str {
    match idx {
        7 => "u8",
        8 => "str",
        9 => "vu8",
        10 => "unit",
        11 => "u32",
        14 => "vi32",
        _ => panic!("variant {idx} is not an rpc"),
    }
}

fn mk_port<R: Send + 'static>(timeout: bool) -> (RpcReplyPort<R>, ractor::concurrency::OneshotReceiver<R>) {
    let (tx, rx) = ractor::concurrency::oneshot::<R>();
    if timeout {
        ((tx, Duration::from_secs(30)).into(), rx)
    } else {
        (tx.into(), rx)
    }
}

async fn recv_now<R>(rx: &mut ractor::concurrency::OneshotReceiver<R>) -> Result<Option<R>, ()> {
    for _ in 0..20 {
        match rx.try_recv() {
            Ok(v) => return Ok(Some(v)),
            Err(tokio::sync::oneshot::error::TryRecvError::Closed) => return Ok(None),
            Err(tokio::sync::oneshot::error::TryRecvError::Empty) => settle().await,
        }
    }
    Err(())
}

/// `mk` builds the call variant around a typed port, `take` gets the typed port back out of the
/// deserialized message. `input`: Ok(value text) = full round trip of a reply value;
/// Err(bytes) = these raw bytes arrive as the reply on the calling side.
async fn reply_flow<R: Conv + Send + 'static>(
    mk: impl FnOnce(RpcReplyPort<R>) -> HMsg,
    take: impl FnOnce(HMsg) -> Option<RpcReplyPort<R>>,
    timeout: bool,
    input: Result<&str, Vec<u8>>,
) -> String {
    let (typed, mut typed_rx) = mk_port::<R>(timeout);
    let ser = match quiet(|| mk(typed).serialize()) {
        Ok(Ok(s)) => s,
        _ => return "(SER_FAILED, None)".to_string(),
    };
    let SerializedMessage::Call { variant, args, reply: caller_side, metadata } = ser else {
        return "(NOT_A_CALL, None)".to_string();
    };
    let wire = match input {
        Err(raw) => raw,
        Ok(text) => {
            let value = R::from_v(&R::parse(text));
            let (bin, mut bin_rx) = mk_port::<Vec<u8>>(timeout);
            let de = quiet(|| HMsg::deserialize(SerializedMessage::Call { variant, args, reply: bin, metadata }));
            let Ok(Ok(msg)) = de else { return "(DESER_FAILED, None)".to_string() };
            let Some(handler_side) = take(msg) else { return "(WRONG_VARIANT, None)".to_string() };
            if handler_side.send(value).is_err() {
                return "(HANDLER_SEND_FAILED, None)".to_string();
            }
            match recv_now(&mut bin_rx).await {
                Ok(Some(b)) => b,
                Ok(None) => return "(REPLY_DROPPED, None)".to_string(),
                Err(()) => return "(REPLY_PENDING, None)".to_string(),
            }
        }
    };
    let shown = bytes(&wire);
    if caller_side.send(wire).is_err() {
        return format!("({shown}, CALLER_PORT_CLOSED)");
    }
    match recv_now(&mut typed_rx).await {
        Ok(Some(v)) => format!("({shown}, Some ({}))", show(&v.to_v())),
        Ok(None) => format!("({shown}, None)"),
        Err(()) => format!("({shown}, PENDING)"),
    }
}

async fn reply_case(idx: usize, timeout: bool, input: Result<&str, Vec<u8>>) -> String {
    let r = futures::FutureExt::catch_unwind(AssertUnwindSafe(async {
        match idx {
            7 => reply_flow::<u8>(|p| HMsg::CallFirst(p, 1, "x".into()), |m| if let HMsg::CallFirst(p, ..) = m { Some(p) } else { None }, timeout, input).await,
            8 => reply_flow::<String>(|p| HMsg::CallMid(-1, p, vec![1]), |m| if let HMsg::CallMid(_, p, _) = m { Some(p) } else { None }, timeout, input).await,
            9 => reply_flow::<Vec<u8>>(|p| HMsg::CallLast(5, true, p), |m| if let HMsg::CallLast(_, _, p) = m { Some(p) } else { None }, timeout, input).await,
            10 => reply_flow::<()>(HMsg::CallOnly, |m| if let HMsg::CallOnly(p) = m { Some(p) } else { None }, timeout, input).await,
            11 => reply_flow::<u32>(|p| HMsg::CallSt { x: 1, reply: p, y: 0.5 }, |m| if let HMsg::CallSt { reply, .. } = m { Some(reply) } else { None }, timeout, input).await,
            14 => reply_flow::<Vec<i32>>(|p| HMsg::CallMany { a: "".into(), b: vec![], c: 'c', reply: p }, |m| if let HMsg::CallMany { reply, .. } = m { Some(reply) } else { None }, timeout, input).await,
            _ => panic!("variant {idx} is not an rpc"),
        }
    }))
    .await;
    r.unwrap_or_else(|_| "PANIC".to_string())
}

// a second derived enum: generic over its payload type
#[derive(RactorClusterMessage)]
#[allow(dead_code)]
enum GMsg<T: BytesConvertable + Send + 'static> {
    V(T),
    #[rpc]
    Ask(T, RpcReplyPort<T>),
    Two { first: T, second: T },
}

fn gview<T: Conv + Send + 'static>(m: &GMsg<T>) -> (usize, Vec<V>) {
    match m {
        GMsg::V(a) => (0, vec![a.to_v()]),
        GMsg::Ask(a, _) => (1, vec![a.to_v()]),
        GMsg::Two { first, second } => (2, vec![first.to_v(), second.to_v()]),
    }
}

fn genum_de<T: Conv + Send + 'static>(m: SerializedMessage) -> String {
    match quiet(|| GMsg::<T>::deserialize(m)) {
        Ok(Ok(v)) => {
            let (i, vals) = gview(&v);
            format!("Some {}", show_view(i, &vals))
        }
        Ok(Err(_)) => "None".to_string(),
        Err(()) => "PANIC".to_string(),
    }
}

fn genum_rt<T: Conv + Send + 'static>(idx: usize, s: &str) -> String {
    let parts: Vec<&str> = s.split('|').collect();
    let v: Vec<V> = parts.iter().map(|p| T::parse(p)).collect();
    let msg = match idx {
        0 => GMsg::<T>::V(T::from_v(&v[0])),
        1 => GMsg::<T>::Ask(T::from_v(&v[0]), port()),
        2 => GMsg::<T>::Two { first: T::from_v(&v[0]), second: T::from_v(&v[1]) },
        _ => panic!("variant index"),
    };
    match quiet(|| msg.serialize()) {
        Ok(Ok(s)) => format!("(Some ({}), {})", show_smsg(&s), genum_de::<T>(clone_smsg(&s))),
        Ok(Err(_)) => "(None, None)".to_string(),
        Err(()) => "(None, PANIC)".to_string(),
    }
}

macro_rules! with_g {
    ($name:expr, $T:ident => $body:expr) => {
        match $name {
            "u16" => { type $T = u16; $body }
            "str" => { type $T = String; $body }
            "vi64" => { type $T = Vec<i64>; $body }
            other => panic!("unknown generic instance {other}"),
        }
    };
}

// ---------------------------------------------------------------------------------------
// job metadata

fn opts_view(o: &JobOptions) -> (u128, Option<u128>) {
    let s = o.submit_time().duration_since(UNIX_EPOCH).map(|d| d.as_nanos()).unwrap_or(0);
    (s, o.ttl().map(|t| t.as_nanos()))
}

fn show_opts(v: (u128, Option<u128>)) -> String {
    format!(
        "(mkJo {} {})",
        v.0,
        match v.1 {
            None => "None".to_string(),
            Some(t) => format!("(Some {t})"),
        }
    )
}

/// decoded options: the `Default` branch of `JobOptions::from_bytes` stamps the submit time with
/// the same "now" as the factory time; a decoded submit time is years away from it
/// (generated submit times are older than 2021)
fn show_jdec(o: &JobOptions) -> String {
    let v = opts_view(o);
    let gap = match o.factory_time().duration_since(o.submit_time()) {
        Ok(d) => d,
        Err(e) => e.duration(),
    };
    if gap < Duration::from_secs(60) {
        "JDefault".to_string()
    } else {
        format!("(JOpts {})", show_opts(v))
    }
}

fn parse_ttl(s: &str) -> Option<Duration> {
    if s == "none" {
        None
    } else if let Some(secs) = s.strip_prefix("secs:") {
        Some(Duration::from_secs(secs.parse().expect("secs")))
    } else {
        let ns: u128 = s.parse().expect("ttl ns");
        Some(Duration::new((ns / 1_000_000_000) as u64, (ns % 1_000_000_000) as u32))
    }
}

/// JobOptions with the given submit time (its fields are private: go through the wire form
/// for the submit time, then set the ttl through the public setter)
fn make_opts(submit: &str, ttl: &str) -> JobOptions {
    if submit == "now" {
        return JobOptions::new(parse_ttl(ttl));
    }
    let mut o = {
        let s: u64 = submit.parse().expect("submit ns");
        let mut b = s.to_be_bytes().to_vec();
        b.extend_from_slice(&0u64.to_be_bytes());
        JobOptions::from_bytes(b)
    };
    o.set_ttl(parse_ttl(ttl));
    o
}

fn jo_rt(submit: &str, ttl: &str) -> String {
    let o = make_opts(submit, ttl);
    let orig = opts_view(&o);
    let enc = match quiet(|| o.into_bytes()) {
        Ok(e) => e,
        Err(()) => return format!("({}, PANIC_ENC, JDefault)", show_opts(orig)),
    };
    let back = match quiet(|| JobOptions::from_bytes(enc.clone())) {
        Ok(b) => format!("(JOpts {})", show_opts(opts_view(&b))),
        Err(()) => "PANIC".to_string(),
    };
    format!("({}, {}, {})", show_opts(orig), bytes(&enc), back)
}

fn job_de<K: Conv + ractor::factory::JobKey>(m: SerializedMessage) -> String {
    match quiet(|| <Job<K, HMsg> as Message>::deserialize(m)) {
        Ok(Ok(j)) => {
            let (i, vals) = view(&j.msg);
            format!(
                "JOk ({}) {} {} {}",
                show(&j.key.to_v()),
                show_jdec(&j.options),
                i,
                coq_list(&vals.iter().map(show).collect::<Vec<_>>())
            )
        }
        Ok(Err(_)) => "JErr".to_string(),
        Err(()) => "JPanic".to_string(),
    }
}

fn job_rt<K: Conv + ractor::factory::JobKey>(key: &str, submit: &str, ttl: &str, idx: usize, fields: &str) -> String {
    let k = K::from_v(&K::parse(key));
    let o = make_opts(submit, ttl);
    let orig = opts_view(&o);
    let job = Job::with_options(k, build(idx, &parse_fields(idx, fields)), o);
    let ser = match quiet(|| job.serialize()) {
        Ok(Ok(s)) => s,
        Ok(Err(_)) => return "(SER_ERR, JErr)".to_string(),
        Err(()) => return "(SER_PANIC, JErr)".to_string(),
    };
    let shown = show_smsg(&ser);
    format!("({}, ({}), {})", show_opts(orig), shown, job_de::<K>(ser))
}

/// things around the wire form of a job that the round trip relies on: PartialEq of the options
/// (factory/worker times are not transmitted), expiry of the original and of the decoded job,
/// Job::new, and a misbehaving inner serializer
fn jo_misc(submit: &str, ttl: &str) -> String {
    let o = make_opts(submit, ttl);
    let eq_self = o.clone() == o;
    let back = JobOptions::from_bytes(o.clone().into_bytes());
    let eq_back = back == o;
    let exp_orig = Job::with_options(1u64, 2u8, o).is_expired();
    let ser = Job::with_options(1u64, 2u8, back).serialize();
    let exp_back = match ser.and_then(<Job<u64, u8> as Message>::deserialize) {
        Ok(j) => coq_bool(j.is_expired()).to_string(),
        Err(_) => "DESER_FAILED".to_string(),
    };
    let fresh = match Job::new(9u64, 7u8).serialize().and_then(<Job<u64, u8> as Message>::deserialize) {
        Ok(j) => j.key == 9 && j.msg == 7 && j.options.ttl().is_none() && !j.is_expired(),
        Err(_) => false,
    };
    let weird = matches!(quiet(|| Job::new(1u64, Weird).serialize()), Ok(Err(_)));
    format!(
        "({}, {}, {}, {}, {}, {})",
        coq_bool(eq_self),
        coq_bool(eq_back),
        coq_bool(exp_orig),
        exp_back,
        coq_bool(fresh),
        coq_bool(weird)
    )
}

fn jobp_de<K: Conv + ractor::factory::JobKey, T: Conv + Message>(m: SerializedMessage) -> String {
    match quiet(|| <Job<K, T> as Message>::deserialize(m)) {
        Ok(Ok(j)) => format!("JPOk ({}) {} ({})", show(&j.key.to_v()), show_jdec(&j.options), show(&j.msg.to_v())),
        Ok(Err(_)) => "JPErr".to_string(),
        Err(()) => "JPPanic".to_string(),
    }
}

macro_rules! with_key {
    ($name:expr, $K:ident => $body:expr) => {
        match $name {
            "u64" => { type $K = u64; $body }
            "str" => { type $K = String; $body }
            "vu8" => { type $K = Vec<u8>; $body }
            "unit" => { type $K = (); $body }
            "i16" => { type $K = i16; $body }
            other => panic!("unknown key type {other}"),
        }
    };
}

// ---------------------------------------------------------------------------------------
// a live actor fed through send_serialized

#[derive(Clone, Default)]
struct Log(Arc<Mutex<Vec<String>>>);

struct EnumActor(Log);
impl Actor for EnumActor {
    type Msg = HMsg;
    type State = ();
    type Arguments = ();
    async fn pre_start(&self, _: ActorRef<Self::Msg>, _: ()) -> Result<(), ActorProcessingErr> {
        Ok(())
    }
    async fn handle(&self, _: ActorRef<Self::Msg>, m: HMsg, _: &mut ()) -> Result<(), ActorProcessingErr> {
        let (i, vals) = view(&m);
        self.0 .0.lock().unwrap().push(show_view(i, &vals));
        Ok(())
    }
}

struct JobActor<K>(Log, std::marker::PhantomData<K>);
impl<K: Conv + ractor::factory::JobKey> Actor for JobActor<K> {
    type Msg = Job<K, HMsg>;
    type State = ();
    type Arguments = ();
    async fn pre_start(&self, _: ActorRef<Self::Msg>, _: ()) -> Result<(), ActorProcessingErr> {
        Ok(())
    }
    async fn handle(&self, _: ActorRef<Self::Msg>, j: Self::Msg, _: &mut ()) -> Result<(), ActorProcessingErr> {
        let (i, vals) = view(&j.msg);
        self.0 .0.lock().unwrap().push(show_view(i, &vals));
        Ok(())
    }
}

struct PrimActor<T>(Log, std::marker::PhantomData<T>);
impl<T: Conv + Message + Sync> Actor for PrimActor<T> {
    type Msg = T;
    type State = ();
    type Arguments = ();
    async fn pre_start(&self, _: ActorRef<Self::Msg>, _: ()) -> Result<(), ActorProcessingErr> {
        Ok(())
    }
    async fn handle(&self, _: ActorRef<Self::Msg>, m: T, _: &mut ()) -> Result<(), ActorProcessingErr> {
        self.0 .0.lock().unwrap().push(show(&m.to_v()));
        Ok(())
    }
}

struct PlainActor(Log);
impl Actor for PlainActor {
    type Msg = Plain;
    type State = ();
    type Arguments = ();
    async fn pre_start(&self, _: ActorRef<Self::Msg>, _: ()) -> Result<(), ActorProcessingErr> {
        Ok(())
    }
    async fn handle(&self, _: ActorRef<Self::Msg>, _: Plain, _: &mut ()) -> Result<(), ActorProcessingErr> {
        self.0 .0.lock().unwrap().push("handled".to_string());
        Ok(())
    }
}

fn parse_msgs(s: &str) -> Vec<SerializedMessage> {
    s.split(';')
        .filter(|x| !x.is_empty())
        .map(|m| {
            let p: Vec<&str> = m.split(':').collect();
            smsg(p[0], p[1], p[2], p[3])
        })
        .collect()
}

async fn settle() {
    // paused clock: time only advances when every task is blocked
    tokio::time::sleep(Duration::from_nanos(1)).await;
}

async fn run_actor<A: Actor<Arguments = ()>>(actor: A, log: Log, msgs: Vec<SerializedMessage>) -> String {
    let (a, handle) = Actor::spawn(None, actor, ()).await.expect("spawn");
    let mut sent = 0usize;
    for m in msgs {
        if a.get_cell().send_serialized(m).is_ok() {
            sent += 1;
        }
        settle().await;
    }
    settle().await;
    let alive = a.get_status() == ActorStatus::Running;
    a.stop(None);
    let clean = handle.await.is_ok();
    let handled = log.0.lock().unwrap().clone();
    format!("({}, {}, {})", coq_bool(alive && clean), sent, coq_list(&handled))
}

// ---------------------------------------------------------------------------------------
// a transport whose fragmentation is programmed

#[derive(Default)]
struct Stats {
    delivered: usize,
    max_request: usize,
    polls: usize,
    after_eof_polls: usize,
}

struct ChunkedReader {
    chunks: Vec<Vec<u8>>,
    idx: usize,
    off: usize,
    pend_between: bool,
    pended: bool,
    stats: Arc<Mutex<Stats>>,
}

impl AsyncRead for ChunkedReader {
    fn poll_read(mut self: Pin<&mut Self>, cx: &mut Context<'_>, buf: &mut ReadBuf<'_>) -> Poll<std::io::Result<()>> {
        let this = &mut *self;
        {
            let mut st = this.stats.lock().unwrap();
            st.polls += 1;
            st.max_request = st.max_request.max(buf.remaining());
        }
        while this.idx < this.chunks.len() && this.off >= this.chunks[this.idx].len() {
            this.idx += 1;
            this.off = 0;
            this.pended = false;
        }
        if this.idx >= this.chunks.len() {
            this.stats.lock().unwrap().after_eof_polls += 1;
            return Poll::Ready(Ok(())); // EOF
        }
        if this.pend_between && this.off == 0 && !this.pended {
            // the next chunk "has not arrived yet"
            this.pended = true;
            cx.waker().wake_by_ref();
            return Poll::Pending;
        }
        let c = &this.chunks[this.idx];
        let n = (c.len() - this.off).min(buf.remaining());
        buf.put_slice(&c[this.off..this.off + n]);
        this.off += n;
        this.stats.lock().unwrap().delivered += n;
        Poll::Ready(Ok(()))
    }
}

fn split(data: &[u8], sizes: &str) -> Vec<Vec<u8>> {
    let mut out = Vec::new();
    let mut pos = 0usize;
    for s in list(sizes) {
        let n: usize = s.parse().expect("size");
        let e = (pos + n).min(data.len());
        out.push(data[pos..e].to_vec());
        pos = e;
    }
    if pos < data.len() {
        out.push(data[pos..].to_vec());
    }
    out
}

fn err_class(kind: std::io::ErrorKind, text: &str) -> String {
    use std::io::ErrorKind as K;
    match kind {
        K::UnexpectedEof => "FErr EEof".to_string(),
        K::InvalidData if text.contains("exceeds configured limit") => "FErr ETooLarge".to_string(),
        K::InvalidData if text.contains("could not be allocated") || text.contains("cannot fit in memory") => {
            "FErr EUnalloc".to_string()
        }
        K::InvalidData if text.contains("invalid cluster protobuf frame") => "FErr EDecode".to_string(),
        other => format!("FErr (EOther {:?})", format!("{other:?}: {text}")),
    }
}

async fn stream(max: u64, data: Vec<u8>, sizes: &str, mode: &str, transport: &str) -> String {
    let stats = Arc::new(Mutex::new(Stats::default()));
    let chunks = split(&data, sizes);
    // keeps the writing end of a socket alive until the feeder task has shut it down
    let mut feeder: Option<tokio::task::JoinHandle<()>> = None;
    let mut fr = if transport == "mem" {
        let reader = ChunkedReader { chunks, idx: 0, off: 0, pend_between: mode == "pend", pended: false, stats: stats.clone() };
        VerifFrameReader::new(Box::new(reader), max)
    } else {
        // a real loopback socket (optionally TLS on top): the bytes are written chunk by chunk by a
        // second task and the write side is shut down at the end; how the chunks coalesce is up to
        // the kernel, which is the point (the Regular / ServerTls / ClientTls read halves)
        use tokio::io::AsyncWriteExt;
        let Some(pair) = sock_pair(transport != "tcp").await else { return "SETUP_FAILED".to_string() };
        let slow = mode == "pend";
        async fn feed<W: tokio::io::AsyncWrite + Unpin>(mut w: W, chunks: Vec<Vec<u8>>, slow: bool) {
            for c in chunks {
                if w.write_all(&c).await.is_err() {
                    return;
                }
                let _ = w.flush().await;
                tokio::task::yield_now().await;
                if slow {
                    std::thread::sleep(Duration::from_micros(120));
                    tokio::task::yield_now().await;
                }
            }
            let _ = w.shutdown().await;
        }
        match pair {
            Pair::Tcp(client, server, ..) => {
                let (fr, keep) = VerifFrameReader::new_tcp(server, max);
                feeder = Some(tokio::spawn(async move {
                    feed(client, chunks, slow).await;
                    drop(keep);
                }));
                fr
            }
            Pair::Tls(client, server, ..) if transport == "tls" => {
                let (fr, keep) = VerifFrameReader::new_tls_server(server, max);
                feeder = Some(tokio::spawn(async move {
                    feed(client, chunks, slow).await;
                    drop(keep);
                }));
                fr
            }
            Pair::Tls(client, server, ..) => {
                // "tlsc": the reader sits on the dialling end
                let (fr, keep) = VerifFrameReader::new_tls_client(client, max);
                feeder = Some(tokio::spawn(async move {
                    feed(server, chunks, slow).await;
                    drop(keep);
                }));
                fr
            }
        }
    };
    let mut outs: Vec<String> = Vec::new();
    MAX_ALLOC.store(0, Ordering::Relaxed);
    let mut panicked = false;
    loop {
        // the reader actor calls read_network_message until the first error
        let r = futures::FutureExt::catch_unwind(AssertUnwindSafe(fr.read_one())).await;
        match r {
            Ok(Ok(m)) => outs.push(format!("FMsg {}", bytes(&m))),
            Ok(Err((k, t))) => {
                outs.push(err_class(k, &t));
                break;
            }
            Err(_) => {
                panicked = true;
                break;
            }
        }
        if outs.len() > 100_000 {
            break;
        }
    }
    let peak = MAX_ALLOC.load(Ordering::Relaxed);
    if let Some(f) = feeder {
        f.abort();
    }
    let st = stats.lock().unwrap();
    if panicked {
        return "PANIC".to_string();
    }
    // over a socket the bytes taken from the transport cannot be counted: report what was sent
    let delivered = if transport == "mem" { st.delivered } else { data.len() };
    format!("({}, {}, {}, {})", coq_list(&outs), delivered, st.max_request, peak)
}

async fn sreader(max: u64, data: Vec<u8>, sizes: &str, mode: &str) -> String {
    let stats = Arc::new(Mutex::new(Stats::default()));
    let reader = ChunkedReader {
        chunks: split(&data, sizes),
        idx: 0,
        off: 0,
        pend_between: mode == "pend",
        pended: false,
        stats: stats.clone(),
    };
    let events = session_verif::run_session_reader(Box::new(reader), max).await;
    let mut outs = Vec::new();
    let mut end = "\"none\"".to_string();
    for e in events {
        match e {
            ReaderEvent::Object(b) => outs.push(format!("FMsg {}", bytes(&b))),
            ReaderEvent::Stopped(r) => end = format!("{:?}", r.unwrap_or_else(|| "-".to_string())),
            ReaderEvent::Failed(t) => end = format!("{:?}", format!("FAILED {t}")),
        }
    }
    let st = stats.lock().unwrap();
    format!("({}, {}, {}, {})", coq_list(&outs), end, st.delivered, st.after_eof_polls)
}

// ---------------------------------------------------------------------------------------
// live node: a bad frame closes that session only

struct Duplex {
    stream: tokio::io::DuplexStream,
    label: String,
}
impl ractor_cluster::ClusterBidiStream for Duplex {
    fn split(self: Box<Self>) -> (ractor_cluster::BoxRead, ractor_cluster::BoxWrite) {
        let (r, w) = tokio::io::split(self.stream);
        (Box::new(r), Box::new(w))
    }
    fn peer_label(&self) -> Option<String> {
        Some(self.label.clone())
    }
    fn local_label(&self) -> Option<String> {
        Some(format!("local-{}", self.label))
    }
}

struct LiveSub(Log);
impl ractor_cluster::NodeEventSubscription for LiveSub {
    fn node_session_opened(&self, s: ractor_cluster::node::NodeServerSessionInformation) {
        self.0 .0.lock().unwrap().push(format!("opened {}", s.peer_addr));
    }
    fn node_session_disconnected(&self, s: ractor_cluster::node::NodeServerSessionInformation) {
        self.0 .0.lock().unwrap().push(format!("disconnected {}", s.peer_addr));
    }
    fn node_session_authenticated(&self, _: ractor_cluster::node::NodeServerSessionInformation) {}
    fn node_session_ready(&self, s: ractor_cluster::node::NodeServerSessionInformation) {
        self.0 .0.lock().unwrap().push(format!("ready {}", s.peer_addr));
    }
}

enum Pair {
    Tcp(tokio::net::TcpStream, tokio::net::TcpStream, std::net::SocketAddr, std::net::SocketAddr),
    Tls(
        tokio_rustls::client::TlsStream<tokio::net::TcpStream>,
        tokio_rustls::server::TlsStream<tokio::net::TcpStream>,
        std::net::SocketAddr,
        std::net::SocketAddr,
    ),
}

/// a connected loopback socket pair (dialling end, accepting end, dialler's address, listener's
/// address), optionally with a completed TLS handshake on top
async fn sock_pair(tls: bool) -> Option<Pair> {
    let listener = tokio::net::TcpListener::bind("127.0.0.1:0").await.ok()?;
    let addr = listener.local_addr().ok()?;
    let client = tokio::net::TcpStream::connect(addr).await.ok()?;
    let (server_side, peer) = listener.accept().await.ok()?;
    let _ = client.set_nodelay(true);
    let _ = server_side.set_nodelay(true);
    if tls {
        let (acceptor, connector, domain) = tls_setup()?;
        let (acc, con) = tokio::join!(acceptor.accept(server_side), connector.connect(domain, client));
        Some(Pair::Tls(con.ok()?, acc.ok()?, peer, addr))
    } else {
        Some(Pair::Tcp(client, server_side, peer, addr))
    }
}

/// an external transport without labels (the trait's defaults)
struct Bare(tokio::io::DuplexStream);
impl ractor_cluster::ClusterBidiStream for Bare {
    fn split(self: Box<Self>) -> (ractor_cluster::BoxRead, ractor_cluster::BoxWrite) {
        let (r, w) = tokio::io::split(self.0);
        (Box::new(r), Box::new(w))
    }
}

/// an external transport whose write half fails (on write, or only on flush)
struct Broken {
    stream: tokio::io::DuplexStream,
    on_flush: bool,
}
struct BrokenWriter(bool);
impl tokio::io::AsyncWrite for BrokenWriter {
    fn poll_write(self: Pin<&mut Self>, _: &mut Context<'_>, buf: &[u8]) -> Poll<std::io::Result<usize>> {
        if self.0 {
            Poll::Ready(Ok(buf.len()))
        } else {
            Poll::Ready(Err(std::io::Error::new(std::io::ErrorKind::BrokenPipe, "injected write failure")))
        }
    }
    fn poll_flush(self: Pin<&mut Self>, _: &mut Context<'_>) -> Poll<std::io::Result<()>> {
        Poll::Ready(Err(std::io::Error::new(std::io::ErrorKind::BrokenPipe, "injected flush failure")))
    }
    fn poll_shutdown(self: Pin<&mut Self>, _: &mut Context<'_>) -> Poll<std::io::Result<()>> {
        Poll::Ready(Ok(()))
    }
}
impl ractor_cluster::ClusterBidiStream for Broken {
    fn split(self: Box<Self>) -> (ractor_cluster::BoxRead, ractor_cluster::BoxWrite) {
        let (r, _w) = tokio::io::split(self.stream);
        (Box::new(r), Box::new(BrokenWriter(self.on_flush)))
    }
    fn peer_label(&self) -> Option<String> {
        Some("raw1".to_string())
    }
}

/// TLS endpoints from the test CA shipped with the repository (valid until 4096)
fn tls_setup() -> Option<(tokio_rustls::TlsAcceptor, tokio_rustls::TlsConnector, tokio_rustls::rustls::pki_types::ServerName<'static>)> {
    use tokio_rustls::rustls::pki_types::pem::PemObject;
    use tokio_rustls::rustls::pki_types::{CertificateDer, PrivateKeyDer, ServerName};
    let dir = "/repo/ractor_cluster_integration_tests/test-ca/rsa-2048";
    let certs: Vec<CertificateDer<'static>> =
        CertificateDer::pem_file_iter(format!("{dir}/end.fullchain")).ok()?.collect::<Result<Vec<_>, _>>().ok()?;
    let key = PrivateKeyDer::from_pem_file(format!("{dir}/end.key")).ok()?;
    let server = tokio_rustls::rustls::ServerConfig::builder().with_no_client_auth().with_single_cert(certs, key).ok()?;
    let mut roots = tokio_rustls::rustls::RootCertStore::empty();
    for c in CertificateDer::pem_file_iter(format!("{dir}/ca.cert")).ok()? {
        roots.add(c.ok()?).ok()?;
    }
    let client = tokio_rustls::rustls::ClientConfig::builder().with_root_certificates(roots).with_no_client_auth();
    Some((
        tokio_rustls::TlsAcceptor::from(Arc::new(server)),
        tokio_rustls::TlsConnector::from(Arc::new(client)),
        ServerName::try_from("testserver.com").ok()?,
    ))
}

trait RW: AsyncRead + tokio::io::AsyncWrite + Unpin + Send {}
impl<T: AsyncRead + tokio::io::AsyncWrite + Unpin + Send> RW for T {}

/// let the runtime (and, for sockets, the kernel) make progress without advancing the paused
/// clock by more than a nanosecond
async fn pump(real: bool) {
    settle().await;
    if real {
        std::thread::sleep(Duration::from_micros(150));
        tokio::task::yield_now().await;
    }
}

/// transport: mem (in-memory duplex, external-transport path) | tcp (a real loopback socket handed
/// over as NetworkStream::Raw, the listener's path). role: server (the node accepted the
/// connection and waits for the peer) | client (the node dialled: it speaks first).
/// how: hold | close (shut down after writing) | dropfirst (the peer is gone before the node
/// even starts the session).
async fn live(max: u64, how: &str, data: Vec<u8>, transport: &str, role: &str, sizes: &str) -> String {
    use ractor_cluster::{NodeServer, NodeServerMessage, NodeSessionMessage};
    use tokio::io::{AsyncReadExt, AsyncWriteExt};
    let tls = transport == "tls";
    let tcp = transport == "tcp" || tls;
    let fail = "(false, false, false, true, true, [])".to_string();
    // sockets first: nothing that owns a timer exists yet
    let mut tcp_pair = None;
    let mut tls_pair = None;
    let mut link_pair = None;
    if tcp {
        match sock_pair(tls).await {
            Some(Pair::Tcp(c, s, peer, local)) => tcp_pair = Some((c, s, peer, local)),
            Some(Pair::Tls(c, s, peer, local)) => tls_pair = Some((c, s, peer, local)),
            None => return fail,
        }
        // the authenticated link between the two nodes runs over the same kind of transport
        link_pair = sock_pair(tls).await;
        if link_pair.is_none() {
            return fail;
        }
    }
    let mk = |name: &str| {
        NodeServer::new(0, "cookie".to_string(), name.to_string(), "host".to_string(), None, None)
            .with_max_inbound_frame_size(max.max(4096))
    };
    // (the limit applies to every session of the node; it is kept >= 4096 so the handshake fits)
    let (Ok((a, ah)), Ok((b, bh))) = (Actor::spawn(None, mk("a"), ()).await, Actor::spawn(None, mk("b"), ()).await) else {
        return fail;
    };
    let log = Log::default();
    a.cast(NodeServerMessage::SubscribeToEvents { id: "h".to_string(), subscription: Box::new(LiveSub(log.clone())) })
        .expect("subscribe");
    let _ = ractor::call_t!(a, NodeServerMessage::GetSessions, 1_000);
    let _ = ractor::call_t!(b, NodeServerMessage::GetSessions, 1_000);
    let seen = |what: &str| log.0.lock().unwrap().iter().any(|e| e == what);
    // authenticated link a <-> b
    let link_label;
    match link_pair {
        Some(Pair::Tcp(c, sv, peer, local)) => {
            link_label = peer.to_string();
            a.cast(NodeServerMessage::ConnectionOpened {
                stream: Box::new(ractor_cluster::NetworkStream::Raw { peer_addr: peer, local_addr: local, stream: sv }),
                is_server: true,
            })
            .expect("open");
            b.cast(NodeServerMessage::ConnectionOpened {
                stream: Box::new(ractor_cluster::NetworkStream::Raw { peer_addr: local, local_addr: peer, stream: c }),
                is_server: false,
            })
            .expect("open");
        }
        Some(Pair::Tls(c, sv, peer, local)) => {
            link_label = peer.to_string();
            a.cast(NodeServerMessage::ConnectionOpened {
                stream: Box::new(ractor_cluster::NetworkStream::TlsServer { peer_addr: peer, local_addr: local, stream: sv }),
                is_server: true,
            })
            .expect("open");
            b.cast(NodeServerMessage::ConnectionOpened {
                stream: Box::new(ractor_cluster::NetworkStream::TlsClient { peer_addr: local, local_addr: peer, stream: c }),
                is_server: false,
            })
            .expect("open");
        }
        None => {
            link_label = "link".to_string();
            let (la, lb) = tokio::io::duplex(64 * 1024);
            a.cast(NodeServerMessage::ConnectionOpenedExternal { stream: Box::new(Duplex { stream: la, label: "link".into() }), is_server: true })
                .expect("open");
            b.cast(NodeServerMessage::ConnectionOpenedExternal { stream: Box::new(Duplex { stream: lb, label: "link-b".into() }), is_server: false })
                .expect("open");
        }
    }
    let ready_link = format!("ready {link_label}");
    let link_deadline = std::time::Instant::now() + Duration::from_secs(20);
    for i in 0.. {
        if seen(&ready_link) || (!tcp && i > 2000) || std::time::Instant::now() > link_deadline {
            break;
        }
        pump(tcp).await;
    }
    let link_ready_before = seen(&ready_link);
    // two raw sessions: raw1 is the one that gets the bytes, raw2 stays idle
    let is_server = role != "client";
    let (r2a, r2) = tokio::io::duplex(64 * 1024);
    let label;
    let mut r1: Option<Box<dyn RW>>;
    let open1;
    if let Some((con, acc, peer, local)) = tls_pair {
        label = peer.to_string();
        if is_server {
            r1 = Some(Box::new(con));
            open1 = NodeServerMessage::ConnectionOpened {
                stream: Box::new(ractor_cluster::NetworkStream::TlsServer { peer_addr: peer, local_addr: local, stream: acc }),
                is_server,
            };
        } else {
            r1 = Some(Box::new(acc));
            open1 = NodeServerMessage::ConnectionOpened {
                stream: Box::new(ractor_cluster::NetworkStream::TlsClient { peer_addr: peer, local_addr: local, stream: con }),
                is_server,
            };
        }
    } else {
    match tcp_pair {
        Some((client, server_side, peer, local)) => {
            label = peer.to_string();
            r1 = Some(Box::new(client));
            open1 = NodeServerMessage::ConnectionOpened {
                stream: Box::new(ractor_cluster::NetworkStream::Raw { peer_addr: peer, local_addr: local, stream: server_side }),
                is_server,
            };
        }
        None => {
            let (r1a, mine) = tokio::io::duplex(64 * 1024);
            label = "raw1".to_string();
            r1 = Some(Box::new(mine));
            open1 = if how == "writefail" || how == "flushfail" {
                // a transport whose write half breaks: the batched writer must stop that session
                NodeServerMessage::ConnectionOpenedExternal { stream: Box::new(Broken { stream: r1a, on_flush: how == "flushfail" }), is_server }
            } else {
                NodeServerMessage::ConnectionOpenedExternal { stream: Box::new(Duplex { stream: r1a, label: "raw1".into() }), is_server }
            };
        }
    }
    }
    if how == "dropfirst" {
        r1 = None;
    }
    a.cast(open1).expect("open");
    a.cast(NodeServerMessage::ConnectionOpenedExternal { stream: Box::new(Bare(r2a)), is_server: true })
        .expect("open");
    let opened = format!("opened {label}");
    let disconnected = format!("disconnected {label}");
    let deadline = std::time::Instant::now() + Duration::from_secs(20);
    for i in 0.. {
        if (seen(&opened) && seen("opened external")) || (!tcp && i > 200) || std::time::Instant::now() > deadline {
            break;
        }
        pump(tcp).await;
    }
    // what the node wrote on its own (a dialling node speaks first)
    let mut captured: Vec<u8> = Vec::new();
    if let Some(conn) = r1.as_mut() {
        let mut quiet_rounds = 0;
        let mut buf = [0u8; 4096];
        while quiet_rounds < if tcp { 40 } else { 5 } && captured.len() < 1 << 16 {
            pump(tcp).await;
            match futures::FutureExt::now_or_never(conn.read(&mut buf)) {
                Some(Ok(n)) if n > 0 => {
                    captured.extend_from_slice(&buf[..n]);
                    quiet_rounds = 0;
                }
                Some(_) => break,
                None => quiet_rounds += 1,
            }
            if is_server {
                break; // an accepting node waits for the peer
            }
        }
        for chunk in split(&data, sizes) {
            if conn.write_all(&chunk).await.is_err() {
                break;
            }
            let _ = conn.flush().await;
            for _ in 0..3 {
                pump(tcp).await;
            }
        }
        if how == "close" {
            let _ = conn.shutdown().await;
        }
    }
    let deadline = std::time::Instant::now() + Duration::from_secs(20);
    for i in 0.. {
        if seen(&disconnected) || (!tcp && i > 400) || (tcp && how == "hold" && data.is_empty() && i > 200) || std::time::Instant::now() > deadline {
            break;
        }
        // with a socket and nothing that must close the session there is nothing to wait for
        if tcp && i > 4000 && how == "hold" {
            break;
        }
        pump(tcp).await;
    }
    for _ in 0..50 {
        pump(tcp).await;
    }
    let raw1_closed = seen(&disconnected);
    let others_closed = seen("disconnected external") || seen(&format!("disconnected {link_label}"));
    // the node server still answers, still lists the authenticated link, and that session is ready
    let sessions = ractor::call_t!(a, NodeServerMessage::GetSessions, 1_000);
    let (server_ok, link_ready) = match sessions {
        Ok(m) => {
            let mut ready = false;
            for s in m.values() {
                if s.peer_addr == link_label {
                    ready = ractor::call_t!(s.actor, NodeSessionMessage::GetReadyState, 1_000).unwrap_or(false);
                }
            }
            (true, ready)
        }
        Err(_) => (false, false),
    };
    drop(r2);
    drop(r1);
    a.stop(None);
    b.stop(None);
    let _ = ah.await;
    let _ = bh.await;
    format!(
        "({}, {}, {}, {}, {}, {})",
        coq_bool(link_ready_before),
        coq_bool(raw1_closed),
        coq_bool(others_closed),
        coq_bool(server_ok),
        coq_bool(link_ready),
        bytes(&captured)
    )
}

// ---------------------------------------------------------------------------------------

async fn one(line: &str) -> String {
    let w: Vec<&str> = line.split_whitespace().collect();
    match (w[0], w.get(1).copied().unwrap_or("")) {
        ("bc", "dec") => with_ty!(w[2], T => bc_dec::<T>(unhex(w[3]))),
        ("bc", "rt") => with_ty!(w[2], T => bc_rt::<T>(w[3])),
        ("enum", "de") => enum_de(smsg(w[2], w[3], w[4], w[5])),
        ("enum", "box") => {
            let idx: usize = w[2].parse().expect("idx");
            enum_box_rt(idx, &parse_fields(idx, w.get(3).copied().unwrap_or("-")))
        }
        ("genum", "de") => with_g!(w[2], T => genum_de::<T>(smsg(w[3], w[4], w[5], w[6]))),
        ("genum", "rt") => with_g!(w[2], T => genum_rt::<T>(w[3].parse().expect("idx"), w[4])),
        ("msg", "de") => with_prim!(w[2], T => prim_de::<T>(smsg(w[3], w[4], w[5], w[6]))),
        ("msg", "rt") => with_prim!(w[2], T => prim_rt::<T>(w[3])),
        ("plain", _) => plain_probe(smsg(w[1], w[2], w[3], w[4])),
        ("reply", "rt") => reply_case(w[2].parse().expect("idx"), w[3] == "timeout", Ok(w[4])).await,
        ("reply", "de") => reply_case(w[2].parse().expect("idx"), w[3] == "timeout", Err(unhex(w[4]))).await,
        ("jo", "misc") => jo_misc(w[2], w[3]),
        ("jobp", "de") => with_key!(w[2], K => with_prim!(w[3], T => jobp_de::<K, T>(smsg(w[4], w[5], w[6], w[7])))),
        ("actor", k) if k.starts_with("prim:") => {
            let log = Log::default();
            let msgs = parse_msgs(w.get(2).copied().unwrap_or(""));
            with_prim!(&k[5..], T => run_actor(PrimActor::<T>(log.clone(), std::marker::PhantomData), log, msgs).await)
        }
        ("actor", "plain") => {
            let log = Log::default();
            run_actor(PlainActor(log.clone()), log, parse_msgs(w.get(2).copied().unwrap_or(""))).await
        }
        ("enum", "rt") => {
            let idx: usize = w[2].parse().expect("idx");
            let vals = parse_fields(idx, w.get(3).copied().unwrap_or("-"));
            match quiet(|| build(idx, &vals).serialize()) {
                Ok(Ok(s)) => format!("(Some ({}), {})", show_smsg(&s), enum_de(clone_smsg(&s))),
                Ok(Err(_)) => "(None, None)".to_string(),
                Err(()) => "(None, PANIC)".to_string(),
            }
        }
        ("job", "de") => with_key!(w[2], K => job_de::<K>(smsg(w[3], w[4], w[5], w[6]))),
        ("job", "rt") => {
            let idx: usize = w[6].parse().expect("idx");
            with_key!(w[2], K => job_rt::<K>(w[3], w[4], w[5], idx, w.get(7).copied().unwrap_or("-")))
        }
        ("jo", "rt") => jo_rt(w[2], w[3]),
        ("jo", "de") => match quiet(|| JobOptions::from_bytes(unhex(w[2]))) {
            Ok(o) => show_jdec(&o),
            Err(()) => "PANIC".to_string(),
        },
        ("actor", "enum") => {
            let log = Log::default();
            run_actor(EnumActor(log.clone()), log, parse_msgs(w.get(2).copied().unwrap_or(""))).await
        }
        ("actor", k) if k.starts_with("job:") => {
            let log = Log::default();
            let msgs = parse_msgs(w.get(2).copied().unwrap_or(""));
            with_key!(&k[4..], K => run_actor(JobActor::<K>(log.clone(), std::marker::PhantomData), log, msgs).await)
        }
        ("valid", _) => match session_verif::decode_payload(&unhex(w[1])) {
            Some(c) => format!("(Some {})", bytes(&c)),
            None => "None".to_string(),
        },
        ("frame", _) => match session_verif::encode_frame(&unhex(w[1])) {
            Some(c) => format!("(Some {})", bytes(&c)),
            None => "None".to_string(),
        },
        ("cfl", _) => {
            let len: u64 = w[1].parse().expect("len");
            let max: u64 = w[2].parse().expect("max");
            match session_verif::checked_frame_length(len, max) {
                Ok(_) => "None".to_string(),
                Err(t) => format!("(Some {})", &err_class(std::io::ErrorKind::InvalidData, &t)[5..]),
            }
        }
        ("stream", _) => {
            stream(
                w[1].parse().expect("max"),
                unhex(w[2]),
                w[3],
                w.get(4).copied().unwrap_or("ready"),
                w.get(5).copied().unwrap_or("mem"),
            )
            .await
        }
        ("live", _) => {
            live(
                w[1].parse().expect("max"),
                w[2],
                unhex(w.get(3).copied().unwrap_or("-")),
                w.get(4).copied().unwrap_or("mem"),
                w.get(5).copied().unwrap_or("server"),
                w.get(6).copied().unwrap_or("-"),
            )
            .await
        }
        ("sreader", _) => sreader(w[1].parse().expect("max"), unhex(w[2]), w[3], w.get(4).copied().unwrap_or("ready")).await,
        other => panic!("unknown case {other:?}"),
    }
}

fn main() {
    // panics of the code under test are expected and caught; only report the harness's own
    std::panic::set_hook(Box::new(|info| {
        let own = info.location().map(|l| l.file().ends_with("eng_codec.rs")).unwrap_or(false);
        if own && info.payload().downcast_ref::<usize>().is_none() {
            eprintln!("harness panic: {info}");
        }
    }));
    let rt = tokio::runtime::Builder::new_current_thread()
        .enable_all()
        .start_paused(true)
        .build()
        .expect("runtime");
    rt.block_on(async {
        use std::io::Write;
        let out = std::io::stdout();
        let mut out = std::io::BufWriter::new(out.lock());
        for line in stdin_lines() {
            let r = one(&line).await;
            writeln!(out, "{r}").expect("stdout");
        }
        out.flush().expect("flush");
    });
}
