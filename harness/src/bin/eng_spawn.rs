//! E1 (deterministic task-level engine) for C08: drives the REAL spawn pipeline on a paused
//! current-thread tokio runtime and reports, after every settle, what the rest of the system can
//! still see of the actor `a` being spawned.
//!
//! stdin, one scenario per line:
//!   <idx> <kind> <named> <holder> <sup> | <script> | <op> ; <op> ; ...
//!     kind   0 spawn  1 spawn_linked  2 spawn_instant  3 spawn_linked_instant
//!            8 ActorCell::spawn_linked   9 spawn_linked_remote with a LOCAL id (refused before anything exists)
//!            10 spawn_linked_remote with a REMOTE id (the name may be the name of a live local holder)
//!            4..7 the same four through the thread-local API (ThreadLocalActor::spawn*, spawn_local,
//!            ActorCell::spawn_local_linked) on a ThreadLocalActorSpawner with its own OS thread
//!     named  0|1      holder 0|1 (another running actor already owns the name)
//!     sup    none | run | draining | stopping | dead      (state of the supervisor P before the spawn)
//!     script tokens (pre_start of a): g (await a gate) | j1 j2 (pg::join) | m1 m2 (pg::monitor)
//!            | l (myself.link(Q)) | a (spawn_linked an idle child under myself) | s (send to Q)
//!            then exactly one of: ok | err | panic
//!     ops    spawn | open | kill | abort | drain | cast | call | wait | supkill | supstop
//!            | extjoin1 | extjoin2 | extmon1 | extlink | reuse | settle
//!            | block (occupy the spawner thread inside another thread-local actor's pre_start) | release
//! Thread-local scenarios: the spawner thread is a real thread with an unpaused runtime, so a settle is
//! a sequence of main-runtime barriers and FIFO fences through the spawner (a thread-local Fence actor
//! whose pre_start yields repeatedly); every wait is bounded by a watchdog whose expiry ends the
//! process with exit code 2 (infrastructure failure, never a verdict).
//! stdout, one Coq-syntax term per scenario:  ([obs; ...], result, existed)
//!   obs = (mkObs status waiters_released name_mine pid_mine groups mons in_sup_children has_sup
//!                children events ran calls_open send_accepted holder orphans)
use std::sync::atomic::{AtomicUsize, Ordering};
use std::sync::{Arc, Mutex};
use std::time::Duration;

use ractor::thread_local::{ThreadLocalActor, ThreadLocalActorSpawner};
use ractor::{Actor, ActorCell, ActorId, ActorProcessingErr, ActorRef, RpcReplyPort, SupervisionEvent};
use rv_harness::*;
use tokio::sync::watch;
use tokio::task::AbortHandle;

struct Gate(watch::Sender<bool>);
impl Gate {
    fn new(open: bool) -> Self {
        Gate(watch::channel(open).0)
    }
    async fn wait(&self) {
        let mut rx = self.0.subscribe();
        let _ = rx.wait_for(|v| *v).await;
    }
    fn open(&self) {
        self.0.send_replace(true);
    }
}

// ---- helper actors: supervisors P and Q (log lifecycle events), idle children, name holder ----
enum HMsg {
    Block,
}
impl ractor::Message for HMsg {}

struct HelperShared {
    events: Mutex<Vec<ActorId>>, // ids the lifecycle events were about
    h_gate: Gate,
    ps_gate: Gate,
}
struct Helper;
impl Actor for Helper {
    type Msg = HMsg;
    type State = Arc<HelperShared>;
    type Arguments = Arc<HelperShared>;
    async fn pre_start(&self, _: ActorRef<HMsg>, a: Arc<HelperShared>) -> Result<Arc<HelperShared>, ActorProcessingErr> {
        Ok(a)
    }
    async fn handle(&self, _: ActorRef<HMsg>, _: HMsg, st: &mut Arc<HelperShared>) -> Result<(), ActorProcessingErr> {
        st.h_gate.wait().await;
        Ok(())
    }
    async fn post_stop(&self, _: ActorRef<HMsg>, st: &mut Arc<HelperShared>) -> Result<(), ActorProcessingErr> {
        st.ps_gate.wait().await;
        Ok(())
    }
    async fn handle_supervisor_evt(
        &self,
        _: ActorRef<HMsg>,
        evt: SupervisionEvent,
        st: &mut Arc<HelperShared>,
    ) -> Result<(), ActorProcessingErr> {
        match evt {
            SupervisionEvent::ActorStarted(who) => st.events.lock().unwrap().push(who.get_id()),
            SupervisionEvent::ActorTerminated(who, _, _) => st.events.lock().unwrap().push(who.get_id()),
            SupervisionEvent::ActorFailed(who, _) => st.events.lock().unwrap().push(who.get_id()),
            _ => {}
        }
        Ok(())
    }
}

fn helper_shared(ps_open: bool) -> Arc<HelperShared> {
    Arc::new(HelperShared { events: Mutex::new(Vec::new()), h_gate: Gate::new(false), ps_gate: Gate::new(ps_open) })
}

// ---- the actor under test ----
enum AMsg {
    Cast,
    Call(RpcReplyPort<u8>),
}
impl ractor::Message for AMsg {}

#[derive(Clone, PartialEq)]
enum Eff {
    Gate,
    Join(u8),
    Mon(u8),
    Link,
    Adopt,
    Send,
}

struct Shared {
    idx: String,
    script: Vec<Eff>,
    fin: String,
    gates: Vec<Gate>,
    never: Gate,
    cell: Mutex<Option<ActorCell>>,
    ran: AtomicUsize,
    q: Mutex<Option<ActorCell>>,
    kids: Mutex<Vec<ActorCell>>,
}

fn group(idx: &str, g: u8) -> String {
    format!("c08-g{g}-{idx}")
}

#[derive(Default)]
struct A;
impl Actor for A {
    type Msg = AMsg;
    type State = Arc<Shared>;
    type Arguments = Arc<Shared>;
    // written as a plain fn returning a future: with fin = "bpanic" it panics WHILE BUILDING the future, i.e.
    // outside do_pre_start's catch_unwind, so the panic unwinds through the start future itself
    #[allow(refining_impl_trait)]
    fn pre_start(
        &self,
        myself: ActorRef<AMsg>,
        sh: Arc<Shared>,
    ) -> impl std::future::Future<Output = Result<Arc<Shared>, ActorProcessingErr>> + Send {
        if sh.fin == "bpanic" {
            *sh.cell.lock().unwrap() = Some(myself.get_cell());
            for e in sh.script.iter() {
                match e {
                    Eff::Join(k) => ractor::pg::join(group(&sh.idx, *k), vec![myself.get_cell()]),
                    Eff::Mon(k) => ractor::pg::monitor(group(&sh.idx, *k), myself.get_cell()),
                    Eff::Link => {
                        let q = sh.q.lock().unwrap().clone();
                        if let Some(q) = q {
                            myself.get_cell().link(q);
                        }
                    }
                    _ => {}
                }
            }
            panic!("pre_start panicked while building its future");
        }
        async move {
        *sh.cell.lock().unwrap() = Some(myself.get_cell());
        let mut g = 0;
        for e in sh.script.iter() {
            match e {
                Eff::Gate => {
                    sh.gates[g].wait().await;
                    g += 1;
                }
                Eff::Join(k) => ractor::pg::join(group(&sh.idx, *k), vec![myself.get_cell()]),
                Eff::Mon(k) => ractor::pg::monitor(group(&sh.idx, *k), myself.get_cell()),
                Eff::Link => {
                    let q = sh.q.lock().unwrap().clone();
                    if let Some(q) = q {
                        myself.get_cell().link(q);
                    }
                }
                Eff::Adopt => {
                    let hs = helper_shared(true);
                    if let Ok((k, _)) = Actor::spawn_linked(None, Helper, hs, myself.get_cell()).await {
                        sh.kids.lock().unwrap().push(k.get_cell());
                    }
                }
                Eff::Send => {
                    let q = sh.q.lock().unwrap().clone();
                    if let Some(q) = q {
                        let _ = q.send_message(HMsg::Block);
                    }
                }
            }
        }
        match sh.fin.as_str() {
            "ok" => Ok(sh),
            "err" => Err("pre_start error".into()),
            _ => panic!("pre_start panic"),
        }
            }
    }
    async fn post_start(&self, _: ActorRef<AMsg>, sh: &mut Arc<Shared>) -> Result<(), ActorProcessingErr> {
        sh.ran.fetch_add(1, Ordering::SeqCst);
        sh.never.wait().await;
        Ok(())
    }
    async fn handle(&self, _: ActorRef<AMsg>, m: AMsg, sh: &mut Arc<Shared>) -> Result<(), ActorProcessingErr> {
        sh.ran.fetch_add(1, Ordering::SeqCst);
        if let AMsg::Call(p) = m {
            let _ = p.send(1);
        }
        Ok(())
    }
    async fn post_stop(&self, _: ActorRef<AMsg>, sh: &mut Arc<Shared>) -> Result<(), ActorProcessingErr> {
        sh.ran.fetch_add(1, Ordering::SeqCst);
        Ok(())
    }
    async fn handle_supervisor_evt(
        &self,
        _: ActorRef<AMsg>,
        _: SupervisionEvent,
        sh: &mut Arc<Shared>,
    ) -> Result<(), ActorProcessingErr> {
        sh.ran.fetch_add(1, Ordering::SeqCst);
        Ok(())
    }
}

async fn settle() {
    tokio::time::sleep(Duration::from_nanos(1)).await;
}

// ---- thread-local machinery ----
/// FIFO fence through the spawner's request queue and local task queue
#[derive(Default)]
struct Fence;
impl ThreadLocalActor for Fence {
    type Msg = ();
    type State = ();
    type Arguments = ();
    async fn pre_start(&self, _: ActorRef<()>, _: ()) -> Result<(), ActorProcessingErr> {
        for _ in 0..8 {
            tokio::task::yield_now().await;
        }
        Ok(())
    }
}

/// Occupies the spawner thread (blocking on purpose) until released
#[derive(Default)]
struct Blocker;
impl Actor for Blocker {
    type Msg = ();
    type State = ();
    type Arguments = (std::sync::mpsc::Sender<()>, std::sync::mpsc::Receiver<()>);
    async fn pre_start(&self, _: ActorRef<()>, (entered, release): Self::Arguments) -> Result<(), ActorProcessingErr> {
        let _ = entered.send(());
        let _ = release.recv();
        Ok(())
    }
}

static DEADLINE_MS: std::sync::atomic::AtomicU64 = std::sync::atomic::AtomicU64::new(u64::MAX);
fn now_ms() -> u64 {
    static START: std::sync::OnceLock<std::time::Instant> = std::sync::OnceLock::new();
    START.get_or_init(std::time::Instant::now).elapsed().as_millis() as u64
}
fn arm_watchdog(ms: u64) {
    DEADLINE_MS.store(now_ms() + ms, Ordering::SeqCst);
}
fn start_watchdog() {
    now_ms();
    std::thread::spawn(|| loop {
        std::thread::sleep(Duration::from_millis(50));
        if now_ms() > DEADLINE_MS.load(Ordering::SeqCst) {
            eprintln!("eng_spawn: bounded wait expired (infrastructure failure, no verdict)");
            std::process::exit(2);
        }
    });
}

async fn fence(spawner: &ThreadLocalActorSpawner) {
    match Fence::spawn(None, (), spawner.clone()).await {
        Ok((r, h)) => {
            r.stop(None);
            let _ = h.await;
        }
        Err(e) => {
            eprintln!("eng_spawn: fence could not be spawned: {e:?}");
            std::process::exit(2);
        }
    }
}

/// quiescence of main runtime + spawner thread: alternate main barriers and spawner fences
async fn settle_all(w: &World) {
    match &w.spawner {
        Some(sp) if w.release.is_none() => {
            for _ in 0..3 {
                settle().await;
                fence(sp).await;
            }
            settle().await;
        }
        _ => settle().await,
    }
}

struct World {
    sh: Arc<Shared>,
    name: Option<String>,
    p: Option<(ActorCell, Arc<HelperShared>)>,
    q: (ActorCell, Arc<HelperShared>),
    holder: Option<ActorCell>,
    reuser: Option<ActorCell>,
    calls_issued: Arc<AtomicUsize>,
    calls_done: Arc<AtomicUsize>,
    waits_issued: Arc<AtomicUsize>,
    waits_done: Arc<AtomicUsize>,
    res: Arc<Mutex<Option<bool>>>,
    starter: Option<AbortHandle>,
    existed: bool,
    spawner: Option<ThreadLocalActorSpawner>,
    release: Option<std::sync::mpsc::Sender<()>>, // Some = the spawner thread is blocked
    blocker: Option<ActorCell>,
}

fn observe(w: &mut World) -> String {
    // a thread-local spawn whose request is still queued has a cell the driver never received: the
    // registry is the only public way to it
    if w.sh.cell.lock().unwrap().is_none() {
        if let Some(c) = w.name.as_ref().and_then(|n| ractor::registry::where_is(n.clone())) {
            let other = |o: &Option<ActorCell>| o.as_ref().is_some_and(|x| x.get_id() == c.get_id());
            if !other(&w.holder) && !other(&w.reuser) {
                *w.sh.cell.lock().unwrap() = Some(c);
            }
        }
    }
    let cell = w.sh.cell.lock().unwrap().clone();
    if cell.is_some() {
        w.existed = true;
    }
    let b = coq_bool;
    let aid = cell.as_ref().map(|c| c.get_id());
    let status = cell.as_ref().map(|c| c.get_status() as u8).unwrap_or(0);
    let released = w.waits_done.load(Ordering::SeqCst) == w.waits_issued.load(Ordering::SeqCst);
    let holder_like = |c: &ActorCell| Some(c.get_id()) != aid;
    let by_name = w.name.as_ref().and_then(|n| ractor::registry::where_is(n.clone()));
    let name_mine = by_name.as_ref().is_some_and(|c| Some(c.get_id()) == aid);
    let holder_ok = by_name
        .as_ref()
        .is_some_and(|c| holder_like(c) && c.get_status() == ractor::ActorStatus::Running);
    let pid_mine = aid.is_some_and(|id| ractor::registry::where_is_pid(id).is_some());
    let mut groups = 0;
    let mut mons = 0;
    if let Some(id) = aid {
        for g in [1u8, 2u8, 3u8] {
            if ractor::pg::get_members(&group(&w.sh.idx, g)).iter().any(|m| m.get_id() == id) {
                groups += 1;
            }
        }
        let snap = ractor::pg::verif::snapshot();
        for (_, _, _, listeners) in snap.map.iter() {
            if listeners.contains(&id) {
                mons += 1;
            }
        }
    }
    let mut in_sup = false;
    let mut events = 0;
    let mut sups: Vec<&(ActorCell, Arc<HelperShared>)> = vec![&w.q];
    if let Some(p) = &w.p {
        sups.push(p);
    }
    for (c, hs) in sups {
        if let Some(id) = aid {
            if c.get_children().iter().any(|k| k.get_id() == id) {
                in_sup = true;
            }
            events += hs.events.lock().unwrap().iter().filter(|e| **e == id).count();
        }
    }
    let has_sup = cell.as_ref().is_some_and(|c| c.try_get_supervisor().is_some());
    let children = cell.as_ref().map(|c| c.get_children().len()).unwrap_or(0);
    let ran = w.sh.ran.load(Ordering::SeqCst);
    let open = w.calls_issued.load(Ordering::SeqCst) - w.calls_done.load(Ordering::SeqCst);
    // probe without leaving a reply port behind; a cast that is accepted is simply dropped later
    let accepted = cell.as_ref().is_some_and(|c| c.send_message(AMsg::Cast).is_ok());
    let orphans = w
        .sh
        .kids
        .lock()
        .unwrap()
        .iter()
        .filter(|k| k.get_status() != ractor::ActorStatus::Stopped && k.try_get_supervisor().map(|s| Some(s.get_id())) != Some(aid))
        .count();
    format!(
        "(mkObs {} {} {} {} {} {} {} {} {} {} {} {} {} {} {})",
        status,
        b(released),
        b(name_mine),
        b(pid_mine),
        groups,
        mons,
        b(in_sup),
        b(has_sup),
        children,
        events,
        ran,
        open,
        b(accepted),
        b(holder_ok),
        orphans
    )
}

async fn run_scenario(line: &str) -> String {
    let parts: Vec<&str> = line.split('|').collect();
    let head: Vec<&str> = parts[0].split_whitespace().collect();
    let (idx, kind, named, holder, sup) = (head[0].to_string(), head[1], head[2] == "1", head[3] == "1", head[4]);
    let mut script = Vec::new();
    let mut fin = "ok".to_string();
    for t in parts[1].split_whitespace() {
        match t {
            "g" => script.push(Eff::Gate),
            "j1" => script.push(Eff::Join(1)),
            "j2" => script.push(Eff::Join(2)),
            "m1" => script.push(Eff::Mon(1)),
            "m2" => script.push(Eff::Mon(2)),
            "l" => script.push(Eff::Link),
            "a" => script.push(Eff::Adopt),
            "s" => script.push(Eff::Send),
            f => fin = f.to_string(),
        }
    }
    let ngates = script.iter().filter(|e| **e == Eff::Gate).count();
    let sh = Arc::new(Shared {
        idx: idx.clone(),
        script,
        fin,
        gates: (0..ngates).map(|_| Gate::new(false)).collect(),
        never: Gate::new(false),
        cell: Mutex::new(None),
        ran: AtomicUsize::new(0),
        q: Mutex::new(None),
        kids: Mutex::new(Vec::new()),
    });
    // set-up: Q, P in the requested state, the holder of the name
    let qs = helper_shared(true);
    let (qref, _) = Actor::spawn(None, Helper, qs.clone()).await.expect("Q");
    *sh.q.lock().unwrap() = Some(qref.get_cell());
    let name = if named { Some(format!("c08-name-{idx}")) } else { None };
    let mut p = None;
    if sup != "none" {
        let ps = helper_shared(false);
        let (pref, _) = Actor::spawn(None, Helper, ps.clone()).await.expect("P");
        settle().await;
        match sup {
            "draining" => {
                let _ = pref.send_message(HMsg::Block);
                settle().await;
                let _ = pref.drain();
            }
            "stopping" => pref.stop(None),
            "dead" => pref.kill(),
            _ => {}
        }
        p = Some((pref.get_cell(), ps));
    }
    let mut holder_cell = None;
    if holder {
        let hs = helper_shared(true);
        let (h, _) = Actor::spawn(name.clone(), Helper, hs).await.expect("holder");
        holder_cell = Some(h.get_cell());
    }
    settle().await;
    let mut w = World {
        sh: sh.clone(),
        name: name.clone(),
        p,
        q: (qref.get_cell(), qs),
        holder: holder_cell,
        reuser: None,
        calls_issued: Arc::new(AtomicUsize::new(0)),
        calls_done: Arc::new(AtomicUsize::new(0)),
        waits_issued: Arc::new(AtomicUsize::new(0)),
        waits_done: Arc::new(AtomicUsize::new(0)),
        res: Arc::new(Mutex::new(None)),
        starter: None,
        existed: false,
        spawner: if (4..=7).contains(&kind.parse::<u8>().unwrap_or(0)) { Some(ThreadLocalActorSpawner::new()) } else { None },
        release: None,
        blocker: None,
    };
    arm_watchdog(60_000);
    let mut obs: Vec<String> = Vec::new();
    let mut next_gate = 0;
    for op in parts[2].split(';') {
        let op = op.trim();
        if op.is_empty() {
            continue;
        }
        let cell = w.sh.cell.lock().unwrap().clone();
        match op {
            "spawn" => {
                let supc = w.p.as_ref().map(|(c, _)| c.clone());
                let res = w.res.clone();
                match kind {
                    "4" | "5" => {
                        let sh2 = sh.clone();
                        let nm = name.clone();
                        let linked = kind == "5";
                        let sp = w.spawner.clone().expect("spawner");
                        let h = tokio::spawn(async move {
                            let r = if linked {
                                supc.expect("sup").spawn_local_linked::<A>(nm, sh2, sp).await
                            } else if nm.is_none() {
                                ractor::spawn_local::<A>(sh2, sp).await
                            } else {
                                <A as ThreadLocalActor>::spawn(nm, sh2, sp).await
                            };
                            *res.lock().unwrap() = Some(r.is_ok());
                        });
                        w.starter = Some(h.abort_handle());
                    }
                    "6" | "7" => {
                        let sp = w.spawner.clone().expect("spawner");
                        let r = if kind == "7" {
                            <A as ThreadLocalActor>::spawn_linked_instant(name.clone(), sh.clone(), supc.expect("sup"), sp)
                        } else {
                            <A as ThreadLocalActor>::spawn_instant(name.clone(), sh.clone(), sp)
                        };
                        match r {
                            Ok((aref, outer)) => {
                                *sh.cell.lock().unwrap() = Some(aref.get_cell());
                                w.starter = Some(outer.abort_handle());
                                tokio::spawn(async move {
                                    let ok = matches!(outer.await, Ok(Ok(_)));
                                    *res.lock().unwrap() = Some(ok);
                                });
                            }
                            Err(_) => *res.lock().unwrap() = Some(false),
                        }
                    }
                    "10" => {
                        // a REMOTE id: the cell carries the name but is never enrolled in the registries
                        let sh2 = sh.clone();
                        let nm = name.clone();
                        let h = tokio::spawn(async move {
                            let r = ractor::ActorRuntime::<A>::spawn_linked_remote(
                                nm,
                                A,
                                ActorId::Remote { node_id: 7, pid: 4242 },
                                sh2,
                                supc.expect("sup"),
                            )
                            .await;
                            *res.lock().unwrap() = Some(r.is_ok());
                        });
                        w.starter = Some(h.abort_handle());
                    }
                    "9" => {
                        // spawn_linked_remote refuses a local id before anything is created
                        let sh2 = sh.clone();
                        let nm = name.clone();
                        let h = tokio::spawn(async move {
                            let r = ractor::ActorRuntime::<A>::spawn_linked_remote(
                                nm,
                                A,
                                ActorId::Local(4_000_000_000),
                                sh2,
                                supc.expect("sup"),
                            )
                            .await;
                            *res.lock().unwrap() = Some(r.is_ok());
                        });
                        w.starter = Some(h.abort_handle());
                    }
                    "0" | "1" | "8" => {
                        let sh2 = sh.clone();
                        let nm = name.clone();
                        let linked = kind == "1";
                        let via_cell = kind == "8";
                        let h = tokio::spawn(async move {
                            let r = if via_cell {
                                supc.expect("sup").spawn_linked(nm, A, sh2).await
                            } else if linked {
                                Actor::spawn_linked(nm, A, sh2, supc.expect("sup")).await
                            } else {
                                Actor::spawn(nm, A, sh2).await
                            };
                            *res.lock().unwrap() = Some(r.is_ok());
                        });
                        w.starter = Some(h.abort_handle());
                    }
                    _ => {
                        let r = if kind == "3" {
                            ractor::ActorRuntime::<A>::spawn_linked_instant(name.clone(), A, sh.clone(), supc.expect("sup"))
                        } else {
                            ractor::ActorRuntime::<A>::spawn_instant(name.clone(), A, sh.clone())
                        };
                        match r {
                            Ok((aref, outer)) => {
                                *sh.cell.lock().unwrap() = Some(aref.get_cell());
                                w.starter = Some(outer.abort_handle());
                                tokio::spawn(async move {
                                    let ok = matches!(outer.await, Ok(Ok(_)));
                                    *res.lock().unwrap() = Some(ok);
                                });
                            }
                            Err(_) => *res.lock().unwrap() = Some(false),
                        }
                    }
                }
            }
            "open" => {
                if next_gate < sh.gates.len() {
                    sh.gates[next_gate].open();
                    next_gate += 1;
                }
            }
            "kill" => {
                if let Some(c) = &cell {
                    c.kill();
                }
            }
            "drain" => {
                if let Some(c) = &cell {
                    let _ = c.drain();
                }
            }
            "abort" => {
                if let Some(h) = &w.starter {
                    h.abort();
                }
            }
            "cast" => {
                if let Some(c) = &cell {
                    let _ = c.send_message(AMsg::Cast);
                }
            }
            "call" => {
                if let Some(c) = cell.clone() {
                    w.calls_issued.fetch_add(1, Ordering::SeqCst);
                    let done = w.calls_done.clone();
                    tokio::spawn(async move {
                        let _ = ractor::rpc::call(&c, AMsg::Call, None).await;
                        done.fetch_add(1, Ordering::SeqCst);
                    });
                }
            }
            "wait" => {
                if let Some(c) = cell.clone() {
                    w.waits_issued.fetch_add(1, Ordering::SeqCst);
                    let done = w.waits_done.clone();
                    tokio::spawn(async move {
                        let _ = c.wait(None).await;
                        done.fetch_add(1, Ordering::SeqCst);
                    });
                }
            }
            "supkill" => {
                if let Some((c, _)) = &w.p {
                    c.kill();
                }
            }
            "supstop" => {
                if let Some((c, _)) = &w.p {
                    c.stop(None);
                }
            }
            "extjoin1" | "extjoin2" | "extjoin3" => {
                if let Some(c) = cell.clone() {
                    let g = op.as_bytes()[7] - b'0';
                    ractor::pg::join(group(&idx, g), vec![c]);
                }
            }
            "extmon1" | "extmon2" => {
                if let Some(c) = cell.clone() {
                    let g = op.as_bytes()[6] - b'0';
                    ractor::pg::monitor(group(&idx, g), c);
                }
            }
            "extlink" => {
                if let Some(c) = &cell {
                    c.link(w.q.0.clone());
                }
            }
            "reuse" => {
                if w.reuser.is_none() {
                    let hs = helper_shared(true);
                    if let Ok((h, _)) = Actor::spawn(name.clone(), Helper, hs).await {
                        w.reuser = Some(h.get_cell());
                    }
                }
            }
            "block" => {
                let sp = w.spawner.clone().expect("spawner");
                let (etx, erx) = std::sync::mpsc::channel();
                let (rtx, rrx) = std::sync::mpsc::channel();
                let (b, _) = <Blocker as ThreadLocalActor>::spawn_instant(None, (etx, rrx), sp).expect("blocker");
                w.blocker = Some(b.get_cell());
                // bounded by the watchdog: the blocker must reach its pre_start
                loop {
                    settle().await;
                    if erx.try_recv().is_ok() {
                        break;
                    }
                    std::thread::sleep(Duration::from_millis(1));
                }
                w.release = Some(rtx);
            }
            "release" => {
                if let Some(tx) = w.release.take() {
                    let _ = tx.send(());
                }
            }
            "settle" => {
                settle_all(&w).await;
                obs.push(observe(&mut w));
            }
            other => panic!("unknown op {other:?}"),
        }
    }
    let res = match *w.res.lock().unwrap() {
        Some(true) => "Some true",
        Some(false) => "Some false",
        None => "None",
    };
    let out = format!("({}, {}, {})", coq_list(&obs), res, coq_bool(w.existed));
    // leave nothing behind for the next scenario
    if let Some(tx) = w.release.take() {
        let _ = tx.send(());
    }
    for g in &sh.gates {
        g.open();
    }
    sh.never.open();
    let mut all: Vec<ActorCell> = vec![w.q.0.clone()];
    all.extend(w.p.iter().map(|(c, _)| c.clone()));
    all.extend(w.holder.iter().cloned());
    all.extend(w.reuser.iter().cloned());
    all.extend(sh.cell.lock().unwrap().iter().cloned());
    all.extend(sh.kids.lock().unwrap().iter().cloned());
    if let Some((_, hs)) = &w.p {
        hs.ps_gate.open();
        hs.h_gate.open();
    }
    all.extend(w.blocker.iter().cloned());
    for c in all {
        c.kill();
    }
    settle_all(&w).await;
    arm_watchdog(u64::MAX / 4);
    out
}

fn main() {
    std::panic::set_hook(Box::new(|_| {}));
    start_watchdog();
    for line in stdin_lines() {
        let rt = tokio::runtime::Builder::new_current_thread()
            .enable_time()
            .start_paused(true)
            .build()
            .expect("runtime");
        let out = rt.block_on(run_scenario(&line));
        println!("{out}");
    }
}
