//! E1 for C11: drives the REAL `ractor::pg` functions and real actor exits on a deterministic
//! runtime (tokio current_thread, paused clock; `sleep(1ns)` is an exact quiescence barrier).
//!
//! stdin, one case per line:
//!   seq <op>;<op>;...
//!     j <s> <g> <a,a,..|->     pg::join_scoped        l <s> <g> <a,a,..|->   pg::leave_scoped
//!     m <g> <a>                pg::monitor            d <g> <a>              pg::demonitor
//!     ms <s> <a>               pg::monitor_scope      ds <s> <a>             pg::demonitor_scope
//!     x <a>  stop + wait       k <a>  kill + wait
//!   scopes: 0 = ALL_SCOPES_NOTIFICATION, 1 = DEFAULT_SCOPE, n>=2 = a scope private to the case;
//!   groups: private to the case; actors: 1..4 local ids, 5 a thread-local actor (member only), 101.. remote ids
//!   (spawn_linked_remote).
//!   Every actor logs the `SupervisionEvent::ProcessGroupChanged` it handles.
//!   race <setup ops> | <step> | <step> ...      (E2-lite: real micro-interleavings via pg::verif::point)
//!     start <T> <op> [@<point>]   run <op> on a new OS thread named T; with @point: wait until T is parked
//!                                 at the first hit of that hook point (or finished); without: wait for its end.
//!                                 Here `x <a>` = pg::verif::publish_stopping (the exit path of set_status).
//!     go <T>                      release T and wait until it finishes
//!     stop <a>                    real `stop` of actor a on the runtime + await its join handle (wait() returned)
//!   output: [view after setup; (per `stop`: view before it, view after wait() returned;) view at the end];
//!   each view carries the events handled since the previous one
//! stdout: one Coq term per case: a list of `mkView ...` (one per op), see coq/Pg/Model.v.
//!
//! pg state is process-global: every case uses fresh actors and fresh scope/group names and
//! stops all its actors at the end; names foreign to the case are printed as 999.
use std::collections::HashMap;
use std::sync::{Arc, Mutex};

use ractor::pg;
use ractor::thread_local::{ThreadLocalActor, ThreadLocalActorSpawner};
use ractor::{Actor, ActorCell, ActorId, ActorProcessingErr, ActorRef, ActorRuntime, SupervisionEvent};
use rv_harness::*;

pub struct Msg;
impl ractor::Message for Msg {}

#[derive(Clone, Debug)]
struct Logged {
    to: u64,
    join: bool,
    scope: String,
    group: String,
    actors: Vec<ActorId>,
}

type Log = Arc<Mutex<Vec<Logged>>>;

#[derive(Default)]
struct Logger;
impl Actor for Logger {
    type Msg = Msg;
    type State = (u64, Log);
    type Arguments = (u64, Log);
    async fn pre_start(&self, _: ActorRef<Msg>, a: (u64, Log)) -> Result<(u64, Log), ActorProcessingErr> {
        Ok(a)
    }
    async fn handle_supervisor_evt(
        &self,
        _: ActorRef<Msg>,
        evt: SupervisionEvent,
        st: &mut (u64, Log),
    ) -> Result<(), ActorProcessingErr> {
        if let SupervisionEvent::ProcessGroupChanged(change) = evt {
            // the accessor functions of the message must agree with its fields
            let (gs, gg) = (change.get_scope(), change.get_group());
            let (join, scope, group, cells) = match change {
                pg::GroupChangeMessage::Join(s, g, c) => (true, s, g, c),
                pg::GroupChangeMessage::Leave(s, g, c) => (false, s, g, c),
            };
            let (scope, group) = if gs == scope && gg == group { (scope, group) } else { ("?".to_string(), "?".to_string()) };
            st.1.lock().unwrap().push(Logged {
                to: st.0,
                join,
                scope,
                group,
                actors: cells.iter().map(|c| c.get_id()).collect(),
            });
        }
        // a supervisor must not stop when a linked child (remote-id actor) terminates
        Ok(())
    }
}

struct Root;
impl Actor for Root {
    type Msg = Msg;
    type State = ();
    type Arguments = ();
    async fn pre_start(&self, _: ActorRef<Msg>, _: ()) -> Result<(), ActorProcessingErr> {
        Ok(())
    }
    async fn handle_supervisor_evt(&self, _: ActorRef<Msg>, _: SupervisionEvent, _: &mut ()) -> Result<(), ActorProcessingErr> {
        Ok(())
    }
}

const SCOPES: [u64; 3] = [1, 2, 3];
const GROUPS: [u64; 3] = [1, 2, 3];
const LOCALS: [u64; 4] = [1, 2, 3, 4];
/// a thread-local actor (`ThreadLocalActor::spawn`: its lifecycle, incl. the exit clean-up, runs on the
/// spawner's OS thread); used as a member only — its own event log would not be settled by the paused clock
const TLS: [u64; 1] = [5];
const REMOTES: [u64; 2] = [101, 102];

#[derive(Clone)]
struct Case {
    tag: String,
    cells: HashMap<u64, ActorCell>,
    back: HashMap<ActorId, u64>,
}

impl Case {
    fn scope_name(&self, s: u64) -> String {
        match s {
            0 => pg::ALL_SCOPES_NOTIFICATION.to_owned(),
            1 => pg::DEFAULT_SCOPE.to_owned(),
            n => format!("{}_s{}", self.tag, n),
        }
    }
    fn group_name(&self, g: u64) -> String {
        format!("{}_g{}", self.tag, g)
    }
    fn scope_id(&self, s: &str) -> u64 {
        if s == pg::ALL_SCOPES_NOTIFICATION {
            return 0;
        }
        if s == pg::DEFAULT_SCOPE {
            return 1;
        }
        s.strip_prefix(&format!("{}_s", self.tag)).and_then(|n| n.parse().ok()).unwrap_or(999)
    }
    fn group_id(&self, g: &str) -> u64 {
        g.strip_prefix(&format!("{}_g", self.tag)).and_then(|n| n.parse().ok()).unwrap_or(999)
    }
    fn aid(&self, a: &ActorId) -> u64 {
        self.back.get(a).copied().unwrap_or(999)
    }
    fn aids<'a, I: IntoIterator<Item = &'a ActorId>>(&self, it: I, sort: bool) -> String {
        let mut v: Vec<u64> = it.into_iter().map(|a| self.aid(a)).collect();
        if sort {
            v.sort();
        }
        coq_nums(v)
    }
    fn key(&self, s: &str, g: &str) -> String {
        format!("({}, {})", self.scope_id(s), self.group_id(g))
    }
}

fn u(s: &str) -> u64 {
    s.parse().unwrap_or_else(|_| panic!("bad number {s:?}"))
}

fn parse_actors(c: &Case, s: &str) -> Vec<ActorCell> {
    if s == "-" {
        return vec![];
    }
    s.split(',').map(|a| c.cells[&u(a)].clone()).collect()
}

fn view(c: &Case, events: &[Logged]) -> String {
    let mut members = vec![];
    let mut locals = vec![];
    for s in SCOPES {
        for g in GROUPS {
            let (sn, gn) = (c.scope_name(s), c.group_name(g));
            let m: Vec<ActorId> = pg::get_scoped_members(&sn, &gn).iter().map(|x| x.get_id()).collect();
            let l: Vec<ActorId> = pg::get_scoped_local_members(&sn, &gn).iter().map(|x| x.get_id()).collect();
            if s == 1 {
                // the default-scope wrappers must agree with the scoped functions
                let m2: Vec<ActorId> = pg::get_members(&gn).iter().map(|x| x.get_id()).collect();
                let l2: Vec<ActorId> = pg::get_local_members(&gn).iter().map(|x| x.get_id()).collect();
                let mut a = (m.clone(), m2, l.clone(), l2);
                a.0.sort();
                a.1.sort();
                a.2.sort();
                a.3.sort();
                if a.0 != a.1 || a.2 != a.3 {
                    // make the disagreement visible as a foreign member
                    members.push(format!("(({s}, {g}), [999])"));
                    locals.push(format!("(({s}, {g}), [999])"));
                    continue;
                }
            }
            members.push(format!("(({s}, {g}), {})", c.aids(m.iter(), true)));
            locals.push(format!("(({s}, {g}), {})", c.aids(l.iter(), true)));
        }
    }
    let mut scoped = vec![];
    for s in SCOPES {
        let mut gs: Vec<u64> = pg::which_scoped_groups(&c.scope_name(s)).iter().map(|g| c.group_id(g)).collect();
        gs.sort();
        scoped.push(format!("({s}, {})", coq_nums(gs)));
    }
    let mut groups: Vec<u64> = pg::which_groups().iter().map(|g| c.group_id(g)).collect();
    groups.sort();
    let mut scopes: Vec<u64> = pg::which_scopes().iter().map(|s| c.scope_id(s)).collect();
    scopes.sort();
    let mut sg: Vec<(u64, u64)> =
        pg::which_scopes_and_groups().iter().map(|k| (c.scope_id(&k.get_scope()), c.group_id(&k.get_group()))).collect();
    sg.sort();
    let sg: Vec<String> = sg.iter().map(|(s, g)| format!("({s}, {g})")).collect();

    // the four indexes (cfg-only hook), restricted to the names of this case
    let snap = pg::verif::snapshot();
    let mut smap = vec![];
    for (s, g, mem, lis) in &snap.map {
        if c.group_id(g) == 999 || c.scope_id(s) == 999 {
            continue;
        }
        smap.push(format!("({}, ({}, {}))", c.key(s, g), c.aids(mem.iter(), true), c.aids(lis.iter(), true)));
    }
    let mut sindex = vec![];
    for (s, gs) in &snap.index {
        if c.scope_id(s) == 999 {
            continue;
        }
        let mut v: Vec<u64> = gs.iter().map(|g| c.group_id(g)).collect();
        v.sort();
        sindex.push(format!("({}, {})", c.scope_id(s), coq_nums(v)));
    }
    let mut sworld = vec![];
    for (s, ls) in &snap.world {
        if c.scope_id(s) == 999 {
            continue;
        }
        sworld.push(format!("({}, {})", c.scope_id(s), c.aids(ls.iter(), true)));
    }
    let mut srels = vec![];
    for (a, mem, gmon, wmon) in &snap.relations {
        if c.aid(a) == 999 {
            continue;
        }
        let ks = |v: &Vec<(String, String)>| coq_list(&v.iter().map(|(s, g)| c.key(s, g)).collect::<Vec<_>>());
        let mut w: Vec<u64> = wmon.iter().map(|s| c.scope_id(s)).collect();
        w.sort();
        srels.push(format!("({}, ({}, {}, {}))", c.aid(a), ks(mem), ks(gmon), coq_nums(w)));
    }
    let evs: Vec<String> = events
        .iter()
        .map(|e| {
            format!(
                "mkEv {} {} {} {} {}",
                e.to,
                coq_bool(e.join),
                c.scope_id(&e.scope),
                c.group_id(&e.group),
                c.aids(e.actors.iter(), false)
            )
        })
        .collect();
    format!(
        "mkView {} {} {} {} {} {} (mkSnap {} {} {} {}) {}",
        coq_list(&members),
        coq_list(&locals),
        coq_list(&scoped),
        coq_nums(groups),
        coq_nums(scopes),
        coq_list(&sg),
        coq_list(&smap),
        coq_list(&sindex),
        coq_list(&sworld),
        coq_list(&srels),
        coq_list(&evs)
    )
}

/// the synchronous pg operations (everything except real stop/kill)
fn do_sync_op(c: &Case, w: &[&str]) {
    match w[0] {
        "j" => {
            let acts = parse_actors(c, w[3]);
            if u(w[1]) == 1 && u(w[2]) % 2 == 1 {
                pg::join(c.group_name(u(w[2])), acts); // default-scope wrapper
            } else {
                pg::join_scoped(c.scope_name(u(w[1])), c.group_name(u(w[2])), acts);
            }
        }
        "l" => {
            let acts = parse_actors(c, w[3]);
            if u(w[1]) == 1 && u(w[2]) % 2 == 1 {
                pg::leave(c.group_name(u(w[2])), acts);
            } else {
                pg::leave_scoped(c.scope_name(u(w[1])), c.group_name(u(w[2])), acts);
            }
        }
        "m" => pg::monitor(c.group_name(u(w[1])), c.cells[&u(w[2])].clone()),
        "d" => pg::demonitor(c.group_name(u(w[1])), c.cells[&u(w[2])].get_id()),
        "ms" => pg::monitor_scope(c.scope_name(u(w[1])), c.cells[&u(w[2])].clone()),
        "ds" => pg::demonitor_scope(c.scope_name(u(w[1])), c.cells[&u(w[2])].get_id()),
        other => panic!("unknown op {other}"),
    }
}

async fn settle() {
    tokio::time::sleep(std::time::Duration::from_nanos(1)).await;
}

async fn run_seq(n: u64, line: &str, race: bool, spawner: &ThreadLocalActorSpawner) -> String {
    let (rest, steps) = if race { line.split_once('|').unwrap_or((line, "")) } else { (line, "") };
    let tag = format!("c{}x{}", std::process::id(), n);
    let log: Log = Arc::new(Mutex::new(vec![]));
    let (root, root_h) = Actor::spawn(None, Root, ()).await.unwrap();
    let mut c = Case { tag, cells: HashMap::new(), back: HashMap::new() };
    let mut handles = HashMap::new();
    for a in LOCALS {
        let (r, h) = Actor::spawn(None, Logger, (a, log.clone())).await.unwrap();
        c.back.insert(r.get_id(), a);
        c.cells.insert(a, r.get_cell());
        handles.insert(a, h);
    }
    for a in TLS {
        let (r, h) = <Logger as ThreadLocalActor>::spawn(None, (a, log.clone()), spawner.clone()).await.unwrap();
        assert!(r.get_id().is_local());
        c.back.insert(r.get_id(), a);
        c.cells.insert(a, r.get_cell());
        handles.insert(a, h);
    }
    for a in REMOTES {
        let id = ActorId::Remote { node_id: n + 1, pid: a };
        let (r, h) = ActorRuntime::spawn_linked_remote(None, Logger, id, (a, log.clone()), root.get_cell()).await.unwrap();
        assert!(!r.get_id().is_local());
        c.back.insert(r.get_id(), a);
        c.cells.insert(a, r.get_cell());
        handles.insert(a, h);
    }
    settle().await;
    let mut outs = vec![];
    for op in rest.split(';') {
        let w: Vec<&str> = op.split_whitespace().collect();
        if w.is_empty() {
            continue;
        }
        match w[0] {
            "x" | "k" => {
                let a = u(w[1]);
                if w[0] == "x" {
                    c.cells[&a].stop(None);
                } else {
                    c.cells[&a].kill();
                }
                if let Some(h) = handles.remove(&a) {
                    h.await.unwrap(); // wait() has returned
                }
            }
            _ => do_sync_op(&c, &w),
        }
        settle().await;
        let evs: Vec<Logged> = std::mem::take(&mut *log.lock().unwrap());
        outs.push(view(&c, &evs));
    }
    if race {
        if outs.is_empty() {
            outs.push(view(&c, &[]));
        }
        let first = outs.last().unwrap().clone();
        let mut mid = vec![];
        run_race(&c, steps, &mut handles, &log, &mut mid).await;
        settle().await;
        let evs: Vec<Logged> = std::mem::take(&mut *log.lock().unwrap());
        outs = vec![first];
        outs.extend(mid);
        outs.push(view(&c, &evs));
    }
    // end of case: stop everything, so that nothing of this case survives in the global state
    for cell in c.cells.values() {
        cell.stop(None);
    }
    for (_, h) in handles {
        h.await.unwrap();
    }
    root.stop(None);
    root_h.await.unwrap();
    settle().await;
    coq_list(&outs)
}

/// Controller for the hook points: a thread parks at the first hit of its point.
#[derive(Default)]
struct Ctl {
    park_at: Mutex<HashMap<String, String>>, // thread name -> point
    state: Mutex<HashMap<String, &'static str>>, // thread name -> "parked" | "go" | "done"
    cv: std::sync::Condvar,
}

async fn run_race(
    c: &Case,
    steps: &str,
    handles: &mut HashMap<u64, ractor::concurrency::JoinHandle<()>>,
    log: &Log,
    mid: &mut Vec<String>,
) {
    let ctl = Arc::new(Ctl::default());
    let hook_ctl = ctl.clone();
    pg::verif::set_point_hook(Some(Arc::new(move |name: &'static str| {
        let tn = std::thread::current().name().unwrap_or("").to_string();
        let hit = {
            let mut p = hook_ctl.park_at.lock().unwrap();
            if p.get(&tn).map(|x| x == name).unwrap_or(false) {
                p.remove(&tn);
                true
            } else {
                false
            }
        };
        if hit {
            let mut st = hook_ctl.state.lock().unwrap();
            st.insert(tn.clone(), "parked");
            hook_ctl.cv.notify_all();
            while st.get(&tn) != Some(&"go") {
                st = hook_ctl.cv.wait(st).unwrap();
            }
        }
    })));
    let mut threads: HashMap<String, std::thread::JoinHandle<()>> = HashMap::new();
    for step in steps.split('|') {
        let w: Vec<String> = step.split_whitespace().map(|x| x.to_string()).collect();
        if w.is_empty() {
            continue;
        }
        match w[0].as_str() {
            "start" => {
                let tn = w[1].clone();
                let (opw, point): (Vec<String>, Option<String>) = match w.last() {
                    Some(l) if l.starts_with('@') => (w[2..w.len() - 1].to_vec(), Some(l[1..].to_string())),
                    _ => (w[2..].to_vec(), None),
                };
                if let Some(p) = &point {
                    ctl.park_at.lock().unwrap().insert(tn.clone(), p.clone());
                }
                let cc = c.clone();
                let tctl = ctl.clone();
                let tn2 = tn.clone();
                let h = std::thread::Builder::new()
                    .name(tn.clone())
                    .spawn(move || {
                        let ws: Vec<&str> = opw.iter().map(|x| x.as_str()).collect();
                        if ws[0] == "x" {
                            pg::verif::publish_stopping(&cc.cells[&u(ws[1])]);
                        } else {
                            do_sync_op(&cc, &ws);
                        }
                        tctl.state.lock().unwrap().insert(tn2, "done");
                        tctl.cv.notify_all();
                    })
                    .unwrap();
                // wait until the thread is parked or done
                let mut st = ctl.state.lock().unwrap();
                while !matches!(st.get(&tn), Some(&"parked") | Some(&"done")) {
                    st = ctl.cv.wait(st).unwrap();
                }
                if point.is_none() {
                    assert_eq!(st.get(&tn), Some(&"done"));
                }
                drop(st);
                threads.insert(tn, h);
            }
            "go" => {
                let tn = w[1].clone();
                {
                    let mut st = ctl.state.lock().unwrap();
                    if st.get(&tn) == Some(&"parked") {
                        st.insert(tn.clone(), "go");
                        ctl.cv.notify_all();
                    }
                }
                if let Some(h) = threads.remove(&tn) {
                    h.join().unwrap();
                }
            }
            "stop" => {
                // the REAL exit of the actor on the runtime: stop, wait() returned, monitors settled
                // two extra views: just before the stop (events so far) and right after wait() returned
                // (events of the exit only)
                let a = u(&w[1]);
                settle().await;
                let evs: Vec<Logged> = std::mem::take(&mut *log.lock().unwrap());
                mid.push(view(c, &evs));
                c.cells[&a].stop(None);
                if let Some(h) = handles.remove(&a) {
                    h.await.unwrap();
                }
                settle().await;
                let evs: Vec<Logged> = std::mem::take(&mut *log.lock().unwrap());
                mid.push(view(c, &evs));
            }
            other => panic!("unknown race step {other}"),
        }
    }
    for (_, h) in threads {
        h.join().unwrap();
    }
    pg::verif::set_point_hook(None);
}

fn main() {
    let rt = tokio::runtime::Builder::new_current_thread().enable_time().start_paused(true).build().unwrap();
    rt.block_on(async {
        let spawner = ThreadLocalActorSpawner::new();
        let mut n = 0u64;
        for line in stdin_lines() {
            n += 1;
            let (kind, rest) = line.split_once(' ').unwrap_or((&line, ""));
            match kind {
                "seq" => println!("{}", run_seq(n, rest, false, &spawner).await),
                "race" => println!("{}", run_seq(n, rest, true, &spawner).await),
                other => panic!("unknown case kind {other}"),
            }
        }
    });
}
