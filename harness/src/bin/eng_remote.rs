//! E3 for C20: drives the real `RemoteActor::handle_serialized` on a real `RemoteActorState`
//! (through the cfg-gated `ractor_cluster::remote_verif::VerifProxy`), no network.
//!
//! stdin, one case per line:
//!   proxy <pid> | <op> ; <op> ; ...     with ops
//!       cast <variant> <bytes>          bytes = comma separated, or `-` for none
//!       call <variant> <bytes> <port>   a call whose reply port is identified by <port>
//!       reply <tag> <bytes>             CallReply(tag, bytes) arrives
//!       drop <port>                     the caller abandons the call (receiver dropped)
//!       down                            the owning session stops
//! stdout: one Coq-syntax term per case: a list with one entry per cast/call/reply op
//!   (outs, (tag, pending, cursor))  with outs = [OSend t (mkMsg call v [bytes])] / [OResolve port [bytes]]
use std::collections::{BTreeMap, HashMap};
use std::sync::{Arc, Mutex};
use std::time::Duration;

use ractor::concurrency::OneshotReceiver;
use ractor::message::{BoxedDowncastErr, SerializedMessage};
use ractor::{Actor, ActorCell, ActorProcessingErr, ActorRef, ActorStatus, RpcReplyPort};
use ractor_cluster::node::node_session::verif_remote::{VFrame, VerifRemoteSession};
use ractor_cluster::remote_verif::{VerifProxy, VerifSent};
use rv_harness::*;

/// The code under test wedged the case: an observation (`stuck "<why>"`), not an infrastructure problem.
struct Stuck(String);
fn stuck(msg: &str) -> ! {
    std::panic::panic_any(Stuck(msg.to_string()))
}

fn u(s: &str) -> u64 {
    s.parse().unwrap_or_else(|_| panic!("bad number {s:?}"))
}

fn bytes(s: &str) -> Vec<u8> {
    if s == "-" {
        vec![]
    } else {
        s.split(',').map(|x| u(x) as u8).collect()
    }
}

fn coq_bytes(b: &[u8]) -> String {
    coq_nums(b.iter().map(|x| *x as u64))
}

async fn run_proxy(rest: &str) -> String {
    let (head, ops) = rest.split_once('|').expect("missing |");
    let pid = u(head.trim());
    let mut px = VerifProxy::new(pid, 3).await;
    let mut ports: BTreeMap<u64, OneshotReceiver<Vec<u8>>> = BTreeMap::new();
    let mut tag_port: BTreeMap<u64, u64> = BTreeMap::new();
    let mut outs: Vec<String> = Vec::new();
    for op in ops.split(';') {
        let w: Vec<&str> = op.split_whitespace().collect();
        if w.is_empty() {
            continue;
        }
        let mut call_port: Option<u64> = None;
        match w[0] {
            "drop" => {
                ports.remove(&u(w[1]));
                continue;
            }
            "down" => {
                px.stop_session().await;
                continue;
            }
            "cast" => {
                px.handle(SerializedMessage::Cast {
                    variant: w[1].to_string(),
                    args: bytes(w[2]),
                    metadata: None,
                })
                .await
                .expect("handler ok");
            }
            "call" => {
                let (tx, rx) = ractor::concurrency::oneshot::<Vec<u8>>();
                let port = u(w[3]);
                ports.insert(port, rx);
                call_port = Some(port);
                px.handle(SerializedMessage::Call {
                    variant: w[1].to_string(),
                    args: bytes(w[2]),
                    reply: tx.into(),
                    metadata: None,
                })
                .await
                .expect("handler ok");
            }
            "reply" => {
                px.handle(SerializedMessage::CallReply(u(w[1]), bytes(w[2])))
                    .await
                    .expect("handler ok");
            }
            other => panic!("unknown op {other}"),
        }
        let mut o: Vec<String> = Vec::new();
        for s in px.take_sent().await {
            match s {
                VerifSent::Cast { to, variant, what } => {
                    assert_eq!(to, pid);
                    o.push(format!("OSend 0 (mkMsg false {} {})", variant, coq_bytes(&what)));
                }
                VerifSent::Call { to, tag, variant, what, timeout_ms } => {
                    assert_eq!(to, pid);
                    assert_eq!(timeout_ms, None);
                    if let Some(p) = call_port {
                        tag_port.insert(tag, p);
                    }
                    o.push(format!("OSend {} (mkMsg true {} {})", tag, variant, coq_bytes(&what)));
                }
                VerifSent::Other => o.push("OOther".to_string()),
            }
        }
        // which ports got resolved by this step
        let mut done = vec![];
        for (p, rx) in ports.iter_mut() {
            match rx.try_recv() {
                Ok(d) => {
                    o.push(format!("OResolve {} {}", p, coq_bytes(&d)));
                    done.push(*p);
                }
                Err(tokio::sync::oneshot::error::TryRecvError::Closed) => done.push(*p),
                Err(_) => {}
            }
        }
        for p in done {
            ports.remove(&p);
        }
        let pend: Vec<String> = px
            .pending()
            .iter()
            .map(|t| format!("({}, {})", t, tag_port.get(t).copied().unwrap_or(u64::MAX)))
            .collect();
        let cur = match px.cursor() {
            Some(c) => format!("(Some {c})"),
            None => "None".to_string(),
        };
        outs.push(format!("({}, ({}, {}, {}))", coq_list(&o), px.tag(), coq_list(&pend), cur));
    }
    px.shutdown().await;
    coq_list(&outs)
}

// ---------------------------------------------------------------------------------------
// E3b: the real NodeSession handlers (node messages, control messages, lifecycle events)
//
//   sess <case-id> <xs: q,q,..|-> | <op> ; ...
//     local actors (index i):   spawn i | join i g | leave i g | exit i | hexit i (exit, lifecycle event held back)
//     frames arriving:          rcast i v bytes | rcall i tag v bytes          (i = 99: unknown pid)
//                               hrcast / hrcall: the same, and the NEXT frame is handled back to back
//                               fspawn q | fterm q | fjoin g q | fleave g q | freply q tag bytes
//     through remote references: send q v bytes | scall q v bytes port | drop port
//   one output per op: (mkU ok [wire] [dlv] [res] [px] [advertised])

/// A message type that keeps variant and argument bytes as they are.
enum RawMsg {
    Cast(String, Vec<u8>),
    Call(String, Vec<u8>, RpcReplyPort<Vec<u8>>),
}

impl ractor::Message for RawMsg {
    fn serializable() -> bool {
        true
    }
    fn serialize(self) -> Result<SerializedMessage, BoxedDowncastErr> {
        Ok(match self {
            RawMsg::Cast(variant, args) => SerializedMessage::Cast { variant, args, metadata: None },
            RawMsg::Call(variant, args, reply) => SerializedMessage::Call { variant, args, reply, metadata: None },
        })
    }
    fn deserialize(m: SerializedMessage) -> Result<Self, BoxedDowncastErr> {
        match m {
            SerializedMessage::Cast { variant, args, .. } => Ok(RawMsg::Cast(variant, args)),
            SerializedMessage::Call { variant, args, reply, .. } => Ok(RawMsg::Call(variant, args, reply)),
            SerializedMessage::CallReply(..) => Err(BoxedDowncastErr),
        }
    }
}

struct RawProbe {
    idx: u64,
    log: Arc<Mutex<Vec<String>>>,
    slot: Arc<Mutex<Option<ActorCell>>>,
    gate: Option<Arc<tokio::sync::Semaphore>>,
}

impl Actor for RawProbe {
    type Msg = RawMsg;
    type State = Vec<RpcReplyPort<Vec<u8>>>;
    type Arguments = ();
    async fn pre_start(&self, myself: ActorRef<RawMsg>, _: ()) -> Result<Self::State, ActorProcessingErr> {
        *self.slot.lock().unwrap() = Some(myself.get_cell());
        if let Some(g) = &self.gate {
            if let Ok(p) = g.acquire().await {
                p.forget();
            }
        }
        Ok(vec![])
    }
    async fn handle(&self, _: ActorRef<RawMsg>, m: RawMsg, held: &mut Self::State) -> Result<(), ActorProcessingErr> {
        match m {
            RawMsg::Cast(v, a) => {
                self.log.lock().unwrap().push(format!("({}, mkMsg false {} {})", self.idx, v, coq_bytes(&a)));
            }
            RawMsg::Call(v, a, reply) => {
                self.log.lock().unwrap().push(format!("({}, mkMsg true {} {})", self.idx, v, coq_bytes(&a)));
                let vn: u64 = v.parse().unwrap_or(1);
                if vn % 2 == 0 {
                    let mut d = vec![self.idx as u8];
                    d.extend_from_slice(&a);
                    let _ = reply.send(d);
                } else {
                    held.push(reply);
                }
            }
        }
        Ok(())
    }
}

const REMOTE_BASE: u64 = 1_000_000;

async fn run_sess(rest: &str) -> String {
    let (head, ops) = rest.split_once('|').expect("missing |");
    let hw: Vec<&str> = head.split_whitespace().collect();
    let case = u(hw[0]);
    let xs: Vec<u64> = if hw[1] == "-" { vec![] } else { hw[1].split(',').map(u).collect() };
    let gname = |g: u64| format!("u{case}g{g}");
    let scope = ractor::pg::DEFAULT_SCOPE.to_string();
    let mut sess = VerifRemoteSession::new(3).await;
    sess.sync();
    // remote pid of index q; q = 77 is special: a peer actor whose pid NUMBER equals the local pid of this
    // session's transport actor (possible whenever the peer is another process: pids are per-process counters)
    let tpid = sess.transport_pid();
    let rpid = move |q: u64| if q == 77 { tpid } else { REMOTE_BASE + q };
    let rshow = move |pid: u64| if pid == tpid { REMOTE_BASE + 77 } else { pid };
    let log: Arc<Mutex<Vec<String>>> = Arc::new(Mutex::new(Vec::new()));
    let mut probes: HashMap<u64, ActorCell> = HashMap::new();
    let mut pid_idx: HashMap<u64, u64> = HashMap::new();
    let mut handles: HashMap<u64, ActorCell> = HashMap::new(); // remote pid -> last seen proxy cell
    let mut ports: BTreeMap<u64, OneshotReceiver<Vec<u8>>> = BTreeMap::new();
    let mut groups_used: Vec<u64> = Vec::new();
    let mut gates: HashMap<u64, Arc<tokio::sync::Semaphore>> = HashMap::new();
    let mut outs: Vec<String> = Vec::new();
    // settle: let every task run, feed the queued events/messages to the real handlers, repeat
    async fn settle(sess: &mut VerifRemoteSession) {
        let mut quiet = 0;
        for _ in 0..200 {
            tokio::time::sleep(Duration::from_millis(1)).await;
            if sess.pump().await == 0 {
                quiet += 1;
                if quiet >= 2 {
                    return;
                }
            } else {
                quiet = 0;
            }
        }
        stuck("the session did not settle within 200 virtual ms")
    }
    settle(&mut sess).await;
    let _ = sess.take_sent(); // initial sync: Ready (nothing exists yet)
    let idx_of = |pid_idx: &HashMap<u64, u64>, pid: u64| pid_idx.get(&pid).copied().unwrap_or(pid);
    for op in ops.split(';') {
        let w: Vec<&str> = op.split_whitespace().collect();
        if w.is_empty() {
            continue;
        }
        let mut ok = true;
        let mut hold = false;
        let mut nosettle = false;
        let local_pid = |probes: &HashMap<u64, ActorCell>, i: u64| probes.get(&i).map(|c| c.get_id().pid()).unwrap_or(999_999);
        match w[0] {
            "spawn" => {
                let i = u(w[1]);
                let slot = Arc::new(Mutex::new(None));
                let (a, _) = Actor::spawn(None, RawProbe { idx: i, log: log.clone(), slot, gate: None }, ()).await.expect("probe");
                pid_idx.insert(a.get_id().pid(), i);
                probes.insert(i, a.get_cell());
            }
            "sspawn" => {
                // the actor exists and is announced, but stays in pre_start until `release i`
                let i = u(w[1]);
                let slot: Arc<Mutex<Option<ActorCell>>> = Arc::new(Mutex::new(None));
                let gate = Arc::new(tokio::sync::Semaphore::new(0));
                let probe = RawProbe { idx: i, log: log.clone(), slot: slot.clone(), gate: Some(gate.clone()) };
                tokio::spawn(async move {
                    let _ = Actor::spawn(None, probe, ()).await;
                });
                for _ in 0..100 {
                    if slot.lock().unwrap().is_some() {
                        break;
                    }
                    tokio::time::sleep(Duration::from_millis(1)).await;
                }
                let cell = slot.lock().unwrap().clone().unwrap_or_else(|| stuck("the gated probe never entered pre_start"));
                pid_idx.insert(cell.get_id().pid(), i);
                probes.insert(i, cell);
                gates.insert(i, gate);
            }
            "release" => {
                if let Some(g) = gates.get(&u(w[1])) {
                    g.add_permits(1);
                }
            }
            "join" | "leave" => {
                let (i, g) = (u(w[1]), u(w[2]));
                if !groups_used.contains(&g) {
                    groups_used.push(g);
                }
                if let Some(c) = probes.get(&i) {
                    if w[0] == "join" {
                        ractor::pg::join(gname(g), vec![c.clone()]);
                    } else {
                        ractor::pg::leave(gname(g), vec![c.clone()]);
                    }
                }
            }
            "exit" | "hexit" => {
                // hexit: the actor stops (it leaves the pid registry) but the session does not get to
                // its lifecycle event before the next operation: the interleaving "an inbound message
                // for the actor is handled between its unregistration and the Terminate event"
                if let Some(c) = probes.get(&u(w[1])) {
                    let _ = c.stop_and_wait(None, None).await;
                }
                hold = w[0] == "hexit";
            }
            "rcast" | "hrcast" | "grcast" => {
                // h...: the next frame is handled back to back (no task gets to run in between)
                nosettle = w[0] == "hrcast";
                let to = local_pid(&probes, u(w[1]));
                sess.receive(VFrame::Cast { to, variant: w[2].to_string(), what: bytes(w[3]) }).await;
            }
            "rcall" | "hrcall" | "grcall" => {
                nosettle = w[0] == "hrcall";
                let to = local_pid(&probes, u(w[1]));
                sess.receive(VFrame::Call { to, tag: u(w[2]), variant: w[3].to_string(), what: bytes(w[4]), timeout_ms: None })
                    .await;
            }
            "fspawn" => {
                sess.receive(VFrame::Spawn(vec![rpid(u(w[1]))])).await;
            }
            "fterm" => {
                sess.receive(VFrame::Terminate(vec![rpid(u(w[1]))])).await;
            }
            "fjoin" | "fleave" => {
                let (g, q) = (u(w[1]), rpid(u(w[2])));
                if !groups_used.contains(&g) {
                    groups_used.push(g);
                }
                let f = if w[0] == "fjoin" {
                    VFrame::PgJoin(scope.clone(), gname(g), vec![q])
                } else {
                    VFrame::PgLeave(scope.clone(), gname(g), vec![q])
                };
                sess.receive(f).await;
            }
            "freply" => {
                sess.receive(VFrame::Reply { to: rpid(u(w[1])), tag: u(w[2]), what: bytes(w[3]) }).await;
            }
            "send" | "scall" => {
                let q = rpid(u(w[1]));
                for (pid, cell) in sess.proxies() {
                    handles.insert(pid, cell);
                }
                ok = match handles.get(&q) {
                    None => false,
                    Some(cell) => {
                        let m = if w[0] == "send" {
                            SerializedMessage::Cast { variant: w[2].to_string(), args: bytes(w[3]), metadata: None }
                        } else {
                            let (tx, rx) = ractor::concurrency::oneshot::<Vec<u8>>();
                            ports.insert(u(w[4]), rx);
                            SerializedMessage::Call { variant: w[2].to_string(), args: bytes(w[3]), reply: tx.into(), metadata: None }
                        };
                        cell.send_serialized(m).is_ok()
                    }
                };
            }
            "drop" => {
                ports.remove(&u(w[1]));
            }
            other => panic!("unknown op {other}"),
        }
        if nosettle {
            // nothing: the following operation's frame is handled immediately after this one
        } else if hold {
            // let every task run, but leave the session's ports alone
            for _ in 0..3 {
                tokio::time::sleep(Duration::from_millis(1)).await;
            }
        } else {
            settle(&mut sess).await;
        }
        // wire
        let mut wire: Vec<String> = Vec::new();
        let gnum = |name: &str| -> u64 {
            name.strip_prefix(&format!("u{case}g")).and_then(|x| x.parse().ok()).unwrap_or(u64::MAX)
        };
        for f in sess.take_sent() {
            match f {
                VFrame::Cast { to, variant, what } => {
                    wire.push(format!("WMsg {} 0 (mkMsg false {} {})", rshow(idx_of(&pid_idx, to)), variant, coq_bytes(&what)))
                }
                VFrame::Call { to, tag, variant, what, .. } => {
                    wire.push(format!("WMsg {} {} (mkMsg true {} {})", rshow(idx_of(&pid_idx, to)), tag, variant, coq_bytes(&what)))
                }
                VFrame::Reply { to, tag, what } => wire.push(format!("WReply {} {} {}", idx_of(&pid_idx, to), tag, coq_bytes(&what))),
                VFrame::Spawn(p) => p.iter().for_each(|x| wire.push(format!("WSpawn {}", idx_of(&pid_idx, *x)))),
                VFrame::Terminate(p) => p.iter().for_each(|x| wire.push(format!("WTerm {}", idx_of(&pid_idx, *x)))),
                VFrame::PgJoin(sc, g, p) => {
                    assert_eq!(sc, scope);
                    p.iter().for_each(|x| wire.push(format!("WJoin {} {}", gnum(&g), idx_of(&pid_idx, *x))))
                }
                VFrame::PgLeave(sc, g, p) => {
                    assert_eq!(sc, scope);
                    p.iter().for_each(|x| wire.push(format!("WLeave {} {}", gnum(&g), idx_of(&pid_idx, *x))))
                }
                VFrame::Ready | VFrame::Other => wire.push("WOther".to_string()),
            }
        }
        let dlv: Vec<String> = std::mem::take(&mut *log.lock().unwrap());
        let mut res: Vec<String> = Vec::new();
        let mut done = vec![];
        for (p, rx) in ports.iter_mut() {
            match rx.try_recv() {
                Ok(d) => {
                    res.push(format!("({}, {})", p, coq_bytes(&d)));
                    done.push(*p);
                }
                Err(tokio::sync::oneshot::error::TryRecvError::Closed) => done.push(*p),
                Err(_) => {}
            }
        }
        for p in done {
            ports.remove(&p);
        }
        let live: HashMap<u64, ActorCell> = sess.proxies().into_iter().collect();
        let mut px: Vec<String> = Vec::new();
        for q in &xs {
            let pid = rpid(*q);
            let alive = live.get(&pid).map(|c| c.get_status() < ActorStatus::Stopping).unwrap_or(false);
            let mut gs: Vec<u64> = Vec::new();
            // membership is judged on the last handle seen for this pid (also after it stopped)
            let cell = live.get(&pid).or_else(|| handles.get(&pid));
            if let Some(c) = cell {
                for g in &groups_used {
                    if ractor::pg::get_members(&gname(*g)).iter().any(|m| m.get_id() == c.get_id()) {
                        gs.push(*g);
                    }
                }
            }
            gs.sort();
            px.push(format!("({}, {}, {})", rshow(pid), coq_bool(alive), coq_nums(gs)));
        }
        for (pid, cell) in live {
            handles.insert(pid, cell);
        }
        let mut adv: Vec<u64> = sess.advertised().into_iter().map(|p| idx_of(&pid_idx, p)).collect();
        adv.sort();
        outs.push(format!(
            "(mkU {} {} {} {} {} {})",
            coq_bool(ok),
            coq_list(&wire),
            coq_list(&dlv),
            coq_list(&res),
            coq_list(&px),
            coq_nums(adv)
        ));
    }
    for g in gates.values() {
        g.add_permits(1);
    }
    for c in probes.values() {
        let _ = c.stop_and_wait(None, None).await;
    }
    sess.shutdown().await;
    coq_list(&outs)
}

fn main() {
    let rt = tokio::runtime::Builder::new_current_thread().enable_all().build().unwrap();
    let lines = stdin_lines();
    let total = lines.len();
    for (n, line) in lines.into_iter().enumerate() {
        let (kind, rest) = line.split_once(' ').unwrap_or((&line, ""));
        let res = std::panic::catch_unwind(std::panic::AssertUnwindSafe(|| match kind {
            "proxy" => rt.block_on(run_proxy(rest)),
            "sess" => {
                let rtp = tokio::runtime::Builder::new_current_thread().enable_all().start_paused(true).build().unwrap();
                let out = rtp.block_on(run_sess(rest));
                drop(rtp);
                out
            }
            other => {
                eprintln!("eng_remote: unknown case kind {other}");
                std::process::exit(2)
            }
        }));
        match res {
            Ok(out) => println!("{out}"),
            Err(p) => {
                // the real handlers panicked or wedged: report it, do not evaluate the rest of the batch
                let why = p.downcast_ref::<Stuck>().map(|s| s.0.clone()).unwrap_or_else(|| "a handler panicked".to_string());
                println!("stuck \"{}\"", why.replace('"', "'"));
                for _ in n + 1..total {
                    println!("skipped");
                }
                std::process::exit(0);
            }
        }
    }
}
