//! E3 for C20: drives the real `RemoteActor::handle_serialized` on a real `RemoteActorState`
//! (through the cfg-gated `ractor_cluster::remote_verif::VerifProxy`), no network.
//!
//! stdin, one case per line:
//!   proxy <pid> | <op> ; <op> ; ...     with ops
//!       cast <variant> <bytes>          bytes = comma separated, or `-` for none
//!       call <variant> <bytes> <port>   a call whose reply port is identified by <port>
//!       reply <tag> <bytes>             CallReply(tag, bytes) arrives
//!       drop <port>                     the caller abandons the call (receiver dropped)
//!       down                            the owning session stops
//! stdout: one Coq-syntax term per case: a list with one entry per cast/call/reply op
//!   (outs, (tag, pending, cursor))  with outs = [OSend t (mkMsg call v [bytes])] / [OResolve port [bytes]]
use std::collections::BTreeMap;

use ractor::concurrency::OneshotReceiver;
use ractor::message::SerializedMessage;
use ractor_cluster::remote_verif::{VerifProxy, VerifSent};
use rv_harness::*;

fn u(s: &str) -> u64 {
    s.parse().unwrap_or_else(|_| panic!("bad number {s:?}"))
}

fn bytes(s: &str) -> Vec<u8> {
    if s == "-" {
        vec![]
    } else {
        s.split(',').map(|x| u(x) as u8).collect()
    }
}

fn coq_bytes(b: &[u8]) -> String {
    coq_nums(b.iter().map(|x| *x as u64))
}

async fn run_proxy(rest: &str) -> String {
    let (head, ops) = rest.split_once('|').expect("missing |");
    let pid = u(head.trim());
    let mut px = VerifProxy::new(pid, 3).await;
    let mut ports: BTreeMap<u64, OneshotReceiver<Vec<u8>>> = BTreeMap::new();
    let mut tag_port: BTreeMap<u64, u64> = BTreeMap::new();
    let mut outs: Vec<String> = Vec::new();
    for op in ops.split(';') {
        let w: Vec<&str> = op.split_whitespace().collect();
        if w.is_empty() {
            continue;
        }
        let mut call_port: Option<u64> = None;
        match w[0] {
            "drop" => {
                ports.remove(&u(w[1]));
                continue;
            }
            "down" => {
                px.stop_session().await;
                continue;
            }
            "cast" => {
                px.handle(SerializedMessage::Cast {
                    variant: w[1].to_string(),
                    args: bytes(w[2]),
                    metadata: None,
                })
                .await
                .expect("handler ok");
            }
            "call" => {
                let (tx, rx) = ractor::concurrency::oneshot::<Vec<u8>>();
                let port = u(w[3]);
                ports.insert(port, rx);
                call_port = Some(port);
                px.handle(SerializedMessage::Call {
                    variant: w[1].to_string(),
                    args: bytes(w[2]),
                    reply: tx.into(),
                    metadata: None,
                })
                .await
                .expect("handler ok");
            }
            "reply" => {
                px.handle(SerializedMessage::CallReply(u(w[1]), bytes(w[2])))
                    .await
                    .expect("handler ok");
            }
            other => panic!("unknown op {other}"),
        }
        let mut o: Vec<String> = Vec::new();
        for s in px.take_sent().await {
            match s {
                VerifSent::Cast { to, variant, what } => {
                    assert_eq!(to, pid);
                    o.push(format!("OSend 0 (mkMsg false {} {})", variant, coq_bytes(&what)));
                }
                VerifSent::Call { to, tag, variant, what, timeout_ms } => {
                    assert_eq!(to, pid);
                    assert_eq!(timeout_ms, None);
                    if let Some(p) = call_port {
                        tag_port.insert(tag, p);
                    }
                    o.push(format!("OSend {} (mkMsg true {} {})", tag, variant, coq_bytes(&what)));
                }
                VerifSent::Other => o.push("OOther".to_string()),
            }
        }
        // which ports got resolved by this step
        let mut done = vec![];
        for (p, rx) in ports.iter_mut() {
            match rx.try_recv() {
                Ok(d) => {
                    o.push(format!("OResolve {} {}", p, coq_bytes(&d)));
                    done.push(*p);
                }
                Err(tokio::sync::oneshot::error::TryRecvError::Closed) => done.push(*p),
                Err(_) => {}
            }
        }
        for p in done {
            ports.remove(&p);
        }
        let pend: Vec<String> = px
            .pending()
            .iter()
            .map(|t| format!("({}, {})", t, tag_port.get(t).copied().unwrap_or(u64::MAX)))
            .collect();
        let cur = match px.cursor() {
            Some(c) => format!("(Some {c})"),
            None => "None".to_string(),
        };
        outs.push(format!("({}, ({}, {}, {}))", coq_list(&o), px.tag(), coq_list(&pend), cur));
    }
    px.shutdown().await;
    coq_list(&outs)
}

fn main() {
    let rt = tokio::runtime::Builder::new_current_thread().enable_all().build().unwrap();
    for line in stdin_lines() {
        let (kind, rest) = line.split_once(' ').unwrap_or((&line, ""));
        let out = match kind {
            "proxy" => rt.block_on(run_proxy(rest)),
            other => panic!("unknown case kind {other}"),
        };
        println!("{out}");
    }
}
