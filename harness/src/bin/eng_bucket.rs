//! E3 for C15 (leaky bucket): drives the real `LeakyBucketRateLimiter` through its public
//! API (`builder`, `RateLimiter::check`, `RateLimiter::bump`, the public `balance` field) on
//! tokio's paused clock.  One fresh runtime (fresh virtual clock) per case.
//!
//! stdin, one case per line:
//!   bucket <refill> <ivl_secs>:<ivl_nanos> <max|-> <initial|-> ; <op> ; <op> ...
//!     op = a <secs>:<nanos>   advance the virtual clock
//!        | c                  check()
//!        | b                  bump()
//! stdout: one Coq term per case:  (<balance after new>, [OCheck true 3; OBump 2; OAdv 2; ...])
use std::time::Duration;

use ractor::factory::ratelim::{LeakyBucketRateLimiter, RateLimiter};
use rv_harness::*;

fn dur(s: &str) -> Duration {
    let (a, b) = s.split_once(':').unwrap_or_else(|| panic!("bad duration {s:?}"));
    Duration::new(a.parse().expect("secs"), b.parse().expect("nanos"))
}

fn opt_usize(s: &str) -> Option<usize> {
    if s == "-" {
        None
    } else {
        Some(s.parse().expect("usize"))
    }
}

fn run_case(rest: &str) -> String {
    let mut parts = rest.split(';');
    let head: Vec<&str> = parts.next().unwrap().split_whitespace().collect();
    let refill: usize = head[0].parse().expect("refill");
    let interval = dur(head[1]);
    let max = opt_usize(head[2]);
    let initial = opt_usize(head[3]);
    let ops: Vec<Vec<String>> = parts
        .map(|o| o.split_whitespace().map(|w| w.to_string()).collect::<Vec<_>>())
        .filter(|o| !o.is_empty())
        .collect();

    let rt = tokio::runtime::Builder::new_current_thread()
        .enable_time()
        .start_paused(true)
        .build()
        .expect("runtime");
    rt.block_on(async move {
        // the four builder shapes (max / initial each optional) go through the real defaults
        let mut lim = match (max, initial) {
            (Some(m), Some(i)) => LeakyBucketRateLimiter::builder()
                .refill(refill)
                .interval(interval)
                .max(m)
                .initial(i)
                .build(),
            (Some(m), None) => LeakyBucketRateLimiter::builder()
                .refill(refill)
                .interval(interval)
                .max(m)
                .build(),
            (None, Some(i)) => LeakyBucketRateLimiter::builder()
                .refill(refill)
                .interval(interval)
                .initial(i)
                .build(),
            (None, None) => LeakyBucketRateLimiter::builder()
                .refill(refill)
                .interval(interval)
                .build(),
        };
        let b0 = lim.balance;
        let mut outs: Vec<String> = Vec::with_capacity(ops.len());
        for o in &ops {
            match o[0].as_str() {
                "a" => {
                    tokio::time::advance(dur(&o[1])).await;
                    outs.push(format!("OAdv {}", lim.balance));
                }
                "c" => {
                    let ok = lim.check();
                    outs.push(format!("OCheck {} {}", coq_bool(ok), lim.balance));
                }
                "b" => {
                    lim.bump();
                    outs.push(format!("OBump {}", lim.balance));
                }
                other => panic!("unknown op {other}"),
            }
        }
        format!("({}, {})", b0, coq_list(&outs))
    })
}

fn main() {
    for line in stdin_lines() {
        let (kind, rest) = line.split_once(' ').unwrap_or((&line, ""));
        match kind {
            "bucket" => println!("{}", run_case(rest)),
            other => panic!("unknown case kind {other}"),
        }
    }
}
