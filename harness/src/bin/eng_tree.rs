//! E1 (deterministic task-level engine) for C05: drives REAL ractor actors on a paused
//! current-thread tokio runtime.  All callbacks of the harness actor park on
//! harness-owned latches ("gates"), so the driver's operation list is a schedule;
//! `sleep(1ns)` on the paused clock is an exact quiescence barrier.
//!
//! stdin, one scenario per line:   <n> | <op> ; <op> ; ...
//!   spawn <a> <kind> <sup|-> <pre> <post> <ps>   kind: 0 spawn 1 spawn_linked 2 spawn_instant 3 spawn_linked_instant
//!                                                4 ActorCell::spawn_linked; +10: the actor keeps the library's default
//!                                                handle_supervisor_evt (stops when a child terminates or fails)
//!   stopkids <a> | drainkids <a> | stopkidsw <a> | drainkidsw <a>   stop_children / drain_children (_and_wait)
//!                                                pre/post/ps: 1 = that callback parks at a closed gate
//!   send <a> blk|err|panic      stop <a>   kill <a>   drain <a>   abort <a>
//!   link <c> <p>   unlink <c> <p>   open <a> pre|post|h|ps   flush   settle
//!   dropstart <a>   the driver itself drops the start future of a (spawn / spawn_linked still inside
//!                   pre_start): the guard's cleanup -- terminate() of a's subtree -- runs inline, so the
//!                   actors it killed have NOT yet been polled when the next operations are issued
//! stdout, one Coq-syntax term per scenario:
//!   [(snapshot, [spawn results], [(c, p) links accepted in the window]) after each settle]   snapshot = [(rank, [children], sup); ...]
use std::sync::{Arc, Mutex};
use std::time::Duration;

use ractor::{Actor, ActorCell, ActorProcessingErr, ActorRef, SupervisionEvent};
use rv_harness::*;
use tokio::sync::watch;
use tokio::task::{AbortHandle, JoinHandle};

struct Gate(watch::Sender<bool>);
impl Gate {
    fn new(open: bool) -> Self {
        Gate(watch::channel(open).0)
    }
    async fn wait(&self) {
        let mut rx = self.0.subscribe();
        let _ = rx.wait_for(|v| *v).await;
    }
    fn open(&self) {
        self.0.send_replace(true);
    }
}

const G_PRE: usize = 0;
const G_POST: usize = 1;
const G_H: usize = 2;
const G_PS: usize = 3;

struct Slot {
    cell: Mutex<Option<ActorCell>>,
    gates: [Gate; 4],
    res: Mutex<Option<bool>>,
    starter: Mutex<Option<AbortHandle>>,
    actor_task: Mutex<Option<JoinHandle<()>>>,
    start_fut: Mutex<Option<std::pin::Pin<Box<dyn std::future::Future<Output = ()> + Send>>>>,
}

struct DropStart(Arc<Slot>);
impl Drop for DropStart {
    fn drop(&mut self) {
        let f = self.0.start_fut.lock().unwrap().take();
        drop(f);
    }
}

enum TMsg {
    Block,
    Err,
    Panic,
}
impl ractor::Message for TMsg {}

macro_rules! tree_actor_callbacks {
    () => {
        type Msg = TMsg;
        type State = Arc<Slot>;
        type Arguments = Arc<Slot>;
        async fn pre_start(&self, myself: ActorRef<TMsg>, slot: Arc<Slot>) -> Result<Arc<Slot>, ActorProcessingErr> {
            *slot.cell.lock().unwrap() = Some(myself.get_cell());
            slot.gates[G_PRE].wait().await;
            Ok(slot)
        }
        async fn post_start(&self, _: ActorRef<TMsg>, slot: &mut Arc<Slot>) -> Result<(), ActorProcessingErr> {
            slot.gates[G_POST].wait().await;
            Ok(())
        }
        async fn post_stop(&self, _: ActorRef<TMsg>, slot: &mut Arc<Slot>) -> Result<(), ActorProcessingErr> {
            slot.gates[G_PS].wait().await;
            Ok(())
        }
        async fn handle(&self, _: ActorRef<TMsg>, m: TMsg, slot: &mut Arc<Slot>) -> Result<(), ActorProcessingErr> {
            match m {
                TMsg::Block => {
                    slot.gates[G_H].wait().await;
                    Ok(())
                }
                TMsg::Err => Err("handler error".into()),
                TMsg::Panic => panic!("handler panic"),
            }
        }
    };
}

/// supervision events are ignored
struct H;
impl Actor for H {
    tree_actor_callbacks!();
    async fn handle_supervisor_evt(
        &self,
        _: ActorRef<TMsg>,
        _: SupervisionEvent,
        _: &mut Arc<Slot>,
    ) -> Result<(), ActorProcessingErr> {
        Ok(())
    }
}

/// the library's default handle_supervisor_evt: stop when a child terminates or fails
struct HD;
impl Actor for HD {
    tree_actor_callbacks!();
}

type StartFut = std::pin::Pin<Box<dyn std::future::Future<Output = ()> + Send>>;

/// issue one of the spawn APIs for handler type T; kinds 0 spawn, 1 spawn_linked, 2 spawn_instant,
/// 3 spawn_linked_instant, 4 ActorCell::spawn_linked
fn issue_spawn<T>(mk: fn() -> T, kind: usize, sup: Option<ActorCell>, slot: &Arc<Slot>)
where
    T: Actor<Msg = TMsg, State = Arc<Slot>, Arguments = Arc<Slot>>,
{
    match kind {
        0 | 1 | 4 => {
            let s2 = slot.clone();
            // the start future lives in the slot so that the driver can drop it itself
            let fut: StartFut = Box::pin(async move {
                let r = match (kind, sup) {
                    (4, Some(p)) => p.spawn_linked(None, mk(), s2.clone()).await,
                    (_, Some(p)) => Actor::spawn_linked(None, mk(), s2.clone(), p).await,
                    (_, None) => Actor::spawn(None, mk(), s2.clone()).await,
                };
                match r {
                    Ok((_, jh)) => {
                        *s2.actor_task.lock().unwrap() = Some(jh);
                        *s2.res.lock().unwrap() = Some(true);
                    }
                    Err(_) => *s2.res.lock().unwrap() = Some(false),
                }
            });
            *slot.start_fut.lock().unwrap() = Some(fut);
            // cancelling the polling task (op `abort`) drops the start future with it
            let s3 = DropStart(slot.clone());
            let h = tokio::spawn(std::future::poll_fn(move |cx| {
                let mut g = s3.0.start_fut.lock().unwrap();
                match g.as_mut() {
                    None => std::task::Poll::Ready(()),
                    Some(f) => match f.as_mut().poll(cx) {
                        std::task::Poll::Ready(()) => {
                            *g = None;
                            std::task::Poll::Ready(())
                        }
                        std::task::Poll::Pending => std::task::Poll::Pending,
                    },
                }
            }));
            *slot.starter.lock().unwrap() = Some(h.abort_handle());
        }
        _ => {
            let r = match sup {
                Some(p) => ractor::ActorRuntime::<T>::spawn_linked_instant(None, mk(), slot.clone(), p),
                None => ractor::ActorRuntime::<T>::spawn_instant(None, mk(), slot.clone()),
            };
            let (aref, outer) = match r {
                Ok(x) => x,
                Err(_) => {
                    *slot.res.lock().unwrap() = Some(false);
                    return;
                }
            };
            *slot.cell.lock().unwrap() = Some(aref.get_cell());
            *slot.starter.lock().unwrap() = Some(outer.abort_handle());
            let s2 = slot.clone();
            tokio::spawn(async move {
                match outer.await {
                    Ok(Ok(inner)) => {
                        *s2.actor_task.lock().unwrap() = Some(inner);
                        *s2.res.lock().unwrap() = Some(true);
                    }
                    _ => *s2.res.lock().unwrap() = Some(false),
                }
            });
        }
    }
}

async fn settle() {
    tokio::time::sleep(Duration::from_nanos(1)).await;
}

fn idx(s: &str) -> usize {
    s.parse().unwrap_or_else(|_| panic!("bad index {s:?}"))
}

fn snapshot(slots: &[Option<Arc<Slot>>]) -> String {
    let cells: Vec<Option<ActorCell>> = slots
        .iter()
        .map(|s| s.as_ref().and_then(|s| s.cell.lock().unwrap().clone()))
        .collect();
    let find = |c: &ActorCell| -> u64 {
        cells
            .iter()
            .position(|x| x.as_ref().is_some_and(|x| x.get_id() == c.get_id()))
            .map(|p| p as u64)
            .unwrap_or(999)
    };
    let mut out = Vec::new();
    for c in &cells {
        match c {
            None => out.push("(0, [], None)".to_string()),
            Some(c) => {
                let mut kids: Vec<u64> = c.get_children().iter().map(&find).collect();
                kids.sort();
                let sup = match c.try_get_supervisor() {
                    Some(p) => format!("Some {}", find(&p)),
                    None => "None".to_string(),
                };
                out.push(format!("({}, {}, {})", c.get_status() as u8, coq_nums(kids), sup));
            }
        }
    }
    coq_list(&out)
}

fn results(slots: &[Option<Arc<Slot>>]) -> String {
    let res: Vec<String> = slots
        .iter()
        .map(|s| match s.as_ref().and_then(|s| *s.res.lock().unwrap()) {
            Some(true) => "Some true".to_string(),
            Some(false) => "Some false".to_string(),
            None => "None".to_string(),
        })
        .collect();
    coq_list(&res)
}

async fn run_scenario(line: &str) -> String {
    let (n, ops) = line.split_once('|').expect("scenario: <n> | ops");
    let n = idx(n.trim());
    let mut slots: Vec<Option<Arc<Slot>>> = (0..n).map(|_| None).collect();
    let mut snaps: Vec<String> = Vec::new();
    let mut links: Vec<(usize, usize)> = Vec::new(); // links accepted in the current window (last per child)
    for op in ops.split(';') {
        let t: Vec<&str> = op.split_whitespace().collect();
        if t.is_empty() {
            continue;
        }
        let cell_of = |slots: &Vec<Option<Arc<Slot>>>, a: usize| -> Option<ActorCell> {
            slots[a].as_ref().and_then(|s| s.cell.lock().unwrap().clone())
        };
        match t[0] {
            "spawn" => {
                let a = idx(t[1]);
                let kind = idx(t[2]);
                // the supervisor's cell is unknown when its own spawn failed before pre_start ran: the
                // linked spawn cannot even be issued; report it as a failed spawn of an actor without cell
                let sup = if t[3] == "-" {
                    None
                } else {
                    match cell_of(&slots, idx(t[3])) {
                        Some(c) => Some(c),
                        None => {
                            slots[a] = Some(Arc::new(Slot {
                                cell: Mutex::new(None),
                                gates: [Gate::new(true), Gate::new(true), Gate::new(true), Gate::new(true)],
                                res: Mutex::new(Some(false)),
                                starter: Mutex::new(None),
                                actor_task: Mutex::new(None),
                                start_fut: Mutex::new(None),
                            }));
                            continue;
                        }
                    }
                };
                let slot = Arc::new(Slot {
                    cell: Mutex::new(None),
                    gates: [
                        Gate::new(t[4] == "0"),
                        Gate::new(t[5] == "0"),
                        Gate::new(false),
                        Gate::new(t[6] == "0"),
                    ],
                    res: Mutex::new(None),
                    starter: Mutex::new(None),
                    actor_task: Mutex::new(None),
                    start_fut: Mutex::new(None),
                });
                slots[a] = Some(slot.clone());
                if kind >= 10 {
                    issue_spawn::<HD>(|| HD, kind - 10, sup, &slot);
                } else {
                    issue_spawn::<H>(|| H, kind, sup, &slot);
                }
            }
            "send" => {
                if let Some(c) = cell_of(&slots, idx(t[1])) {
                    let m = match t[2] {
                        "blk" => TMsg::Block,
                        "err" => TMsg::Err,
                        _ => TMsg::Panic,
                    };
                    let _ = c.send_message(m);
                }
            }
            "stop" => {
                if let Some(c) = cell_of(&slots, idx(t[1])) {
                    c.stop(None);
                }
            }
            "kill" => {
                if let Some(c) = cell_of(&slots, idx(t[1])) {
                    c.kill();
                }
            }
            "drain" => {
                if let Some(c) = cell_of(&slots, idx(t[1])) {
                    let _ = c.drain();
                }
            }
            "abort" => {
                if let Some(s) = &slots[idx(t[1])] {
                    let at = s.actor_task.lock().unwrap();
                    if let Some(jh) = at.as_ref() {
                        jh.abort();
                    } else if let Some(h) = s.starter.lock().unwrap().as_ref() {
                        h.abort();
                    }
                }
            }
            "stopkids" | "drainkids" | "stopkidsw" | "drainkidsw" => {
                if let Some(c) = cell_of(&slots, idx(t[1])) {
                    match t[0] {
                        "stopkids" => c.stop_children(None),
                        "drainkids" => c.drain_children(),
                        "stopkidsw" => {
                            tokio::spawn(async move { c.stop_children_and_wait(None, None).await });
                        }
                        _ => {
                            tokio::spawn(async move { c.drain_children_and_wait(None).await });
                        }
                    }
                }
            }
            "dropstart" => {
                if let Some(sl) = &slots[idx(t[1])] {
                    let f = sl.start_fut.lock().unwrap().take();
                    drop(f);
                }
            }
            "link" => {
                if let (Some(c), Some(p)) = (cell_of(&slots, idx(t[1])), cell_of(&slots, idx(t[2]))) {
                    let pid = p.get_id();
                    c.link(p);
                    // link() returns nothing: whether it was accepted is read back at once (no await in between)
                    if c.try_get_supervisor().is_some_and(|s| s.get_id() == pid) {
                        links.retain(|(x, _)| *x != idx(t[1]));
                        links.push((idx(t[1]), idx(t[2])));
                    }
                }
            }
            "unlink" => {
                if let (Some(c), Some(p)) = (cell_of(&slots, idx(t[1])), cell_of(&slots, idx(t[2]))) {
                    links.retain(|(x, _)| *x != idx(t[1]));
                    c.unlink(p);
                }
            }
            "open" => {
                if let Some(s) = &slots[idx(t[1])] {
                    let g = match t[2] {
                        "pre" => G_PRE,
                        "post" => G_POST,
                        "h" => G_H,
                        _ => G_PS,
                    };
                    s.gates[g].open();
                }
            }
            "flush" => {
                for s in slots.iter().flatten() {
                    for g in &s.gates {
                        g.open();
                    }
                }
            }
            "settle" => {
                settle().await;
                let l: Vec<String> = links.iter().map(|(c, p)| format!("({c}, {p})")).collect();
                links.clear();
                snaps.push(format!("({}, {}, {})", snapshot(&slots), results(&slots), coq_list(&l)));
            }
            other => panic!("unknown op {other:?}"),
        }
    }
    // leave nothing behind for the next scenario: release every gate, kill, settle
    for s in slots.iter().flatten() {
        for g in &s.gates {
            g.open();
        }
        if let Some(c) = s.cell.lock().unwrap().as_ref() {
            c.kill();
        }
    }
    settle().await;
    coq_list(&snaps)
}

static LAST_PANIC: Mutex<String> = Mutex::new(String::new());

fn main() {
    // panics of scripted handlers are expected and silent; remember the last message so that a panic of
    // the harness itself is reported as an observation instead of aborting the process
    std::panic::set_hook(Box::new(|info| {
        let msg = info.to_string().replace(['"', '\n'], " ");
        if let Ok(mut g) = LAST_PANIC.lock() {
            *g = msg;
        }
    }));
    for line in stdin_lines() {
        let r = std::panic::catch_unwind(std::panic::AssertUnwindSafe(|| {
            let rt = tokio::runtime::Builder::new_current_thread()
                .enable_time()
                .start_paused(true)
                .build()
                .expect("runtime");
            rt.block_on(run_scenario(&line))
        }));
        match r {
            Ok(out) => println!("{out}"),
            Err(_) => {
                let msg = LAST_PANIC.lock().map(|g| g.clone()).unwrap_or_default();
                println!("[(HarnessPanic \"{}\", [])]", msg.chars().take(200).collect::<String>());
            }
        }
    }
}
