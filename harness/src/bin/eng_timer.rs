//! E1 for C12: drives the REAL `ractor::time` functions (send_after, send_interval,
//! exit_after, kill_after) on a paused tokio clock (current_thread, start_paused).
//!
//! stdin, one scenario per line, operations separated by ';':
//!   mk a|i|e|k <ns>      ActorRef::send_after / send_interval / exit_after / kill_after
//!   abort <i>            JoinHandle::abort of the i-th timer
//!   stop n | stop u<n>   target.stop(None) / target.stop(Some("u<n>"))
//!   kill | drain         target.kill() / target.drain()
//!   settle               run every other task until nothing can run (time does not move)
//!   adv <ns>             settle, tokio::time::advance(ns) (one turn of the time driver)
//!   probe                settle, then record (now, target stopped?, is_finished of every handle)
//!   open                 release the gate in the target's pre_start (only with the `S|` prefix)
//!   popen                release the gate in the target's post_stop (only with the `G` flag)
//! Flag `D`: the timers are created through a `DerivedActorRef` (get_derived) instead of the ActorRef.
//! Flags before a `|`: `S` = instant-spawned target whose pre_start blocks on a gate (status
//! Starting until `open`); `G` = the target's post_stop blocks on a gate (status Stopping, ports
//! still open, until `popen` or a kill).  The harness also records when the target left the
//! active states (drain() on an active target, entry of post_stop, or the exit event).
//! A line starting with `S|` uses an instant-spawned target whose pre_start blocks on a gate, so
//! the target is in status Starting (active, accepting) until `open`.
//! or   calib <a> <b> <c>   sleep(b) created at time a: complete when polled at a+c? (true/false)
//! stdout: one Coq-syntax term per scenario (`mkObs log results exit probes`).
//!
//! Only virtual time is ever read (tokio::time::Instant relative to the start of the scenario).
use std::sync::atomic::{AtomicU64, Ordering};
use std::sync::{Arc, Mutex};

use futures::FutureExt;
use ractor::concurrency::{Duration, JoinHandle};
use ractor::{Actor, ActorProcessingErr, ActorRef, ActorStatus, MessagingErr, SupervisionEvent};
use rv_harness::*;
use tokio::time::Instant;

#[derive(Default)]
struct Shared {
    log: Mutex<Vec<(u64, u64, u64)>>,
    exit: Mutex<Vec<(String, u64)>>,
    left: Mutex<Option<u64>>,
    activity: AtomicU64,
}

struct Ctx {
    sh: Arc<Shared>,
    start: Instant,
    gate: Option<Arc<tokio::sync::Semaphore>>,
    pgate: Option<Arc<tokio::sync::Semaphore>>,
}
impl Ctx {
    fn now(&self) -> u64 {
        (Instant::now() - self.start).as_nanos() as u64
    }
    fn note_left(&self) {
        let t = self.now();
        let mut l = self.sh.left.lock().unwrap();
        if l.is_none() {
            *l = Some(t);
        }
    }
}

enum Msg {
    Tick(u64, u64),
}
impl ractor::Message for Msg {}

/// message type of the `DerivedActorRef` entry point (flag `D`): the same timers through
/// `impl DerivedActorRef` in ractor/src/time.rs, which are separate copies of the code
struct DTick(u64, u64);
impl ractor::Message for DTick {}
impl From<DTick> for Msg {
    fn from(d: DTick) -> Msg {
        Msg::Tick(d.0, d.1)
    }
}
impl TryFrom<Msg> for DTick {
    type Error = ();
    fn try_from(m: Msg) -> Result<DTick, ()> {
        let Msg::Tick(a, b) = m;
        Ok(DTick(a, b))
    }
}

struct Tgt;
impl Actor for Tgt {
    type Msg = Msg;
    type State = Arc<Ctx>;
    type Arguments = Arc<Ctx>;
    async fn pre_start(&self, _: ActorRef<Msg>, a: Arc<Ctx>) -> Result<Arc<Ctx>, ActorProcessingErr> {
        if let Some(g) = &a.gate {
            g.acquire().await.expect("gate").forget();
            a.sh.activity.fetch_add(1, Ordering::SeqCst);
        }
        Ok(a)
    }
    async fn handle(&self, _: ActorRef<Msg>, m: Msg, st: &mut Arc<Ctx>) -> Result<(), ActorProcessingErr> {
        let Msg::Tick(tid, k) = m;
        st.sh.log.lock().unwrap().push((tid, k, st.now()));
        st.sh.activity.fetch_add(1, Ordering::SeqCst);
        Ok(())
    }
    async fn post_stop(&self, _: ActorRef<Msg>, st: &mut Arc<Ctx>) -> Result<(), ActorProcessingErr> {
        st.note_left();
        st.sh.activity.fetch_add(1, Ordering::SeqCst);
        if let Some(g) = &st.pgate {
            g.acquire().await.expect("pgate").forget();
            st.sh.activity.fetch_add(1, Ordering::SeqCst);
        }
        Ok(())
    }
}

struct Sup;
impl Actor for Sup {
    type Msg = ();
    type State = Arc<Ctx>;
    type Arguments = Arc<Ctx>;
    async fn pre_start(&self, _: ActorRef<()>, a: Arc<Ctx>) -> Result<Arc<Ctx>, ActorProcessingErr> {
        Ok(a)
    }
    async fn handle_supervisor_evt(
        &self,
        _: ActorRef<()>,
        ev: SupervisionEvent,
        st: &mut Arc<Ctx>,
    ) -> Result<(), ActorProcessingErr> {
        let r = match ev {
            SupervisionEvent::ActorTerminated(_, _, None) => Some("RNone".to_string()),
            SupervisionEvent::ActorTerminated(_, _, Some(s)) => Some(reason_term(&s)),
            SupervisionEvent::ActorFailed(_, _) => Some("ROther".to_string()),
            _ => None,
        };
        if let Some(r) = r {
            st.note_left();
            st.sh.exit.lock().unwrap().push((r, st.now()));
            st.sh.activity.fetch_add(1, Ordering::SeqCst);
        }
        Ok(())
    }
}

fn reason_term(s: &str) -> String {
    if s == "killed" {
        return "RKilled".into();
    }
    if s == "Drained" {
        return "RDrained".into();
    }
    if let Some(r) = s.strip_prefix("Exit after ") {
        if let Some(n) = r.strip_suffix("ms") {
            if let Ok(v) = n.parse::<u64>() {
                return format!("(RExitAfter {v})");
            }
        }
    }
    if let Some(r) = s.strip_prefix('u') {
        if let Ok(v) = r.parse::<u64>() {
            return format!("(RUser {v})");
        }
    }
    "ROther".into()
}

enum H {
    R(JoinHandle<Result<(), MessagingErr<Msg>>>),
    RD(JoinHandle<Result<(), MessagingErr<DTick>>>),
    U(JoinHandle<()>),
    /// the timer function itself panicked in the caller
    Panicked,
}
impl H {
    fn fin(&self) -> bool {
        match self {
            H::R(h) => h.is_finished(),
            H::RD(h) => h.is_finished(),
            H::U(h) => h.is_finished(),
            H::Panicked => true,
        }
    }
    fn abort(&self) {
        match self {
            H::R(h) => h.abort(),
            H::RD(h) => h.abort(),
            H::U(h) => h.abort(),
            H::Panicked => {}
        }
    }
}

const K: usize = 8;

fn snapshot(sh: &Shared, hs: &[H], tgt: &ActorRef<Msg>) -> (u64, Vec<bool>, bool) {
    (
        sh.activity.load(Ordering::SeqCst),
        hs.iter().map(|h| h.fin()).collect(),
        tgt.get_status() == ActorStatus::Stopped,
    )
}

/// Run every other task until nothing changes any more; virtual time does not move
/// (the driver only yields, so the runtime never auto-advances the paused clock).
async fn settle(sh: &Shared, hs: &[H], tgt: &ActorRef<Msg>) {
    let mut prev = snapshot(sh, hs, tgt);
    loop {
        for _ in 0..K {
            tokio::task::yield_now().await;
        }
        let cur = snapshot(sh, hs, tgt);
        if cur == prev {
            return;
        }
        prev = cur;
    }
}

fn line_flags(line: &str) -> &str {
    line.split_once('|').map(|x| x.0).unwrap_or("")
}

async fn scenario(line_full: &str) -> String {
    let line = line_full;
    let (parked, gated, line) = match line.split_once('|') {
        Some((flags, rest)) => (flags.contains('S'), flags.contains('G'), rest),
        None => (false, false, line),
    };
    let derived = line_flags(line_full).contains('D');
    let start = Instant::now();
    let sh = Arc::new(Shared::default());
    let gate = if parked { Some(Arc::new(tokio::sync::Semaphore::new(0))) } else { None };
    let pgate = if gated { Some(Arc::new(tokio::sync::Semaphore::new(0))) } else { None };
    let sctx = Arc::new(Ctx { sh: sh.clone(), start, gate: None, pgate: None });
    let ctx = Arc::new(Ctx { sh: sh.clone(), start, gate: gate.clone(), pgate: pgate.clone() });
    let (sup, _sh) = Actor::spawn(None, Sup, sctx).await.expect("sup");
    let mut hs: Vec<H> = Vec::new();
    let (tgt, _keep): (ActorRef<Msg>, Box<dyn std::any::Any>) = if parked {
        let (t, h) = ractor::ActorRuntime::<Tgt>::spawn_instant(None, Tgt, ctx.clone()).expect("tgt");
        t.get_cell().link(sup.get_cell());
        (t, Box::new(h))
    } else {
        let (t, h) = Actor::spawn_linked(None, Tgt, ctx.clone(), sup.get_cell()).await.expect("tgt");
        (t, Box::new(h))
    };
    settle(&sh, &hs, &tgt).await;
    assert_eq!(tgt.get_status(), if parked { ActorStatus::Starting } else { ActorStatus::Running });
    let mut probes: Vec<String> = Vec::new();
    for op in line.split(';') {
        let w: Vec<&str> = op.split_whitespace().collect();
        if w.is_empty() {
            continue;
        }
        match w[0] {
            "mk" => {
                let d = if w[2] == "max" { Duration::MAX } else { Duration::from_nanos(w[2].parse().unwrap()) };
                let tid = hs.len() as u64;
                let tgt2 = tgt.clone();
                let made = std::panic::catch_unwind(std::panic::AssertUnwindSafe(move || {
                let tgt = tgt2;
                if derived {
                    let dt: ractor::DerivedActorRef<DTick> = tgt.get_derived();
                    return match w[1] {
                        "a" => H::RD(dt.send_after(d, move || DTick(tid, 1))),
                        "i" => {
                            let c = AtomicU64::new(0);
                            H::U(dt.send_interval(d, move || DTick(tid, c.fetch_add(1, Ordering::SeqCst) + 1)))
                        }
                        "e" => H::U(dt.exit_after(d)),
                        "k" => H::U(dt.kill_after(d)),
                        x => panic!("bad timer kind {x}"),
                    };
                }
                match w[1] {
                    "a" => H::R(tgt.send_after(d, move || Msg::Tick(tid, 1))),
                    "i" => {
                        let c = AtomicU64::new(0);
                        H::U(tgt.send_interval(d, move || Msg::Tick(tid, c.fetch_add(1, Ordering::SeqCst) + 1)))
                    }
                    "e" => H::U(tgt.exit_after(d)),
                    "k" => H::U(tgt.kill_after(d)),
                    x => panic!("bad timer kind {x}"),
                }}));
                hs.push(made.unwrap_or(H::Panicked));
            }
            "abort" => {
                let i: usize = w[1].parse().unwrap();
                if let Some(h) = hs.get(i) {
                    h.abort();
                }
            }
            "stop" => {
                let r = if w[1] == "n" { None } else { Some(w[1].to_string()) };
                tgt.stop(r);
            }
            "kill" => tgt.kill(),
            "drain" => {
                if tgt.get_status() < ActorStatus::Draining {
                    ctx.note_left();
                }
                let _ = tgt.drain();
            }
            "popen" => {
                if let Some(g) = &pgate {
                    g.add_permits(1);
                }
            }
            "open" => {
                if let Some(g) = &gate {
                    g.add_permits(1);
                }
            }
            "settle" => settle(&sh, &hs, &tgt).await,
            "adv" => {
                settle(&sh, &hs, &tgt).await;
                tokio::time::advance(Duration::from_nanos(w[1].parse().unwrap())).await;
            }
            "probe" => {
                settle(&sh, &hs, &tgt).await;
                let (_, fins, stopped) = snapshot(&sh, &hs, &tgt);
                let f: Vec<&str> = fins.iter().map(|b| coq_bool(*b)).collect();
                probes.push(format!("({}, {}, {})", ctx.now(), coq_bool(stopped), coq_list(&f)));
            }
            x => panic!("bad op {x}"),
        }
    }
    settle(&sh, &hs, &tgt).await;
    let mut res: Vec<String> = Vec::new();
    for h in hs {
        let s = if !h.fin() {
            "HPending"
        } else {
            match h {
                H::R(h) => match h.now_or_never() {
                    Some(Ok(Ok(()))) => "HOk",
                    Some(Ok(Err(_))) => "HErr",
                    Some(Err(e)) if e.is_cancelled() => "HCancelled",
                    Some(Err(_)) => "HPanic",
                    None => "HPending",
                },
                H::RD(h) => match h.now_or_never() {
                    Some(Ok(Ok(()))) => "HOk",
                    Some(Ok(Err(_))) => "HErr",
                    Some(Err(e)) if e.is_cancelled() => "HCancelled",
                    Some(Err(_)) => "HPanic",
                    None => "HPending",
                },
                H::U(h) => match h.now_or_never() {
                    Some(Ok(())) => "HUnit",
                    Some(Err(e)) if e.is_cancelled() => "HCancelled",
                    Some(Err(_)) => "HPanic",
                    None => "HPending",
                },
                H::Panicked => "HPanic",
            }
        };
        res.push(s.to_string());
    }
    let log: Vec<String> = sh.log.lock().unwrap().iter().map(|(a, b, c)| format!("({a}%nat, {b}, {c})")).collect();
    let ex = sh.exit.lock().unwrap();
    let exit = match ex.first() {
        None => "None".to_string(),
        Some((r, t)) => format!("(Some ({r}, {t}))"),
    };
    assert!(ex.len() <= 1, "target reported more than one exit");
    let left = match *sh.left.lock().unwrap() {
        None => "None".to_string(),
        Some(t) => format!("(Some {t})"),
    };
    format!("mkObs {} {} {} {} {}", coq_list(&log), coq_list(&res), exit, coq_list(&probes), left)
}

/// Calibration of tokio's timer granularity: a sleep of `b` ns created at time `a`; is it
/// complete when polled at time `a + c` (after one turn of the time driver)?
async fn calib(a: u64, b: u64, c: u64) -> String {
    tokio::time::advance(Duration::from_nanos(a)).await;
    let mut sl = Box::pin(tokio::time::sleep(Duration::from_nanos(b)));
    let first = futures::poll!(sl.as_mut()).is_ready();
    if c == 0 {
        return coq_bool(first).to_string();
    }
    tokio::time::advance(Duration::from_nanos(c)).await;
    coq_bool(first || futures::poll!(sl.as_mut()).is_ready()).to_string()
}

fn main() {
    // panics of the code under test are observations (HPanic), not noise on stdout
    std::panic::set_hook(Box::new(|info| {
        let s = info.to_string();
        if s.contains("bad op") || s.contains("bad timer kind") || s.contains("assertion") {
            eprintln!("{s}");
        }
    }));
    for line in stdin_lines() {
        let rt = tokio::runtime::Builder::new_current_thread()
            .enable_time()
            .start_paused(true)
            .build()
            .expect("runtime");
        let out = rt.block_on(async {
            if let Some(rest) = line.strip_prefix("calib ") {
                let w: Vec<u64> = rest.split_whitespace().map(|x| x.parse().unwrap()).collect();
                calib(w[0], w[1], w[2]).await
            } else {
                scenario(&line).await
            }
        });
        println!("{out}");
        drop(rt);
    }
}
