//! E1 — deterministic task-level engine for the actor runtime (C01, C03, C04).
//!
//! tokio current_thread runtime on a paused clock; every harness actor callback
//! interprets a script (data) whose only suspension points are harness-owned gates;
//! the driver executes the scenario's operations back-to-back and lets the system
//! run only at `settle` (sleep(1ns) on a paused clock returns exactly when every
//! other task is blocked).  Output: the event trace in the Coq syntax of
//! coq/Loop/World.v (`tev`).
//!
//! stdin, one scenario per line:
//!   actors: <cfg> ; <cfg> ... | msgs: <id>=<script> ; ... | ops: <op> ; <op> ...
//!   cfg    = pre=<script> ps=<script> stop=<script> sup=def|<script> link=-|<n>
//!   script = <eff>,<eff>,.../ok | /e<k> | /p<k>      (no effects: "/ok")
//!   eff    = g<n> | t | s<a>:<m> | x<a>:n | x<a>:<r> | k<a> | d<a>
//!   op     = spawn <a> | send <a> <m> | stop <a> n|<r> | kill <a> | drain <a> | open <g> | abort <a> | settle
use std::collections::HashMap;
use std::sync::atomic::{AtomicBool, Ordering};
use std::sync::{Arc, Mutex};
use std::time::Duration;

use ractor::{Actor, ActorCell, ActorId, ActorProcessingErr, ActorRef, SupervisionEvent};
use rv_harness::*;
use tokio::sync::Notify;
use tokio::task::AbortHandle;

#[derive(Clone, Debug)]
enum Eff {
    Gate(u64),
    Tick,
    Send(usize, u64),
    Stop(usize, Option<u64>),
    Kill(usize),
    Drain(usize),
}
#[derive(Clone, Debug)]
enum Fin {
    Ok,
    Err(u64),
    Panic(u64),
}
#[derive(Clone, Debug)]
struct Script(Vec<Eff>, Fin);

#[derive(Clone, Debug)]
struct Cfg {
    pre: Script,
    ps: Script,
    stop: Script,
    sup: Option<Script>,
    link: Option<usize>,
}

struct Gate {
    open: AtomicBool,
    notify: Notify,
}

struct Ctx {
    trace: Mutex<Vec<String>>,
    gates: Mutex<HashMap<u64, Arc<Gate>>>,
    cells: Mutex<HashMap<usize, ActorCell>>,
    ids: Mutex<HashMap<ActorId, usize>>,
    msgs: HashMap<u64, Script>,
    start_abort: Mutex<HashMap<usize, AbortHandle>>,
    loop_abort: Mutex<HashMap<usize, AbortHandle>>,
}

impl Ctx {
    fn log(&self, s: String) {
        let mut t = self.trace.lock().unwrap();
        t.push(s);
        if t.len() > 20000 {
            eprintln!("eng_world: runaway scenario (more than 20000 events)");
            std::process::exit(3);
        }
    }
    fn gate(&self, g: u64) -> Arc<Gate> {
        self.gates
            .lock()
            .unwrap()
            .entry(g)
            .or_insert_with(|| {
                Arc::new(Gate {
                    open: AtomicBool::new(false),
                    notify: Notify::new(),
                })
            })
            .clone()
    }
    fn cell(&self, a: usize) -> Option<ActorCell> {
        self.cells.lock().unwrap().get(&a).cloned()
    }
    fn index_of(&self, id: ActorId) -> u64 {
        self.ids.lock().unwrap().get(&id).map(|x| *x as u64).unwrap_or(999)
    }
}

fn fin_str(f: &Fin) -> String {
    match f {
        Fin::Ok => "ROk".into(),
        Fin::Err(t) => format!("(RErr {t})"),
        Fin::Panic(t) => format!("(RPanic {t})"),
    }
}
fn oreason(r: &Option<u64>) -> String {
    match r {
        None => "None".into(),
        Some(k) => format!("(Some {k})"),
    }
}
fn reason_code(r: &Option<String>) -> Option<u64> {
    r.as_ref().map(|s| match s.as_str() {
        "killed" => 0,
        "Drained" => 1,
        "actor_task_cancelled" => 2,
        other => other
            .strip_prefix('r')
            .and_then(|k| k.parse::<u64>().ok())
            .map(|k| 10 + k)
            .unwrap_or(99),
    })
}
fn text_code(s: &str) -> u64 {
    s.strip_prefix('t').and_then(|k| k.parse::<u64>().ok()).unwrap_or(999)
}

/// logs TCancel if the callback future is dropped before it finished
struct CbGuard {
    ctx: Arc<Ctx>,
    me: usize,
    cb: String,
    done: bool,
}
impl Drop for CbGuard {
    fn drop(&mut self) {
        if !self.done {
            self.ctx.log(format!("TCancel {} {}", self.me, self.cb));
        }
    }
}

async fn run_script(ctx: &Arc<Ctx>, me: usize, cb: String, script: &Script) -> Result<(), ActorProcessingErr> {
    ctx.log(format!("TEnter {me} {cb}"));
    let mut guard = CbGuard {
        ctx: ctx.clone(),
        me,
        cb: cb.clone(),
        done: false,
    };
    for e in &script.0 {
        match e {
            Eff::Gate(g) => {
                let gate = ctx.gate(*g);
                if !gate.open.load(Ordering::SeqCst) {
                    ctx.log(format!("TPark {me} {g}"));
                    loop {
                        let n = gate.notify.notified();
                        if gate.open.load(Ordering::SeqCst) {
                            break;
                        }
                        n.await;
                    }
                    ctx.log(format!("TWake {me} {g}"));
                }
            }
            Eff::Tick => ctx.log(format!("TTick {me}")),
            Eff::Send(a, m) => {
                if let Some(c) = ctx.cell(*a) {
                    let r = ActorRef::<HMsg>::from(c).cast(HMsg(*m));
                    ctx.log(format!("TSent {a} {m} {}", coq_bool(r.is_ok())));
                }
            }
            Eff::Stop(a, r) => {
                if let Some(c) = ctx.cell(*a) {
                    ctx.log(format!("TStopReq {a} {}", oreason(&r.map(|k| k))));
                    c.stop(r.map(|k| format!("r{}", k - 10)));
                }
            }
            Eff::Kill(a) => {
                if let Some(c) = ctx.cell(*a) {
                    ctx.log(format!("TKillReq {a}"));
                    c.kill();
                }
            }
            Eff::Drain(a) => {
                if let Some(c) = ctx.cell(*a) {
                    ctx.log(format!("TDrainReq {a}"));
                    let _ = c.drain();
                }
            }
        }
    }
    guard.done = true;
    ctx.log(format!("TExit {me} {cb} {}", fin_str(&script.1)));
    match script.1 {
        Fin::Ok => Ok(()),
        Fin::Err(t) => Err(format!("t{t}").into()),
        Fin::Panic(t) => panic!("t{t}"),
    }
}

struct HMsg(u64);
impl ractor::Message for HMsg {}

struct H {
    ctx: Arc<Ctx>,
    me: usize,
    cfg: Cfg,
}

#[cfg_attr(feature = "async-trait", ractor::async_trait)]
impl Actor for H {
    type Msg = HMsg;
    type State = ();
    type Arguments = ();

    async fn pre_start(&self, _myself: ActorRef<HMsg>, _: ()) -> Result<(), ActorProcessingErr> {
        run_script(&self.ctx, self.me, "PreStart".into(), &self.cfg.pre).await
    }
    async fn post_start(&self, _myself: ActorRef<HMsg>, _: &mut ()) -> Result<(), ActorProcessingErr> {
        run_script(&self.ctx, self.me, "PostStart".into(), &self.cfg.ps).await
    }
    async fn post_stop(&self, _myself: ActorRef<HMsg>, _: &mut ()) -> Result<(), ActorProcessingErr> {
        run_script(&self.ctx, self.me, "PostStop".into(), &self.cfg.stop).await
    }
    async fn handle(&self, _myself: ActorRef<HMsg>, msg: HMsg, _: &mut ()) -> Result<(), ActorProcessingErr> {
        let empty = Script(vec![], Fin::Ok);
        let script = self.ctx.msgs.get(&msg.0).unwrap_or(&empty).clone();
        run_script(&self.ctx, self.me, format!("(Handle {})", msg.0), &script).await
    }
    async fn handle_supervisor_evt(
        &self,
        _myself: ActorRef<HMsg>,
        evt: SupervisionEvent,
        _: &mut (),
    ) -> Result<(), ActorProcessingErr> {
        let (name, terminal) = match &evt {
            SupervisionEvent::ActorStarted(who) => (format!("(SStarted {})", self.ctx.index_of(who.get_id())), false),
            SupervisionEvent::ActorTerminated(who, st, reason) => (
                format!(
                    "(STerminated {} {} {})",
                    self.ctx.index_of(who.get_id()),
                    coq_bool(st.is_some()),
                    oreason(&reason_code(reason))
                ),
                true,
            ),
            SupervisionEvent::ActorFailed(who, err) => (
                format!("(SFailed {} {})", self.ctx.index_of(who.get_id()), text_code(&err.to_string())),
                true,
            ),
            _ => return Ok(()),
        };
        match &self.cfg.sup {
            Some(s) => run_script(&self.ctx, self.me, format!("(Sup {name})"), s).await,
            None => {
                // the trait's default behaviour, made observable
                let s = if terminal {
                    Script(vec![Eff::Stop(self.me, None)], Fin::Ok)
                } else {
                    Script(vec![], Fin::Ok)
                };
                run_script(&self.ctx, self.me, format!("(Sup {name})"), &s).await
            }
        }
    }
}

fn u(s: &str) -> u64 {
    s.parse().unwrap_or_else(|_| panic!("bad number {s:?}"))
}

fn parse_script(s: &str) -> Script {
    let (effs, fin) = s.rsplit_once('/').unwrap_or_else(|| panic!("bad script {s:?}"));
    let fin = if fin == "ok" {
        Fin::Ok
    } else if let Some(k) = fin.strip_prefix('e') {
        Fin::Err(u(k))
    } else if let Some(k) = fin.strip_prefix('p') {
        Fin::Panic(u(k))
    } else {
        panic!("bad fin {fin:?}")
    };
    let mut v = vec![];
    for e in effs.split(',').filter(|x| !x.is_empty()) {
        let (h, rest) = e.split_at(1);
        v.push(match h {
            "g" => Eff::Gate(u(rest)),
            "t" => Eff::Tick,
            "s" => {
                let (a, m) = rest.split_once(':').unwrap();
                Eff::Send(u(a) as usize, u(m))
            }
            "x" => {
                let (a, r) = rest.split_once(':').unwrap();
                Eff::Stop(u(a) as usize, if r == "n" { None } else { Some(u(r)) })
            }
            "k" => Eff::Kill(u(rest) as usize),
            "d" => Eff::Drain(u(rest) as usize),
            _ => panic!("bad effect {e:?}"),
        });
    }
    Script(v, fin)
}

fn parse_cfg(s: &str) -> Cfg {
    let mut pre = None;
    let mut ps = None;
    let mut stop = None;
    let mut sup = None;
    let mut link = None;
    for kv in s.split_whitespace() {
        let (k, v) = kv.split_once('=').unwrap();
        match k {
            "pre" => pre = Some(parse_script(v)),
            "ps" => ps = Some(parse_script(v)),
            "stop" => stop = Some(parse_script(v)),
            "sup" => sup = if v == "def" { None } else { Some(parse_script(v)) },
            "link" => link = if v == "-" { None } else { Some(u(v) as usize) },
            _ => panic!("bad cfg key {k}"),
        }
    }
    Cfg {
        pre: pre.unwrap(),
        ps: ps.unwrap(),
        stop: stop.unwrap(),
        sup,
        link,
    }
}

async fn settle() {
    tokio::time::sleep(Duration::from_nanos(1)).await;
}

async fn run_case(line: &str) -> String {
    let mut actors: Vec<Cfg> = vec![];
    let mut msgs: HashMap<u64, Script> = HashMap::new();
    let mut ops: Vec<String> = vec![];
    for sec in line.split('|') {
        let sec = sec.trim();
        if let Some(r) = sec.strip_prefix("actors:") {
            actors = r.split(';').map(|x| x.trim()).filter(|x| !x.is_empty()).map(parse_cfg).collect();
        } else if let Some(r) = sec.strip_prefix("msgs:") {
            for kv in r.split(';').map(|x| x.trim()).filter(|x| !x.is_empty()) {
                let (k, v) = kv.split_once('=').unwrap();
                msgs.insert(u(k), parse_script(v));
            }
        } else if let Some(r) = sec.strip_prefix("ops:") {
            ops = r.split(';').map(|x| x.trim().to_string()).filter(|x| !x.is_empty()).collect();
        }
    }
    let ctx = Arc::new(Ctx {
        trace: Mutex::new(vec![]),
        gates: Mutex::new(HashMap::new()),
        cells: Mutex::new(HashMap::new()),
        ids: Mutex::new(HashMap::new()),
        msgs,
        start_abort: Mutex::new(HashMap::new()),
        loop_abort: Mutex::new(HashMap::new()),
    });
    for op in &ops {
        let w: Vec<&str> = op.split_whitespace().collect();
        match w[0] {
            "spawn" => {
                let a = u(w[1]) as usize;
                if ctx.cell(a).is_some() || a >= actors.len() {
                    continue;
                }
                let cfg = actors[a].clone();
                let h = H {
                    ctx: ctx.clone(),
                    me: a,
                    cfg: cfg.clone(),
                };
                let sup = cfg.link.and_then(|s| ctx.cell(s));
                // spawn_linked to a supervisor that does not exist yet: treated as unlinked is NOT
                // what the model does, so generators only link to already spawned actors.
                let res = match sup {
                    Some(s) => ractor::ActorRuntime::<H>::spawn_linked_instant(None, h, (), s),
                    None => ractor::ActorRuntime::<H>::spawn_instant(None, h, ()),
                };
                match res {
                    Ok((aref, start_handle)) => {
                        ctx.cells.lock().unwrap().insert(a, aref.get_cell());
                        ctx.ids.lock().unwrap().insert(aref.get_id(), a);
                        ctx.start_abort.lock().unwrap().insert(a, start_handle.abort_handle());
                        let ctx2 = ctx.clone();
                        tokio::spawn(async move {
                            match start_handle.await {
                                Ok(Ok(inner)) => {
                                    ctx2.loop_abort.lock().unwrap().insert(a, inner.abort_handle());
                                    ctx2.log(format!("TSpawnRet {a} true"));
                                    if inner.await.is_ok() {
                                        ctx2.log(format!("TJoin {a}"));
                                    }
                                }
                                Ok(Err(_)) => ctx2.log(format!("TSpawnRet {a} false")),
                                Err(_) => {}
                            }
                        });
                    }
                    Err(_) => ctx.log(format!("TSpawnRet {a} false")),
                }
            }
            "send" => {
                let a = u(w[1]) as usize;
                if let Some(c) = ctx.cell(a) {
                    let r = ActorRef::<HMsg>::from(c).cast(HMsg(u(w[2])));
                    ctx.log(format!("TSent {a} {} {}", w[2], coq_bool(r.is_ok())));
                }
            }
            "stop" => {
                let a = u(w[1]) as usize;
                if let Some(c) = ctx.cell(a) {
                    let r = if w[2] == "n" { None } else { Some(u(w[2])) };
                    ctx.log(format!("TStopReq {a} {}", oreason(&r)));
                    c.stop(r.map(|k| format!("r{}", k - 10)));
                }
            }
            "kill" => {
                let a = u(w[1]) as usize;
                if let Some(c) = ctx.cell(a) {
                    ctx.log(format!("TKillReq {a}"));
                    c.kill();
                }
            }
            "drain" => {
                let a = u(w[1]) as usize;
                if let Some(c) = ctx.cell(a) {
                    ctx.log(format!("TDrainReq {a}"));
                    let _ = c.drain();
                }
            }
            "open" => {
                let g = ctx.gate(u(w[1]));
                g.open.store(true, Ordering::SeqCst);
                g.notify.notify_waiters();
            }
            "abort" => {
                let a = u(w[1]) as usize;
                let lp = ctx.loop_abort.lock().unwrap().get(&a).cloned();
                let st = ctx.start_abort.lock().unwrap().get(&a).cloned();
                let h = lp.or(st);
                if let Some(h) = h {
                    if !h.is_finished() {
                        ctx.log(format!("TAborted {a}"));
                        h.abort();
                    }
                }
            }
            "settle" => settle().await,
            other => panic!("unknown op {other}"),
        }
    }
    settle().await;
    // tidy up: kill everything still alive so that nothing leaks into the next case
    let cells: Vec<ActorCell> = ctx.cells.lock().unwrap().values().cloned().collect();
    let out = coq_list(&ctx.trace.lock().unwrap().clone());
    for g in ctx.gates.lock().unwrap().values() {
        g.open.store(true, Ordering::SeqCst);
        g.notify.notify_waiters();
    }
    for c in cells {
        c.kill();
    }
    settle().await;
    out
}

fn main() {
    // a panicking script is part of the scenarios: keep stderr quiet
    std::panic::set_hook(Box::new(|_| {}));
    for line in stdin_lines() {
        let rt = tokio::runtime::Builder::new_current_thread()
            .enable_time()
            .start_paused(true)
            .build()
            .unwrap();
        let out = rt.block_on(run_case(&line));
        println!("{out}");
    }
}
