//! E1 — deterministic task-level engine for the actor runtime (C01, C03, C04).
//!
//! tokio current_thread runtime on a paused clock; every harness actor callback
//! interprets a script (data) whose only suspension points are harness-owned gates;
//! the driver executes the scenario's operations back-to-back and lets the system
//! run only at `settle` (sleep(1ns) on a paused clock returns exactly when every
//! other task is blocked).  Output: the event trace in the Coq syntax of
//! coq/Loop/World.v (`tev`).
//!
//! stdin, one scenario per line:
//!   [mode: send|local-adapter|local-native|remote-shim |] actors: <cfg> ; <cfg> ... | msgs: <id>=<script> ; ... | ops: <op> ; <op> ...
//!   cfg    = pre=<script> ps=<script> stop=<script> sup=def|<script> link=-|<n>
//!   script = <eff>,<eff>,.../ok | /e<k> | /f<k> | /p<k> | /q<k> | /z<k>      (no effects: "/ok")
//!            e: Err(String "t<k>")   f: Err(Box<custom error type> displaying "t<k>")
//!            p: panic!(String "t<k>")   q: panic with a &'static str payload "t<k>"
//!            y: panic!(String "t<k>") SYNCHRONOUSLY, while the callback builds its future (a non-async
//!               `fn cb(..) -> impl Future`): the host `HY` (mode send, default build) has that form; effects of a
//!               /y script are not run
//!            z: panic_any(<k> as u64), a payload that is no string: the runtime reports the fixed text
//!               "Unknown panic occurred ..." (logged and modelled as text code 998)
//!   boom=y (optional, Send / remote hosts): the actor's State has a destructor that PANICS once, armed when
//!            post_stop is entered or a callback after pre_start fails, i.e. when the runtime (not the harness) is
//!            about to drop the final state: inside the terminal event nobody receives, or at the end of the task
//!   sup=tdef: like sup=def, but the host type does NOT override handle_supervisor_evt: the trait's own
//!            default body runs (nothing can be logged for it)
//!   eff    = g<n> | t | s<a>:<m> | x<a>:n | x<a>:<r> | k<a> | d<a>
//!   op     = spawn <a> | send <a> <m> | sends <a> <m> (the same message in wire form: ActorCell::send_serialized) | stop <a> n|<r> | kill <a> | drain <a> | open <g> | abort <a> | settle
//!
//! Modes (default `send` = everything above, on the one paused runtime):
//!   local-adapter  every scripted actor is a Send `Actor + Default` (`HL`) hosted on ONE shared
//!                  `ThreadLocalActorSpawner` through the blanket adapter
//!                  `impl<T: Actor + Default> ThreadLocalActor for T` (ractor/src/thread_local.rs);
//!   local-native   the same scripts behind a native `ThreadLocalActor` impl (`HN`, non-Send state).
//! In the local modes the actors run on the spawner's own OS thread (unpaused current_thread
//! runtime + LocalSet) while the driver, the `start()` futures of `spawn_instant` and the join
//! watchers stay on the paused main runtime.  The two threads never run at the same time: see
//! `Local` below (freezer + /proc quiescence barrier) and docs/notes/C01-threadlocal.md.
//!   remote-shim    every scripted actor has a REMOTE ActorId (`ActorRuntime::spawn_linked_remote`, the
//!                  entry point ractor_cluster uses for its RemoteActor shims) and lives on the paused
//!                  main runtime like mode `send`.  `cast` goes box_message -> SerializedMessage::Cast ->
//!                  the non-local branch of process_message -> `handle_serialized`, whose body decodes
//!                  the message and runs the same script as `handle` (same TEnter/TExit (Handle m)).
//!                  `link=-` actors are supervised by an invisible harness root (spawn_linked_remote
//!                  has no unsupervised form).  spawn_linked_remote is not an instant spawn: the op
//!                  polls its future once at once (cell creation, status Starting, pre_start up to its
//!                  first suspension; model: LSpawn a; LPoll a) and leaves the rest to a harness task.
//!                  Extra op `sendn a m`: cast of a NON-serializable message (rejected by box_message
//!                  for a remote pid; not a model step).  docs/notes/C01-remote-shim.md.
use std::collections::HashMap;
use std::rc::Rc;
use std::sync::atomic::{AtomicBool, AtomicU64, Ordering};
use std::sync::{Arc, Condvar, Mutex};
use std::time::{Duration, Instant};

use ractor::message::{BoxedDowncastErr, SerializedMessage};
use ractor::thread_local::{ThreadLocalActor, ThreadLocalActorSpawner};
use ractor::{Actor, ActorCell, ActorId, ActorProcessingErr, ActorRef, ActorStatus, SpawnErr, SupervisionEvent};
use rv_harness::*;
use tokio::sync::Notify;
use tokio::task::{AbortHandle, JoinHandle};

/// Bumped by every logged event and by every harness operation on a channel of the system
/// under test (cast / stop / kill / drain / gate / abort).  Only read by the quiescence barrier
/// of the local modes, as one more thing that must stand still.
static ACTIVITY: AtomicU64 = AtomicU64::new(0);
fn touch() {
    ACTIVITY.fetch_add(1, Ordering::SeqCst);
}

#[derive(Clone, Debug)]
enum Eff {
    Gate(u64),
    Tick,
    Send(usize, u64),
    Stop(usize, Option<u64>),
    Kill(usize),
    Drain(usize),
}
#[derive(Clone, Debug)]
enum Fin {
    Ok,
    Err(u64),
    ErrBox(u64),
    Panic(u64),
    PanicStr(u64),
    PanicAny(u64),
    /// panic before the callback's future exists
    SyncPanic(u64),
}

/// an error type of the user's own (not a String): ActorFailed must carry its Display text
#[derive(Debug)]
struct UserErr(u64);
impl std::fmt::Display for UserErr {
    fn fmt(&self, f: &mut std::fmt::Formatter<'_>) -> std::fmt::Result {
        write!(f, "t{}", self.0)
    }
}
impl std::error::Error for UserErr {}

/// text code of get_panic_string's fallback for payloads that are neither String nor &str
const UNKNOWN_PANIC: u64 = 998;
#[derive(Clone, Debug)]
struct Script(Vec<Eff>, Fin);

#[derive(Clone, Debug)]
struct Cfg {
    pre: Script,
    ps: Script,
    stop: Script,
    sup: Option<Script>,
    /// sup=tdef: the trait's own default supervision handler (host without override)
    tdef: bool,
    /// boom=y: the State's destructor panics (once) when the runtime drops the final state
    boom: bool,
    link: Option<usize>,
}

struct Gate {
    open: AtomicBool,
    notify: Notify,
}

struct Ctx {
    trace: Mutex<Vec<String>>,
    gates: Mutex<HashMap<u64, Arc<Gate>>>,
    cells: Mutex<HashMap<usize, ActorCell>>,
    ids: Mutex<HashMap<ActorId, usize>>,
    msgs: HashMap<u64, Script>,
    start_abort: Mutex<HashMap<usize, AbortHandle>>,
    loop_abort: Mutex<HashMap<usize, AbortHandle>>,
    /// per actor: the counter its State carried after the last callback that got `&mut State`
    finals: Mutex<HashMap<usize, u64>>,
    /// ActorTerminated events whose boxed state was not the subject's final state
    bad_state: Mutex<Vec<String>>,
    /// boom=y actors: the switch of their State's panicking destructor
    boom: Mutex<HashMap<usize, Arc<AtomicBool>>>,
    /// actors whose join handle completed with a panic
    join_panic: Mutex<Vec<usize>>,
}

/// State of the Send / remote hosts: reported to the supervisor on a graceful exit
/// (SupervisionEvent::ActorTerminated(_, Some(BoxedState), _)); the harness checks that what arrives
/// IS the subject's state as its last callback left it (BoxedState::take).
struct HState {
    me: usize,
    n: u64,
    boom: Option<Arc<AtomicBool>>,
}
impl Drop for HState {
    fn drop(&mut self) {
        if let Some(b) = &self.boom {
            // at most once, and never while another panic is unwinding (that would abort the process)
            if b.swap(false, Ordering::SeqCst) && !std::thread::panicking() {
                panic!("state destructor of actor {}", self.me);
            }
        }
    }
}

impl Ctx {
    fn log(&self, s: String) {
        touch();
        let mut t = self.trace.lock().unwrap();
        t.push(s);
        if t.len() > 20000 {
            eprintln!("eng_world: runaway scenario (more than 20000 events)");
            std::process::exit(3);
        }
    }
    fn gate(&self, g: u64) -> Arc<Gate> {
        self.gates
            .lock()
            .unwrap()
            .entry(g)
            .or_insert_with(|| {
                Arc::new(Gate {
                    open: AtomicBool::new(false),
                    notify: Notify::new(),
                })
            })
            .clone()
    }
    fn cell(&self, a: usize) -> Option<ActorCell> {
        self.cells.lock().unwrap().get(&a).cloned()
    }
    /// the loop task's join handle completed: normally (TJoin), cancelled (the harness aborted it), or
    /// carrying a panic (reported with the case as `(* JOIN-PANIC .. *)`)
    fn joined(&self, a: usize, r: Result<(), tokio::task::JoinError>) {
        match r {
            Ok(()) => self.log(format!("TJoin {a}")),
            Err(e) if e.is_panic() => self.join_panic.lock().unwrap().push(a),
            Err(_) => {}
        }
    }
    fn arm_boom(&self, a: usize) {
        if let Some(b) = self.boom.lock().unwrap().get(&a) {
            b.store(true, Ordering::SeqCst);
        }
    }
    fn index_of(&self, id: ActorId) -> u64 {
        self.ids.lock().unwrap().get(&id).map(|x| *x as u64).unwrap_or(999)
    }
}

fn fin_str(f: &Fin) -> String {
    match f {
        Fin::Ok => "ROk".into(),
        Fin::Err(t) | Fin::ErrBox(t) => format!("(RErr {t})"),
        Fin::Panic(t) | Fin::PanicStr(t) | Fin::SyncPanic(t) => format!("(RPanic {t})"),
        Fin::PanicAny(_) => format!("(RPanic {UNKNOWN_PANIC})"),
    }
}
fn oreason(r: &Option<u64>) -> String {
    match r {
        None => "None".into(),
        Some(k) => format!("(Some {k})"),
    }
}
fn reason_code(r: &Option<String>) -> Option<u64> {
    r.as_ref().map(|s| match s.as_str() {
        "killed" => 0,
        "Drained" => 1,
        "actor_task_cancelled" => 2,
        other => other
            .strip_prefix('r')
            .and_then(|k| k.parse::<u64>().ok())
            .map(|k| 10 + k)
            .unwrap_or(99),
    })
}
fn text_code(s: &str) -> u64 {
    if s == "Unknown panic occurred which couldn't be coerced to a string" {
        return UNKNOWN_PANIC;
    }
    s.strip_prefix('t').and_then(|k| k.parse::<u64>().ok()).unwrap_or(999)
}

/// logs TCancel if the callback future is dropped before it finished
struct CbGuard {
    ctx: Arc<Ctx>,
    me: usize,
    cb: String,
    done: bool,
}
impl Drop for CbGuard {
    fn drop(&mut self) {
        if !self.done {
            self.ctx.log(format!("TCancel {} {}", self.me, self.cb));
        }
    }
}

async fn run_script(ctx: &Arc<Ctx>, me: usize, cb: String, script: &Script) -> Result<(), ActorProcessingErr> {
    ctx.log(format!("TEnter {me} {cb}"));
    let mut guard = CbGuard {
        ctx: ctx.clone(),
        me,
        cb: cb.clone(),
        done: false,
    };
    for e in &script.0 {
        match e {
            Eff::Gate(g) => {
                let gate = ctx.gate(*g);
                if !gate.open.load(Ordering::SeqCst) {
                    ctx.log(format!("TPark {me} {g}"));
                    loop {
                        let n = gate.notify.notified();
                        if gate.open.load(Ordering::SeqCst) {
                            break;
                        }
                        n.await;
                    }
                    ctx.log(format!("TWake {me} {g}"));
                }
            }
            Eff::Tick => ctx.log(format!("TTick {me}")),
            Eff::Send(a, m) => {
                if let Some(c) = ctx.cell(*a) {
                    touch();
                    let r = ActorRef::<HMsg>::from(c).cast(HMsg(*m));
                    ctx.log(format!("TSent {a} {m} {}", coq_bool(r.is_ok())));
                }
            }
            Eff::Stop(a, r) => {
                if let Some(c) = ctx.cell(*a) {
                    ctx.log(format!("TStopReq {a} {}", oreason(&r.map(|k| k))));
                    c.stop(r.map(|k| format!("r{}", k - 10)));
                }
            }
            Eff::Kill(a) => {
                if let Some(c) = ctx.cell(*a) {
                    ctx.log(format!("TKillReq {a}"));
                    c.kill();
                }
            }
            Eff::Drain(a) => {
                if let Some(c) = ctx.cell(*a) {
                    ctx.log(format!("TDrainReq {a}"));
                    let _ = c.drain();
                }
            }
        }
    }
    guard.done = true;
    ctx.log(format!("TExit {me} {cb} {}", fin_str(&script.1)));
    if cb == "PostStop" || (cb != "PreStart" && !matches!(script.1, Fin::Ok)) {
        ctx.arm_boom(me); // the runtime drops the final state from here on
    }
    match script.1 {
        Fin::Ok => Ok(()),
        Fin::Err(t) => Err(format!("t{t}").into()),
        Fin::ErrBox(t) => Err(Box::new(UserErr(t))),
        Fin::Panic(t) => panic!("t{t}"),
        Fin::PanicStr(t) => {
            let s: &'static str = Box::leak(format!("t{t}").into_boxed_str());
            std::panic::panic_any(s)
        }
        Fin::PanicAny(t) => std::panic::panic_any(t),
        Fin::SyncPanic(t) => panic!("t{t}"), // (hosts without the explicit form: an ordinary panic)
    }
}

struct HMsg(u64);
/// `Message::serializable` is a static property of the type; the `sendn` op of mode remote-shim
/// flips it off around one cast to present a message type without wire format.
static SERIALIZABLE: AtomicBool = AtomicBool::new(true);
impl ractor::Message for HMsg {
    fn serializable() -> bool {
        SERIALIZABLE.load(Ordering::SeqCst)
    }
    fn serialize(self) -> Result<SerializedMessage, BoxedDowncastErr> {
        Ok(SerializedMessage::Cast {
            variant: "m".into(),
            args: self.0.to_be_bytes().to_vec(),
            metadata: None,
        })
    }
    fn deserialize(m: SerializedMessage) -> Result<Self, BoxedDowncastErr> {
        match m {
            SerializedMessage::Cast { args, .. } | SerializedMessage::Call { args, .. } => {
                let b: [u8; 8] = args.as_slice().try_into().map_err(|_| BoxedDowncastErr)?;
                Ok(HMsg(u64::from_be_bytes(b)))
            }
            _ => Err(BoxedDowncastErr),
        }
    }
}

/// One scripted actor's identity and scripts; the callback bodies are shared by all hosts
/// (`H`/`HT`: Send actor, `HR`/`HRT`: Send actor with a remote ActorId, `HL`/`HLT`: Send actor behind
/// the thread-local adapter, `HN`/`HNT`: native thread-local; the `..T` twins leave
/// handle_supervisor_evt to the trait's default).
#[derive(Clone)]
struct Me {
    ctx: Arc<Ctx>,
    me: usize,
    cfg: Cfg,
}

impl Me {
    /// a callback got `&mut State`: count it in the state and remember what the state now says
    fn bump(&self, st: &mut HState) {
        st.n += 1;
        self.ctx.finals.lock().unwrap().insert(self.me, st.n);
    }
    async fn cb_pre_start(&self) -> Result<(), ActorProcessingErr> {
        run_script(&self.ctx, self.me, "PreStart".into(), &self.cfg.pre).await
    }
    async fn cb_post_start(&self) -> Result<(), ActorProcessingErr> {
        run_script(&self.ctx, self.me, "PostStart".into(), &self.cfg.ps).await
    }
    async fn cb_post_stop(&self) -> Result<(), ActorProcessingErr> {
        run_script(&self.ctx, self.me, "PostStop".into(), &self.cfg.stop).await
    }
    async fn cb_handle(&self, msg: HMsg) -> Result<(), ActorProcessingErr> {
        let empty = Script(vec![], Fin::Ok);
        let script = self.ctx.msgs.get(&msg.0).unwrap_or(&empty).clone();
        run_script(&self.ctx, self.me, format!("(Handle {})", msg.0), &script).await
    }
    /// the boxed state of a graceful ActorTerminated must be the subject's own final state
    fn check_state(&self, who: usize, st: &mut ractor::actor::messages::BoxedState) {
        let verdict = if let Ok(h) = st.take::<HState>() {
            if let Some(b) = &h.boom {
                b.store(false, Ordering::SeqCst); // the harness itself drops this copy
            }
            let want = self.ctx.finals.lock().unwrap().get(&who).cloned().unwrap_or(0);
            if h.me == who && h.n == want {
                None
            } else {
                Some(format!("{who} state-of-{}-count-{}-expected-{want}", h.me, h.n))
            }
        } else {
            // the adapter's hosts carry `Me` as their state
            match st.take::<Me>() {
                Ok(m) if m.me == who => None,
                Ok(m) => Some(format!("{who} state-of-{}", m.me)),
                Err(_) => Some(format!("{who} state-of-unknown-type")),
            }
        };
        if let Some(v) = verdict {
            self.ctx.bad_state.lock().unwrap().push(v);
        }
    }
    /// a `/y` script: log the callback as entered and failed, then panic - called from the synchronous part of
    /// a callback written as `fn cb(..) -> impl Future`, i.e. before any future exists
    fn sync_panic(&self, cb: &str, script: &Script) {
        if let Fin::SyncPanic(t) = script.1 {
            self.ctx.log(format!("TEnter {} {cb}", self.me));
            self.ctx.log(format!("TExit {} {cb} (RPanic {t})", self.me));
            if cb != "PreStart" {
                self.ctx.arm_boom(self.me);
            }
            panic!("t{t}");
        }
    }
    fn msg_script(&self, m: u64) -> Script {
        self.ctx.msgs.get(&m).cloned().unwrap_or(Script(vec![], Fin::Ok))
    }
    async fn cb_sup(&self, evt: SupervisionEvent) -> Result<(), ActorProcessingErr> {
        match self.sup_prepare(evt) {
            Some((cb, s)) => run_script(&self.ctx, self.me, cb, &s).await,
            None => Ok(()),
        }
    }
    /// the synchronous half of the supervision callback: name of the callback instance and its script
    fn sup_prepare(&self, mut evt: SupervisionEvent) -> Option<(String, Script)> {
        let who = match evt.actor_cell() {
            Some(c) => self.ctx.index_of(c.get_id()),
            // ProcessGroupChanged / PidLifecycleEvent: not produced by these scenarios
            None => return None,
        };
        let (name, terminal) = match &mut evt {
            SupervisionEvent::ActorStarted(_) => (format!("(SStarted {who})"), false),
            // the state flag is logged as delivered: always `false` for thread-local children
            // (their state is not Send and is never boxed, thread_local/inner.rs); the oracle's
            // locality argument (check_C04 links locals, coq/Loop/Checks.v) accounts for that, not this log
            SupervisionEvent::ActorTerminated(_, st, reason) => {
                if let Some(b) = st.as_mut() {
                    self.check_state(who as usize, b);
                }
                (
                    format!("(STerminated {who} {} {})", coq_bool(st.is_some()), oreason(&reason_code(reason))),
                    true,
                )
            }
            SupervisionEvent::ActorFailed(_, err) => (format!("(SFailed {who} {})", text_code(&err.to_string())), true),
            _ => return None,
        };
        let s = match &self.cfg.sup {
            Some(s) => s.clone(),
            // the trait's default behaviour, made observable
            None if terminal => Script(vec![Eff::Stop(self.me, None)], Fin::Ok),
            None => Script(vec![], Fin::Ok),
        };
        Some((format!("(Sup {name})"), s))
    }
}

/// The Send hosts.  `$remote`: the actor is spawned with a remote ActorId (mode remote-shim): its cell
/// only exists once spawn_linked_remote has been polled, so pre_start publishes `myself` to the harness,
/// and its messages arrive through handle_serialized.  `$extra`: the handle_supervisor_evt override, or
/// nothing (the trait's default body then stops the actor on ActorTerminated / ActorFailed of a child).
macro_rules! send_host {
    ($name:ident, $remote:expr, { $($extra:tt)* }) => {
        struct $name(Me);

        #[cfg_attr(feature = "async-trait", ractor::async_trait)]
        impl Actor for $name {
            type Msg = HMsg;
            type State = HState;
            type Arguments = ();

            async fn pre_start(&self, myself: ActorRef<HMsg>, _: ()) -> Result<HState, ActorProcessingErr> {
                if $remote {
                    self.0.ctx.cells.lock().unwrap().insert(self.0.me, myself.get_cell());
                    self.0.ctx.ids.lock().unwrap().insert(myself.get_id(), self.0.me);
                }
                self.0.cb_pre_start().await?;
                let boom = self.0.ctx.boom.lock().unwrap().get(&self.0.me).cloned();
                Ok(HState { me: self.0.me, n: 0, boom })
            }
            async fn post_start(&self, _myself: ActorRef<HMsg>, st: &mut HState) -> Result<(), ActorProcessingErr> {
                self.0.bump(st);
                self.0.cb_post_start().await
            }
            async fn post_stop(&self, _myself: ActorRef<HMsg>, st: &mut HState) -> Result<(), ActorProcessingErr> {
                self.0.bump(st);
                self.0.cb_post_stop().await
            }
            async fn handle(&self, _myself: ActorRef<HMsg>, msg: HMsg, st: &mut HState) -> Result<(), ActorProcessingErr> {
                // never taken for a remote id (process_message hands every message to handle_serialized)
                self.0.bump(st);
                self.0.cb_handle(msg).await
            }
            async fn handle_serialized(
                &self,
                _myself: ActorRef<HMsg>,
                msg: SerializedMessage,
                st: &mut HState,
            ) -> Result<(), ActorProcessingErr> {
                let m = <HMsg as ractor::Message>::deserialize(msg)?;
                self.0.bump(st);
                self.0.cb_handle(m).await
            }
            $($extra)*
        }
    };
}

send_host!(H, false, {
    async fn handle_supervisor_evt(&self, _myself: ActorRef<HMsg>, evt: SupervisionEvent, st: &mut HState) -> Result<(), ActorProcessingErr> {
        self.0.bump(st);
        self.0.cb_sup(evt).await
    }
});
send_host!(HT, false, {});
send_host!(HR, true, {
    async fn handle_supervisor_evt(&self, _myself: ActorRef<HMsg>, evt: SupervisionEvent, st: &mut HState) -> Result<(), ActorProcessingErr> {
        self.0.bump(st);
        self.0.cb_sup(evt).await
    }
});
send_host!(HRT, true, {});

/// mode `send`, default build: the callbacks in the explicit `fn cb(..) -> impl Future + Send` form, whose
/// synchronous part can panic before a future exists (`/y`).  With the `async-trait` feature every callback
/// is an `async fn` behind the macro, there is no synchronous part: `HY` is then `H`.
#[cfg(feature = "async-trait")]
type HY = H;
#[cfg(feature = "async-trait")]
#[allow(non_snake_case)]
fn HY(me: Me) -> H {
    H(me)
}

#[cfg(not(feature = "async-trait"))]
struct HY(Me);

#[cfg(not(feature = "async-trait"))]
impl Actor for HY {
    type Msg = HMsg;
    type State = HState;
    type Arguments = ();

    fn pre_start(
        &self,
        _myself: ActorRef<HMsg>,
        _: (),
    ) -> impl std::future::Future<Output = Result<HState, ActorProcessingErr>> + Send {
        self.0.sync_panic("PreStart", &self.0.cfg.pre);
        async move {
            self.0.cb_pre_start().await?;
            let boom = self.0.ctx.boom.lock().unwrap().get(&self.0.me).cloned();
            Ok(HState { me: self.0.me, n: 0, boom })
        }
    }
    fn post_start(
        &self,
        _myself: ActorRef<HMsg>,
        st: &mut HState,
    ) -> impl std::future::Future<Output = Result<(), ActorProcessingErr>> + Send {
        self.0.bump(st);
        self.0.sync_panic("PostStart", &self.0.cfg.ps);
        async move { self.0.cb_post_start().await }
    }
    fn post_stop(
        &self,
        _myself: ActorRef<HMsg>,
        st: &mut HState,
    ) -> impl std::future::Future<Output = Result<(), ActorProcessingErr>> + Send {
        self.0.bump(st);
        self.0.sync_panic("PostStop", &self.0.cfg.stop);
        async move { self.0.cb_post_stop().await }
    }
    fn handle(
        &self,
        _myself: ActorRef<HMsg>,
        msg: HMsg,
        st: &mut HState,
    ) -> impl std::future::Future<Output = Result<(), ActorProcessingErr>> + Send {
        self.0.bump(st);
        self.0.sync_panic(&format!("(Handle {})", msg.0), &self.0.msg_script(msg.0));
        async move { self.0.cb_handle(msg).await }
    }
    fn handle_supervisor_evt(
        &self,
        _myself: ActorRef<HMsg>,
        evt: SupervisionEvent,
        st: &mut HState,
    ) -> impl std::future::Future<Output = Result<(), ActorProcessingErr>> + Send {
        self.0.bump(st);
        let prepared = self.0.sup_prepare(evt);
        if let Some((cb, s)) = &prepared {
            self.0.sync_panic(cb, s);
        }
        async move {
            match prepared {
                Some((cb, s)) => run_script(&self.0.ctx, self.0.me, cb, &s).await,
                None => Ok(()),
            }
        }
    }
}

/// the invisible supervisor of `link=-` actors in mode remote-shim: hears everything, does nothing
struct Root;

#[cfg_attr(feature = "async-trait", ractor::async_trait)]
impl Actor for Root {
    type Msg = HMsg;
    type State = ();
    type Arguments = ();

    async fn pre_start(&self, _myself: ActorRef<HMsg>, _: ()) -> Result<(), ActorProcessingErr> {
        Ok(())
    }
    async fn handle_supervisor_evt(
        &self,
        _myself: ActorRef<HMsg>,
        _evt: SupervisionEvent,
        _: &mut (),
    ) -> Result<(), ActorProcessingErr> {
        Ok(())
    }
}

static REMOTE_PID: AtomicU64 = AtomicU64::new(1);
static SENDS: AtomicU64 = AtomicU64::new(0);

/// A tracing subscriber that is interested in everything and records nothing: with it installed
/// `tracing::Span::current()` is a real span inside `info_span!(..).enter()`, ractor attaches it to the
/// messages sent there, and every `tracing::…!` / `#[instrument]` site of the runtime is live.
struct NullSub {
    next: AtomicU64,
    meta: Mutex<HashMap<u64, &'static tracing::Metadata<'static>>>,
}
thread_local! {
    static SPAN_STACK: std::cell::RefCell<Vec<u64>> = const { std::cell::RefCell::new(Vec::new()) };
}
impl tracing::Subscriber for NullSub {
    fn enabled(&self, _: &tracing::Metadata<'_>) -> bool {
        true
    }
    fn new_span(&self, a: &tracing::span::Attributes<'_>) -> tracing::span::Id {
        let id = self.next.fetch_add(1, Ordering::SeqCst) + 1;
        let mut m = self.meta.lock().unwrap();
        if m.len() > 100_000 {
            m.clear(); // ids of long-gone spans; a stale lookup only makes Span::current() "none"
        }
        m.insert(id, a.metadata());
        tracing::span::Id::from_u64(id)
    }
    fn record(&self, _: &tracing::span::Id, _: &tracing::span::Record<'_>) {}
    fn record_follows_from(&self, _: &tracing::span::Id, _: &tracing::span::Id) {}
    fn event(&self, _: &tracing::Event<'_>) {}
    fn enter(&self, id: &tracing::span::Id) {
        SPAN_STACK.with(|s| s.borrow_mut().push(id.into_u64()));
    }
    fn exit(&self, id: &tracing::span::Id) {
        SPAN_STACK.with(|s| {
            let mut s = s.borrow_mut();
            if let Some(k) = s.iter().rposition(|x| *x == id.into_u64()) {
                s.remove(k);
            }
        });
    }
    // without this Span::current() is always "none" and no message ever carries a span
    fn current_span(&self) -> tracing_core::span::Current {
        let top = SPAN_STACK.with(|s| s.borrow().last().cloned());
        match top.and_then(|id| self.meta.lock().unwrap().get(&id).map(|m| (id, *m))) {
            Some((id, m)) => tracing_core::span::Current::new(tracing::span::Id::from_u64(id), m),
            None => tracing_core::span::Current::none(),
        }
    }
}

/// mode `local-adapter`: a Send actor that is `Default` (the handler is created on the spawner
/// thread by `T::default()`, so everything per-actor travels in Arguments / State) and is hosted
/// through ractor's blanket `impl<T: Actor + Default> ThreadLocalActor for T`.
macro_rules! adapter_host {
    ($name:ident, { $($extra:tt)* }) => {
        #[derive(Default)]
        struct $name;

        #[cfg_attr(feature = "async-trait", ractor::async_trait)]
        impl Actor for $name {
            type Msg = HMsg;
            type State = Me;
            type Arguments = Me;

            async fn pre_start(&self, _myself: ActorRef<HMsg>, me: Me) -> Result<Me, ActorProcessingErr> {
                me.cb_pre_start().await?;
                Ok(me)
            }
            async fn post_start(&self, _myself: ActorRef<HMsg>, me: &mut Me) -> Result<(), ActorProcessingErr> {
                me.cb_post_start().await
            }
            async fn post_stop(&self, _myself: ActorRef<HMsg>, me: &mut Me) -> Result<(), ActorProcessingErr> {
                me.cb_post_stop().await
            }
            async fn handle(&self, _myself: ActorRef<HMsg>, msg: HMsg, me: &mut Me) -> Result<(), ActorProcessingErr> {
                me.cb_handle(msg).await
            }
            $($extra)*
        }
    };
}
adapter_host!(HL, {
    async fn handle_supervisor_evt(&self, _myself: ActorRef<HMsg>, evt: SupervisionEvent, me: &mut Me) -> Result<(), ActorProcessingErr> {
        me.cb_sup(evt).await
    }
});
adapter_host!(HLT, {});

/// mode `local-native`: a native ThreadLocalActor; its state is deliberately not Send
macro_rules! native_host {
    ($name:ident, { $($extra:tt)* }) => {
        #[derive(Default)]
        struct $name;

        impl ThreadLocalActor for $name {
            type Msg = HMsg;
            type State = (Me, Rc<()>);
            type Arguments = Me;

            async fn pre_start(&self, _myself: ActorRef<HMsg>, me: Me) -> Result<Self::State, ActorProcessingErr> {
                me.cb_pre_start().await?;
                Ok((me, Rc::new(())))
            }
            async fn post_start(&self, _myself: ActorRef<HMsg>, st: &mut Self::State) -> Result<(), ActorProcessingErr> {
                st.0.cb_post_start().await
            }
            async fn post_stop(&self, _myself: ActorRef<HMsg>, st: &mut Self::State) -> Result<(), ActorProcessingErr> {
                st.0.cb_post_stop().await
            }
            async fn handle(&self, _myself: ActorRef<HMsg>, msg: HMsg, st: &mut Self::State) -> Result<(), ActorProcessingErr> {
                st.0.cb_handle(msg).await
            }
            $($extra)*
        }
    };
}
native_host!(HN, {
    async fn handle_supervisor_evt(&self, _myself: ActorRef<HMsg>, evt: SupervisionEvent, st: &mut Self::State) -> Result<(), ActorProcessingErr> {
        st.0.cb_sup(evt).await
    }
});
native_host!(HNT, {});

fn u(s: &str) -> u64 {
    s.parse().unwrap_or_else(|_| panic!("bad number {s:?}"))
}

fn parse_script(s: &str) -> Script {
    let (effs, fin) = s.rsplit_once('/').unwrap_or_else(|| panic!("bad script {s:?}"));
    let fin = if fin == "ok" {
        Fin::Ok
    } else if let Some(k) = fin.strip_prefix('e') {
        Fin::Err(u(k))
    } else if let Some(k) = fin.strip_prefix('p') {
        Fin::Panic(u(k))
    } else if let Some(k) = fin.strip_prefix('f') {
        Fin::ErrBox(u(k))
    } else if let Some(k) = fin.strip_prefix('q') {
        Fin::PanicStr(u(k))
    } else if let Some(k) = fin.strip_prefix('z') {
        Fin::PanicAny(u(k))
    } else if let Some(k) = fin.strip_prefix('y') {
        Fin::SyncPanic(u(k))
    } else {
        panic!("bad fin {fin:?}")
    };
    let mut v = vec![];
    for e in effs.split(',').filter(|x| !x.is_empty()) {
        let (h, rest) = e.split_at(1);
        v.push(match h {
            "g" => Eff::Gate(u(rest)),
            "t" => Eff::Tick,
            "s" => {
                let (a, m) = rest.split_once(':').unwrap();
                Eff::Send(u(a) as usize, u(m))
            }
            "x" => {
                let (a, r) = rest.split_once(':').unwrap();
                Eff::Stop(u(a) as usize, if r == "n" { None } else { Some(u(r)) })
            }
            "k" => Eff::Kill(u(rest) as usize),
            "d" => Eff::Drain(u(rest) as usize),
            _ => panic!("bad effect {e:?}"),
        });
    }
    Script(v, fin)
}

fn parse_cfg(s: &str) -> Cfg {
    let mut pre = None;
    let mut ps = None;
    let mut stop = None;
    let mut sup = None;
    let mut tdef = false;
    let mut boom = false;
    let mut link = None;
    for kv in s.split_whitespace() {
        let (k, v) = kv.split_once('=').unwrap();
        match k {
            "pre" => pre = Some(parse_script(v)),
            "ps" => ps = Some(parse_script(v)),
            "stop" => stop = Some(parse_script(v)),
            "sup" => {
                tdef = v == "tdef";
                sup = if v == "def" || v == "tdef" { None } else { Some(parse_script(v)) }
            }
            "link" => link = if v == "-" { None } else { Some(u(v) as usize) },
            "boom" => boom = v == "y",
            _ => panic!("bad cfg key {k}"),
        }
    }
    Cfg {
        pre: pre.unwrap(),
        ps: ps.unwrap(),
        stop: stop.unwrap(),
        sup,
        tdef,
        boom,
        link,
    }
}

async fn settle() {
    tokio::time::sleep(Duration::from_nanos(1)).await;
}

// ------------------------------------------------------------------------------------------
// local modes: two OS threads, of which only one runs at any time
//
// * Between two `settle`s the spawner thread is FROZEN: a harness task on its LocalSet (the
//   freezer, installed by the bootstrap actor `Boot`) blocks the whole thread in a std Condvar.
//   The driver's operations therefore only enqueue wake-ups, exactly as on the single paused
//   runtime of mode `send`; nothing of the system under test runs concurrently with the driver.
// * `settle` alternates: (A) main runtime alone, spawner still frozen (`sleep(1ns)` on the paused
//   clock: every main task - the start() futures of spawn_instant, the join watchers - runs
//   until blocked); (B) spawner alone: unfreeze and wait until it is idle (`wait_idle`, below),
//   the driver thread meanwhile only samples /proc and polls no main task; (C) main again while
//   the spawner is idle but not frozen; if the spawner's kernel scheduling counters did not move
//   during (C), nothing was woken on either side after both went idle: the system is quiescent,
//   the spawner is frozen again and settle returns.  Otherwise the round is repeated.
// * `wait_idle`: every thread of this process other than the driver's must be in state `S`
//   (/proc/self/task/<tid>/stat) with identical scheduling counters (schedstat: cpu ns, wait ns,
//   times scheduled; status: voluntary / involuntary context switches), identical ACTIVITY and
//   identical trace length in 3 consecutive samples.  A thread that is runnable but starved
//   (load) is `R`, not `S`; one that ran in between has moved its counters.  No wall-clock guess
//   decides anything; the only clock is the overall bound whose expiry is an infrastructure
//   failure (exit code 3), never a verdict.

#[derive(Clone, Copy, PartialEq, Debug)]
enum Mode {
    Send,
    LocalAdapter,
    LocalNative,
    RemoteShim,
}

fn infra(msg: &str) -> ! {
    eprintln!("eng_world: INFRASTRUCTURE: {msg}");
    std::process::exit(3);
}

struct FState {
    frozen: bool,
    release: bool,
}
struct Freezer {
    m: Mutex<FState>,
    cv: Condvar,
}

struct BootArgs {
    rx: tokio::sync::mpsc::UnboundedReceiver<()>,
    fz: Arc<Freezer>,
}

/// Puts the freezer task on the spawner's LocalSet (the only public way onto that thread is a
/// thread-local actor's pre_start); the actor itself is stopped right away.
#[derive(Default)]
struct Boot;

impl ThreadLocalActor for Boot {
    type Msg = HMsg;
    type State = ();
    type Arguments = BootArgs;

    async fn pre_start(&self, _myself: ActorRef<HMsg>, a: BootArgs) -> Result<(), ActorProcessingErr> {
        tokio::task::spawn_local(async move {
            let BootArgs { mut rx, fz } = a;
            while rx.recv().await.is_some() {
                let mut g = fz.m.lock().unwrap();
                g.frozen = true;
                fz.cv.notify_all();
                while !g.release {
                    g = fz.cv.wait(g).unwrap();
                }
                g.release = false;
                g.frozen = false;
            }
        });
        Ok(())
    }
}

type Threads = Vec<(u64, String)>;

struct Local {
    spawner: ThreadLocalActorSpawner,
    tx: tokio::sync::mpsc::UnboundedSender<()>,
    fz: Arc<Freezer>,
    own: String,
    limit: Duration,
    frozen: std::cell::Cell<bool>,
}

impl Local {
    async fn new() -> Local {
        let own = std::fs::read_link("/proc/thread-self")
            .ok()
            .and_then(|p| p.file_name().map(|x| x.to_string_lossy().to_string()))
            .unwrap_or_else(|| infra("cannot read /proc/thread-self"));
        let limit = Duration::from_millis(
            std::env::var("RV_SETTLE_TIMEOUT_MS").ok().and_then(|x| x.parse().ok()).unwrap_or(10_000),
        );
        // the previous case's spawner thread must be gone: its exit would otherwise be seen as
        // "not idle" by this case's barrier and cost extra rounds (a different, equally legal,
        // schedule: LocalSet alternates between its local and remote queues by poll count)
        let t0 = Instant::now();
        while std::fs::read_dir("/proc/self/task").map(|d| d.count()).unwrap_or(1) > 1 {
            if t0.elapsed() > limit {
                infra("a thread of the previous case is still alive");
            }
            std::thread::sleep(Duration::from_micros(100));
        }
        let spawner = ThreadLocalActorSpawner::new();
        let (tx, rx) = tokio::sync::mpsc::unbounded_channel();
        let fz = Arc::new(Freezer {
            m: Mutex::new(FState {
                frozen: false,
                release: false,
            }),
            cv: Condvar::new(),
        });
        let l = Local {
            spawner,
            tx,
            fz: fz.clone(),
            own,
            limit,
            frozen: std::cell::Cell::new(false),
        };
        // Every cross-thread step of the bootstrap is taken only when the spawner thread is parked,
        // so that the number of polls of its LocalSet (which decides how it alternates between its
        // two run queues) is the same in every run of a scenario.
        let deadline = Instant::now() + limit;
        l.wait_idle(None, deadline);
        let (boot, _h) = ractor::spawn_local::<Boot>(BootArgs { rx, fz }, l.spawner.clone())
            .await
            .unwrap_or_else(|e| infra(&format!("bootstrap actor: {e}")));
        l.wait_idle(None, deadline);
        l.freeze(deadline);
        boot.stop(None); // takes effect in the first settle
        l
    }

    fn freeze(&self, deadline: Instant) {
        if self.frozen.get() {
            return;
        }
        if self.tx.send(()).is_err() {
            infra("freezer task is gone");
        }
        let mut g = self.fz.m.lock().unwrap();
        while !g.frozen {
            let (g2, _) = self.fz.cv.wait_timeout(g, Duration::from_millis(50)).unwrap();
            g = g2;
            if !g.frozen && Instant::now() > deadline {
                infra("spawner thread did not reach the freezer within the bound");
            }
        }
        self.frozen.set(true);
    }

    fn unfreeze(&self) {
        if !self.frozen.get() {
            return;
        }
        let mut g = self.fz.m.lock().unwrap();
        g.release = true;
        self.fz.cv.notify_all();
        drop(g);
        self.frozen.set(false);
    }

    /// None: some other thread is not sleeping (or appeared / vanished while being read)
    fn sample(&self) -> Option<Threads> {
        let mut v: Threads = vec![];
        for e in std::fs::read_dir("/proc/self/task").ok()? {
            let name = e.ok()?.file_name().to_string_lossy().to_string();
            if name == self.own {
                continue;
            }
            let base = format!("/proc/self/task/{name}");
            let stat = std::fs::read_to_string(format!("{base}/stat")).ok()?;
            let state = stat[stat.rfind(')')? + 1..].trim_start().chars().next()?;
            if state != 'S' {
                return None;
            }
            // counters are read AFTER the state (see the note: a run that ended before the state
            // was read is in the counters; one that started after it changes them for the next sample)
            let sched = std::fs::read_to_string(format!("{base}/schedstat")).unwrap_or_default();
            let status = std::fs::read_to_string(format!("{base}/status")).ok()?;
            let cs: Vec<&str> = status.lines().filter(|l| l.contains("ctxt_switches")).collect();
            if cs.len() != 2 {
                return None;
            }
            v.push((name.parse().ok()?, format!("{} {}", sched.trim(), cs.join(" "))));
        }
        v.sort();
        Some(v)
    }

    fn pause(busy: bool) {
        std::thread::yield_now();
        std::thread::sleep(Duration::from_micros(if busy { 200 } else { 40 }));
    }

    fn wait_idle(&self, ctx: Option<&Ctx>, deadline: Instant) -> Threads {
        let mut last: Option<(Threads, u64, usize)> = None;
        let mut n = 0;
        loop {
            let cur = self
                .sample()
                .map(|t| (t, ACTIVITY.load(Ordering::SeqCst), ctx.map(|c| c.trace.lock().unwrap().len()).unwrap_or(0)));
            let busy = cur.is_none();
            match cur {
                Some(c) => {
                    if last.as_ref() == Some(&c) {
                        n += 1;
                    } else {
                        last = Some(c);
                        n = 1;
                    }
                    if n >= 3 {
                        return last.unwrap().0;
                    }
                }
                None => {
                    last = None;
                    n = 0;
                }
            }
            if Instant::now() > deadline {
                infra("the spawner thread did not become idle within the bound (RV_SETTLE_TIMEOUT_MS)");
            }
            Self::pause(busy);
        }
    }

    async fn settle(&self, ctx: &Ctx) {
        let deadline = Instant::now() + self.limit;
        loop {
            // (A) main alone
            tokio::time::sleep(Duration::from_nanos(1)).await;
            // (B) spawner alone
            self.unfreeze();
            let idle = self.wait_idle(Some(ctx), deadline);
            // (C) main again; did it (or anything) wake the spawner?
            tokio::time::sleep(Duration::from_nanos(1)).await;
            let mut quiet = self.sample().as_ref() == Some(&idle);
            if quiet {
                Self::pause(false);
                quiet = self.sample().as_ref() == Some(&idle);
            }
            self.freeze(deadline);
            if quiet {
                return;
            }
        }
    }

    fn finish(self) {
        self.unfreeze();
        // dropping tx ends the freezer task, dropping the spawner ends the spawn loop: the
        // thread exits once every local task has finished
    }
}

async fn run_case(line: &str) -> String {
    let mut actors: Vec<Cfg> = vec![];
    let mut msgs: HashMap<u64, Script> = HashMap::new();
    let mut ops: Vec<String> = vec![];
    let mut mode = Mode::Send;
    for sec in line.split('|') {
        let sec = sec.trim();
        if let Some(r) = sec.strip_prefix("mode:") {
            mode = match r.trim() {
                "send" => Mode::Send,
                "local-adapter" => Mode::LocalAdapter,
                "local-native" => Mode::LocalNative,
                "remote-shim" => Mode::RemoteShim,
                other => panic!("unknown mode {other}"),
            };
        } else if let Some(r) = sec.strip_prefix("actors:") {
            actors = r.split(';').map(|x| x.trim()).filter(|x| !x.is_empty()).map(parse_cfg).collect();
        } else if let Some(r) = sec.strip_prefix("msgs:") {
            for kv in r.split(';').map(|x| x.trim()).filter(|x| !x.is_empty()) {
                let (k, v) = kv.split_once('=').unwrap();
                msgs.insert(u(k), parse_script(v));
            }
        } else if let Some(r) = sec.strip_prefix("ops:") {
            ops = r.split(';').map(|x| x.trim().to_string()).filter(|x| !x.is_empty()).collect();
        }
    }
    let ctx = Arc::new(Ctx {
        trace: Mutex::new(vec![]),
        gates: Mutex::new(HashMap::new()),
        cells: Mutex::new(HashMap::new()),
        ids: Mutex::new(HashMap::new()),
        msgs,
        start_abort: Mutex::new(HashMap::new()),
        loop_abort: Mutex::new(HashMap::new()),
        finals: Mutex::new(HashMap::new()),
        bad_state: Mutex::new(vec![]),
        boom: Mutex::new(HashMap::new()),
        join_panic: Mutex::new(vec![]),
    });
    // a scenario that uses `/y` anywhere is hosted by HY (callbacks in the explicit impl-Future form)
    let is_y = |s: &Script| matches!(s.1, Fin::SyncPanic(_));
    let sync_panics = ctx.msgs.values().any(is_y)
        || actors.iter().any(|c| is_y(&c.pre) || is_y(&c.ps) || is_y(&c.stop) || c.sup.as_ref().map(is_y).unwrap_or(false));
    for (a, c) in actors.iter().enumerate() {
        if c.boom {
            ctx.boom.lock().unwrap().insert(a, Arc::new(AtomicBool::new(false)));
        }
    }
    let local = if matches!(mode, Mode::LocalAdapter | Mode::LocalNative) { Some(Local::new().await) } else { None };
    let root: Option<ActorCell> = if mode == Mode::RemoteShim {
        let (r, _h) = Actor::spawn(None, Root, ()).await.unwrap_or_else(|e| infra(&format!("root actor: {e}")));
        settle().await;
        Some(r.get_cell())
    } else {
        None
    };
    for op in &ops {
        let w: Vec<&str> = op.split_whitespace().collect();
        match w[0] {
            // spawn_linked_remote is an `async fn` (no instant form): first poll now, rest in a task
            "spawn" if mode == Mode::RemoteShim => {
                let a = u(w[1]) as usize;
                if ctx.cell(a).is_some() || a >= actors.len() {
                    continue;
                }
                let cfg = actors[a].clone();
                let me = Me {
                    ctx: ctx.clone(),
                    me: a,
                    cfg: cfg.clone(),
                };
                let sup = cfg.link.and_then(|s| ctx.cell(s)).unwrap_or_else(|| root.clone().unwrap());
                let id = ActorId::Remote {
                    node_id: 7,
                    pid: REMOTE_PID.fetch_add(1, Ordering::SeqCst),
                };
                touch();
                type RemoteSpawn =
                    std::pin::Pin<Box<dyn std::future::Future<Output = Result<(ActorRef<HMsg>, JoinHandle<()>), SpawnErr>> + Send>>;
                let mut fut: RemoteSpawn = if cfg.tdef {
                    Box::pin(ractor::ActorRuntime::<HRT>::spawn_linked_remote(None, HRT(me), id, (), sup))
                } else {
                    Box::pin(ractor::ActorRuntime::<HR>::spawn_linked_remote(None, HR(me), id, (), sup))
                };
                let first = futures::poll!(fut.as_mut());
                let ctx2 = ctx.clone();
                let finish = move |ctx2: Arc<Ctx>, r: Result<(ActorRef<HMsg>, JoinHandle<()>), SpawnErr>| async move {
                    match r {
                        Ok((_aref, inner)) => {
                            ctx2.loop_abort.lock().unwrap().insert(a, inner.abort_handle());
                            ctx2.log(format!("TSpawnRet {a} true"));
                            ctx2.joined(a, inner.await);
                        }
                        Err(_) => ctx2.log(format!("TSpawnRet {a} false")),
                    }
                };
                match first {
                    std::task::Poll::Ready(r) => {
                        // the loop handle must be known to `abort` before the next op
                        if let Ok((_, inner)) = &r {
                            ctx.loop_abort.lock().unwrap().insert(a, inner.abort_handle());
                        }
                        tokio::spawn(finish(ctx2, r));
                    }
                    std::task::Poll::Pending => {
                        let h = tokio::spawn(async move {
                            let r = fut.await;
                            finish(ctx2, r).await
                        });
                        ctx.start_abort.lock().unwrap().insert(a, h.abort_handle());
                    }
                }
            }
            "sends" => {
                let a = u(w[1]) as usize;
                if let Some(c) = ctx.cell(a) {
                    touch();
                    let wire = <HMsg as ractor::Message>::serialize(HMsg(u(w[2]))).unwrap();
                    let r = c.send_serialized(wire);
                    ctx.log(format!("TSent {a} {} {}", w[2], coq_bool(r.is_ok())));
                }
            }
            "sendn" => {
                let a = u(w[1]) as usize;
                if let Some(c) = ctx.cell(a) {
                    touch();
                    SERIALIZABLE.store(false, Ordering::SeqCst);
                    let r = ActorRef::<HMsg>::from(c).cast(HMsg(u(w[2])));
                    SERIALIZABLE.store(true, Ordering::SeqCst);
                    ctx.log(format!("TSent {a} {} {}", w[2], coq_bool(r.is_ok())));
                }
            }
            "spawn" => {
                let a = u(w[1]) as usize;
                if ctx.cell(a).is_some() || a >= actors.len() {
                    continue;
                }
                let cfg = actors[a].clone();
                let me = Me {
                    ctx: ctx.clone(),
                    me: a,
                    cfg: cfg.clone(),
                };
                let sup = cfg.link.and_then(|s| ctx.cell(s));
                // spawn_linked to a supervisor that does not exist yet: treated as unlinked is NOT
                // what the model does, so generators only link to already spawned actors.
                touch();
                let res: Result<(ActorRef<HMsg>, JoinHandle<Result<JoinHandle<()>, SpawnErr>>), SpawnErr> =
                    match (mode, sup) {
                        // sup=tdef: the twin host that leaves handle_supervisor_evt to the trait's default
                        (Mode::Send, Some(s)) if cfg.tdef => ractor::ActorRuntime::<HT>::spawn_linked_instant(None, HT(me), (), s),
                        (Mode::Send, None) if cfg.tdef => ractor::ActorRuntime::<HT>::spawn_instant(None, HT(me), ()),
                        (Mode::LocalAdapter, Some(s)) if cfg.tdef => <HLT as ThreadLocalActor>::spawn_linked_instant(
                            None,
                            me,
                            s,
                            local.as_ref().unwrap().spawner.clone(),
                        ),
                        (Mode::LocalAdapter, None) if cfg.tdef => {
                            <HLT as ThreadLocalActor>::spawn_instant(None, me, local.as_ref().unwrap().spawner.clone())
                        }
                        (Mode::LocalNative, Some(s)) if cfg.tdef => <HNT as ThreadLocalActor>::spawn_linked_instant(
                            None,
                            me,
                            s,
                            local.as_ref().unwrap().spawner.clone(),
                        ),
                        (Mode::LocalNative, None) if cfg.tdef => {
                            <HNT as ThreadLocalActor>::spawn_instant(None, me, local.as_ref().unwrap().spawner.clone())
                        }
                        (Mode::Send, Some(s)) if sync_panics => ractor::ActorRuntime::<HY>::spawn_linked_instant(None, HY(me), (), s),
                        (Mode::Send, None) if sync_panics => ractor::ActorRuntime::<HY>::spawn_instant(None, HY(me), ()),
                        (Mode::Send, Some(s)) => ractor::ActorRuntime::<H>::spawn_linked_instant(None, H(me), (), s),
                        (Mode::Send, None) => ractor::ActorRuntime::<H>::spawn_instant(None, H(me), ()),
                        // thread-local hosts: the cell exists at once, start() runs as a task of the
                        // main runtime (link, then the builder is shipped to the spawner thread)
                        (Mode::LocalAdapter, Some(s)) => <HL as ThreadLocalActor>::spawn_linked_instant(
                            None,
                            me,
                            s,
                            local.as_ref().unwrap().spawner.clone(),
                        ),
                        (Mode::LocalAdapter, None) => {
                            <HL as ThreadLocalActor>::spawn_instant(None, me, local.as_ref().unwrap().spawner.clone())
                        }
                        (Mode::LocalNative, Some(s)) => <HN as ThreadLocalActor>::spawn_linked_instant(
                            None,
                            me,
                            s,
                            local.as_ref().unwrap().spawner.clone(),
                        ),
                        (Mode::LocalNative, None) => {
                            <HN as ThreadLocalActor>::spawn_instant(None, me, local.as_ref().unwrap().spawner.clone())
                        }
                        (Mode::RemoteShim, _) => unreachable!(),
                    };
                match res {
                    Ok((aref, start_handle)) => {
                        ctx.cells.lock().unwrap().insert(a, aref.get_cell());
                        ctx.ids.lock().unwrap().insert(aref.get_id(), a);
                        ctx.start_abort.lock().unwrap().insert(a, start_handle.abort_handle());
                        let ctx2 = ctx.clone();
                        tokio::spawn(async move {
                            match start_handle.await {
                                Ok(Ok(inner)) => {
                                    ctx2.loop_abort.lock().unwrap().insert(a, inner.abort_handle());
                                    ctx2.log(format!("TSpawnRet {a} true"));
                                    ctx2.joined(a, inner.await);
                                }
                                Ok(Err(_)) => ctx2.log(format!("TSpawnRet {a} false")),
                                Err(_) => {}
                            }
                        });
                    }
                    Err(_) => ctx.log(format!("TSpawnRet {a} false")),
                }
            }
            // Send mode only: the awaiting task itself runs `spawn(_linked)` to completion and aborts the
            // returned loop handle at once, i.e. before the actor's loop task has been polled a first time
            // (model: LSpawn a; LPoll a; LAbort a with the actor at the `Spawned` boundary)
            "spawnx" => {
                let a = u(w[1]) as usize;
                if ctx.cell(a).is_some() || a >= actors.len() || !matches!(mode, Mode::Send) {
                    continue;
                }
                let cfg = actors[a].clone();
                let me = Me {
                    ctx: ctx.clone(),
                    me: a,
                    cfg: cfg.clone(),
                };
                let sup = cfg.link.and_then(|s| ctx.cell(s));
                touch();
                let ctx2 = ctx.clone();
                tokio::spawn(async move {
                    let res = match sup {
                        // (through the ActorCell convenience wrapper)
                        Some(s) => s.spawn_linked(None, H(me), ()).await,
                        None => ractor::ActorRuntime::<H>::spawn(None, H(me), ()).await,
                    };
                    match res {
                        Ok((aref, inner)) => {
                            ctx2.cells.lock().unwrap().insert(a, aref.get_cell());
                            ctx2.ids.lock().unwrap().insert(aref.get_id(), a);
                            ctx2.log(format!("TSpawnRet {a} true"));
                            ctx2.log(format!("TAborted {a}"));
                            inner.abort();
                            let _ = inner.await;
                        }
                        Err(_) => ctx2.log(format!("TSpawnRet {a} false")),
                    }
                });
            }
            "send" => {
                let a = u(w[1]) as usize;
                if let Some(c) = ctx.cell(a) {
                    touch();
                    // every other driver send is made inside a tracing span: the message then carries
                    // the span and the handler is run `.instrument(span)` (message_span_propogation)
                    let n = SENDS.fetch_add(1, Ordering::SeqCst);
                    let span = tracing::info_span!("drv-send");
                    let _g = if n % 2 == 0 { Some(span.enter()) } else { None };
                    let r = ActorRef::<HMsg>::from(c).cast(HMsg(u(w[2])));
                    ctx.log(format!("TSent {a} {} {}", w[2], coq_bool(r.is_ok())));
                }
            }
            "stop" => {
                let a = u(w[1]) as usize;
                if let Some(c) = ctx.cell(a) {
                    let r = if w[2] == "n" { None } else { Some(u(w[2])) };
                    ctx.log(format!("TStopReq {a} {}", oreason(&r)));
                    c.stop(r.map(|k| format!("r{}", k - 10)));
                }
            }
            "kill" => {
                let a = u(w[1]) as usize;
                if let Some(c) = ctx.cell(a) {
                    ctx.log(format!("TKillReq {a}"));
                    c.kill();
                }
            }
            "drain" => {
                let a = u(w[1]) as usize;
                if let Some(c) = ctx.cell(a) {
                    ctx.log(format!("TDrainReq {a}"));
                    let _ = c.drain();
                }
            }
            "open" => {
                let g = ctx.gate(u(w[1]));
                touch();
                g.open.store(true, Ordering::SeqCst);
                g.notify.notify_waiters();
            }
            "abort" => {
                let a = u(w[1]) as usize;
                let lp = ctx.loop_abort.lock().unwrap().get(&a).cloned();
                let st = ctx.start_abort.lock().unwrap().get(&a).cloned();
                let h = lp.or(st);
                if let Some(h) = h {
                    if !h.is_finished() {
                        ctx.log(format!("TAborted {a}"));
                        h.abort();
                    }
                }
            }
            "settle" => match &local {
                Some(l) => l.settle(&ctx).await,
                None => settle().await,
            },
            other => panic!("unknown op {other}"),
        }
    }
    match &local {
        Some(l) => l.settle(&ctx).await,
        None => settle().await,
    }
    // tidy up: kill everything still alive so that nothing leaks into the next case
    let mut cells: Vec<(usize, ActorCell)> = ctx.cells.lock().unwrap().iter().map(|(a, c)| (*a, c.clone())).collect();
    cells.sort_by_key(|x| x.0);
    let mut out = coq_list(&ctx.trace.lock().unwrap().clone());
    for g in ctx.gates.lock().unwrap().values() {
        g.open.store(true, Ordering::SeqCst);
        g.notify.notify_waiters();
    }
    for (_, c) in &cells {
        c.kill();
    }
    match &local {
        Some(l) => l.settle(&ctx).await,
        None => settle().await,
    }
    // kill() is immediate (C03): after the settle every actor that was ever started is Stopped.
    // An actor that survived is reported with the case (a Coq comment after the trace, read by
    // lib/loopsim.py) and then disposed of through its task handles so that the next case starts clean.
    let survivors: Vec<usize> = cells
        .iter()
        .filter(|(_, c)| !matches!(c.get_status(), ActorStatus::Stopped | ActorStatus::Unstarted))
        .map(|(a, _)| *a)
        .collect();
    let mut jp = ctx.join_panic.lock().unwrap().clone();
    jp.sort();
    if !jp.is_empty() {
        let ids: Vec<String> = jp.iter().map(|a| a.to_string()).collect();
        out.push_str(&format!(" (* JOIN-PANIC {} *)", ids.join(" ")));
    }
    let bad = ctx.bad_state.lock().unwrap().clone();
    if !bad.is_empty() {
        // read by lib/loopsim.py like SURVIVED-KILL
        out.push_str(&format!(" (* BAD-STATE {} *)", bad.join(" ; ")));
    }
    if !survivors.is_empty() {
        let ids: Vec<String> = survivors.iter().map(|a| a.to_string()).collect();
        out.push_str(&format!(" (* SURVIVED-KILL {} *)", ids.join(" ")));
        for a in &survivors {
            if let Some(h) = ctx.loop_abort.lock().unwrap().get(a) {
                h.abort();
            }
            if let Some(h) = ctx.start_abort.lock().unwrap().get(a) {
                h.abort();
            }
        }
        match &local {
            Some(l) => l.settle(&ctx).await,
            None => settle().await,
        }
    }
    if let Some(l) = local {
        l.finish();
    }
    if let Some(r) = root {
        r.kill();
        settle().await;
    }
    out
}

fn main() {
    // a panicking script is part of the scenarios: keep stderr quiet
    std::panic::set_hook(Box::new(|_| {}));
    let _ = tracing::subscriber::set_global_default(NullSub { next: AtomicU64::new(0), meta: Mutex::new(HashMap::new()) });
    for line in stdin_lines() {
        let rt = tokio::runtime::Builder::new_current_thread()
            .enable_time()
            .start_paused(true)
            .build()
            .unwrap();
        let out = rt.block_on(run_case(&line));
        println!("{out}");
    }
}
