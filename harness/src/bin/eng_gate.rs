//! E4 adversary for C17: a REAL `NodeServer` + `NodeSession` (server-side or client-side)
//! talking to a scripted adversarial peer over an in-memory duplex (public
//! `ClusterBidiStream` transport).  The peer writes raw length-prefixed protobuf frames.
//! Everything is observed through public APIs only: frames the session writes back,
//! messages handled by probe actors, `ractor::pg` membership, children of the session
//! (remote-actor proxies), `NodeServerMessage::GetSessions`, the session's status and
//! `NodeSessionMessage::GetAuthenticationState`.
//!
//! stdin, one case per line:   live <server|client> <pre:0|1> <op> ; <op> ; ...
//! ops: the auth ops of eng_auth (name/sstatus/cstatus/schal/cchal/sack/empty) and
//!   nempty | mnone | cast <t> | call <t> <tag> <tmo|-> | reply <pid> <tag>
//!   | knone | kready | kspawn <pid>[:<name>].. | kterm <pid>.. | kping <ts> | kpong <ts>
//!   | kjoin <scope> <group> <pid>.. | kleave <scope> <group> <pid>..
//!   | kenum <name> <cs> | ksessions <name>:<cs>.. | malformed <j>
//! targets <t>: R (remotable probe) P (non-remotable probe) NS (node server) SESS (the session)
//!   NONE (unused pid) or a number.
//! stdout: one Coq-syntax term per case (see lib/c17_gate.py).
use std::collections::HashMap;
use std::sync::{Arc, Mutex};
use std::time::Duration;

use prost::Message as _;
use ractor::message::SerializedMessage;
use ractor::{Actor, ActorProcessingErr, ActorRef, ActorStatus};
use ractor_cluster::node::verif_auth::{
    challenge_digest, proto_auth as pa, proto_control as pc, proto_meta as pm, proto_node as pn,
};
use ractor_cluster::node::NodeServerSessionInformation;
use ractor_cluster::{
    BoxRead, BoxWrite, ClusterBidiStream, NodeEventSubscription, NodeServer, NodeServerMessage,
    NodeSessionMessage,
};
use rv_harness::*;
use tokio::io::{AsyncReadExt, AsyncWriteExt};

const K: u64 = 1 << 32;
const G: u64 = 1 << 44;
const RAW: u64 = 1 << 50;
const UNKNOWN: u64 = 1 << 60;
const SELF_NAME: u64 = 100;
const SELF_CS: u64 = 101;

fn u(s: &str) -> u64 {
    s.parse().unwrap_or_else(|_| panic!("bad number {s:?}"))
}
fn cookie_str(k: u64) -> String {
    c17_cookie(k)
}

// ---------- probes ----------

#[derive(Clone, Default)]
struct Log(Arc<Mutex<Vec<String>>>);

struct ProbeMsg(&'static str);
impl ractor::Message for ProbeMsg {
    fn serializable() -> bool {
        true
    }
    fn deserialize(m: SerializedMessage) -> Result<Self, ractor::message::BoxedDowncastErr> {
        match m {
            SerializedMessage::Cast { .. } => Ok(ProbeMsg("cast")),
            SerializedMessage::Call { .. } => Ok(ProbeMsg("call")),
            SerializedMessage::CallReply(..) => Ok(ProbeMsg("reply")),
        }
    }
}
struct Remotable(Log);
impl Actor for Remotable {
    type Msg = ProbeMsg;
    type State = ();
    type Arguments = ();
    async fn pre_start(&self, _: ActorRef<Self::Msg>, _: ()) -> Result<(), ActorProcessingErr> {
        Ok(())
    }
    async fn handle(&self, me: ActorRef<Self::Msg>, m: ProbeMsg, _: &mut ()) -> Result<(), ActorProcessingErr> {
        self.0 .0.lock().unwrap().push(format!("{} {}", m.0, me.get_id().pid()));
        Ok(())
    }
}

/// A local-only message type: `serializable()` keeps its default (false), so the actor does NOT
/// support remote messaging and is never advertised; it can nevertheless decode a wire message, so
/// that a (forbidden) delivery is observable as a handler invocation instead of a decode failure.
struct PlainMsg;
impl ractor::Message for PlainMsg {
    fn deserialize(_: SerializedMessage) -> Result<Self, ractor::message::BoxedDowncastErr> {
        Ok(PlainMsg)
    }
}
struct Plain(Log);
impl Actor for Plain {
    type Msg = PlainMsg;
    type State = ();
    type Arguments = ();
    async fn pre_start(&self, _: ActorRef<Self::Msg>, _: ()) -> Result<(), ActorProcessingErr> {
        Ok(())
    }
    async fn handle(&self, me: ActorRef<Self::Msg>, _: PlainMsg, _: &mut ()) -> Result<(), ActorProcessingErr> {
        self.0 .0.lock().unwrap().push(format!("plain {}", me.get_id().pid()));
        Ok(())
    }
}

// ---------- transport ----------

struct Duplex(tokio::io::DuplexStream);
impl ClusterBidiStream for Duplex {
    fn split(self: Box<Self>) -> (BoxRead, BoxWrite) {
        let (r, w) = tokio::io::split(self.0);
        (Box::new(r), Box::new(w))
    }
    fn peer_label(&self) -> Option<String> {
        Some("adversary".into())
    }
    fn local_label(&self) -> Option<String> {
        Some("local".into())
    }
}

#[derive(Clone, Default)]
struct Sessions(Arc<Mutex<Vec<ActorRef<NodeSessionMessage>>>>);
/// (event kind, session pid) as reported through the public NodeEventSubscription callbacks
#[derive(Clone, Default)]
struct Events(Arc<Mutex<Vec<(&'static str, u64)>>>);
struct Sub(Sessions, Events);
impl NodeEventSubscription for Sub {
    fn node_session_opened(&self, s: NodeServerSessionInformation) {
        self.0 .0.lock().unwrap().push(s.actor);
    }
    fn node_session_disconnected(&self, s: NodeServerSessionInformation) {
        self.1 .0.lock().unwrap().push(("EvDisconnected", s.actor.get_id().pid()));
    }
    fn node_session_authenticated(&self, s: NodeServerSessionInformation) {
        self.1 .0.lock().unwrap().push(("EvAuthenticated", s.actor.get_id().pid()));
    }
    fn node_session_ready(&self, s: NodeServerSessionInformation) {
        self.1 .0.lock().unwrap().push(("EvReady", s.actor.get_id().pid()));
    }
}

async fn barrier() {
    tokio::time::sleep(Duration::from_nanos(1)).await;
}

#[derive(Clone, Default)]
struct Inbox {
    frames: Arc<Mutex<Vec<pm::NetworkMessage>>>,
    eof: Arc<Mutex<bool>>,
}

/// The adversary's end of one connection.
struct Peer {
    w: tokio::io::WriteHalf<tokio::io::DuplexStream>,
    inbox: Inbox,
    taken: usize,
}

impl Peer {
    fn new(stream: tokio::io::DuplexStream) -> Self {
        let (mut r, w) = tokio::io::split(stream);
        let inbox = Inbox::default();
        let ib = inbox.clone();
        tokio::spawn(async move {
            loop {
                let len = match r.read_u64().await {
                    Ok(l) => l,
                    Err(_) => break,
                };
                let mut buf = vec![0u8; len as usize];
                if r.read_exact(&mut buf).await.is_err() {
                    break;
                }
                if let Ok(m) = pm::NetworkMessage::decode(buf.as_slice()) {
                    ib.frames.lock().unwrap().push(m);
                }
            }
            *ib.eof.lock().unwrap() = true;
        });
        Self { w, inbox, taken: 0 }
    }
    async fn send(&mut self, m: &pm::NetworkMessage) {
        let mut buf = (m.encoded_len() as u64).to_be_bytes().to_vec();
        m.encode(&mut buf).unwrap();
        let _ = self.w.write_all(&buf).await;
        let _ = self.w.flush().await;
    }
    async fn send_raw(&mut self, bytes: &[u8]) {
        let _ = self.w.write_all(bytes).await;
        let _ = self.w.flush().await;
    }
    fn new_frames(&mut self) -> Vec<pm::NetworkMessage> {
        let f = self.inbox.frames.lock().unwrap();
        let out = f[self.taken..].to_vec();
        self.taken = f.len();
        out
    }
}

// ---------- symbolic digests (same codes as eng_auth) ----------

struct Digests {
    known: HashMap<Vec<u8>, u64>,
    /// cookie index of the node under test (the only cookie its sessions hash with)
    own: u64,
    /// the digest the session last put on the wire (what a cookie-less peer can replay)
    last_sent: Option<Vec<u8>>,
}
impl Digests {
    fn new(own: u64) -> Self {
        Self { known: HashMap::new(), own, last_sent: None }
    }
    fn learn(&mut self, ch: u32) {
        self.known.insert(challenge_digest(&cookie_str(self.own), ch), 1 + ch as u64 + self.own * K);
    }
    fn sym(&self, d: &[u8]) -> u64 {
        self.known.get(d).copied().unwrap_or(UNKNOWN)
    }
    fn resolve(&mut self, spec: &str, issued: u32) -> (Vec<u8>, u64) {
        let p: Vec<&str> = spec.split(':').collect();
        match p[0] {
            // echo: replay the digest field of the last ClientChallenge / ServerAck frame the session wrote
            "E" => match self.last_sent.clone() {
                Some(b) => {
                    let c = self.sym(&b);
                    (b, c)
                }
                None => (vec![0u8; 32], RAW + 1),
            },
            "raw" => {
                let j = u(p[1]);
                (match j { 0 => vec![], 1 => vec![0u8; 32], _ => vec![0xffu8; 32] }, RAW + j)
            }
            _ => {
                let k = u(p[1]);
                let ch = if p[2] == "I" { issued } else { u(p[2]) as u32 };
                self.learn(ch);
                let mut bytes = challenge_digest(&cookie_str(k), ch);
                let mut code = 1 + ch as u64 + k * K;
                if p.len() > 3 {
                    let j = u(p[3].trim_start_matches('g'));
                    match j {
                        1 => { let l = bytes.len() - 1; bytes[l] ^= 1; }
                        2 => { bytes.pop(); }
                        3 => bytes.push(0),
                        4 => bytes[0] ^= 0x80,
                        _ => bytes[16] ^= 0x10,
                    }
                    code += G * j;
                }
                (bytes, code)
            }
        }
    }
}

// ---------- names ----------

struct Names {
    self_cs: String,
}
impl Names {
    fn name(&self, n: u64) -> String {
        format!("s{n}@h")
    }
    fn cs(&self, n: u64) -> String {
        if n == SELF_CS { self.self_cs.clone() } else { format!("c{n}") }
    }
    fn un_name(&self, s: &str) -> u64 {
        s.strip_prefix('s').and_then(|x| x.strip_suffix("@h")).and_then(|x| x.parse().ok()).unwrap_or(u64::MAX)
    }
    fn un_cs(&self, s: &str) -> u64 {
        if s == self.self_cs || s.starts_with("h:") {
            SELF_CS
        } else {
            s.strip_prefix('c').and_then(|x| x.parse().ok()).unwrap_or(u64::MAX)
        }
    }
}
fn grp(case: u64, n: u64) -> String {
    format!("g{case}_{n}")
}
fn un_grp(s: &str) -> u64 {
    s.rsplit('_').next().and_then(|x| x.parse().ok()).unwrap_or(u64::MAX)
}

fn opt_name(n: &Option<String>) -> String {
    match n {
        None => "None".into(),
        Some(s) => format!("(Some {})", s.strip_prefix('a').and_then(|x| x.parse::<u64>().ok()).unwrap_or(u64::MAX)),
    }
}
fn actors_term(l: &[pc::Actor]) -> String {
    coq_list(&l.iter().map(|a| format!("({}, {})", a.pid, opt_name(&a.name))).collect::<Vec<_>>())
}

/// Coq term (an `effect`) for a frame written by the session
fn frame_term(m: &pm::NetworkMessage, names: &Names, dg: &Digests) -> String {
    use pm::network_message::Message as M;
    match &m.message {
        None => "EFrameEmpty".into(),
        Some(M::Auth(a)) => {
            use pa::authentication_message::Msg;
            let t = match &a.msg {
                None => "AEmpty".to_string(),
                Some(Msg::Name(n)) => format!("AName {} {} {}", names.un_name(&n.name), names.un_cs(&n.connection_string), n.connection_id),
                Some(Msg::ServerStatus(s)) => format!("AServerStatus {}", s.status as u32),
                Some(Msg::ClientStatus(s)) => format!("AClientStatus {}", coq_bool(s.status)),
                Some(Msg::ServerChallenge(c)) => format!("AServerChallenge {} {} {}", names.un_name(&c.name), names.un_cs(&c.connection_string), c.challenge),
                Some(Msg::ClientChallenge(c)) => format!("AClientChallenge {} {}", c.challenge, dg.sym(&c.digest)),
                Some(Msg::ServerAck(c)) => format!("AServerAck {}", dg.sym(&c.digest)),
            };
            format!("ESendAuth ({t})")
        }
        Some(M::Control(c)) => {
            use pc::control_message::Msg;
            let t = match &c.msg {
                None => "KEmpty".to_string(),
                Some(Msg::Ready(_)) => "KReady".into(),
                Some(Msg::Spawn(s)) => format!("KSpawn {}", actors_term(&s.actors)),
                Some(Msg::Terminate(t)) => format!("KTerminate {}", coq_nums(t.ids.clone())),
                Some(Msg::Ping(_)) => "KPing 0".into(),
                Some(Msg::Pong(p)) => format!("KPong {}", p.timestamp.as_ref().map(|t| t.seconds as u64).unwrap_or(0)),
                Some(Msg::PgJoin(j)) => format!("KPgJoin {} {} {}", un_grp(&j.scope), un_grp(&j.group), actors_term(&j.actors)),
                Some(Msg::PgLeave(j)) => format!("KPgLeave {} {} {}", un_grp(&j.scope), un_grp(&j.group), actors_term(&j.actors)),
                Some(Msg::EnumerateNodeSessions(n)) => format!("KEnumerate {} {}", names.un_name(&n.name), names.un_cs(&n.connection_string)),
                Some(Msg::NodeSessions(s)) => format!(
                    "KNodeSessions {}",
                    coq_list(&s.sessions.iter().map(|n| format!("({}, {})", names.un_name(&n.name), names.un_cs(&n.connection_string))).collect::<Vec<_>>())
                ),
            };
            format!("ESendControl ({t})")
        }
        Some(M::Node(_)) => "EFrameNode".into(),
    }
}

fn auth_frame(m: pa::authentication_message::Msg) -> pm::NetworkMessage {
    pm::NetworkMessage {
        message: Some(pm::network_message::Message::Auth(pa::AuthenticationMessage { msg: Some(m) })),
    }
}
fn control_frame(m: Option<pc::control_message::Msg>) -> pm::NetworkMessage {
    pm::NetworkMessage {
        message: Some(pm::network_message::Message::Control(pc::ControlMessage { msg: m })),
    }
}
fn node_frame(m: Option<pn::node_message::Msg>) -> pm::NetworkMessage {
    pm::NetworkMessage {
        message: Some(pm::network_message::Message::Node(pn::NodeMessage { msg: m })),
    }
}

fn parse_actor(s: &str) -> (pc::Actor, String) {
    match s.split_once(':') {
        Some((p, n)) => (
            pc::Actor { pid: u(p), name: Some(format!("a{}", u(n))) },
            format!("({}, (Some {}))", u(p), u(n)),
        ),
        None => (pc::Actor { pid: u(s), name: None }, format!("({}, None)", u(s))),
    }
}

struct Ctx {
    case: u64,
    names: Names,
    dg: Digests,
    issued: u32,
    targets: HashMap<&'static str, u64>,
}

impl Ctx {
    fn target(&self, t: &str) -> u64 {
        // symbolic targets that do not exist (yet) denote an unused pid
        self.targets.get(t).copied().unwrap_or_else(|| t.parse().unwrap_or(4_000_000_000))
    }

    /// scripted frame -> (wire frame or raw bytes, Coq term of the netmsg)
    fn build(&mut self, w: &[&str]) -> (Result<pm::NetworkMessage, Vec<u8>>, String) {
        use pa::authentication_message::Msg as A;
        use pc::control_message::Msg as C;
        use pn::node_message::Msg as N;
        let flags = Some(pa::NodeFlags { version: 1 });
        match w[0] {
            "nempty" => (Ok(pm::NetworkMessage { message: None }), "NEmpty".into()),
            "empty" => (
                Ok(pm::NetworkMessage {
                    message: Some(pm::network_message::Message::Auth(pa::AuthenticationMessage { msg: None })),
                }),
                "NAuth AEmpty".into(),
            ),
            // an Auth envelope that carries only an unknown field (field 15, empty): decodes with the oneof unset
            "emptyu" => {
                let mut b = 4u64.to_be_bytes().to_vec();
                b.extend_from_slice(&[0x0a, 0x02, 0x7a, 0x00]);
                (Err(b), "NAuth AEmpty".into())
            }
            "name" => (
                Ok(auth_frame(A::Name(pa::NameMessage {
                    name: self.names.name(u(w[1])),
                    flags,
                    connection_string: self.names.cs(u(w[2])),
                    connection_id: u(w[3]),
                }))),
                format!("NAuth (AName {} {} {})", u(w[1]), u(w[2]), u(w[3])),
            ),
            "sstatus" => (
                Ok(auth_frame(A::ServerStatus(pa::ServerStatus { status: u(w[1]) as u32 as i32 }))),
                format!("NAuth (AServerStatus {})", u(w[1])),
            ),
            "cstatus" => (
                Ok(auth_frame(A::ClientStatus(pa::ClientStatus { status: w[1] == "1" }))),
                format!("NAuth (AClientStatus {})", coq_bool(w[1] == "1")),
            ),
            "schal" => {
                let ch = u(w[3]) as u32;
                self.dg.learn(ch);
                (
                    Ok(auth_frame(A::ServerChallenge(pa::Challenge {
                        name: self.names.name(u(w[1])),
                        flags,
                        challenge: ch,
                        connection_string: self.names.cs(u(w[2])),
                    }))),
                    format!("NAuth (AServerChallenge {} {} {})", u(w[1]), u(w[2]), ch),
                )
            }
            "cchal" => {
                let ch = u(w[1]) as u32;
                self.dg.learn(ch);
                let (bytes, code) = self.dg.resolve(w[2], self.issued);
                (
                    Ok(auth_frame(A::ClientChallenge(pa::ChallengeReply { challenge: ch, digest: bytes }))),
                    format!("NAuth (AClientChallenge {ch} {code})"),
                )
            }
            "sack" => {
                let (bytes, code) = self.dg.resolve(w[1], self.issued);
                (
                    Ok(auth_frame(A::ServerAck(pa::ChallengeAck { digest: bytes }))),
                    format!("NAuth (AServerAck {code})"),
                )
            }
            "mnone" => (Ok(node_frame(None)), "NNode MEmpty".into()),
            "cast" => {
                let to = self.target(w[1]);
                (
                    Ok(node_frame(Some(N::Cast(pn::Cast { to, what: vec![1, 2], variant: "v".into(), metadata: None })))),
                    format!("NNode (MCast {to})"),
                )
            }
            "call" => {
                let to = self.target(w[1]);
                let tmo = if w[3] == "-" { None } else { Some(u(w[3])) };
                (
                    Ok(node_frame(Some(N::Call(pn::Call {
                        to,
                        what: vec![3],
                        tag: u(w[2]),
                        timeout_ms: tmo,
                        variant: "v".into(),
                        metadata: None,
                    })))),
                    format!("NNode (MCall {to} {} {})", u(w[2]), tmo.map(|t| format!("(Some {t})")).unwrap_or("None".into())),
                )
            }
            "reply" => (
                Ok(node_frame(Some(N::Reply(pn::CallReply { to: u(w[1]), tag: u(w[2]), what: vec![] })))),
                format!("NNode (MReply {} {})", u(w[1]), u(w[2])),
            ),
            "knone" => (Ok(control_frame(None)), "NControl KEmpty".into()),
            "kready" => (Ok(control_frame(Some(C::Ready(pc::Ready {})))), "NControl KReady".into()),
            "kspawn" => {
                let (a, t): (Vec<_>, Vec<_>) = w[1..].iter().map(|s| parse_actor(s)).unzip();
                (Ok(control_frame(Some(C::Spawn(pc::Spawn { actors: a })))), format!("NControl (KSpawn {})", coq_list(&t)))
            }
            "kterm" => {
                let ids: Vec<u64> = w[1..].iter().map(|s| u(s)).collect();
                (
                    Ok(control_frame(Some(C::Terminate(pc::Terminate { ids: ids.clone() })))),
                    format!("NControl (KTerminate {})", coq_nums(ids)),
                )
            }
            "kping" => (
                Ok(control_frame(Some(C::Ping(ping_ts(u(w[1])))))),
                format!("NControl (KPing {})", u(w[1])),
            ),
            "kpong" => (
                Ok(control_frame(Some(C::Pong(pong_ts(u(w[1])))))),
                format!("NControl (KPong {})", u(w[1])),
            ),
            "kjoin" | "kleave" => {
                let (a, t): (Vec<_>, Vec<_>) = w[3..].iter().map(|s| parse_actor(s)).unzip();
                let scope = grp(self.case, u(w[1]));
                let group = grp(self.case, u(w[2]));
                if w[0] == "kjoin" {
                    (
                        Ok(control_frame(Some(C::PgJoin(pc::PgJoin { scope, group, actors: a })))),
                        format!("NControl (KPgJoin {} {} {})", u(w[1]), u(w[2]), coq_list(&t)),
                    )
                } else {
                    (
                        Ok(control_frame(Some(C::PgLeave(pc::PgLeave { scope, group, actors: a })))),
                        format!("NControl (KPgLeave {} {} {})", u(w[1]), u(w[2]), coq_list(&t)),
                    )
                }
            }
            "kenum" => (
                Ok(control_frame(Some(C::EnumerateNodeSessions(pa::NameMessage {
                    name: self.names.name(u(w[1])),
                    flags,
                    connection_string: self.names.cs(u(w[2])),
                    connection_id: 0,
                })))),
                format!("NControl (KEnumerate {} {})", u(w[1]), u(w[2])),
            ),
            "ksessions" => {
                let mut l = vec![];
                let mut t = vec![];
                for s in &w[1..] {
                    let (n, c) = s.split_once(':').unwrap();
                    l.push(pa::NameMessage {
                        name: self.names.name(u(n)),
                        flags,
                        connection_string: self.names.cs(u(c)),
                        connection_id: 0,
                    });
                    t.push(format!("({}, {})", u(n), u(c)));
                }
                (
                    Ok(control_frame(Some(C::NodeSessions(pc::NodeSessions { sessions: l })))),
                    format!("NControl (KNodeSessions {})", coq_list(&t)),
                )
            }
            "malformed" => {
                let bytes = match u(w[1]) {
                    0 => {
                        let mut b = 5u64.to_be_bytes().to_vec();
                        b.extend_from_slice(&[0xff, 0xff, 0xff, 0xff, 0xff]);
                        b
                    }
                    1 => u64::MAX.to_be_bytes().to_vec(),
                    3 => {
                        // an Auth frame whose embedded message is cut short: field 1, LEN 5, 1 byte present
                        let mut b = 3u64.to_be_bytes().to_vec();
                        b.extend_from_slice(&[0x0a, 0x05, 0x0a]);
                        b
                    }
                    4 => {
                        // a Control frame (field 3) with an invalid wire type inside
                        let mut b = 3u64.to_be_bytes().to_vec();
                        b.extend_from_slice(&[0x1a, 0x01, 0x0f]);
                        b
                    }
                    _ => {
                        let mut b = 100u64.to_be_bytes().to_vec();
                        b.extend_from_slice(&[8, 1]);
                        b
                    }
                };
                (Err(bytes), format!("Malformed {}", u(w[1])))
            }
            other => panic!("unknown op {other}"),
        }
    }
}

/// Ping / Pong with a timestamp of `s` seconds (s < 128), built by decoding the wire bytes so
/// that the harness does not need the prost-types crate.
fn ping_ts(s: u64) -> pc::Ping {
    pc::Ping::decode(&[0x0a, 0x02, 0x08, (s & 0x7f) as u8][..]).unwrap()
}
fn pong_ts(s: u64) -> pc::Pong {
    pc::Pong::decode(&[0x0a, 0x02, 0x08, (s & 0x7f) as u8][..]).unwrap()
}

/// honest complete handshake of a peer named `n` against a server-side session
async fn honest_server_handshake(peer: &mut Peer, names: &Names, n: u64, own: u64, nonce: u64) {
    use pa::authentication_message::Msg as A;
    peer.send(&auth_frame(A::Name(pa::NameMessage {
        name: names.name(n),
        flags: Some(pa::NodeFlags { version: 1 }),
        connection_string: names.cs(n),
        connection_id: nonce,
    })))
    .await;
    barrier().await;
    let mut ch = 0;
    for f in peer.new_frames() {
        if let Some(pm::network_message::Message::Auth(a)) = f.message {
            if let Some(A::ServerChallenge(c)) = a.msg {
                ch = c.challenge;
            }
        }
    }
    peer.send(&auth_frame(A::ClientChallenge(pa::ChallengeReply {
        challenge: 1,
        digest: challenge_digest(&cookie_str(own), ch),
    })))
    .await;
    barrier().await;
    peer.send(&control_frame(Some(pc::control_message::Msg::Ready(pc::Ready {})))).await;
    barrier().await;
    peer.new_frames();
}

/// honest acceptor for a client-side session of the node: the peer named `n` knows the cookie
async fn honest_acceptor(peer: &mut Peer, names: &Names, n: u64, own: u64) {
    use pa::authentication_message::Msg as A;
    barrier().await;
    peer.new_frames(); // the node's Name
    peer.send(&auth_frame(A::ServerStatus(pa::ServerStatus { status: 0 }))).await;
    peer.send(&auth_frame(A::ServerChallenge(pa::Challenge {
        name: names.name(n),
        flags: Some(pa::NodeFlags { version: 1 }),
        challenge: 4242,
        connection_string: names.cs(n),
    })))
    .await;
    barrier().await;
    let mut my = 0;
    for f in peer.new_frames() {
        if let Some(pm::network_message::Message::Auth(a)) = f.message {
            if let Some(A::ClientChallenge(c)) = a.msg {
                my = c.challenge;
            }
        }
    }
    peer.send(&auth_frame(A::ServerAck(pa::ChallengeAck { digest: challenge_digest(&cookie_str(own), my) }))).await;
    barrier().await;
    peer.send(&control_frame(Some(pc::control_message::Msg::Ready(pc::Ready {})))).await;
    barrier().await;
    peer.new_frames();
}

// ---------- handler-level runs on a constructed state (hook: node_session::verif_gate) ----------

/// Scripted node server: how it answers CheckSession / GetSessions (0..3 = SessionCheckReply,
/// 9 = drop the reply port, i.e. the call fails).
#[derive(Clone, Default)]
struct StubMode(Arc<Mutex<u8>>);
struct ServerStub(StubMode);
impl Actor for ServerStub {
    type Msg = NodeServerMessage;
    type State = ();
    type Arguments = ();
    async fn pre_start(&self, _: ActorRef<Self::Msg>, _: ()) -> Result<(), ActorProcessingErr> {
        Ok(())
    }
    async fn handle(&self, _: ActorRef<Self::Msg>, m: NodeServerMessage, _: &mut ()) -> Result<(), ActorProcessingErr> {
        use ractor_cluster::node::SessionCheckReply as R;
        let mode = *self.0 .0.lock().unwrap();
        match m {
            NodeServerMessage::CheckSession { reply, .. } => match mode {
                0 => { let _ = reply.send(R::NoOtherConnection); }
                1 => { let _ = reply.send(R::ThisConnectionContinues); }
                2 => { let _ = reply.send(R::OtherConnectionContinues); }
                3 => { let _ = reply.send(R::DuplicateConnection); }
                _ => drop(reply),
            },
            NodeServerMessage::GetSessions(reply) => {
                if mode == 9 {
                    drop(reply);
                } else {
                    let _ = reply.send(HashMap::new());
                }
            }
            _ => {}
        }
        Ok(())
    }
}
struct SessionStub;
impl Actor for SessionStub {
    type Msg = NodeSessionMessage;
    type State = ();
    type Arguments = ();
    async fn pre_start(&self, _: ActorRef<Self::Msg>, _: ()) -> Result<(), ActorProcessingErr> {
        Ok(())
    }
    // the stand-in supervises the proxies; their exit must not stop it (the default would)
    async fn handle_supervisor_evt(&self, _: ActorRef<Self::Msg>, _: ractor::SupervisionEvent, _: &mut ()) -> Result<(), ActorProcessingErr> {
        Ok(())
    }
}

/// unit <kind> <adv: comma separated targets or -> <op> ; <op> ...
async fn run_unit(case: u64, rest: &str) -> String {
    use ractor_cluster::node::node_session::verif_gate::{AuthKind, VerifSession};
    let mut it = rest.splitn(3, ' ');
    let kind_s = it.next().unwrap();
    let adv_s = it.next().unwrap();
    let ops = it.next().unwrap_or("");
    let log = Log::default();
    let (r, _) = Actor::spawn(None, Remotable(log.clone()), ()).await.unwrap();
    let (p, _) = Actor::spawn(None, Plain(log.clone()), ()).await.unwrap();
    let (d, dh) = Actor::spawn(None, Remotable(log.clone()), ()).await.unwrap();
    d.stop(None);
    let _ = dh.await;
    ractor::pg::join_scoped(grp(case, 900), grp(case, 901), vec![r.get_cell()]);
    let own = 0u64;
    let stub_mode = StubMode::default();
    let (ns, _) = Actor::spawn(None, ServerStub(stub_mode.clone()), ()).await.unwrap();
    let (me, _) = Actor::spawn(None, SessionStub, ()).await.unwrap();
    let mut ctx = Ctx {
        case,
        names: Names { self_cs: "h:1".into() },
        dg: Digests::new(own),
        issued: 0,
        targets: HashMap::new(),
    };
    ctx.targets.insert("R", r.get_id().pid());
    ctx.targets.insert("P", p.get_id().pid());
    ctx.targets.insert("D", d.get_id().pid());
    ctx.targets.insert("NS", ns.get_id().pid());
    ctx.targets.insert("SESS", me.get_id().pid());
    ctx.targets.insert("NONE", 4_000_000_000);
    let adv: Vec<u64> = if adv_s == "-" { vec![] } else { adv_s.split(',').map(|t| ctx.target(t)).collect() };
    let kind = match kind_s {
        "sinit" => AuthKind::ServerInit,
        "schal" => {
            ctx.issued = 4242;
            ctx.dg.learn(4242);
            AuthKind::ServerChallenged(4242)
        }
        "sok" => AuthKind::ServerOk,
        "sclose" => AuthKind::ServerClose,
        "cinit" => AuthKind::ClientInit,
        "cok" => AuthKind::ClientOk,
        _ => AuthKind::ClientClose,
    };
    let peer = if matches!(kind_s, "sinit" | "cinit") { None } else { Some(("s1@h", "c1")) };
    let mut vs = VerifSession::new(&cookie_str(0), &format!("s{SELF_NAME}@h"), "h:1", ns.get_cell(), me.get_cell(), kind, peer, &adv).await;
    let mut steps = vec![];
    let mut seen_log = 0usize;
    for op in ops.split(';') {
        let w: Vec<&str> = op.split_whitespace().collect();
        if w.is_empty() {
            continue;
        }
        if w[0] == "nsreply" {
            // harness-local: change how the scripted node server answers from now on
            *stub_mode.0.lock().unwrap() = if w[1] == "drop" { 9 } else { u(w[1]) as u8 };
            steps.push(format!("(Stub {})", if w[1] == "drop" { 9 } else { u(w[1]) }));
            continue;
        }
        let (frame, term) = ctx.build(&w);
        let Ok(frame) = frame else { continue };
        let mut adv_before = vs.advertised();
        adv_before.sort();
        let ok_before = vs.auth_kind() == 1;
        vs.receive(frame).await;
        barrier().await;
        let frames = vs.take_sent();
        let mut rnd = 0u32;
        for f in &frames {
            if let Some(pm::network_message::Message::Auth(a)) = &f.message {
                match &a.msg {
                    Some(pa::authentication_message::Msg::ServerChallenge(c)) => {
                        ctx.issued = c.challenge;
                        rnd = c.challenge;
                        ctx.dg.learn(c.challenge);
                    }
                    Some(pa::authentication_message::Msg::ClientChallenge(c)) => {
                        ctx.issued = c.challenge;
                        rnd = c.challenge;
                        ctx.dg.learn(c.challenge);
                        ctx.dg.last_sent = Some(c.digest.clone());
                    }
                    Some(pa::authentication_message::Msg::ServerAck(c)) => {
                        ctx.dg.last_sent = Some(c.digest.clone());
                    }
                    _ => {}
                }
            }
        }
        let frame_terms: Vec<String> = frames.iter().map(|f| frame_term(f, &ctx.names, &ctx.dg)).collect();
        let deliveries: Vec<String> = {
            let l = log.0.lock().unwrap();
            let out = l[seen_log..]
                .iter()
                .map(|s| {
                    let (k, pid) = s.split_once(' ').unwrap();
                    match k {
                        "cast" => format!("EDeliverCast {pid}"),
                        "call" => format!("EDeliverCall {pid} 0"),
                        _ => format!("EDeliverOther {pid}"),
                    }
                })
                .collect();
            seen_log = l.len();
            out
        };
        let mut proxies: Vec<(u64, String)> = me
            .get_children()
            .iter()
            .filter(|c| !c.get_id().is_local())
            .map(|c| (c.get_id().pid(), opt_name(&c.get_name())))
            .collect();
        proxies.sort();
        let mut remote = vs.remote_pids();
        remote.sort();
        let mut adv_after = vs.advertised();
        adv_after.sort();
        let mut groups = vec![];
        for s in 1..=2u64 {
            for g in 1..=2u64 {
                let mut m: Vec<u64> = ractor::pg::get_scoped_members(&grp(case, s), &grp(case, g)).iter().map(|c| c.get_id().pid()).collect();
                m.sort();
                if !m.is_empty() {
                    groups.push(format!("({s}, {g}, {})", coq_nums(m)));
                }
            }
        }
        let stopped = !matches!(me.get_status(), ActorStatus::Running);
        steps.push(format!(
            "({term}, ({}, {}, {}), {}, {}, {}, {}, ({}, {}, {}), {rnd})",
            coq_bool(ok_before),
            vs.auth_kind(),
            coq_bool(stopped),
            coq_list(&frame_terms),
            coq_list(&deliveries),
            coq_list(&proxies.iter().map(|(p, n)| format!("({p}, {n})")).collect::<Vec<_>>()),
            coq_list(&groups),
            coq_nums(adv_before),
            coq_nums(adv_after),
            coq_nums(remote),
        ));
        if stopped {
            break;
        }
    }
    let header = format!("({}, {}, {})", r.get_id().pid(), coq_nums(adv), kind_s_code(kind_s));
    vs.shutdown();
    ns.stop(None);
    me.stop(None);
    r.stop(None);
    p.stop(None);
    barrier().await;
    barrier().await;
    format!("({header}, {})", coq_list(&steps))
}

fn kind_s_code(k: &str) -> u64 {
    match k {
        "sinit" => 0,
        "schal" => 1,
        "sok" => 2,
        "sclose" => 3,
        "cinit" => 4,
        "cok" => 5,
        _ => 6,
    }
}

async fn run_live(case: u64, rest: &str) -> String {
    let mut it = rest.splitn(3, ' ');
    let role = it.next().unwrap();
    let (role, transitive) = match role.strip_suffix("/T") {
        Some(r) => (r, true),
        None => (role, false),
    };
    let (role, own) = match role.split_once('@') {
        Some((r, k)) => (r, u(k)),
        None => (role, 0),
    };
    let is_server = role == "server";
    let pre = it.next().unwrap() == "1";
    let ops = it.next().unwrap_or("");

    let log = Log::default();
    let (r, _) = Actor::spawn(None, Remotable(log.clone()), ()).await.unwrap();
    let (p, _) = Actor::spawn(None, Plain(log.clone()), ()).await.unwrap();
    // the remotable probe is a member of a local group (advertised by after_authenticated)
    ractor::pg::join_scoped(grp(case, 900), grp(case, 901), vec![r.get_cell()]);

    let (ns, _) = Actor::spawn(
        None,
        NodeServer::new(
            0,
            cookie_str(own),
            format!("s{SELF_NAME}"),
            "h".into(),
            None,
            Some(if transitive {
                ractor_cluster::node::NodeConnectionMode::Transitive
            } else {
                ractor_cluster::node::NodeConnectionMode::Isolated
            }),
        ),
        (),
    )
    .await
    .expect("node server");
    let sessions = Sessions::default();
    let events = Events::default();
    ns.cast(NodeServerMessage::SubscribeToEvents { id: "h".into(), subscription: Box::new(Sub(sessions.clone(), events.clone())) }).unwrap();
    barrier().await;

    // learn this node's connection string (the listener's port is chosen by the OS) through a
    // throw-away connection that is closed again before the case starts
    let mut self_cs = "h:0".to_string();
    {
        let (a, b) = tokio::io::duplex(1 << 16);
        ns.cast(NodeServerMessage::ConnectionOpenedExternal { stream: Box::new(Duplex(a)), is_server: true }).unwrap();
        barrier().await;
        let mut pp = Peer::new(b);
        pp.send(&auth_frame(pa::authentication_message::Msg::Name(pa::NameMessage {
            name: "s999@h".into(),
            flags: None,
            connection_string: "c999".into(),
            connection_id: 1,
        })))
        .await;
        barrier().await;
        for f in pp.new_frames() {
            if let Some(pm::network_message::Message::Auth(a)) = f.message {
                if let Some(pa::authentication_message::Msg::ServerChallenge(c)) = a.msg {
                    self_cs = c.connection_string;
                }
            }
        }
        drop(pp);
        barrier().await;
        barrier().await;
        sessions.0.lock().unwrap().clear();
    }

    let mut pre_peer = None;
    if pre {
        let (a, b) = tokio::io::duplex(1 << 20);
        ns.cast(NodeServerMessage::ConnectionOpenedExternal { stream: Box::new(Duplex(a)), is_server: true }).unwrap();
        barrier().await;
        let mut pp = Peer::new(b);
        honest_server_handshake(&mut pp, &Names { self_cs: self_cs.clone() }, 1, own, 7777).await;
        pre_peer = Some(pp);
    }
    let n_pre = sessions.0.lock().unwrap().len();

    let (a, b) = tokio::io::duplex(1 << 20);
    if is_server {
        ns.cast(NodeServerMessage::ConnectionOpenedExternal { stream: Box::new(Duplex(a)), is_server }).unwrap();
    } else {
        // the public entry point for outgoing connections over a custom transport
        ractor_cluster::client_connect_external(&ns, Box::new(Duplex(a))).await.expect("connect_external");
    }
    barrier().await;
    let session = sessions.0.lock().unwrap().get(n_pre).cloned().expect("session opened");
    let mut peer = Peer::new(b);
    barrier().await;

    let mut ctx = Ctx {
        case,
        names: Names { self_cs },
        dg: Digests::new(own),
        issued: 0,
        targets: HashMap::new(),
    };
    ctx.targets.insert("R", r.get_id().pid());
    ctx.targets.insert("P", p.get_id().pid());
    ctx.targets.insert("NS", ns.get_id().pid());
    ctx.targets.insert("SESS", session.get_id().pid());
    ctx.targets.insert("NONE", 4_000_000_000);

    // frames written by the session at start-up (a client-side session announces its name)
    let mut connid = 0u64;
    let mut init_frames = vec![];
    for f in peer.new_frames() {
        if let Some(pm::network_message::Message::Auth(a)) = &f.message {
            if let Some(pa::authentication_message::Msg::Name(n)) = &a.msg {
                connid = n.connection_id;
                ctx.names.self_cs = n.connection_string.clone();
            }
        }
        init_frames.push(f);
    }
    let init_terms: Vec<String> = init_frames
        .iter()
        .map(|f| {
            // the random connection id is reported separately
            match &f.message {
                Some(pm::network_message::Message::Auth(pa::AuthenticationMessage {
                    msg: Some(pa::authentication_message::Msg::Name(n)),
                })) => format!("ESendAuth (AName {} {} 0)", ctx.names.un_name(&n.name), ctx.names.un_cs(&n.connection_string)),
                _ => frame_term(f, &ctx.names, &ctx.dg),
            }
        })
        .collect();

    let mut steps = vec![];
    let mut seen_log = 0usize;
    let mut seen_ev = events.0.lock().unwrap().len();
    let mut extra: Vec<ractor::ActorCell> = vec![];
    let mut honest_peers: Vec<Peer> = vec![];
    for op in ops.split(';') {
        let w: Vec<&str> = op.split_whitespace().collect();
        if w.is_empty() {
            continue;
        }
        // local (not peer-caused) events on the node under test: a new local actor appears / exits
        let term = if w[0] == "lspawnR" || w[0] == "lspawnP" {
            let rem = w[0] == "lspawnR";
            let pid = if rem {
                let (a, _) = Actor::spawn(None, Remotable(log.clone()), ()).await.unwrap();
                extra.push(a.get_cell());
                a.get_id().pid()
            } else {
                let (a, _) = Actor::spawn(None, Plain(log.clone()), ()).await.unwrap();
                extra.push(a.get_cell());
                a.get_id().pid()
            };
            ctx.targets.insert(if rem { "R2" } else { "P2" }, pid);
            format!("LSpawn {pid} {}", coq_bool(rem))
        } else if w[0] == "honest" {
            // a SECOND, honest peer (it knows the cookie) named w[2] completes a full handshake on its own
            // connection now: `honest in <n> <nonce>` dials in, `honest out <n>` accepts the node's outgoing connection
            let (a, b) = tokio::io::duplex(1 << 20);
            let n = u(w[2]);
            if w[1] == "in" {
                ns.cast(NodeServerMessage::ConnectionOpenedExternal { stream: Box::new(Duplex(a)), is_server: true }).unwrap();
                barrier().await;
                let mut pp = Peer::new(b);
                let names = Names { self_cs: ctx.names.self_cs.clone() };
                honest_server_handshake(&mut pp, &names, n, own, u(w[3])).await;
                honest_peers.push(pp);
            } else {
                ractor_cluster::client_connect_external(&ns, Box::new(Duplex(a))).await.expect("connect_external");
                barrier().await;
                let mut pp = Peer::new(b);
                let names = Names { self_cs: ctx.names.self_cs.clone() };
                honest_acceptor(&mut pp, &names, n, own).await;
                honest_peers.push(pp);
            }
            format!("LHonest {n}")
        } else if w[0] == "lstopR2" {
            match ctx.targets.remove("R2") {
                Some(pid) => {
                    if let Some(c) = extra.iter().find(|c| c.get_id().pid() == pid) {
                        c.stop(None);
                    }
                    format!("LTerminate {pid} true")
                }
                None => "LNone".to_string(),
            }
        } else {
            let (frame, term) = ctx.build(&w);
            match &frame {
                Ok(m) => peer.send(m).await,
                Err(bytes) => peer.send_raw(bytes).await,
            }
            term
        };
        barrier().await;
        barrier().await;
        // --- observe
        let frames = peer.new_frames();
        let mut rnd = 0u32;
        for f in &frames {
            if let Some(pm::network_message::Message::Auth(a)) = &f.message {
                match &a.msg {
                    Some(pa::authentication_message::Msg::ServerChallenge(c)) => {
                        ctx.issued = c.challenge;
                        rnd = c.challenge;
                        ctx.dg.learn(c.challenge);
                        ctx.names.self_cs = c.connection_string.clone();
                    }
                    Some(pa::authentication_message::Msg::ClientChallenge(c)) => {
                        ctx.issued = c.challenge;
                        rnd = c.challenge;
                        ctx.dg.learn(c.challenge);
                        ctx.dg.last_sent = Some(c.digest.clone());
                    }
                    Some(pa::authentication_message::Msg::ServerAck(c)) => {
                        ctx.dg.last_sent = Some(c.digest.clone());
                    }
                    _ => {}
                }
            }
        }
        let frame_terms: Vec<String> = frames.iter().map(|f| frame_term(f, &ctx.names, &ctx.dg)).collect();
        let alive = matches!(
            session.get_status(),
            ActorStatus::Unstarted | ActorStatus::Starting | ActorStatus::Running | ActorStatus::Upgrading | ActorStatus::Draining
        );
        let ok = if alive {
            matches!(
                session.call(NodeSessionMessage::GetAuthenticationState, Some(Duration::from_millis(100))).await,
                Ok(ractor::rpc::CallResult::Success(true))
            )
        } else {
            false
        };
        barrier().await;
        let alive_after_probe = matches!(
            session.get_status(),
            ActorStatus::Unstarted | ActorStatus::Starting | ActorStatus::Running | ActorStatus::Upgrading | ActorStatus::Draining
        );
        let listed: Vec<String> = match ractor::call_t!(ns, NodeServerMessage::GetSessions, 100) {
            Ok(m) => {
                let mut v: Vec<(u64, String)> = m
                    .values()
                    .map(|s| {
                        (
                            s.actor.get_id().pid(),
                            match &s.peer_name {
                                Some(n) => format!("({}, {})", ctx.names.un_name(&n.name), ctx.names.un_cs(&n.connection_string)),
                                None => "(0, 0)".into(),
                            },
                        )
                    })
                    .collect();
                v.sort();
                v.into_iter().map(|(pid, n)| format!("({}, {})", coq_bool(pid == session.get_id().pid()), n)).collect()
            }
            Err(_) => vec![],
        };
        let evs: Vec<String> = {
            let l = events.0.lock().unwrap();
            let out = l[seen_ev..]
                .iter()
                .map(|(k, pid)| format!("({k} {})", coq_bool(*pid == session.get_id().pid())))
                .collect();
            seen_ev = l.len();
            out
        };
        let deliveries: Vec<String> = {
            let l = log.0.lock().unwrap();
            let out = l[seen_log..]
                .iter()
                .map(|s| {
                    let (k, pid) = s.split_once(' ').unwrap();
                    match k {
                        "cast" => format!("EDeliverCast {pid}"),
                        "call" => format!("EDeliverCall {pid} 0"),
                        _ => format!("EDeliverOther {pid}"),
                    }
                })
                .collect();
            seen_log = l.len();
            out
        };
        let mut proxies: Vec<(u64, String)> = session
            .get_children()
            .iter()
            .filter(|c| !c.get_id().is_local())
            .map(|c| (c.get_id().pid(), opt_name(&c.get_name())))
            .collect();
        proxies.sort();
        let proxy_terms: Vec<String> = proxies.iter().map(|(p, n)| format!("({p}, {n})")).collect();
        // pg membership of the groups 1..3 x 1..3 of this case
        let mut groups = vec![];
        for s in 1..=2u64 {
            for g in 1..=2u64 {
                let mut m: Vec<u64> = ractor::pg::get_scoped_members(&grp(case, s), &grp(case, g))
                    .iter()
                    .map(|c| c.get_id().pid())
                    .collect();
                m.sort();
                if !m.is_empty() {
                    groups.push(format!("({s}, {g}, {})", coq_nums(m)));
                }
            }
        }
        steps.push(format!(
            "({term}, ({}, {}, {}), {}, {}, {}, {}, {}, {rnd}, {})",
            coq_bool(alive),
            coq_bool(ok),
            coq_bool(alive_after_probe),
            coq_list(&frame_terms),
            coq_list(&deliveries),
            coq_list(&proxy_terms),
            coq_list(&groups),
            coq_list(&listed),
            coq_list(&evs),
        ));
    }
    let header = format!(
        "({}, {}, {}, {}, {}, {})",
        coq_bool(is_server),
        connid,
        r.get_id().pid(),
        p.get_id().pid(),
        ns.get_id().pid(),
        session.get_id().pid()
    );
    // ---- tear down
    for c in &extra {
        c.stop(None);
    }
    drop(honest_peers);
    drop(peer);
    drop(pre_peer);
    ns.stop(None);
    r.stop(None);
    p.stop(None);
    barrier().await;
    barrier().await;
    format!("({header}, {}, {})", coq_list(&init_terms), coq_list(&steps))
}

// ---------- real TCP connections: the listener / client::connect entry points (ConnectionOpened) ----------
//
// tcp <in|out>[@K] <good|none|wrong:<dspec>> <pre ops ; ...> | <post ops ; ...>
//   in : the adversary dials the node's own TCP listener (server-side session)
//   out: the node dials the adversary's TCP listener through `client_connect` (client-side session)
// Runs on an ordinary (not paused) runtime; every wait is an await on the socket (a frame or EOF) or on
// the actor status, never a timeout that decides anything (the 20 s guard only turns a hang into an error).

async fn tcp_read_frame(s: &mut tokio::net::TcpStream) -> Option<pm::NetworkMessage> {
    let len = s.read_u64().await.ok()?;
    let mut buf = vec![0u8; len as usize];
    s.read_exact(&mut buf).await.ok()?;
    pm::NetworkMessage::decode(buf.as_slice()).ok()
}
async fn tcp_send(s: &mut tokio::net::TcpStream, m: &pm::NetworkMessage) {
    let mut buf = (m.encoded_len() as u64).to_be_bytes().to_vec();
    m.encode(&mut buf).unwrap();
    let _ = s.write_all(&buf).await;
    let _ = s.flush().await;
}
/// read frames into `got` until `pred` holds for one of them; false on EOF
async fn tcp_until(s: &mut tokio::net::TcpStream, got: &mut Vec<pm::NetworkMessage>, pred: impl Fn(&pm::NetworkMessage) -> bool) -> bool {
    loop {
        match tcp_read_frame(s).await {
            None => return false,
            Some(f) => {
                let hit = pred(&f);
                got.push(f);
                if hit {
                    return true;
                }
            }
        }
    }
}
fn is_auth(f: &pm::NetworkMessage, p: impl Fn(&pa::authentication_message::Msg) -> bool) -> bool {
    matches!(&f.message, Some(pm::network_message::Message::Auth(a)) if a.msg.as_ref().is_some_and(|m| p(m)))
}
fn is_control(f: &pm::NetworkMessage, p: impl Fn(&pc::control_message::Msg) -> bool) -> bool {
    matches!(&f.message, Some(pm::network_message::Message::Control(c)) if c.msg.as_ref().is_some_and(|m| p(m)))
}

async fn run_tcp(case: u64, rest: &str) -> String {
    use pa::authentication_message::Msg as A;
    let mut it = rest.splitn(3, ' ');
    let dir = it.next().unwrap();
    let (dir, own) = match dir.split_once('@') {
        Some((d, k)) => (d, u(k)),
        None => (dir, 0),
    };
    let inbound = dir == "in";
    let auth = it.next().unwrap().to_string();
    let script = it.next().unwrap_or("|");
    let (pre_ops, post_ops) = script.split_once('|').unwrap_or((script, ""));

    let log = Log::default();
    let (r, _) = Actor::spawn(None, Remotable(log.clone()), ()).await.unwrap();
    let (p, _) = Actor::spawn(None, Plain(log.clone()), ()).await.unwrap();
    ractor::pg::join_scoped(grp(case, 900), grp(case, 901), vec![r.get_cell()]);
    let (ns, _) = Actor::spawn(None, NodeServer::new(0, cookie_str(own), format!("s{SELF_NAME}"), "h".into(), None, None), ())
        .await
        .expect("node server");
    let sessions = Sessions::default();
    let events = Events::default();
    ns.cast(NodeServerMessage::SubscribeToEvents { id: "h".into(), subscription: Box::new(Sub(sessions.clone(), events.clone())) }).unwrap();
    let _ = ractor::call_t!(ns, NodeServerMessage::GetSessions, 5000);

    // the listener's port: ask over a throw-away in-memory connection (ServerChallenge carries "h:<port>")
    let mut self_cs = "h:0".to_string();
    {
        let (a, mut b) = tokio::io::duplex(1 << 16);
        ns.cast(NodeServerMessage::ConnectionOpenedExternal { stream: Box::new(Duplex(a)), is_server: true }).unwrap();
        let m = auth_frame(A::Name(pa::NameMessage { name: "s999@h".into(), flags: None, connection_string: "c999".into(), connection_id: 1 }));
        let mut buf = (m.encoded_len() as u64).to_be_bytes().to_vec();
        m.encode(&mut buf).unwrap();
        b.write_all(&buf).await.unwrap();
        loop {
            let len = b.read_u64().await.expect("probe connection");
            let mut fb = vec![0u8; len as usize];
            b.read_exact(&mut fb).await.unwrap();
            let f = pm::NetworkMessage::decode(fb.as_slice()).unwrap();
            if let Some(pm::network_message::Message::Auth(a)) = f.message {
                if let Some(A::ServerChallenge(c)) = a.msg {
                    self_cs = c.connection_string;
                    break;
                }
            }
        }
        drop(b);
    }
    let port: u16 = self_cs.rsplit(':').next().unwrap().parse().unwrap();
    // wait until the throw-away session is gone
    loop {
        let all_dead = sessions.0.lock().unwrap().iter().all(|s| s.get_status() == ActorStatus::Stopped);
        if all_dead {
            break;
        }
        tokio::task::yield_now().await;
    }
    let n_before = sessions.0.lock().unwrap().len();
    let ev_before = events.0.lock().unwrap().len();

    // ---- open the real TCP connection
    let mut sock = if inbound {
        tokio::net::TcpStream::connect(("127.0.0.1", port)).await.expect("dial the node's listener")
    } else {
        let l = tokio::net::TcpListener::bind("127.0.0.1:0").await.unwrap();
        let addr = l.local_addr().unwrap();
        let ns2 = ns.clone();
        tokio::spawn(async move {
            let _ = ractor_cluster::client_connect(&ns2, addr).await;
        });
        l.accept().await.unwrap().0
    };
    let _ = sock.set_nodelay(true);
    // the session actor (node_session_opened)
    let session = loop {
        if let Some(s) = sessions.0.lock().unwrap().get(n_before).cloned() {
            break s;
        }
        tokio::task::yield_now().await;
    };
    let mut ctx = Ctx { case, names: Names { self_cs }, dg: Digests::new(own), issued: 0, targets: HashMap::new() };
    ctx.targets.insert("R", r.get_id().pid());
    ctx.targets.insert("P", p.get_id().pid());
    ctx.targets.insert("NS", ns.get_id().pid());
    ctx.targets.insert("SESS", session.get_id().pid());
    ctx.targets.insert("NONE", 4_000_000_000);

    let mut got: Vec<pm::NetworkMessage> = vec![];
    let mut msgs: Vec<String> = vec![]; // (term, rnd)
    let mut connid = 0u64;
    if !inbound {
        // a client-side session announces itself first
        tcp_until(&mut sock, &mut got, |f| is_auth(f, |m| matches!(m, A::Name(_)))).await;
        if let Some(pm::network_message::Message::Auth(a)) = &got.last().unwrap().message {
            if let Some(A::Name(n)) = &a.msg {
                connid = n.connection_id;
            }
        }
    }
    for op in pre_ops.split(';') {
        let w: Vec<&str> = op.split_whitespace().collect();
        if w.is_empty() {
            continue;
        }
        let (frame, term) = ctx.build(&w);
        if let Ok(m) = &frame {
            tcp_send(&mut sock, m).await;
            msgs.push(format!("({term}, 0)"));
        }
    }
    // ---- handshake
    let mut authenticated = false;
    let mut eof = false;
    if auth != "none" {
        let dspec = if auth == "good" { format!("k:{own}:I") } else { auth.trim_start_matches("wrong:").to_string() };
        if inbound {
            let (m, t) = ctx.build(&["name", "1", "2", "3"]);
            tcp_send(&mut sock, m.as_ref().unwrap()).await;
            if tcp_until(&mut sock, &mut got, |f| is_auth(f, |m| matches!(m, A::ServerChallenge(_)))).await {
                if let Some(pm::network_message::Message::Auth(a)) = &got.last().unwrap().message {
                    if let Some(A::ServerChallenge(c)) = &a.msg {
                        ctx.issued = c.challenge;
                        ctx.dg.learn(c.challenge);
                    }
                }
                msgs.push(format!("({t}, {})", ctx.issued));
                let (m, t) = ctx.build(&["cchal", "5", &dspec]);
                tcp_send(&mut sock, m.as_ref().unwrap()).await;
                msgs.push(format!("({t}, 0)"));
            } else {
                msgs.push(format!("({t}, 0)"));
                eof = true;
            }
        } else {
            let (m, t) = ctx.build(&["sstatus", "0"]);
            tcp_send(&mut sock, m.as_ref().unwrap()).await;
            msgs.push(format!("({t}, 0)"));
            let (m, t) = ctx.build(&["schal", "7", "8", "99"]);
            tcp_send(&mut sock, m.as_ref().unwrap()).await;
            if tcp_until(&mut sock, &mut got, |f| is_auth(f, |m| matches!(m, A::ClientChallenge(_)))).await {
                if let Some(pm::network_message::Message::Auth(a)) = &got.last().unwrap().message {
                    if let Some(A::ClientChallenge(c)) = &a.msg {
                        ctx.issued = c.challenge;
                        ctx.dg.learn(c.challenge);
                        ctx.dg.last_sent = Some(c.digest.clone());
                    }
                }
                msgs.push(format!("({t}, {})", ctx.issued));
                let (m, t) = ctx.build(&["sack", &dspec]);
                tcp_send(&mut sock, m.as_ref().unwrap()).await;
                msgs.push(format!("({t}, 0)"));
            } else {
                msgs.push(format!("({t}, 0)"));
                eof = true;
            }
        }
        if !eof {
            // either the session finishes its synchronisation (Ready) or it closes the connection
            authenticated = tcp_until(&mut sock, &mut got, |f| is_control(f, |m| matches!(m, pc::control_message::Msg::Ready(_)))).await;
            eof = !authenticated;
        }
    }
    for op in post_ops.split(';') {
        let w: Vec<&str> = op.split_whitespace().collect();
        if w.is_empty() {
            continue;
        }
        let (frame, term) = ctx.build(&w);
        if let Ok(m) = &frame {
            tcp_send(&mut sock, m).await;
            msgs.push(format!("({term}, 0)"));
        }
    }
    if authenticated {
        // barrier: everything sent so far has been handled once the Pong for this Ping arrives
        tcp_send(&mut sock, &control_frame(Some(pc::control_message::Msg::Ping(ping_ts(99))))).await;
        msgs.push("(NControl (KPing 99), 0)".to_string());
        tcp_until(&mut sock, &mut got, |f| {
            is_control(f, |m| matches!(m, pc::control_message::Msg::Pong(p) if p.timestamp.as_ref().map(|t| t.seconds) == Some(99)))
        })
        .await;
    } else {
        // nothing more to say: close our sending side and wait until the session actor is gone
        let _ = sock.shutdown().await;
        while tcp_read_frame(&mut sock).await.map(|f| got.push(f)).is_some() {}
        while session.get_status() != ActorStatus::Stopped {
            tokio::task::yield_now().await;
        }
    }
    // let every already-woken task (probes, node server) run
    let listed_self = match ractor::call_t!(ns, NodeServerMessage::GetSessions, 5000) {
        Ok(m) => m.values().any(|s| s.actor.get_id() == session.get_id()),
        Err(_) => false,
    };
    for _ in 0..50 {
        tokio::task::yield_now().await;
    }
    let frame_terms: Vec<String> = got
        .iter()
        .filter(|f| !is_control(f, |m| matches!(m, pc::control_message::Msg::Ping(_))))
        .map(|f| match &f.message {
            Some(pm::network_message::Message::Auth(pa::AuthenticationMessage { msg: Some(A::Name(n)) })) => {
                format!("ESendAuth (AName {} {} 0)", ctx.names.un_name(&n.name), ctx.names.un_cs(&n.connection_string))
            }
            _ => frame_term(f, &ctx.names, &ctx.dg),
        })
        .collect();
    let deliveries: Vec<String> = log
        .0
        .lock()
        .unwrap()
        .iter()
        .map(|s| {
            let (k, pid) = s.split_once(' ').unwrap();
            match k {
                "cast" => format!("EDeliverCast {pid}"),
                "call" => format!("EDeliverCall {pid} 0"),
                _ => format!("EDeliverOther {pid}"),
            }
        })
        .collect();
    let mut proxies: Vec<(u64, String)> =
        session.get_children().iter().filter(|c| !c.get_id().is_local()).map(|c| (c.get_id().pid(), opt_name(&c.get_name()))).collect();
    proxies.sort();
    let mut groups = vec![];
    for s in 1..=2u64 {
        for g in 1..=2u64 {
            let mut m: Vec<u64> = ractor::pg::get_scoped_members(&grp(case, s), &grp(case, g)).iter().map(|c| c.get_id().pid()).collect();
            m.sort();
            if !m.is_empty() {
                groups.push(format!("({s}, {g}, {})", coq_nums(m)));
            }
        }
    }
    let evs: Vec<String> = events.0.lock().unwrap()[ev_before..]
        .iter()
        .filter(|(_, pid)| *pid == session.get_id().pid())
        .map(|(k, _)| k.to_string())
        .collect();
    let alive = session.get_status() != ActorStatus::Stopped && session.get_status() != ActorStatus::Stopping;
    let out = format!(
        "(({}, {}, {}, {}), {}, {}, {}, {}, {}, ({}, {}, {}))",
        coq_bool(inbound),
        connid,
        r.get_id().pid(),
        coq_bool(authenticated),
        coq_list(&msgs),
        coq_list(&frame_terms),
        coq_list(&deliveries),
        coq_list(&proxies.iter().map(|(p, n)| format!("({p}, {n})")).collect::<Vec<_>>()),
        coq_list(&groups),
        coq_bool(alive),
        coq_bool(listed_self),
        coq_list(&evs),
    );
    drop(sock);
    ns.stop(None);
    r.stop(None);
    p.stop(None);
    while ns.get_status() != ActorStatus::Stopped || r.get_status() != ActorStatus::Stopped {
        tokio::task::yield_now().await;
    }
    out
}

fn main() {
    // live / unit cases: deterministic paused-clock runtime; tcp cases: ordinary runtime (real sockets)
    let rt = tokio::runtime::Builder::new_current_thread().enable_all().start_paused(true).build().unwrap();
    let rt_tcp = tokio::runtime::Builder::new_current_thread().enable_all().build().unwrap();
    for (i, line) in stdin_lines().into_iter().enumerate() {
        let (kind, rest) = line.split_once(' ').unwrap_or((&line, ""));
        match kind {
            "live" => println!("{}", rt.block_on(run_live(i as u64 + 1, rest))),
            "unit" => println!("{}", rt.block_on(run_unit(i as u64 + 1, rest))),
            "tcp" => {
                let res = rt_tcp.block_on(async { tokio::time::timeout(Duration::from_secs(20), run_tcp(i as u64 + 1, rest)).await });
                match res {
                    Ok(s) => println!("{s}"),
                    Err(_) => panic!("tcp case hung (20 s guard): {line}"),
                }
            }
            other => panic!("unknown case kind {other}"),
        }
    }
}
