//! Engines for C10: the REAL name registry / pid registry of ractor driven through the public API.
//!
//! stdin, one case per line:
//!   hist <op> ; <op> ; ...        deterministic task-level histories (paused clock, gates)
//!     op ::= sp <a> <name|-> <kind> <ps>   spawn actor <a> under name index <name> (or anonymous);
//!                                          kind = ok | fail | park | remote | remotepark ; ps=1: post_stop parks
//!                                          tlok | tlfail | tlpark = the same three through the thread-local API
//!                                          (`ThreadLocalActor::spawn` on a `ThreadLocalActorSpawner`: the cell is
//!                                          built and enrolled by `ActorCell::new_thread_local` on the calling task,
//!                                          the lifecycle runs on the spawner's OS thread)
//!          | go <a> ok|fail                let a parked pre_start return Ok / Err
//!          | stop <a> | kill <a> | err <a> | panic <a> | drain <a>   the actor begins to stop (stop(), kill(),
//!                                          a handler that returns Err / panics, drain() with an empty queue)
//!          | ldrain <a>                    a LATE drain(): on an actor that has already begun to stop (parked in
//!                                          post_stop, or stopped) — must not have any effect on the registries
//!          | rel <a>                       let the parked post_stop return
//!          | wait <a>                      spawn a task awaiting a.wait(None)
//!          | wh <name>                     registry::where_is
//!          | whp <a>                       registry::where_is_pid
//!     output: (history, results)  history = list of `ev` terms of Registry/Model.v in the order
//!     they happened; results = per actor Ok | AlreadyRegistered | StartupFailed | Pending
//!   thr <op> ; <op> ; ...         controlled OS threads: every actor on its own thread + runtime, parked by
//!                                `ractor::actor::verif::point` at new.after_name (name registered, pid not yet),
//!                                status.after_publish (>= Stopping published, nothing removed yet),
//!                                cleanup.after_pid (pid removed, name not yet)
//!     op ::= tsp <a> <name> <none|name> | tstop <a> <none|publish|pid|both> | res <a> | twait <a>
//!          | wh <name> | whp <a>
//!     output: (history, results) as for `hist`
//!   race <k> <rounds>            k OS threads spawn the same fresh name at the same time (shared
//!                                multi-thread runtime); output: list of (k, ok, already, other, where_winner, respawn_ok)
//!   racetl <k> <rounds>          the same, every odd thread spawning through the thread-local API
//!   hammer <threads> <names> <iters>   threads loop spawn(name)/lookup/stop/wait/lookup on a few names;
//!                                output: (spawn_ok, already, live_not_found, found_after_wait, other)
//!   hammertl <threads> <names> <iters> the same, every odd thread spawning through the thread-local API
use std::collections::HashMap;
use std::sync::atomic::{AtomicBool, AtomicU64, Ordering};
use std::sync::{Arc, Barrier, Mutex};
use std::time::Duration;

use ractor::thread_local::{ThreadLocalActor, ThreadLocalActorSpawner};
use ractor::{
    registry, Actor, ActorCell, ActorId, ActorProcessingErr, ActorRef, ActorRuntime, ActorStatus, SpawnErr,
    SupervisionEvent,
};
use rv_harness::*;
use tokio::sync::Semaphore;

static SCN: AtomicU64 = AtomicU64::new(0);

#[derive(Clone)]
struct Gate(Arc<Semaphore>);
impl Gate {
    fn new() -> Self {
        Gate(Arc::new(Semaphore::new(0)))
    }
    fn open(&self) {
        self.0.add_permits(1 << 20);
    }
    async fn pass(&self) {
        let _p = self.0.acquire().await.expect("gate");
    }
}

#[derive(Clone)]
struct Cfg {
    pre_gate: Option<Gate>,
    pre_ok: Arc<Mutex<bool>>,
    ps_gate: Option<Gate>,
    slot: Arc<Mutex<Option<ActorCell>>>,
    ps_entered: Arc<AtomicBool>,
}

// (Default: the same actor is also spawned through ractor's blanket
// `impl<T: Actor + Default> ThreadLocalActor for T`)
/// a message type no harness actor handles (typed lookups with it must find nothing)
pub struct OtherMsg;
impl ractor::Message for OtherMsg {}

#[derive(Default)]
struct H;
impl Actor for H {
    type Msg = ();
    type State = Cfg;
    type Arguments = Cfg;
    async fn pre_start(&self, myself: ActorRef<()>, cfg: Cfg) -> Result<Cfg, ActorProcessingErr> {
        *cfg.slot.lock().unwrap() = Some(myself.get_cell());
        if let Some(g) = &cfg.pre_gate {
            g.pass().await;
        }
        if *cfg.pre_ok.lock().unwrap() {
            Ok(cfg)
        } else {
            Err("pre_start failed".into())
        }
    }
    async fn handle(&self, _: ActorRef<()>, _: (), cfg: &mut Cfg) -> Result<(), ActorProcessingErr> {
        if *cfg.pre_ok.lock().unwrap() {
            Err("handler failed".into())
        } else {
            panic!("handler panic")
        }
    }
    async fn post_stop(&self, _: ActorRef<()>, cfg: &mut Cfg) -> Result<(), ActorProcessingErr> {
        cfg.ps_entered.store(true, Ordering::SeqCst);
        if let Some(g) = &cfg.ps_gate {
            g.pass().await;
        }
        Ok(())
    }
}

struct Quiet;
impl Actor for Quiet {
    type Msg = ();
    type State = ();
    type Arguments = ();
    async fn pre_start(&self, _: ActorRef<()>, _: ()) -> Result<(), ActorProcessingErr> {
        Ok(())
    }
    async fn handle_supervisor_evt(&self, _: ActorRef<()>, _: SupervisionEvent, _: &mut ()) -> Result<(), ActorProcessingErr> {
        Ok(())
    }
}

async fn settle() {
    tokio::time::sleep(Duration::from_nanos(1)).await;
}

/// State-based wait for something that happens on a spawner's OS thread (thread-local actors are not
/// covered by the paused-clock barrier). The bound only guards against a hang: its expiry ends the
/// process with exit code 2 (infrastructure failure), it never decides a verdict.
async fn until(what: &str, mut f: impl FnMut() -> bool) {
    let t0 = std::time::Instant::now();
    while !f() {
        tokio::task::yield_now().await;
        std::thread::sleep(Duration::from_micros(20));
        if t0.elapsed() > Duration::from_secs(120) {
            eprintln!("eng_reg: bounded wait expired ({what}); infrastructure failure, no verdict");
            std::process::exit(2);
        }
    }
}

fn cls(s: ActorStatus) -> &'static str {
    match s {
        ActorStatus::Stopping => "SStopping",
        ActorStatus::Stopped => "SStopped",
        _ => "SLive",
    }
}

struct Slot {
    cell: Arc<Mutex<Option<ActorCell>>>,
    pre_gate: Gate,
    pre_ok: Arc<Mutex<bool>>,
    ps_gate: Gate,
    result: Arc<Mutex<Option<&'static str>>>,
    name: Option<u64>,
    remote: bool,
    /// thread-local actor: its lifecycle runs on the spawner's thread
    tl: bool,
    /// post_stop has been entered
    ps_entered: Arc<AtomicBool>,
    /// thread-local only: the spawn failed, or the actor's JoinHandle has completed
    done: Arc<AtomicBool>,
    ps: bool,
}

/// Subscriber of the pid registry's lifecycle events (`pid_registry::monitor`): logs (is_spawn, id).
struct PidWatch;
impl Actor for PidWatch {
    type Msg = ();
    type State = Arc<Mutex<Vec<(bool, ActorId)>>>;
    type Arguments = Arc<Mutex<Vec<(bool, ActorId)>>>;
    async fn pre_start(&self, _: ActorRef<()>, a: Self::Arguments) -> Result<Self::State, ActorProcessingErr> {
        Ok(a)
    }
    async fn handle_supervisor_evt(&self, _: ActorRef<()>, evt: SupervisionEvent, st: &mut Self::State) -> Result<(), ActorProcessingErr> {
        if let SupervisionEvent::PidLifecycleEvent(e) = evt {
            match e {
                registry::PidLifecycleEvent::Spawn(c) => st.lock().unwrap().push((true, c.get_id())),
                registry::PidLifecycleEvent::Terminate(c) => st.lock().unwrap().push((false, c.get_id())),
            }
        }
        Ok(())
    }
}

async fn run_hist(rest: &str) -> String {
    let sid = SCN.fetch_add(1, Ordering::SeqCst);
    let pid = std::process::id();
    // name pool: ordinary names are private to the scenario; 90.. are special shapes (shared by the
    // sequential scenarios of this process: every scenario tidies up, so they are free at its start)
    let nm = |k: u64| match k {
        90 => String::new(),                                   // the EMPTY name
        91 => "x".to_string(),                                 // one character
        92 => format!("long-{pid}-{sid}-{}", "n".repeat(5000)), // very long
        93 => format!("名前-é-ß-{pid}-{sid}"),                   // non-ASCII
        _ => format!("c10-{pid}-{sid}-{k}"),
    };
    let (sup, _sh) = Actor::spawn(None, Quiet, ()).await.expect("sup");
    let pidlog: Arc<Mutex<Vec<(bool, ActorId)>>> = Arc::new(Mutex::new(Vec::new()));
    let wrong_typed: Arc<Mutex<Vec<String>>> = Arc::new(Mutex::new(Vec::new()));
    let (watch, _wh) = Actor::spawn(None, PidWatch, pidlog.clone()).await.expect("watch");
    ractor::registry::pid_registry::monitor(watch.get_cell());
    // a supervisor that has already stopped: linked spawns under it fail in start() ("Supervisor is
    // shutting down") AFTER the cell was enrolled; the lifecycle guard must release name and pid
    let (deadsup, dsh) = Actor::spawn(None, Quiet, ()).await.expect("deadsup");
    deadsup.stop(None);
    let _ = dsh.await;
    let hist: Arc<Mutex<Vec<String>>> = Arc::new(Mutex::new(Vec::new()));
    let mut slots: HashMap<u64, Slot> = HashMap::new();
    let mut order: Vec<u64> = Vec::new();
    let mut tasks: Vec<tokio::task::JoinHandle<()>> = Vec::new();
    // one spawner (one OS thread) for all thread-local actors of the scenario, created on demand
    let mut spawner: Option<ThreadLocalActorSpawner> = None;

    let find = |slots: &HashMap<u64, Slot>, id: ActorId| -> Option<u64> {
        slots
            .iter()
            .find(|(_, s)| s.cell.lock().unwrap().as_ref().map(|c| c.get_id() == id).unwrap_or(false))
            .map(|(k, _)| *k)
    };
    let name_term = |n: Option<u64>| match n {
        Some(k) => format!("(Some {k}%N)"),
        None => "None".to_string(),
    };

    for op in rest.split(';') {
        let w: Vec<&str> = op.split_whitespace().collect();
        if w.is_empty() {
            continue;
        }
        match w[0] {
            "sp" => {
                let a: u64 = w[1].parse().unwrap();
                let name: Option<u64> = if w[2] == "-" { None } else { Some(w[2].parse().unwrap()) };
                let kind = w[3];
                let ps = w[4] == "1";
                let remote = kind.starts_with("remote");
                let tl = kind.starts_with("tl");
                let kind = kind.strip_prefix("tl").unwrap_or(kind);
                let slot = Slot {
                    cell: Arc::new(Mutex::new(None)),
                    pre_gate: Gate::new(),
                    pre_ok: Arc::new(Mutex::new(kind != "fail")),
                    ps_gate: Gate::new(),
                    result: Arc::new(Mutex::new(None)),
                    name,
                    remote,
                    tl,
                    ps_entered: Arc::new(AtomicBool::new(false)),
                    done: Arc::new(AtomicBool::new(false)),
                    ps,
                };
                let cfg = Cfg {
                    pre_gate: matches!(kind, "park" | "remotepark").then(|| slot.pre_gate.clone()),
                    pre_ok: slot.pre_ok.clone(),
                    ps_gate: ps.then(|| slot.ps_gate.clone()),
                    slot: slot.cell.clone(),
                    ps_entered: slot.ps_entered.clone(),
                };
                let res = slot.result.clone();
                let done = slot.done.clone();
                let full = name.map(nm);
                let supc = sup.get_cell();
                let deadc = deadsup.get_cell();
                let linked_dead = kind == "lfail";
                let pid_events_before = pidlog.lock().unwrap().len();
                let sp = tl.then(|| spawner.get_or_insert_with(ThreadLocalActorSpawner::new).clone());
                tasks.push(tokio::spawn(async move {
                    let r = if remote {
                        ActorRuntime::<H>::spawn_linked_remote(full, H, ActorId::Remote { node_id: 9, pid: 1000 + a }, cfg, supc).await
                    } else if let Some(sp) = sp {
                        if linked_dead {
                            <H as ThreadLocalActor>::spawn_linked(full, cfg, deadc, sp).await
                        } else {
                            <H as ThreadLocalActor>::spawn(full, cfg, sp).await
                        }
                    } else if linked_dead {
                        Actor::spawn_linked(full, H, cfg, deadc).await
                    } else {
                        Actor::spawn(full, H, cfg).await
                    };
                    let (txt, handle) = match r {
                        Ok((_, h)) => ("Ok", Some(h)),
                        Err(SpawnErr::ActorAlreadyRegistered(_)) => ("AlreadyRegistered", None),
                        Err(SpawnErr::StartupFailed(_)) => ("StartupFailed", None),
                        Err(_) => ("Other", None),
                    };
                    *res.lock().unwrap() = Some(txt);
                    if tl {
                        // the JoinHandle completes after the exit (status Stopped, waiters notified)
                        if let Some(h) = handle {
                            let _ = h.await;
                        }
                        done.store(true, Ordering::SeqCst);
                    }
                }));
                settle().await;
                if tl {
                    // enrolled (or rejected) on this task already; the start runs on the spawner's thread:
                    // wait for its outcome, or — parked start — for pre_start to have been entered
                    let (r2, c2) = (slot.result.clone(), slot.cell.clone());
                    until("thread-local start", || r2.lock().unwrap().is_some() || (kind == "park" && c2.lock().unwrap().is_some())).await;
                    settle().await;
                }
                let already = *slot.result.lock().unwrap() == Some("AlreadyRegistered");
                let mut h = hist.lock().unwrap();
                h.push(format!("ESpawn {a} {} {} {}", name_term(name), coq_bool(remote), coq_bool(!already)));
                if !already && !remote {
                    h.push(format!("EPid {a}"));
                }
                if already && pidlog.lock().unwrap().len() > pid_events_before {
                    // a spawn rejected at the name step was announced to the pid lifecycle subscribers:
                    // its pid entry did exist — say so (the oracle rejects a pid insertion of a loser)
                    h.push(format!("EPid {a}"));
                }
                if (kind == "fail" || kind == "lfail") && !already {
                    h.push(format!("EBegin {a}"));
                }
                drop(h);
                slots.insert(a, slot);
                order.push(a);
                continue;
            }
            "go" => {
                let a: u64 = w[1].parse().unwrap();
                let s = &slots[&a];
                let ok = w[2] == "ok";
                *s.pre_ok.lock().unwrap() = ok;
                if !ok {
                    hist.lock().unwrap().push(format!("EBegin {a}"));
                }
                s.pre_gate.open();
                if s.tl {
                    let r2 = s.result.clone();
                    until("thread-local go", || r2.lock().unwrap().is_some()).await;
                }
            }
            "ldrain" => {
                // drain() on an actor that has already begun to stop: no event of its own
                let a: u64 = w[1].parse().unwrap();
                let Some(c) = slots[&a].cell.lock().unwrap().clone() else { continue };
                let _ = c.drain();
            }
            "stop" | "kill" | "err" | "panic" | "drain" => {
                let a: u64 = w[1].parse().unwrap();
                // (no cell = the spawn failed although the scenario expected it to succeed: the
                // divergence is already in the history; ignore operations on that actor)
                let Some(c) = slots[&a].cell.lock().unwrap().clone() else { continue };
                hist.lock().unwrap().push(format!("EBegin {a}"));
                match w[0] {
                    "stop" => c.stop(None),
                    "kill" => c.kill(),
                    "drain" => {
                        let _ = c.drain();
                    }
                    k => {
                        // the (only) message makes the handler fail: Err when pre_ok is set, panic otherwise
                        *slots[&a].pre_ok.lock().unwrap() = k == "err";
                        let r: ActorRef<()> = c.clone().into();
                        let _ = r.cast(());
                    }
                }
                let s = &slots[&a];
                if s.tl {
                    // exited, or parked in post_stop (stop / drain of an actor with ps=1)
                    let (d, pe, ps) = (s.done.clone(), s.ps_entered.clone(), s.ps);
                    until("thread-local exit", || d.load(Ordering::SeqCst) || (ps && pe.load(Ordering::SeqCst))).await;
                }
            }
            "rel" => {
                let a: u64 = w[1].parse().unwrap();
                let s = &slots[&a];
                s.ps_gate.open();
                if s.tl && s.ps_entered.load(Ordering::SeqCst) {
                    let d = s.done.clone();
                    until("thread-local post_stop release", || d.load(Ordering::SeqCst)).await;
                }
            }
            "wait" => {
                let a: u64 = w[1].parse().unwrap();
                let Some(c) = slots[&a].cell.lock().unwrap().clone() else { continue };
                let h2 = hist.clone();
                tasks.push(tokio::spawn(async move {
                    let _ = c.wait(None).await;
                    h2.lock().unwrap().push(format!("EWait {a}"));
                }));
            }
            "wh" => {
                let k: u64 = w[1].parse().unwrap();
                let r = registry::where_is(nm(k));
                // the other views of the same table must agree with where_is (single-threaded here):
                // the listing `registered()`, the typed lookup `ActorRef::<M>::where_is` with the actor's
                // message type (same cell) and with another message type (never a wrongly typed reference)
                let listed = registry::registered().iter().any(|x| *x == nm(k));
                let typed = ActorRef::<()>::where_is(nm(k)).map(|x| x.get_id());
                let wrong = ActorRef::<OtherMsg>::where_is(nm(k)).is_some();
                let agree = listed == r.is_some() && typed == r.as_ref().map(|c| c.get_id());
                if wrong {
                    // a reference with the wrong message type: outside C10's statement, reported as a
                    // correspondence difference (third output component)
                    wrong_typed.lock().unwrap().push(format!("(({k}, 997), (0, 0))"));
                }
                let t = match r {
                    _ if !agree => "(Some (998, SLive))".to_string(),
                    None => "None".to_string(),
                    Some(c) => match find(&slots, c.get_id()) {
                        Some(a) => format!("(Some ({a}, {}))", cls(c.get_status())),
                        None => format!("(Some (999, {}))", cls(c.get_status())),
                    },
                };
                hist.lock().unwrap().push(format!("EWhere {k}%N {t}"));
            }
            "whp" => {
                let a: u64 = w[1].parse().unwrap();
                let Some(c) = slots[&a].cell.lock().unwrap().clone() else { continue };
                let r = registry::where_is_pid(c.get_id());
                // `get_all_pids()` lists the same table
                let listed = registry::get_all_pids().iter().any(|x| x.get_id() == c.get_id());
                let t = match r {
                    // a disagreement is made visible as the opposite answer
                    None if listed => "(Some SLive)".to_string(),
                    Some(_) if !listed => "None".to_string(),
                    None => "None".to_string(),
                    Some(c2) => format!("(Some {})", cls(c2.get_status())),
                };
                hist.lock().unwrap().push(format!("EWherePid {a} {t}"));
            }
            o => panic!("bad op {o}"),
        }
        settle().await;
    }
    settle().await;
    let h = hist.lock().unwrap().clone();
    // pid lifecycle subscription vs. the pid table (outside C10's statement; reported as a correspondence
    // difference only): one Spawn per actor that entered the pid table, one Terminate once it left, nothing
    // for remote ids and for spawns rejected at the name step
    let mut lifecycle: Vec<String> = wrong_typed.lock().unwrap().clone();
    {
        let pl = pidlog.lock().unwrap();
        for a in &order {
            if slots[a].tl {
                continue; // lifecycle on another OS thread: not settled by the paused clock
            }
            let Some(c) = slots[a].cell.lock().unwrap().clone() else { continue };
            let sp = pl.iter().filter(|(s, id)| *s && *id == c.get_id()).count();
            let te = pl.iter().filter(|(s, id)| !*s && *id == c.get_id()).count();
            let entered = h.iter().any(|e| *e == format!("EPid {a}"));
            let present = registry::where_is_pid(c.get_id()).is_some();
            let want_sp = usize::from(entered);
            let want_te = usize::from(entered && !present);
            if sp != want_sp || te != want_te {
                lifecycle.push(format!("(({a}, {sp}), ({te}, {want_te}))"));
            }
        }
    }
    let results: Vec<String> = order
        .iter()
        .map(|a| slots[a].result.lock().unwrap().unwrap_or("Pending").to_string())
        .collect();
    // tidy up
    for s in slots.values() {
        *s.pre_ok.lock().unwrap() = false;
        s.pre_gate.open();
        s.ps_gate.open();
        if let Some(c) = s.cell.lock().unwrap().as_ref() {
            c.kill();
        }
        let _ = (s.name, s.remote);
    }
    settle().await;
    for s in slots.values() {
        if s.tl {
            let d = s.done.clone();
            until("thread-local tidy up", || d.load(Ordering::SeqCst)).await;
        }
    }
    drop(spawner);
    // the subscriber's own exit unsubscribes it (set_status: pid_registry::demonitor)
    watch.stop(None);
    sup.stop(None);
    for t in tasks {
        t.abort();
    }
    settle().await;
    format!("({}, {}, {})", coq_list(&h), coq_list(&results), coq_list(&lifecycle))
}

// ------------------------------------------------------------------------------------------
// controlled-thread engine
mod thr {
    use super::*;
    use std::cell::Cell;
    use std::collections::{HashSet, VecDeque};
    use std::sync::{Condvar, OnceLock};

    #[derive(Clone, Copy, Debug, PartialEq)]
    pub enum Ev {
        Paused(&'static str),
        Spawned(&'static str),
        Exited,
    }
    #[derive(Default)]
    pub struct CtlState {
        plans: HashMap<u64, Vec<&'static str>>,
        resume: HashSet<u64>,
        events: HashMap<u64, VecDeque<Ev>>,
        cells: HashMap<u64, Arc<Mutex<Option<ActorCell>>>>,
    }
    pub struct Ctl {
        st: Mutex<CtlState>,
        cv: Condvar,
    }
    thread_local! { static ROLE: Cell<Option<u64>> = const { Cell::new(None) }; }
    static CTL: OnceLock<Arc<Ctl>> = OnceLock::new();

    fn ctl() -> Arc<Ctl> {
        CTL.get_or_init(|| {
            let c = Arc::new(Ctl { st: Mutex::new(CtlState::default()), cv: Condvar::new() });
            let c2 = c.clone();
            ractor::actor::verif::set_point_hook(Some(Arc::new(move |label| c2.at_point(label))));
            c
        })
        .clone()
    }

    impl Ctl {
        fn at_point(&self, label: &'static str) {
            let Some(role) = ROLE.with(|r| r.get()) else { return };
            let mut st = self.st.lock().unwrap();
            let planned = st.plans.get(&role).map(|p| p.contains(&label)).unwrap_or(false);
            if !planned {
                return;
            }
            if label == "status.after_publish" {
                // only the actor's own first publication of >= Stopping
                let stopping = st
                    .cells
                    .get(&role)
                    .and_then(|c| c.lock().unwrap().as_ref().map(|c| c.get_status() == ActorStatus::Stopping))
                    .unwrap_or(false);
                if !stopping {
                    return;
                }
            }
            st.plans.get_mut(&role).unwrap().retain(|l| *l != label);
            st.events.entry(role).or_default().push_back(Ev::Paused(label));
            self.cv.notify_all();
            while !st.resume.contains(&role) {
                st = self.cv.wait(st).unwrap();
            }
            st.resume.remove(&role);
        }
        fn push(&self, role: u64, ev: Ev) {
            let mut st = self.st.lock().unwrap();
            st.events.entry(role).or_default().push_back(ev);
            self.cv.notify_all();
        }
        fn wait_event(&self, role: u64) -> Ev {
            let mut st = self.st.lock().unwrap();
            loop {
                if let Some(e) = st.events.entry(role).or_default().pop_front() {
                    return e;
                }
                st = self.cv.wait(st).unwrap();
            }
        }
        fn resume(&self, role: u64) {
            let mut st = self.st.lock().unwrap();
            st.resume.insert(role);
            self.cv.notify_all();
        }
    }

    enum Cmd {
        Stop,
        Finish,
    }

    struct T {
        cell: Arc<Mutex<Option<ActorCell>>>,
        cmd: tokio::sync::mpsc::UnboundedSender<Cmd>,
        thread: Option<std::thread::JoinHandle<()>>,
        last: Ev,
        result: &'static str,
        name: u64,
    }

    pub fn run(rest: &str) -> String {
        let sid = SCN.fetch_add(1, Ordering::SeqCst);
        let pid = std::process::id();
        let nm = |k: u64| format!("c10t-{pid}-{sid}-{k}");
        let c = ctl();
        *c.st.lock().unwrap() = CtlState::default();
        let mut ts: HashMap<u64, T> = HashMap::new();
        let mut order: Vec<u64> = Vec::new();
        let mut hist: Vec<String> = Vec::new();

        for op in rest.split(';') {
            let w: Vec<&str> = op.split_whitespace().collect();
            if w.is_empty() {
                continue;
            }
            match w[0] {
                "tsp" => {
                    let a: u64 = w[1].parse().unwrap();
                    let k: u64 = w[2].parse().unwrap();
                    let slot: Arc<Mutex<Option<ActorCell>>> = Arc::new(Mutex::new(None));
                    {
                        let mut st = c.st.lock().unwrap();
                        st.cells.insert(a, slot.clone());
                        if w[3] == "name" {
                            st.plans.entry(a).or_default().push("new.after_name");
                        }
                    }
                    let (tx, mut rx) = tokio::sync::mpsc::unbounded_channel::<Cmd>();
                    let (c2, slot2, name) = (c.clone(), slot.clone(), nm(k));
                    let th = std::thread::spawn(move || {
                        ROLE.with(|r| r.set(Some(a)));
                        let rt = tokio::runtime::Builder::new_current_thread().enable_time().build().expect("rt");
                        rt.block_on(async move {
                            let cfg = Cfg { pre_gate: None, pre_ok: Arc::new(Mutex::new(true)), ps_gate: None, slot: slot2, ps_entered: Default::default() };
                            match Actor::spawn(Some(name), H, cfg).await {
                                Ok((r, handle)) => {
                                    c2.push(a, Ev::Spawned("Ok"));
                                    let mut handle = Some(handle);
                                    while let Some(cmd) = rx.recv().await {
                                        match cmd {
                                            Cmd::Stop => {
                                                r.stop(None);
                                                if let Some(h) = handle.take() {
                                                    let _ = h.await;
                                                }
                                                c2.push(a, Ev::Exited);
                                            }
                                            Cmd::Finish => {
                                                r.kill();
                                                if let Some(h) = handle.take() {
                                                    let _ = h.await;
                                                }
                                                break;
                                            }
                                        }
                                    }
                                }
                                Err(SpawnErr::ActorAlreadyRegistered(_)) => c2.push(a, Ev::Spawned("AlreadyRegistered")),
                                Err(_) => c2.push(a, Ev::Spawned("Other")),
                            }
                        });
                    });
                    let e = c.wait_event(a);
                    let (ok, res) = match e {
                        Ev::Spawned("AlreadyRegistered") => (false, "AlreadyRegistered"),
                        Ev::Spawned(r) => (true, r),
                        _ => (true, "Pending"),
                    };
                    hist.push(format!("ESpawn {a} (Some {k}%N) false {}", coq_bool(ok)));
                    if e == Ev::Spawned("Ok") {
                        hist.push(format!("EPid {a}"));
                    }
                    ts.insert(a, T { cell: slot, cmd: tx, thread: Some(th), last: e, result: res, name: k });
                    order.push(a);
                }
                "res" => {
                    let a: u64 = w[1].parse().unwrap();
                    let t = ts.get_mut(&a).unwrap();
                    if matches!(t.last, Ev::Paused(_)) {
                        c.resume(a);
                        let e = c.wait_event(a);
                        if let Ev::Spawned(r) = e {
                            t.result = r;
                            if r == "Ok" {
                                hist.push(format!("EPid {a}"));
                            }
                        }
                        t.last = e;
                    }
                }
                "tstop" => {
                    let a: u64 = w[1].parse().unwrap();
                    let t = ts.get_mut(&a).unwrap();
                    if t.last != Ev::Spawned("Ok") {
                        continue;
                    }
                    {
                        let mut st = c.st.lock().unwrap();
                        let p = st.plans.entry(a).or_default();
                        if matches!(w[2], "publish" | "both") {
                            p.push("status.after_publish");
                        }
                        if matches!(w[2], "pid" | "both") {
                            p.push("cleanup.after_pid");
                        }
                    }
                    hist.push(format!("EBegin {a}"));
                    t.cmd.send(Cmd::Stop).unwrap();
                    t.last = c.wait_event(a);
                }
                "twait" => {
                    let a: u64 = w[1].parse().unwrap();
                    let t = &ts[&a];
                    if t.last == Ev::Exited {
                        let cell = t.cell.lock().unwrap().clone().expect("cell");
                        let _ = futures::executor::block_on(cell.wait(None));
                        hist.push(format!("EWait {a}"));
                    }
                }
                "wh" => {
                    let k: u64 = w[1].parse().unwrap();
                    let r = registry::where_is(nm(k));
                    let t = match r {
                        None => "None".to_string(),
                        Some(cell) => {
                            let by_id = ts.iter().find(|(_, t)| {
                                t.cell.lock().unwrap().as_ref().map(|x| x.get_id() == cell.get_id()).unwrap_or(false)
                            });
                            // a spawn parked between its name and its pid registration has no slot yet
                            let idx = match by_id {
                                Some((a, _)) => *a,
                                None => ts
                                    .iter()
                                    .find(|(_, t)| t.last == Ev::Paused("new.after_name") && t.name == k)
                                    .map(|(a, _)| *a)
                                    .unwrap_or(999),
                            };
                            format!("(Some ({idx}, {}))", cls(cell.get_status()))
                        }
                    };
                    hist.push(format!("EWhere {k}%N {t}"));
                }
                "whp" => {
                    let a: u64 = w[1].parse().unwrap();
                    let Some(cell) = ts[&a].cell.lock().unwrap().clone() else { continue };
                    let t = match registry::where_is_pid(cell.get_id()) {
                        None => "None".to_string(),
                        Some(c2) => format!("(Some {})", cls(c2.get_status())),
                    };
                    hist.push(format!("EWherePid {a} {t}"));
                }
                o => panic!("bad thr op {o}"),
            }
        }
        let results: Vec<String> = order.iter().map(|a| ts[a].result.to_string()).collect();
        // release everything
        for a in &order {
            let t = ts.get_mut(a).unwrap();
            while matches!(t.last, Ev::Paused(_)) {
                c.resume(*a);
                t.last = c.wait_event(*a);
            }
            let _ = t.cmd.send(Cmd::Finish);
        }
        for a in &order {
            if let Some(th) = ts.get_mut(a).unwrap().thread.take() {
                let _ = th.join();
            }
        }
        format!("({}, {})", coq_list(&hist), coq_list(&results))
    }
}

#[derive(Default)]
struct Plain;
impl Actor for Plain {
    type Msg = ();
    type State = ();
    type Arguments = ();
    async fn pre_start(&self, _: ActorRef<()>, _: ()) -> Result<(), ActorProcessingErr> {
        Ok(())
    }
}

/// `tl`: every odd thread spawns through the thread-local API (same registration code in
/// `ActorCell::new_thread_local`, executed on the calling thread)
fn run_race(rt: &tokio::runtime::Runtime, k: usize, rounds: usize, tl: bool) -> String {
    let pid = std::process::id();
    let mut out = Vec::new();
    let spawner = tl.then(ThreadLocalActorSpawner::new);
    for _ in 0..rounds {
        let sid = SCN.fetch_add(1, Ordering::SeqCst);
        let name = format!("c10r-{pid}-{sid}");
        let barrier = Arc::new(Barrier::new(k));
        let mut hs = Vec::new();
        for i in 0..k {
            let b = barrier.clone();
            let h = rt.handle().clone();
            let n = name.clone();
            let sp = if i % 2 == 1 { spawner.clone() } else { None };
            hs.push(std::thread::spawn(move || {
                b.wait();
                match sp {
                    Some(sp) => h.block_on(<Plain as ThreadLocalActor>::spawn(Some(n), (), sp)),
                    None => h.block_on(Actor::spawn(Some(n), Plain, ())),
                }
            }));
        }
        let mut winners: Vec<ActorRef<()>> = Vec::new();
        let (mut already, mut other) = (0, 0);
        for h in hs {
            match h.join().expect("thread") {
                Ok((r, _)) => winners.push(r),
                Err(SpawnErr::ActorAlreadyRegistered(_)) => already += 1,
                Err(_) => other += 1,
            }
        }
        let found = registry::where_is(name.clone());
        let where_winner = match (&found, winners.first()) {
            (Some(c), Some(w)) => c.get_id() == w.get_id() && winners.len() == 1,
            _ => false,
        };
        // the winner exits; after its wait() the name must be free and registrable
        let mut respawn_ok = true;
        for w in &winners {
            w.stop(None);
            let _ = rt.block_on(w.wait(None));
        }
        if registry::where_is(name.clone()).is_some() {
            respawn_ok = false;
        }
        match rt.block_on(Actor::spawn(Some(name.clone()), Plain, ())) {
            Ok((r, _)) => {
                r.stop(None);
                let _ = rt.block_on(r.wait(None));
            }
            Err(_) => respawn_ok = false,
        }
        out.push(format!(
            "({}, {}, {}, {}, {}, {})",
            k,
            winners.len(),
            already,
            other,
            coq_bool(where_winner),
            coq_bool(respawn_ok)
        ));
    }
    coq_list(&out)
}

fn run_hammer(rt: &tokio::runtime::Runtime, threads: usize, names: usize, iters: usize, tl: bool) -> String {
    let spawner = tl.then(ThreadLocalActorSpawner::new);
    let pid = std::process::id();
    let sid = SCN.fetch_add(1, Ordering::SeqCst);
    let counts = Arc::new([AtomicU64::new(0), AtomicU64::new(0), AtomicU64::new(0), AtomicU64::new(0), AtomicU64::new(0)]);
    let barrier = Arc::new(Barrier::new(threads));
    let mut hs = Vec::new();
    for t in 0..threads {
        let h = rt.handle().clone();
        let c = counts.clone();
        let b = barrier.clone();
        let sp = if t % 2 == 1 { spawner.clone() } else { None };
        hs.push(std::thread::spawn(move || {
            b.wait();
            let mut x = (t as u64 + 1).wrapping_mul(0x9E3779B97F4A7C15);
            for _ in 0..iters {
                x ^= x << 13;
                x ^= x >> 7;
                x ^= x << 17;
                let name = format!("c10h-{pid}-{sid}-{}", x as usize % names);
                let spawned = match &sp {
                    Some(sp) => h.block_on(<Plain as ThreadLocalActor>::spawn(Some(name.clone()), (), sp.clone())),
                    None => h.block_on(Actor::spawn(Some(name.clone()), Plain, ())),
                };
                match spawned {
                    Ok((r, _)) => {
                        c[0].fetch_add(1, Ordering::Relaxed);
                        // I am the live holder: every lookup must find me
                        for _ in 0..3 {
                            match registry::where_is(name.clone()) {
                                Some(f) if f.get_id() == r.get_id() => {}
                                _ => {
                                    c[2].fetch_add(1, Ordering::Relaxed);
                                }
                            }
                        }
                        if registry::where_is_pid(r.get_id()).is_none() {
                            c[2].fetch_add(1, Ordering::Relaxed);
                        }
                        if x & 1 == 0 {
                            r.stop(None);
                        } else {
                            r.kill();
                        }
                        let _ = h.block_on(r.wait(None));
                        // my wait returned: no lookup may return me any more
                        if let Some(f) = registry::where_is(name.clone()) {
                            if f.get_id() == r.get_id() {
                                c[3].fetch_add(1, Ordering::Relaxed);
                            }
                        }
                        if registry::where_is_pid(r.get_id()).is_some() {
                            c[3].fetch_add(1, Ordering::Relaxed);
                        }
                    }
                    Err(SpawnErr::ActorAlreadyRegistered(_)) => {
                        c[1].fetch_add(1, Ordering::Relaxed);
                    }
                    Err(_) => {
                        c[4].fetch_add(1, Ordering::Relaxed);
                    }
                }
            }
        }));
    }
    for h in hs {
        h.join().expect("thread");
    }
    let v: Vec<u64> = counts.iter().map(|c| c.load(Ordering::Relaxed)).collect();
    format!("({}, {}, {}, {}, {})", v[0], v[1], v[2], v[3], v[4])
}

fn main() {
    std::panic::set_hook(Box::new(|info| {
        let msg = info.to_string();
        if !msg.contains("handler panic") {
            eprintln!("{msg}");
        }
    }));
    let mut out = Vec::new();
    let mut mt: Option<tokio::runtime::Runtime> = None;
    for line in stdin_lines() {
        let mut it = line.splitn(2, ' ');
        let head = it.next().unwrap();
        let rest = it.next().unwrap_or("");
        match head {
            "hist" => {
                let rt = tokio::runtime::Builder::new_current_thread()
                    .enable_time()
                    .start_paused(true)
                    .build()
                    .expect("runtime");
                out.push(rt.block_on(run_hist(rest)));
            }
            "thr" => out.push(thr::run(rest)),
            "race" | "hammer" | "racetl" | "hammertl" => {
                let rt = mt.get_or_insert_with(|| {
                    tokio::runtime::Builder::new_multi_thread().worker_threads(4).enable_time().build().expect("mt runtime")
                });
                let w: Vec<usize> = rest.split_whitespace().map(|x| x.parse().unwrap()).collect();
                if head.starts_with("race") {
                    out.push(run_race(rt, w[0], w[1], head == "racetl"));
                } else {
                    out.push(run_hammer(rt, w[0], w[1], w[2], head == "hammertl"));
                }
            }
            o => panic!("unknown case {o}"),
        }
    }
    for r in out {
        println!("{r}");
    }
}
