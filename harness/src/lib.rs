//! Shared helpers for the harness binaries: Coq-syntax printers and a tiny line reader.
use std::io::{self, BufRead};

/// Read all stdin lines (trimmed, non-empty, not starting with '#').
pub fn stdin_lines() -> Vec<String> {
    let stdin = io::stdin();
    stdin
        .lock()
        .lines()
        .map(|l| l.expect("stdin"))
        .map(|l| l.trim().to_string())
        .filter(|l| !l.is_empty() && !l.starts_with('#'))
        .collect()
}

/// `[a; b; c]`
pub fn coq_list<T: AsRef<str>>(items: &[T]) -> String {
    let mut s = String::from("[");
    for (i, it) in items.iter().enumerate() {
        if i > 0 {
            s.push_str("; ");
        }
        s.push_str(it.as_ref());
    }
    s.push(']');
    s
}

pub fn coq_bool(b: bool) -> &'static str {
    if b {
        "true"
    } else {
        "false"
    }
}

pub fn coq_nums<I: IntoIterator<Item = u64>>(it: I) -> String {
    let v: Vec<String> = it.into_iter().map(|n| n.to_string()).collect();
    coq_list(&v)
}

/// Order-preserving node name for a model rank.
pub fn node_name(rank: u64) -> String {
    format!("n{:010}@host", rank)
}
