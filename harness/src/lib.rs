//! Shared helpers for the harness binaries: Coq-syntax printers and a tiny line reader.
use std::io::{self, BufRead};

/// Read all stdin lines (trimmed, non-empty, not starting with '#').
pub fn stdin_lines() -> Vec<String> {
    let stdin = io::stdin();
    stdin
        .lock()
        .lines()
        .map(|l| l.expect("stdin"))
        .map(|l| l.trim().to_string())
        .filter(|l| !l.is_empty() && !l.starts_with('#'))
        .collect()
}

/// `[a; b; c]`
pub fn coq_list<T: AsRef<str>>(items: &[T]) -> String {
    let mut s = String::from("[");
    for (i, it) in items.iter().enumerate() {
        if i > 0 {
            s.push_str("; ");
        }
        s.push_str(it.as_ref());
    }
    s.push(']');
    s
}

pub fn coq_bool(b: bool) -> &'static str {
    if b {
        "true"
    } else {
        "false"
    }
}

pub fn coq_nums<I: IntoIterator<Item = u64>>(it: I) -> String {
    let v: Vec<String> = it.into_iter().map(|n| n.to_string()).collect();
    coq_list(&v)
}

/// Order-preserving node name for a model rank.
///
/// Ranks below `ODD_NAME_BASE` are `n<rank>@host`. Ranks from `ODD_NAME_BASE` on encode a family of
/// names that differ only in ASCII case, are prefixes of each other or carry a trailing dot:
/// `rank = 8 * id + v` is `n<id>@<ODD_HOSTS[v]>` (ODD_HOSTS is sorted bytewise, ids have ten
/// digits), so `str::cmp` agrees with the order of the ranks for ALL ranks, and distinct ranks are
/// distinct names (distinct peers).
pub const ODD_NAME_BASE: u64 = 9_000_000_000;
pub const ODD_HOSTS: [&str; 8] = ["HOST", "HOSt", "Host", "hOST", "hos", "host", "host.", "hostx"];
pub fn node_name(rank: u64) -> String {
    if rank < ODD_NAME_BASE {
        format!("n{:010}@host", rank)
    } else {
        format!("n{:010}@{}", rank / 8, ODD_HOSTS[(rank % 8) as usize])
    }
}

/// Inverse of [node_name] (u64::MAX if the name is not of that form).
pub fn node_rank(name: &str) -> u64 {
    let Some((n, host)) = name.split_once('@') else { return u64::MAX };
    let Some(id) = n.strip_prefix('n').and_then(|x| x.parse::<u64>().ok()) else { return u64::MAX };
    if host == "host" && id < ODD_NAME_BASE / 8 {
        return id;
    }
    match ODD_HOSTS.iter().position(|h| *h == host) {
        Some(v) if id >= ODD_NAME_BASE / 8 => id * 8 + v as u64,
        _ => u64::MAX,
    }
}

/// C17: the cookie with index `k`. 0..=2 are the short cookies "cookie<k>"; k >= 100 encodes a
/// structured family (length L from C17_COOKIE_LENS, variant v): k = 100 + 4*len_index + v with
/// v=0 the base string of length L, v=1 the base with its LAST byte changed, v=2 the base with the
/// byte at offset 60 (offset 0 if L <= 60) changed, v=3 the base followed by one more byte.
/// All indices used by the checks (v in {1,2} only for L >= 1) denote pairwise different strings.
pub const C17_COOKIE_LENS: [usize; 10] = [0, 1, 31, 32, 59, 60, 61, 64, 65, 200];
pub fn c17_cookie(k: u64) -> String {
    if k < 100 {
        return format!("cookie{k}");
    }
    let idx = (k - 100) as usize;
    let l = C17_COOKIE_LENS[(idx / 4) % C17_COOKIE_LENS.len()];
    let v = idx % 4;
    let mut b: Vec<u8> = (0..l).map(|i| b'a' + ((i * 7 + 3) % 23) as u8).collect();
    match v {
        1 if l >= 1 => b[l - 1] = b'y',
        2 if l >= 1 => b[if l > 60 { 60 } else { 0 }] = b'z',
        3 => b.push(b'x'),
        _ => {}
    }
    String::from_utf8(b).unwrap()
}
