(* Proofs about the admission model (Admission/Model.v): invariants of every
   interleaving of any number of send / drain activations with the consumer. *)
From Coq Require Import List Arith NArith Bool Lia.
From RV Require Import Admission.Model.
Import ListNotations.

(* ---------- list helpers ---------- *)

Fixpoint sumf {A} (f : A -> nat) (l : list A) : nat :=
  match l with [] => 0 | x :: t => f x + sumf f t end.

Lemma sumf_upd {A} (f : A -> nat) l i p p' :
  nth_error l i = Some p -> sumf f (upd l i p') + f p = sumf f l + f p'.
Proof.
  revert i; induction l as [|h t IH]; intros [|i] H; simpl in *; try discriminate.
  - injection H as ->. lia.
  - specialize (IH _ H). lia.
Qed.

Lemma sumf_app {A} (f : A -> nat) l1 l2 : sumf f (l1 ++ l2) = sumf f l1 + sumf f l2.
Proof. induction l1; simpl; lia. Qed.

Lemma upd_app {A} (l l2 : list A) i p x :
  nth_error l i = Some p -> upd (l ++ l2) i x = upd l i x ++ l2.
Proof.
  revert i; induction l as [|h t IH]; intros [|i] H; simpl in *; try discriminate; auto.
  f_equal; eauto.
Qed.

Lemma length_upd {A} (l : list A) i x : length (upd l i x) = length l.
Proof. revert i; induction l; intros [|i]; simpl; auto. Qed.

Lemma nth_upd_eq {A} (l : list A) i p x :
  nth_error l i = Some p -> nth_error (upd l i x) i = Some x.
Proof. revert i; induction l; intros [|i] H; simpl in *; try discriminate; eauto. Qed.

Lemma nth_upd_neq {A} (l : list A) i j x : i <> j -> nth_error (upd l i x) j = nth_error l j.
Proof.
  revert i j; induction l; intros [|i] [|j] H; simpl; auto; try congruence.
Qed.

Lemma nth_upd_none {A} (l : list A) i x : nth_error l i = None -> upd l i x = l.
Proof. revert i; induction l; intros [|i] H; simpl in *; try discriminate; auto. f_equal; auto. Qed.

Lemma nth_app_some {A} (l l2 : list A) i p :
  nth_error l i = Some p -> nth_error (l ++ l2) i = Some p.
Proof. intros H. rewrite nth_error_app1; auto. apply nth_error_Some. congruence. Qed.

Lemma markers_app a b : markers (a ++ b) = markers a + markers b.
Proof. induction a as [|[i|] t IH]; simpl; auto. Qed.

Lemma ids_app a b : ids (a ++ b) = ids a ++ ids b.
Proof. induction a as [|[i|] t IH]; simpl; auto. f_equal; auto. Qed.

Lemma word_eqb_eq a b : word_eqb a b = true -> a = b.
Proof.
  destruct a, b; unfold word_eqb; simpl; intros H.
  apply andb_true_iff in H as [H H3]. apply andb_true_iff in H as [H1 H2].
  apply Bool.eqb_prop in H1, H2. apply Nat.eqb_eq in H3. subst; auto.
Qed.

Definition b2n (b : bool) : nat := if b then 1 else 0.

(* ---------- measures over frames ---------- *)

Definition admitted1 (p : spc) : nat :=
  match p with S2g | S2 _ | S2w _ _ | S3 | S4 _ => 1 | _ => 0 end.
Definition sending_ma (a : ma) : nat := match a with MAsend => 1 | _ => 0 end.
Definition s_sending (p : spc) : nat := match p with SMA _ a => sending_ma a | _ => 0 end.
Definition d_sending (p : dpc) : nat := match p with DMA a => sending_ma a | _ => 0 end.
Definition good_word (w : word) : bool := wc w && negb (wm w) && (wn w =? 0).
Definition live_ma (a : ma) : nat :=
  match a with MAload => 1 | MAcas w => if good_word w then 1 else 0 | _ => 0 end.
Definition s_live (p : spc) : nat := match p with SMA _ a => live_ma a | _ => 0 end.
Definition d_live (p : dpc) : nat := match p with D1 => 1 | DMA a => live_ma a | _ => 0 end.
Definition d_past (p : dpc) : nat := match p with D0 => 0 | _ => 1 end.
Definition d_past2 (p : dpc) : nat := match p with D0 | D1 => 0 | _ => 1 end.

(* ---------- the numeric invariant (Appendix C: I1..I6 and companions) ---------- *)

Record NInv (s : st) : Prop := {
  n_cnt : cnt s = sumf admitted1 (ss s);
  n_marker : marker s = true -> closed s = true /\ cnt s = 0;
  n_one : sumf s_sending (ss s) + sumf d_sending (ds s) + markers (hist s) + b2n (mlost s)
          = b2n (marker s);
  n_last : markers (hist s) = 1 -> exists msgs, hist s = msgs ++ [Marker] /\ markers msgs = 0;
  n_live : closed s = true -> marker s = false -> cnt s = 0 ->
           sumf s_live (ss s) + sumf d_live (ds s) >= 1;
  n_closed : sumf d_past (ds s) >= 1 -> closed s = true;
  n_status : sumf d_past2 (ds s) >= 1 -> 4 <= status s;
  n_lost : mlost s = true -> rx_open s = false;
  n_len : length (si s) = length (ss s)
}.

Lemma ninv_init : NInv init.
Proof. constructor; simpl; auto; try lia; try discriminate. Qed.

(* effect of a call: only appends fresh frames / sets request flags *)
Lemma do_call_shape s c k s' : do_call s c = (k, s') ->
  exists l1 l2 l3,
    ss s' = ss s ++ l1 /\ ds s' = ds s ++ l2 /\ si s' = si s ++ l3 /\ length l3 = length l1 /\
    Forall (eq T0) l1 /\ Forall (eq D0) l2 /\
    closed s' = closed s /\ marker s' = marker s /\ cnt s' = cnt s /\ status s' = status s /\
    q s' = q s /\ hist s' = hist s /\ rx_open s' = rx_open s /\ mlost s' = mlost s /\
    taken s' = taken s /\ cons s' = cons s /\ exits s' = exits s.
Proof.
  destruct c as [p w b g f bx hc| | |]; simpl; intros H; injection H as <- <-; simpl.
  - exists [T0], [], [mkInfo p w b g f bx hc].
    rewrite app_nil_r. repeat split; auto.
  - exists [], [D0], []. rewrite !app_nil_r. repeat split; auto.
  - exists [], [], []. rewrite !app_nil_r. repeat split; auto.
  - exists [], [], []. rewrite !app_nil_r. repeat split; auto.
Qed.

Lemma sumf_fresh_s (f : spc -> nat) l : f T0 = 0 -> Forall (eq T0) l -> sumf f l = 0.
Proof. intros H0 H. induction H as [|x t Hx _ IH]; simpl; auto. subst. lia. Qed.
Lemma sumf_fresh_d (f : dpc -> nat) l : f D0 = 0 -> Forall (eq D0) l -> sumf f l = 0.
Proof. intros H0 H. induction H as [|x t Hx _ IH]; simpl; auto. subst. lia. Qed.

Lemma ninv_do_call s c k s' : do_call s c = (k, s') -> NInv s -> NInv s'.
Proof.
  intros H I. destruct (do_call_shape _ _ _ _ H) as
    (l1 & l2 & l3 & Es & Ed & Ei & El & F1 & F2 & Ec & Em & En & Est & Eq & Eh & Er & Eml & _).
  destruct I. constructor; rewrite ?Es, ?Ed, ?Ei, ?Ec, ?Em, ?En, ?Est, ?Eh, ?Er, ?Eml, ?sumf_app,
    ?(sumf_fresh_s admitted1 l1), ?(sumf_fresh_s s_sending l1), ?(sumf_fresh_s s_live l1),
    ?(sumf_fresh_d d_sending l2), ?(sumf_fresh_d d_live l2), ?(sumf_fresh_d d_past l2),
    ?(sumf_fresh_d d_past2 l2), ?Nat.add_0_r, ?app_length; auto; lia.
Qed.

(* the possible effects of one step of send_drain_marker *)
Definition ma_frame (s s' : st) : Prop :=
  ss s' = ss s /\ ds s' = ds s /\ si s' = si s /\ cnt s' = cnt s /\ closed s' = closed s /\
  status s' = status s /\ rx_open s' = rx_open s /\ taken s' = taken s /\ cons s' = cons s /\
  exits s' = exits s /\ log s' = log s /\ stop_req s' = stop_req s /\ kill_req s' = kill_req s.

Lemma ma_step_eff fail s a a' s' : ma_step fail s a = (a', s') ->
  ma_frame s s' /\
  ( (marker s' = marker s /\ hist s' = hist s /\ q s' = q s /\ mlost s' = mlost s /\
     sending_ma a' = sending_ma a /\
     (closed s = true -> marker s = false -> cnt s = 0 -> live_ma a' >= live_ma a))
  \/ (a' = MAsend /\ sending_ma a = 0 /\ marker s = false /\ marker s' = true /\
      closed s = true /\ cnt s = 0 /\ hist s' = hist s /\ q s' = q s /\ mlost s' = mlost s)
  \/ (a = MAsend /\ a' = MAdone true /\ marker s' = marker s /\ rx_open s = true /\
      hist s' = hist s ++ [Marker] /\ q s' = q s ++ [Marker] /\ mlost s' = mlost s)
  \/ (a = MAsend /\ a' = MAdone false /\ marker s' = marker s /\ rx_open s = false /\
      hist s' = hist s /\ q s' = q s /\ mlost s' = true)).
Proof.
  unfold ma_frame.
  destruct a as [|w| |b]; simpl; intros H.
  - injection H as <- <-. split; [repeat split; auto|]. left. repeat split; auto.
    intros Hc Hm Hn. unfold good_word, cur; simpl. rewrite Hc, Hm, Hn. simpl. lia.
  - destruct (negb (wc w) || negb (wn w =? 0) || wm w) eqn:E1.
    + injection H as <- <-. split; [repeat split; auto|]. left. repeat split; auto. simpl.
      intros _ _ _. unfold good_word. destruct (wc w), (wm w), (wn w =? 0); simpl in *; try discriminate; lia.
    + destruct (negb fail && word_eqb w (cur s)) eqn:E2.
      * injection H as <- <-. simpl. split; [repeat split; auto|]. right; left.
        apply orb_false_iff in E1 as [E1 Em]. apply orb_false_iff in E1 as [Ec En].
        apply negb_false_iff in Ec, En. apply Nat.eqb_eq in En.
        apply andb_true_iff in E2 as [_ E2]. apply word_eqb_eq in E2. subst w.
        simpl in *. repeat split; auto.
      * injection H as <- <-. split; [repeat split; auto|]. left. repeat split; auto.
        intros Hc Hm Hn. unfold good_word at 1, cur; simpl. rewrite Hc, Hm, Hn. simpl.
        destruct (wc w && negb (wm w) && (wn w =? 0)); lia.
  - destruct (rx_open s) eqn:Er; injection H as <- <-; simpl; (split; [repeat split; auto|]).
    + right; right; left. repeat split; auto.
    + right; right; right. repeat split; auto.
  - injection H as <- <-. split; [repeat split; auto|]. left. repeat split; auto.
Qed.

Ltac sums Hn p' :=
  pose proof (sumf_upd admitted1 _ _ _ p' Hn);
  pose proof (sumf_upd s_sending _ _ _ p' Hn);
  pose proof (sumf_upd s_live _ _ _ p' Hn).
Ltac dsums Hn p' :=
  pose proof (sumf_upd d_sending _ _ _ p' Hn);
  pose proof (sumf_upd d_live _ _ _ p' Hn);
  pose proof (sumf_upd d_past _ _ _ p' Hn);
  pose proof (sumf_upd d_past2 _ _ _ p' Hn).

Lemma admitted_pos l i p : nth_error l i = Some p -> admitted1 p = 1 -> sumf admitted1 l >= 1.
Proof. intros H H1. pose proof (sumf_upd admitted1 l i p T0 H). simpl in *. lia. Qed.

Ltac fin := intros; repeat match goal with
  | H : ?A -> _, H' : ?A |- _ => specialize (H H') end; try lia;
  try match goal with H : _ -> ?G |- ?G => apply H; lia end.

Lemma ninv_add_log s e : NInv s -> NInv (add_log s e).
Proof. intros []; constructor; simpl; auto. Qed.

Lemma ninv_sstep fail s i : NInv s -> NInv (sstep fail s i).
Proof.
  intros I. unfold sstep.
  destruct (nth_error (ss s) i) as [p|] eqn:Hn; auto.
  destruct (nth_error (si s) i) as [inf|] eqn:Hi; auto.
  destruct p as [| | |w| |todo|k todo| |r|r a|r]; auto.
  - (* T0 *) destruct (wrong inf); [sums Hn (SDone RInvalid)|sums Hn S0]; destruct I; constructor; simpl in *;
      rewrite ?length_upd; auto; fin.
  - (* S0 *) destruct (4 <=? status s); [sums Hn (SDone (RErr i))|sums Hn S1]; destruct I; constructor; simpl in *;
      rewrite ?length_upd; auto; fin.
  - (* S1 *) sums Hn (SA (cur s)); destruct I; constructor; simpl in *; rewrite ?length_upd; auto; fin.
  - (* SA *) destruct (wc w) eqn:Ew.
    + sums Hn (SDone (RErr i)); destruct I; constructor; simpl in *; rewrite ?length_upd; auto; fin.
    + destruct (negb fail && word_eqb w (cur s)) eqn:E.
      * apply andb_true_iff in E as [_ E]. apply word_eqb_eq in E. subst w. simpl in Ew.
        sums Hn S2g; destruct I; constructor; simpl in *; rewrite ?length_upd; auto; fin;
          try (destruct n_marker0; congruence); congruence.
      * sums Hn (SA (cur s)); destruct I; constructor; simpl in *; rewrite ?length_upd; auto; fin.
  - (* S2g *) sums Hn (S2 (box inf)); destruct I; constructor; simpl in *; rewrite ?length_upd; auto; fin.
  - (* S2 *) destruct todo as [|c todo].
    + destruct (boxok inf); [sums Hn S3|sums Hn (S4 RInvalid)]; destruct I; constructor; simpl in *;
        rewrite ?length_upd; auto; fin.
    + destruct (do_call s c) as [k s'] eqn:Hc.
      pose proof (ninv_do_call _ _ _ _ Hc I) as I'.
      destruct (do_call_shape _ _ _ _ Hc) as (l1 & l2 & l3 & Es & _).
      assert (Hn' : nth_error (ss s') i = Some (S2 (c :: todo))) by (rewrite Es; apply nth_app_some; auto).
      sums Hn' (S2w k todo); destruct I'; constructor; simpl in *; rewrite ?length_upd; auto; fin.
  - (* S2w *) destruct (child_done s k); auto.
    sums Hn (S2 todo); destruct I; constructor; simpl in *; rewrite ?length_upd; auto; fin.
  - (* S3 *) pose proof (admitted_pos _ _ _ Hn eq_refl) as Hpos.
    assert (Hm : marker s = false).
    { destruct (marker s) eqn:E; auto. destruct I as [I1 I2]. destruct (I2 E). lia. }
    assert (HK : markers (hist s) = 0).
    { destruct I as [_ _ I3]. rewrite Hm in I3. simpl in I3. lia. }
    destruct (rx_open s); [sums Hn (S4 ROk)|sums Hn (S4 (RErr i))]; destruct I; constructor; simpl in *;
      rewrite ?length_upd, ?markers_app; simpl; auto; fin; congruence.
  - (* S4 *) pose proof (admitted_pos _ _ _ Hn eq_refl) as Hpos.
    assert (Hm : marker s = false).
    { destruct (marker s) eqn:E; auto. destruct I as [I1 I2]. destruct (I2 E). lia. }
    destruct (closed s && (cnt s =? 1)) eqn:E; [sums Hn (SMA r MAload)|sums Hn (SDone r)];
      destruct I; constructor; simpl in *; rewrite ?length_upd; auto; fin; try congruence.
    match goal with Hc : closed s = true |- _ => rewrite Hc in E end. simpl in E. apply Nat.eqb_neq in E. lia.
  - (* SMA *) destruct (ma_step fail s a) as [a' s'] eqn:Hma.
    destruct (ma_step_eff _ _ _ _ _ Hma) as ((Es & Ed & Ei & Ec & Ecl & Est & Erx & _) & Hcase).
    assert (Hn' : nth_error (ss s') i = Some (SMA r a)) by (rewrite Es; exact Hn).
    set (P' := match a' with MAdone _ => SDone r | _ => SMA r a' end).
    assert (A1 : admitted1 P' = 0) by (destruct a'; reflexivity).
    assert (A2 : s_sending P' = sending_ma a') by (destruct a'; reflexivity).
    assert (A3 : s_live P' = live_ma a') by (destruct a'; reflexivity).
    assert (G : NInv (set_spc s' i P')).
    { sums Hn' P'. rewrite A1, A2, A3 in *. clearbody P'. rewrite Es in *.
      destruct Hcase as [(Em & Eh & Eq & Eml & Esd & Elv) | [(Ea & Esd & Em0 & Em1 & Hcl & Hc0 & Eh & Eq & Eml)
           | [(Ea & Ea' & Em & Hrx & Eh & Eq & Eml) | (Ea & Ea' & Em & Hrx & Eh & Eq & Eml)]]];
        try subst a; try subst a'; simpl in *.
      - destruct I; constructor; simpl; rewrite ?length_upd, ?Es, ?Ed, ?Ei, ?Ec, ?Ecl, ?Est, ?Erx, ?Em, ?Eh, ?Eml; auto; fin.
      - destruct I; constructor; simpl; rewrite ?length_upd, ?Es, ?Ed, ?Ei, ?Ec, ?Ecl, ?Est, ?Erx, ?Em1, ?Eh, ?Eml; auto;
          rewrite ?Em0 in *; simpl in *; fin; try congruence.
      - destruct I; constructor; simpl; rewrite ?length_upd, ?Es, ?Ed, ?Ei, ?Ec, ?Ecl, ?Est, ?Erx, ?Em, ?Eh, ?Eml, ?markers_app; auto;
          destruct (marker s) eqn:Emk; simpl in *; fin; try congruence.
        exists (hist s). split; auto. lia.
      - destruct I; constructor; simpl; rewrite ?length_upd, ?Es, ?Ed, ?Ei, ?Ec, ?Ecl, ?Est, ?Erx, ?Em, ?Eh, ?Eml; auto;
          destruct (marker s) eqn:Emk; destruct (mlost s) eqn:Eml0; simpl in *; fin; try congruence. }
    unfold P' in G. destruct a'; try exact G. apply ninv_add_log. exact G.
Qed.

Lemma ninv_dstep fail s j : NInv s -> NInv (dstep fail s j).
Proof.
  intros I. unfold dstep.
  destruct (nth_error (ds s) j) as [p|] eqn:Hn; auto.
  destruct p as [| |a|b]; auto.
  - (* D0 *) dsums Hn D1. destruct I; constructor; simpl in *; auto; fin.
  - (* D1 *) dsums Hn (DMA MAload). destruct I; constructor; simpl in *; auto; fin.
    destruct (status s <? 5) eqn:E; [lia|]. apply Nat.ltb_ge in E. lia.
  - (* DMA *) destruct (ma_step fail s a) as [a' s'] eqn:Hma.
    destruct (ma_step_eff _ _ _ _ _ Hma) as ((Es & Ed & Ei & Ec & Ecl & Est & Erx & _) & Hcase).
    assert (Hn' : nth_error (ds s') j = Some (DMA a)) by (rewrite Ed; exact Hn).
    set (P' := match a' with MAdone ok => DDone ok | _ => DMA a' end).
    assert (A2 : d_sending P' = sending_ma a') by (destruct a'; reflexivity).
    assert (A3 : d_live P' = live_ma a') by (destruct a'; reflexivity).
    assert (A4 : d_past P' = 1) by (destruct a'; reflexivity).
    assert (A5 : d_past2 P' = 1) by (destruct a'; reflexivity).
    assert (G : NInv (set_dpc s' j P')).
    { dsums Hn' P'. rewrite A2, A3, A4, A5 in *. clearbody P'. rewrite Ed in *.
      destruct Hcase as [(Em & Eh & Eq & Eml & Esd & Elv) | [(Ea & Esd & Em0 & Em1 & Hcl & Hc0 & Eh & Eq & Eml)
           | [(Ea & Ea' & Em & Hrx & Eh & Eq & Eml) | (Ea & Ea' & Em & Hrx & Eh & Eq & Eml)]]];
        try subst a; try subst a'; simpl in *.
      - destruct I; constructor; simpl; rewrite ?Es, ?Ed, ?Ei, ?Ec, ?Ecl, ?Est, ?Erx, ?Em, ?Eh, ?Eml; auto; fin.
      - destruct I; constructor; simpl; rewrite ?Es, ?Ed, ?Ei, ?Ec, ?Ecl, ?Est, ?Erx, ?Em1, ?Eh, ?Eml; auto;
          rewrite ?Em0 in *; simpl in *; fin; try congruence.
      - destruct I; constructor; simpl; rewrite ?Es, ?Ed, ?Ei, ?Ec, ?Ecl, ?Est, ?Erx, ?Em, ?Eh, ?Eml, ?markers_app; auto;
          destruct (marker s) eqn:Emk; simpl in *; fin; try congruence.
        exists (hist s). split; auto. lia.
      - destruct I; constructor; simpl; rewrite ?Es, ?Ed, ?Ei, ?Ec, ?Ecl, ?Est, ?Erx, ?Em, ?Eh, ?Eml; auto;
          destruct (marker s) eqn:Emk; destruct (mlost s) eqn:Eml0; simpl in *; fin; try congruence. }
    unfold P' in G. destruct a'; try exact G. apply ninv_add_log. exact G.
Qed.

Theorem step_ninv s l : NInv s -> NInv (step s l).
Proof.
  intros I. destruct l as [c|i|i|j|j| | | | | | | ]; simpl.
  - destruct (do_call s c) as [k s'] eqn:H. simpl. eapply ninv_do_call; eauto.
  - apply ninv_sstep; auto.
  - apply ninv_sstep; auto.
  - apply ninv_dstep; auto.
  - apply ninv_dstep; auto.
  - (* LRecv *) unfold recv_step. destruct (cons s); auto.
    destruct (kill_req s); [destruct I; constructor; simpl; auto|].
    destruct (stop_req s); [destruct I; constructor; simpl; auto|].
    destruct (rx_open s) eqn:Er; auto. destruct (q s) as [|[i|] rest]; auto;
      destruct I; constructor; simpl; auto.
  - (* LH *) unfold handler_step. destruct (cons s) as [|i todo|i k todo|r|r]; auto.
    + destruct todo as [|c todo].
      * destruct (hfail_of s i); destruct I; constructor; simpl; auto.
      * destruct (do_call s c) as [k s'] eqn:H. pose proof (ninv_do_call _ _ _ _ H I) as [].
        constructor; simpl; auto.
    + destruct (child_done s k); auto. destruct I; constructor; simpl; auto.
  - destruct (in_handler (cons s) && kill_req s); auto. destruct I; constructor; simpl; auto.
  - destruct (alive (cons s)); auto. destruct I; constructor; simpl; auto.
  - destruct (cons s); auto. destruct I; constructor; simpl; auto. intros. specialize (n_status0 H). lia.
  - destruct (cons s); auto. destruct I; constructor; simpl; auto.
  - destruct (cons s); auto. destruct (rx_open s) eqn:Er; auto.
    destruct I; constructor; simpl; auto.
Qed.

Theorem reachable_ninv s : reachable s -> NInv s.
Proof.
  intros [ls ->]. unfold run. rewrite <- fold_left_rev_right.
  induction (rev ls) as [|l t IH]; simpl; [apply ninv_init|apply step_ninv; exact IH].
Qed.

(* ---------- which frames have enqueued; results hand back the offered message ---------- *)

Definition enq_pc (p : spc) : bool :=
  match p with S4 ROk | SMA ROk _ | SDone ROk => true | _ => false end.
Definition res_ok (i : nat) (p : spc) : Prop :=
  match p with S4 (RErr m) | SMA (RErr m) _ | SDone (RErr m) => m = i | _ => True end.
Definition enq_at (l : list spc) (j : nat) : bool :=
  match nth_error l j with Some p => enq_pc p | None => false end.
Definition res_ok_at (l : list spc) (j : nat) : Prop :=
  match nth_error l j with Some p => res_ok j p | None => True end.

Definition PT (l : list spc) (h : list item) : Prop :=
  forall j, (In (Msg j) h <-> enq_at l j = true) /\ res_ok_at l j.

Lemma PT_upd_same l h i p p' :
  PT l h -> nth_error l i = Some p -> enq_pc p' = enq_pc p -> res_ok i p' -> PT (upd l i p') h.
Proof.
  intros H Hn He Hr j. specialize (H j). unfold enq_at, res_ok_at in *.
  destruct (Nat.eq_dec i j) as [->|Hne].
  - rewrite (nth_upd_eq _ _ _ _ Hn). rewrite Hn in H. rewrite He. tauto.
  - rewrite (nth_upd_neq _ _ _ _ Hne). exact H.
Qed.

Lemma PT_marker l h : PT l h -> PT l (h ++ [Marker]).
Proof.
  intros H j. specialize (H j). split; [|tauto]. rewrite in_app_iff. simpl.
  split; [intros [A|[A|[]]]; [tauto|discriminate]|intros; left; tauto].
Qed.

Lemma PT_enq l h i : PT l h -> nth_error l i = Some S3 -> PT (upd l i (S4 ROk)) (h ++ [Msg i]).
Proof.
  intros H Hn j. specialize (H j). unfold enq_at, res_ok_at in *. rewrite in_app_iff. simpl.
  destruct (Nat.eq_dec i j) as [->|Hne].
  - rewrite (nth_upd_eq _ _ _ _ Hn). simpl. tauto.
  - rewrite (nth_upd_neq _ _ _ _ Hne). destruct H as [H1 H2]. split; auto.
    split; [intros [A|[A|[]]]; [tauto|congruence]|intros; left; tauto].
Qed.

Lemma PT_app l h l1 : PT l h -> Forall (eq T0) l1 -> PT (l ++ l1) h.
Proof.
  intros H F j. specialize (H j). unfold enq_at, res_ok_at in *.
  destruct (nth_error l j) as [p|] eqn:E.
  - rewrite (nth_app_some _ _ _ _ E). exact H.
  - assert (X : nth_error (l ++ l1) j = None \/ nth_error (l ++ l1) j = Some T0).
    { destruct (nth_error (l ++ l1) j) eqn:E2; auto. right.
      apply nth_error_None in E. rewrite nth_error_app2 in E2 by lia.
      apply nth_error_In in E2. rewrite Forall_forall in F. rewrite (F _ E2). auto. }
    destruct X as [-> | ->]; simpl; exact H.
Qed.

Lemma markers_0_notin h : markers h = 0 -> ~ In Marker h.
Proof.
  induction h as [|[i|] t IH]; simpl; intros H A; [auto | destruct A as [A|A]; [discriminate|exact (IH H A)] | discriminate].
Qed.

Record HInv (s : st) : Prop := {
  h_pt : PT (ss s) (hist s);
  h_nodup : NoDup (hist s)
}.

Lemma hinv_init : HInv init.
Proof.
  constructor; simpl; [|constructor].
  intros j. unfold enq_at, res_ok_at. destruct j; simpl; split; auto; split; intros; try discriminate; tauto.
Qed.

Lemma nodup_snoc {A} (l : list A) x : NoDup l -> ~ In x l -> NoDup (l ++ [x]).
Proof.
  intros H Hx. apply NoDup_rev in H. rewrite <- (rev_involutive (l ++ [x])).
  apply NoDup_rev. rewrite rev_app_distr. simpl. constructor; auto. rewrite <- in_rev. exact Hx.
Qed.

Lemma hinv_do_call s c k s' : do_call s c = (k, s') -> HInv s -> HInv s'.
Proof.
  intros H [I1 I2]. destruct (do_call_shape _ _ _ _ H) as
    (l1 & l2 & l3 & Es & Ed & Ei & El & F1 & F2 & Ec & Em & En & Est & Eq & Eh & _).
  constructor; rewrite ?Es, ?Eh; auto. apply PT_app; auto.
Qed.

Lemma hinv_add_log s e : HInv s -> HInv (add_log s e).
Proof. intros []; constructor; simpl; auto. Qed.

Ltac hsame Hn := match goal with HI : HInv _ |- _ => destruct HI as [I1 I2] end; constructor; simpl; auto;
  eapply PT_upd_same; eauto; simpl; auto.

Lemma hinv_sstep fail s i : NInv s -> HInv s -> HInv (sstep fail s i).
Proof.
  intros N HI. unfold sstep.
  destruct (nth_error (ss s) i) as [p|] eqn:Hn; auto.
  destruct (nth_error (si s) i) as [inf|] eqn:Hi; auto.
  assert (Hr : res_ok i p).
  { destruct HI as [I1 _]. specialize (I1 i). unfold res_ok_at in I1. rewrite Hn in I1. tauto. }
  destruct p as [| | |w| |todo|k todo| |r|r a|r]; auto.
  - destruct (wrong inf); hsame Hn.
  - destruct (4 <=? status s); hsame Hn.
  - hsame Hn.
  - destruct (wc w); [hsame Hn|]. destruct (negb fail && word_eqb w (cur s)); hsame Hn.
  - hsame Hn.
  - destruct todo as [|c todo].
    + destruct (boxok inf); hsame Hn.
    + destruct (do_call s c) as [k s'] eqn:Hc.
      pose proof (hinv_do_call _ _ _ _ Hc HI) as I'.
      destruct (do_call_shape _ _ _ _ Hc) as (l1 & l2 & l3 & Es & _).
      assert (Hn' : nth_error (ss s') i = Some (S2 (c :: todo))) by (rewrite Es; apply nth_app_some; auto).
      destruct I' as [I1 I2]; constructor; simpl; auto. eapply PT_upd_same; eauto.
  - destruct (child_done s k); auto. hsame Hn.
  - destruct (rx_open s); [|hsame Hn].
    destruct HI as [I1 I2]; constructor; simpl.
    + apply PT_enq; auto.
    + apply nodup_snoc; auto. intros A. apply (I1 i) in A. unfold enq_at in A. rewrite Hn in A. discriminate.
  - destruct (closed s && (cnt s =? 1)); hsame Hn; destruct r; simpl in *; auto.
  - destruct (ma_step fail s a) as [a' s'] eqn:Hma.
    destruct (ma_step_eff _ _ _ _ _ Hma) as ((Es & Ed & Ei & Ec & Ecl & Est & Erx & _) & Hcase).
    assert (Hn' : nth_error (ss s') i = Some (SMA r a)) by (rewrite Es; exact Hn).
    set (P' := match a' with MAdone _ => SDone r | _ => SMA r a' end).
    assert (A1 : enq_pc P' = enq_pc (SMA r a)) by (destruct a'; destruct r; reflexivity).
    assert (A2 : res_ok i P') by (destruct a'; destruct r; simpl in *; auto).
    assert (G : HInv (set_spc s' i P')).
    { assert (I' : HInv s').
      { destruct HI as [I1 I2].
        destruct Hcase as [(Em & Eh & _) | [(_ & _ & _ & _ & _ & _ & Eh & _)
           | [(Ea & Ea' & Em & Hrx & Eh & Eq & Eml) | (_ & _ & _ & _ & Eh & _)]]];
          constructor; rewrite ?Es, ?Eh; auto.
        - apply PT_marker; auto.
        - apply nodup_snoc; auto. apply markers_0_notin. subst a.
          pose proof (sumf_upd s_sending _ _ _ T0 Hn) as X. simpl in X.
          destruct N as [_ _ N3]. destruct (marker s); simpl in *; lia. }
      destruct I' as [I1 I2]. constructor; simpl; auto. eapply PT_upd_same; eauto. }
    unfold P' in G. destruct a'; try exact G. apply hinv_add_log. exact G.
Qed.

Lemma hinv_dstep fail s j : NInv s -> HInv s -> HInv (dstep fail s j).
Proof.
  intros N HI. unfold dstep.
  destruct (nth_error (ds s) j) as [p|] eqn:Hn; auto.
  destruct p as [| |a|b]; auto.
  - destruct HI; constructor; simpl; auto.
  - destruct HI; constructor; simpl; auto.
  - destruct (ma_step fail s a) as [a' s'] eqn:Hma.
    destruct (ma_step_eff _ _ _ _ _ Hma) as ((Es & Ed & Ei & Ec & Ecl & Est & Erx & _) & Hcase).
    assert (I' : HInv s').
    { destruct HI as [I1 I2].
      destruct Hcase as [(Em & Eh & _) | [(_ & _ & _ & _ & _ & _ & Eh & _)
         | [(Ea & Ea' & Em & Hrx & Eh & Eq & Eml) | (_ & _ & _ & _ & Eh & _)]]];
        constructor; rewrite ?Es, ?Eh; auto.
      - apply PT_marker; auto.
      - apply nodup_snoc; auto. apply markers_0_notin. subst a.
        pose proof (sumf_upd d_sending _ _ _ D0 Hn) as X. simpl in X.
        destruct N as [_ _ N3]. destruct (marker s); simpl in *; lia. }
    destruct I' as [I1 I2].
    destruct a'; constructor; simpl; auto.
Qed.

Theorem step_hinv s l : NInv s -> HInv s -> HInv (step s l).
Proof.
  intros N HI. destruct l as [c|i|i|j|j| | | | | | | ]; simpl.
  - destruct (do_call s c) as [k s'] eqn:H. simpl. eapply hinv_do_call; eauto.
  - apply hinv_sstep; auto.
  - apply hinv_sstep; auto.
  - apply hinv_dstep; auto.
  - apply hinv_dstep; auto.
  - unfold recv_step. destruct (cons s); auto.
    destruct (kill_req s); [destruct HI; constructor; simpl; auto|].
    destruct (stop_req s); [destruct HI; constructor; simpl; auto|].
    destruct (rx_open s) eqn:Er; auto. destruct (q s) as [|[i|] rest]; auto;
      destruct HI; constructor; simpl; auto.
  - unfold handler_step. destruct (cons s) as [|i todo|i k todo|r|r]; auto.
    + destruct todo as [|c todo].
      * destruct (hfail_of s i); destruct HI; constructor; simpl; auto.
      * destruct (do_call s c) as [k s'] eqn:H. pose proof (hinv_do_call _ _ _ _ H HI) as [].
        constructor; simpl; auto.
    + destruct (child_done s k); auto. destruct HI; constructor; simpl; auto.
  - destruct (in_handler (cons s) && kill_req s); auto. destruct HI; constructor; simpl; auto.
  - destruct (alive (cons s)); auto. destruct HI; constructor; simpl; auto.
  - destruct (cons s); auto. destruct HI; constructor; simpl; auto.
  - destruct (cons s); auto. destruct HI; constructor; simpl; auto.
  - destruct (cons s); auto. destruct (rx_open s) eqn:Er; auto.
    destruct HI; constructor; simpl; auto.
Qed.

(* ---------- channel / consumer invariant ---------- *)

Definition drained_r (r : reason) : bool := match r with RDrained => true | _ => false end.

Record QInv (s : st) : Prop := {
  q_split : exists fl, hist s = taken s ++ fl /\ (rx_open s = true -> fl = q s);
  q_alive : alive (cons s) = true -> rx_open s = true /\ exits s = [] /\ markers (taken s) = 0;
  q_exit : forall r, cons s = CExit r ->
           exits s = [] /\ (if drained_r r then markers (taken s) = 1 else markers (taken s) = 0);
  q_dead : forall r, cons s = CDead r ->
           exits s = [r] /\ rx_open s = false /\
           (if drained_r r then markers (taken s) = 1 else markers (taken s) = 0)
}.

Lemma qinv_init : QInv init.
Proof.
  constructor; simpl; auto; try discriminate. exists []. auto.
Qed.

Lemma qinv_do_call s c k s' : do_call s c = (k, s') -> QInv s -> QInv s'.
Proof.
  intros H [I1 I2 I3 I4]. destruct (do_call_shape _ _ _ _ H) as
    (l1 & l2 & l3 & Es & Ed & Ei & El & F1 & F2 & Ec & Em & En & Est & Eq & Eh & Er & Eml & Et & Eco & Eex).
  constructor; rewrite ?Eh, ?Et, ?Er, ?Eq, ?Eco, ?Eex; auto.
Qed.

(* a step that leaves the consumer alone and either leaves the channel alone or enqueues
   (which requires an open receiver) *)
Lemma qinv_chan s s' :
  QInv s -> taken s' = taken s -> cons s' = cons s -> exits s' = exits s -> rx_open s' = rx_open s ->
  ((hist s' = hist s /\ q s' = q s) \/
   (exists x, rx_open s = true /\ hist s' = hist s ++ [x] /\ q s' = q s ++ [x])) ->
  QInv s'.
Proof.
  intros [I1 I2 I3 I4] Et Ec Ee Er H.
  constructor; rewrite ?Et, ?Ec, ?Ee, ?Er; auto.
  destruct I1 as (fl & E1 & E2). destruct H as [[Eh Eq]|(x & Hrx & Eh & Eq)]; rewrite Eh, Eq.
  - exists fl; auto.
  - exists (fl ++ [x]). split; [rewrite E1, app_assoc; auto|]. intros _. rewrite E2; auto.
Qed.

Lemma qinv_sstep fail s i : QInv s -> QInv (sstep fail s i).
Proof.
  intros HI. unfold sstep.
  destruct (nth_error (ss s) i) as [p|] eqn:Hn; auto.
  destruct (nth_error (si s) i) as [inf|] eqn:Hi; auto.
  destruct p as [| | |w| |todo|k todo| |r|r a|r]; auto;
    try (repeat match goal with |- context [if ?b then _ else _] => destruct b eqn:? end;
         eapply qinv_chan; eauto; simpl; auto; fail).
  - destruct todo as [|c todo].
    + destruct (boxok inf); eapply qinv_chan; eauto; simpl; auto.
    + destruct (do_call s c) as [k s'] eqn:Hc.
      pose proof (qinv_do_call _ _ _ _ Hc HI) as I'. eapply qinv_chan; eauto; simpl; auto.
  - destruct (rx_open s) eqn:Er; eapply qinv_chan; eauto; simpl; auto.
    right. exists (Msg i). auto.
  - destruct (ma_step fail s a) as [a' s'] eqn:Hma.
    destruct (ma_step_eff _ _ _ _ _ Hma) as ((Es & Ed & Ei & Ec & Ecl & Est & Erx & Et & Eco & Eex & _) & Hcase).
    assert (I' : QInv s').
    { eapply qinv_chan; eauto.
      destruct Hcase as [(Em & Eh & Eq & _) | [(_ & _ & _ & _ & _ & _ & Eh & Eq & _)
         | [(Ea & Ea' & Em & Hrx & Eh & Eq & Eml) | (_ & _ & _ & _ & Eh & Eq & _)]]]; auto.
      right. exists Marker. auto. }
    destruct a'; eapply qinv_chan; eauto; simpl; auto.
Qed.

Lemma qinv_dstep fail s j : QInv s -> QInv (dstep fail s j).
Proof.
  intros HI. unfold dstep.
  destruct (nth_error (ds s) j) as [p|] eqn:Hn; auto.
  destruct p as [| |a|b]; auto; try (eapply qinv_chan; eauto; simpl; auto; fail).
  destruct (ma_step fail s a) as [a' s'] eqn:Hma.
  destruct (ma_step_eff _ _ _ _ _ Hma) as ((Es & Ed & Ei & Ec & Ecl & Est & Erx & Et & Eco & Eex & _) & Hcase).
  assert (I' : QInv s').
  { eapply qinv_chan; eauto.
    destruct Hcase as [(Em & Eh & Eq & _) | [(_ & _ & _ & _ & _ & _ & Eh & Eq & _)
       | [(Ea & Ea' & Em & Hrx & Eh & Eq & Eml) | (_ & _ & _ & _ & Eh & Eq & _)]]]; auto.
    right. exists Marker. auto. }
  destruct a'; eapply qinv_chan; eauto; simpl; auto.
Qed.

Theorem step_qinv s l : QInv s -> QInv (step s l).
Proof.
  intros HI. destruct l as [c|i|i|j|j| | | | | | | ]; simpl.
  - destruct (do_call s c) as [k s'] eqn:H. simpl. eapply qinv_do_call; eauto.
  - apply qinv_sstep; auto.
  - apply qinv_sstep; auto.
  - apply qinv_dstep; auto.
  - apply qinv_dstep; auto.
  - (* LRecv *) unfold recv_step. destruct (cons s) eqn:Ec; auto.
    destruct HI as [I1 I2 I3 I4]. rewrite Ec in I2. destruct (I2 eq_refl) as (Hrx & Hex & Hmk).
    destruct (kill_req s); [constructor; simpl; auto; try discriminate; intros r [= <-]; auto|].
    destruct (stop_req s); [constructor; simpl; auto; try discriminate; intros r [= <-]; auto|].
    rewrite Hrx. destruct I1 as (fl & E1 & E2). specialize (E2 Hrx). subst fl.
    destruct (q s) as [|[i|] rest] eqn:Eq.
    + constructor; rewrite ?Ec; auto; try discriminate. exists []. auto.
    + constructor; simpl; rewrite ?markers_app; simpl; auto; try discriminate.
      * exists rest. rewrite E1, <- app_assoc. auto.
      * intros _. repeat split; auto. lia.
    + constructor; simpl; rewrite ?markers_app; simpl; auto; try discriminate.
      * exists rest. rewrite E1, <- app_assoc. auto.
      * intros r [= <-]. simpl. split; auto. lia.
  - (* LH *) unfold handler_step. destruct (cons s) as [|i todo|i k todo|r|r] eqn:Ec; auto.
    + destruct todo as [|c todo].
      * destruct HI as [I1 I2 I3 I4]. rewrite Ec in I2. destruct (I2 eq_refl) as (Hrx & Hex & Hmk).
        destruct (hfail_of s i); constructor; simpl; auto; try discriminate. intros r [= <-]; auto.
      * destruct (do_call s c) as [k s'] eqn:H. pose proof (qinv_do_call _ _ _ _ H HI) as [I1 I2 I3 I4].
        destruct (do_call_shape _ _ _ _ H) as (_ & _ & _ & _ & _ & _ & _ & _ & _ & _ & _ & _ & _ & _ & _ & _ & _ & _ & Eco & _).
        rewrite Eco, Ec in I2.
        constructor; simpl; auto; try discriminate.
    + destruct (child_done s k); auto.
      destruct HI as [I1 I2 I3 I4]. rewrite Ec in I2. constructor; simpl; auto; try discriminate.
  - (* LKillNow *) destruct (in_handler (cons s) && kill_req s) eqn:E; auto.
    apply andb_true_iff in E as [E _].
    destruct HI as [I1 I2 I3 I4].
    assert (A : alive (cons s) = true) by (destruct (cons s); simpl in *; auto; discriminate).
    destruct (I2 A) as (Hrx & Hex & Hmk).
    constructor; simpl; auto; try discriminate. intros r [= <-]; auto.
  - (* LCrash *) destruct (alive (cons s)) eqn:A; auto.
    destruct HI as [I1 I2 I3 I4]. destruct (I2 A) as (Hrx & Hex & Hmk).
    constructor; simpl; auto; try discriminate. intros r [= <-]; auto.
  - destruct (cons s) eqn:Ec; auto. destruct HI as [I1 I2 I3 I4]. constructor; simpl; auto.
  - destruct (cons s) eqn:Ec; auto. destruct HI as [I1 I2 I3 I4]. constructor; simpl.
    + destruct I1 as (fl & E1 & _). exists fl. split; auto. discriminate.
    + rewrite Ec. discriminate.
    + rewrite Ec. intros r0 [= <-]. apply I3; auto.
    + rewrite Ec. discriminate.
  - destruct (cons s) eqn:Ec; auto. destruct (rx_open s) eqn:Er; auto.
    destruct HI as [I1 I2 I3 I4]. destruct (I3 _ Ec) as [Hex Hmk].
    constructor; simpl; auto; try discriminate. intros r' [= <-]. rewrite Hex. auto.
Qed.

(* ---------- all invariants of reachable states ---------- *)

Record Inv (s : st) : Prop := { inv_n : NInv s; inv_h : HInv s; inv_q : QInv s }.

Theorem step_inv s l : Inv s -> Inv (step s l).
Proof. intros [N H Q]. constructor; [apply step_ninv|apply step_hinv|apply step_qinv]; auto. Qed.

Theorem run_inv s ls : Inv s -> Inv (run s ls).
Proof. revert s; induction ls as [|l t IH]; simpl; intros s I; auto. apply IH, step_inv, I. Qed.

Theorem reachable_inv s : reachable s -> Inv s.
Proof.
  intros [ls ->]. apply run_inv. constructor; [apply ninv_init|apply hinv_init|apply qinv_init].
Qed.
