(* Proofs about the admission model (Admission/Model.v): invariants of every
   interleaving of any number of send / drain activations with the consumer. *)
From Coq Require Import List Arith NArith Bool Lia.
From RV Require Import Admission.Model.
Import ListNotations.

(* ---------- list helpers ---------- *)

Fixpoint sumf {A} (f : A -> nat) (l : list A) : nat :=
  match l with [] => 0 | x :: t => f x + sumf f t end.

Lemma sumf_upd {A} (f : A -> nat) l i p p' :
  nth_error l i = Some p -> sumf f (upd l i p') + f p = sumf f l + f p'.
Proof.
  revert i; induction l as [|h t IH]; intros [|i] H; simpl in *; try discriminate.
  - injection H as ->. lia.
  - specialize (IH _ H). lia.
Qed.

Lemma sumf_app {A} (f : A -> nat) l1 l2 : sumf f (l1 ++ l2) = sumf f l1 + sumf f l2.
Proof. induction l1; simpl; lia. Qed.

Lemma upd_app {A} (l l2 : list A) i p x :
  nth_error l i = Some p -> upd (l ++ l2) i x = upd l i x ++ l2.
Proof.
  revert i; induction l as [|h t IH]; intros [|i] H; simpl in *; try discriminate; auto.
  f_equal; eauto.
Qed.

Lemma length_upd {A} (l : list A) i x : length (upd l i x) = length l.
Proof. revert i; induction l; intros [|i]; simpl; auto. Qed.

Lemma nth_upd_eq {A} (l : list A) i p x :
  nth_error l i = Some p -> nth_error (upd l i x) i = Some x.
Proof. revert i; induction l; intros [|i] H; simpl in *; try discriminate; eauto. Qed.

Lemma nth_upd_neq {A} (l : list A) i j x : i <> j -> nth_error (upd l i x) j = nth_error l j.
Proof.
  revert i j; induction l; intros [|i] [|j] H; simpl; auto; try congruence.
Qed.

Lemma nth_upd_none {A} (l : list A) i x : nth_error l i = None -> upd l i x = l.
Proof. revert i; induction l; intros [|i] H; simpl in *; try discriminate; auto. f_equal; auto. Qed.

Lemma nth_app_some {A} (l l2 : list A) i p :
  nth_error l i = Some p -> nth_error (l ++ l2) i = Some p.
Proof. intros H. rewrite nth_error_app1; auto. apply nth_error_Some. congruence. Qed.

Lemma markers_app a b : markers (a ++ b) = markers a + markers b.
Proof. induction a as [|[i|] t IH]; simpl; auto. Qed.

Lemma ids_app a b : ids (a ++ b) = ids a ++ ids b.
Proof. induction a as [|[i|] t IH]; simpl; auto. f_equal; auto. Qed.

Lemma word_eqb_eq a b : word_eqb a b = true -> a = b.
Proof.
  destruct a, b; unfold word_eqb; simpl; intros H.
  apply andb_true_iff in H as [H H3]. apply andb_true_iff in H as [H1 H2].
  apply Bool.eqb_prop in H1, H2. apply Nat.eqb_eq in H3. subst; auto.
Qed.

Definition b2n (b : bool) : nat := if b then 1 else 0.

(* ---------- measures over frames ---------- *)

Definition admitted1 (p : spc) : nat :=
  match p with S2g | S2 _ | S2w _ _ | S3 | S4 _ => 1 | _ => 0 end.
Definition sending_ma (a : ma) : nat := match a with MAsend => 1 | _ => 0 end.
Definition s_sending (p : spc) : nat := match p with SMA _ a => sending_ma a | _ => 0 end.
Definition d_sending (p : dpc) : nat := match p with DMA a => sending_ma a | _ => 0 end.
Definition good_word (w : word) : bool := wc w && negb (wm w) && (wn w =? 0).
Definition live_ma (a : ma) : nat :=
  match a with MAload => 1 | MAcas w => if good_word w then 1 else 0 | _ => 0 end.
Definition s_live (p : spc) : nat := match p with SMA _ a => live_ma a | _ => 0 end.
Definition d_live (p : dpc) : nat := match p with D1 => 1 | DMA a => live_ma a | _ => 0 end.
Definition d_past (p : dpc) : nat := match p with D0 => 0 | _ => 1 end.
Definition d_past2 (p : dpc) : nat := match p with D0 | D1 => 0 | _ => 1 end.

(* ---------- the numeric invariant (Appendix C: I1..I6 and companions) ---------- *)

Record NInv (s : st) : Prop := {
  n_cnt : cnt s = sumf admitted1 (ss s);
  n_marker : marker s = true -> closed s = true /\ cnt s = 0;
  n_one : sumf s_sending (ss s) + sumf d_sending (ds s) + markers (hist s) + b2n (mlost s)
          = b2n (marker s);
  n_last : markers (hist s) = 1 -> exists msgs, hist s = msgs ++ [Marker] /\ markers msgs = 0;
  n_live : closed s = true -> marker s = false -> cnt s = 0 ->
           sumf s_live (ss s) + sumf d_live (ds s) >= 1;
  n_closed : sumf d_past (ds s) >= 1 -> closed s = true;
  n_status : sumf d_past2 (ds s) >= 1 -> 4 <= status s;
  n_lost : mlost s = true -> rx_open s = false;
  n_len : length (si s) = length (ss s)
}.

Lemma ninv_init : NInv init.
Proof. constructor; simpl; auto; try lia; try discriminate. Qed.

(* effect of a call: only appends fresh frames / sets request flags *)
Lemma do_call_shape s c k s' : do_call s c = (k, s') ->
  exists l1 l2 l3,
    ss s' = ss s ++ l1 /\ ds s' = ds s ++ l2 /\ si s' = si s ++ l3 /\ length l3 = length l1 /\
    Forall (eq T0) l1 /\ Forall (eq D0) l2 /\
    closed s' = closed s /\ marker s' = marker s /\ cnt s' = cnt s /\ status s' = status s /\
    q s' = q s /\ hist s' = hist s /\ rx_open s' = rx_open s /\ mlost s' = mlost s /\
    taken s' = taken s /\ cons s' = cons s /\ exits s' = exits s.
Proof.
  destruct c as [p w b g f bx hc| | |]; simpl; intros H; injection H as <- <-; simpl.
  - exists [T0], [], [mkInfo p w b g f bx hc].
    rewrite app_nil_r. repeat split; auto.
  - exists [], [D0], []. rewrite !app_nil_r. repeat split; auto.
  - exists [], [], []. rewrite !app_nil_r. repeat split; auto.
  - exists [], [], []. rewrite !app_nil_r. repeat split; auto.
Qed.

Lemma sumf_fresh_s (f : spc -> nat) l : f T0 = 0 -> Forall (eq T0) l -> sumf f l = 0.
Proof. intros H0 H. induction H as [|x t Hx _ IH]; simpl; auto. subst. lia. Qed.
Lemma sumf_fresh_d (f : dpc -> nat) l : f D0 = 0 -> Forall (eq D0) l -> sumf f l = 0.
Proof. intros H0 H. induction H as [|x t Hx _ IH]; simpl; auto. subst. lia. Qed.

Lemma ninv_do_call s c k s' : do_call s c = (k, s') -> NInv s -> NInv s'.
Proof.
  intros H I. destruct (do_call_shape _ _ _ _ H) as
    (l1 & l2 & l3 & Es & Ed & Ei & El & F1 & F2 & Ec & Em & En & Est & Eq & Eh & Er & Eml & _).
  destruct I. constructor; rewrite ?Es, ?Ed, ?Ei, ?Ec, ?Em, ?En, ?Est, ?Eh, ?Er, ?Eml, ?sumf_app,
    ?(sumf_fresh_s admitted1 l1), ?(sumf_fresh_s s_sending l1), ?(sumf_fresh_s s_live l1),
    ?(sumf_fresh_d d_sending l2), ?(sumf_fresh_d d_live l2), ?(sumf_fresh_d d_past l2),
    ?(sumf_fresh_d d_past2 l2), ?Nat.add_0_r, ?app_length; auto; lia.
Qed.

(* the possible effects of one step of send_drain_marker *)
Definition ma_frame (s s' : st) : Prop :=
  ss s' = ss s /\ ds s' = ds s /\ si s' = si s /\ cnt s' = cnt s /\ closed s' = closed s /\
  status s' = status s /\ rx_open s' = rx_open s /\ taken s' = taken s /\ cons s' = cons s /\
  exits s' = exits s /\ log s' = log s /\ stop_req s' = stop_req s /\ kill_req s' = kill_req s.

Lemma ma_step_eff fail s a a' s' : ma_step fail s a = (a', s') ->
  ma_frame s s' /\
  ( (marker s' = marker s /\ hist s' = hist s /\ q s' = q s /\ mlost s' = mlost s /\
     sending_ma a' = sending_ma a /\
     (closed s = true -> marker s = false -> cnt s = 0 -> live_ma a' >= live_ma a))
  \/ (a' = MAsend /\ sending_ma a = 0 /\ marker s = false /\ marker s' = true /\
      closed s = true /\ cnt s = 0 /\ hist s' = hist s /\ q s' = q s /\ mlost s' = mlost s)
  \/ (a = MAsend /\ a' = MAdone true /\ marker s' = marker s /\ rx_open s = true /\
      hist s' = hist s ++ [Marker] /\ q s' = q s ++ [Marker] /\ mlost s' = mlost s)
  \/ (a = MAsend /\ a' = MAdone false /\ marker s' = marker s /\ rx_open s = false /\
      hist s' = hist s /\ q s' = q s /\ mlost s' = true)).
Proof.
  unfold ma_frame.
  destruct a as [|w| |b]; simpl; intros H.
  - injection H as <- <-. split; [repeat split; auto|]. left. repeat split; auto.
    intros Hc Hm Hn. unfold good_word, cur; simpl. rewrite Hc, Hm, Hn. simpl. lia.
  - destruct (negb (wc w) || negb (wn w =? 0) || wm w) eqn:E1.
    + injection H as <- <-. split; [repeat split; auto|]. left. repeat split; auto. simpl.
      intros _ _ _. unfold good_word. destruct (wc w), (wm w), (wn w =? 0); simpl in *; try discriminate; lia.
    + destruct (negb fail && word_eqb w (cur s)) eqn:E2.
      * injection H as <- <-. simpl. split; [repeat split; auto|]. right; left.
        apply orb_false_iff in E1 as [E1 Em]. apply orb_false_iff in E1 as [Ec En].
        apply negb_false_iff in Ec, En. apply Nat.eqb_eq in En.
        apply andb_true_iff in E2 as [_ E2]. apply word_eqb_eq in E2. subst w.
        simpl in *. repeat split; auto.
      * injection H as <- <-. split; [repeat split; auto|]. left. repeat split; auto.
        intros Hc Hm Hn. unfold good_word at 1, cur; simpl. rewrite Hc, Hm, Hn. simpl.
        destruct (wc w && negb (wm w) && (wn w =? 0)); lia.
  - destruct (rx_open s) eqn:Er; injection H as <- <-; simpl; (split; [repeat split; auto|]).
    + right; right; left. repeat split; auto.
    + right; right; right. repeat split; auto.
  - injection H as <- <-. split; [repeat split; auto|]. left. repeat split; auto.
Qed.

Ltac sums Hn p' :=
  pose proof (sumf_upd admitted1 _ _ _ p' Hn);
  pose proof (sumf_upd s_sending _ _ _ p' Hn);
  pose proof (sumf_upd s_live _ _ _ p' Hn).
Ltac dsums Hn p' :=
  pose proof (sumf_upd d_sending _ _ _ p' Hn);
  pose proof (sumf_upd d_live _ _ _ p' Hn);
  pose proof (sumf_upd d_past _ _ _ p' Hn);
  pose proof (sumf_upd d_past2 _ _ _ p' Hn).

Lemma admitted_pos l i p : nth_error l i = Some p -> admitted1 p = 1 -> sumf admitted1 l >= 1.
Proof. intros H H1. pose proof (sumf_upd admitted1 l i p T0 H). simpl in *. lia. Qed.

Ltac fin := intros; repeat match goal with
  | H : ?A -> _, H' : ?A |- _ => specialize (H H') end; try lia;
  try match goal with H : _ -> ?G |- ?G => apply H; lia end.

Lemma ninv_add_log s e : NInv s -> NInv (add_log s e).
Proof. intros []; constructor; simpl; auto. Qed.

Lemma ninv_sstep fail s i : NInv s -> NInv (sstep fail s i).
Proof.
  intros I. unfold sstep.
  destruct (nth_error (ss s) i) as [p|] eqn:Hn; auto.
  destruct (nth_error (si s) i) as [inf|] eqn:Hi; auto.
  destruct p as [| | |w| |todo|k todo| |r|r a|r]; auto.
  - (* T0 *) destruct (wrong inf); [sums Hn (SDone RInvalid)|sums Hn S0]; destruct I; constructor; simpl in *;
      rewrite ?length_upd; auto; fin.
  - (* S0 *) destruct (4 <=? status s); [sums Hn (SDone (RErr i))|sums Hn S1]; destruct I; constructor; simpl in *;
      rewrite ?length_upd; auto; fin.
  - (* S1 *) sums Hn (SA (cur s)); destruct I; constructor; simpl in *; rewrite ?length_upd; auto; fin.
  - (* SA *) destruct (wc w) eqn:Ew.
    + sums Hn (SDone (RErr i)); destruct I; constructor; simpl in *; rewrite ?length_upd; auto; fin.
    + destruct (negb fail && word_eqb w (cur s)) eqn:E.
      * apply andb_true_iff in E as [_ E]. apply word_eqb_eq in E. subst w. simpl in Ew.
        sums Hn S2g; destruct I; constructor; simpl in *; rewrite ?length_upd; auto; fin;
          try (destruct n_marker0; congruence); congruence.
      * sums Hn (SA (cur s)); destruct I; constructor; simpl in *; rewrite ?length_upd; auto; fin.
  - (* S2g *) sums Hn (S2 (box inf)); destruct I; constructor; simpl in *; rewrite ?length_upd; auto; fin.
  - (* S2 *) destruct todo as [|c todo].
    + destruct (boxok inf); [sums Hn S3|sums Hn (S4 RInvalid)]; destruct I; constructor; simpl in *;
        rewrite ?length_upd; auto; fin.
    + destruct (do_call s c) as [k s'] eqn:Hc.
      pose proof (ninv_do_call _ _ _ _ Hc I) as I'.
      destruct (do_call_shape _ _ _ _ Hc) as (l1 & l2 & l3 & Es & _).
      assert (Hn' : nth_error (ss s') i = Some (S2 (c :: todo))) by (rewrite Es; apply nth_app_some; auto).
      sums Hn' (S2w k todo); destruct I'; constructor; simpl in *; rewrite ?length_upd; auto; fin.
  - (* S2w *) destruct (child_done s k); auto.
    sums Hn (S2 todo); destruct I; constructor; simpl in *; rewrite ?length_upd; auto; fin.
  - (* S3 *) pose proof (admitted_pos _ _ _ Hn eq_refl) as Hpos.
    assert (Hm : marker s = false).
    { destruct (marker s) eqn:E; auto. destruct I as [I1 I2]. destruct (I2 E). lia. }
    assert (HK : markers (hist s) = 0).
    { destruct I as [_ _ I3]. rewrite Hm in I3. simpl in I3. lia. }
    destruct (rx_open s); [sums Hn (S4 ROk)|sums Hn (S4 (RErr i))]; destruct I; constructor; simpl in *;
      rewrite ?length_upd, ?markers_app; simpl; auto; fin; congruence.
  - (* S4 *) pose proof (admitted_pos _ _ _ Hn eq_refl) as Hpos.
    assert (Hm : marker s = false).
    { destruct (marker s) eqn:E; auto. destruct I as [I1 I2]. destruct (I2 E). lia. }
    destruct (closed s && (cnt s =? 1)) eqn:E; [sums Hn (SMA r MAload)|sums Hn (SDone r)];
      destruct I; constructor; simpl in *; rewrite ?length_upd; auto; fin; try congruence.
    match goal with Hc : closed s = true |- _ => rewrite Hc in E end. simpl in E. apply Nat.eqb_neq in E. lia.
  - (* SMA *) destruct (ma_step fail s a) as [a' s'] eqn:Hma.
    destruct (ma_step_eff _ _ _ _ _ Hma) as ((Es & Ed & Ei & Ec & Ecl & Est & Erx & _) & Hcase).
    assert (Hn' : nth_error (ss s') i = Some (SMA r a)) by (rewrite Es; exact Hn).
    set (P' := match a' with MAdone _ => SDone r | _ => SMA r a' end).
    assert (A1 : admitted1 P' = 0) by (destruct a'; reflexivity).
    assert (A2 : s_sending P' = sending_ma a') by (destruct a'; reflexivity).
    assert (A3 : s_live P' = live_ma a') by (destruct a'; reflexivity).
    assert (G : NInv (set_spc s' i P')).
    { sums Hn' P'. rewrite A1, A2, A3 in *. clearbody P'. rewrite Es in *.
      destruct Hcase as [(Em & Eh & Eq & Eml & Esd & Elv) | [(Ea & Esd & Em0 & Em1 & Hcl & Hc0 & Eh & Eq & Eml)
           | [(Ea & Ea' & Em & Hrx & Eh & Eq & Eml) | (Ea & Ea' & Em & Hrx & Eh & Eq & Eml)]]];
        try subst a; try subst a'; simpl in *.
      - destruct I; constructor; simpl; rewrite ?length_upd, ?Es, ?Ed, ?Ei, ?Ec, ?Ecl, ?Est, ?Erx, ?Em, ?Eh, ?Eml; auto; fin.
      - destruct I; constructor; simpl; rewrite ?length_upd, ?Es, ?Ed, ?Ei, ?Ec, ?Ecl, ?Est, ?Erx, ?Em1, ?Eh, ?Eml; auto;
          rewrite ?Em0 in *; simpl in *; fin; try congruence.
      - destruct I; constructor; simpl; rewrite ?length_upd, ?Es, ?Ed, ?Ei, ?Ec, ?Ecl, ?Est, ?Erx, ?Em, ?Eh, ?Eml, ?markers_app; auto;
          destruct (marker s) eqn:Emk; simpl in *; fin; try congruence.
        exists (hist s). split; auto. lia.
      - destruct I; constructor; simpl; rewrite ?length_upd, ?Es, ?Ed, ?Ei, ?Ec, ?Ecl, ?Est, ?Erx, ?Em, ?Eh, ?Eml; auto;
          destruct (marker s) eqn:Emk; destruct (mlost s) eqn:Eml0; simpl in *; fin; try congruence. }
    unfold P' in G. destruct a'; try exact G. apply ninv_add_log. exact G.
Qed.

Lemma ninv_dstep fail s j : NInv s -> NInv (dstep fail s j).
Proof.
  intros I. unfold dstep.
  destruct (nth_error (ds s) j) as [p|] eqn:Hn; auto.
  destruct p as [| |a|b]; auto.
  - (* D0 *) dsums Hn D1. destruct I; constructor; simpl in *; auto; fin.
  - (* D1 *) dsums Hn (DMA MAload). destruct I; constructor; simpl in *; auto; fin.
    destruct (status s <? 5) eqn:E; [lia|]. apply Nat.ltb_ge in E. lia.
  - (* DMA *) destruct (ma_step fail s a) as [a' s'] eqn:Hma.
    destruct (ma_step_eff _ _ _ _ _ Hma) as ((Es & Ed & Ei & Ec & Ecl & Est & Erx & _) & Hcase).
    assert (Hn' : nth_error (ds s') j = Some (DMA a)) by (rewrite Ed; exact Hn).
    set (P' := match a' with MAdone ok => DDone ok | _ => DMA a' end).
    assert (A2 : d_sending P' = sending_ma a') by (destruct a'; reflexivity).
    assert (A3 : d_live P' = live_ma a') by (destruct a'; reflexivity).
    assert (A4 : d_past P' = 1) by (destruct a'; reflexivity).
    assert (A5 : d_past2 P' = 1) by (destruct a'; reflexivity).
    assert (G : NInv (set_dpc s' j P')).
    { dsums Hn' P'. rewrite A2, A3, A4, A5 in *. clearbody P'. rewrite Ed in *.
      destruct Hcase as [(Em & Eh & Eq & Eml & Esd & Elv) | [(Ea & Esd & Em0 & Em1 & Hcl & Hc0 & Eh & Eq & Eml)
           | [(Ea & Ea' & Em & Hrx & Eh & Eq & Eml) | (Ea & Ea' & Em & Hrx & Eh & Eq & Eml)]]];
        try subst a; try subst a'; simpl in *.
      - destruct I; constructor; simpl; rewrite ?Es, ?Ed, ?Ei, ?Ec, ?Ecl, ?Est, ?Erx, ?Em, ?Eh, ?Eml; auto; fin.
      - destruct I; constructor; simpl; rewrite ?Es, ?Ed, ?Ei, ?Ec, ?Ecl, ?Est, ?Erx, ?Em1, ?Eh, ?Eml; auto;
          rewrite ?Em0 in *; simpl in *; fin; try congruence.
      - destruct I; constructor; simpl; rewrite ?Es, ?Ed, ?Ei, ?Ec, ?Ecl, ?Est, ?Erx, ?Em, ?Eh, ?Eml, ?markers_app; auto;
          destruct (marker s) eqn:Emk; simpl in *; fin; try congruence.
        exists (hist s). split; auto. lia.
      - destruct I; constructor; simpl; rewrite ?Es, ?Ed, ?Ei, ?Ec, ?Ecl, ?Est, ?Erx, ?Em, ?Eh, ?Eml; auto;
          destruct (marker s) eqn:Emk; destruct (mlost s) eqn:Eml0; simpl in *; fin; try congruence. }
    unfold P' in G. destruct a'; try exact G. apply ninv_add_log. exact G.
Qed.

Theorem step_ninv s l : NInv s -> NInv (step s l).
Proof.
  intros I. destruct l as [c|i|i|j|j| | | | | | | ]; simpl.
  - destruct (do_call s c) as [k s'] eqn:H. simpl. eapply ninv_do_call; eauto.
  - apply ninv_sstep; auto.
  - apply ninv_sstep; auto.
  - apply ninv_dstep; auto.
  - apply ninv_dstep; auto.
  - (* LRecv *) unfold recv_step. destruct (cons s); auto.
    destruct (kill_req s); [destruct I; constructor; simpl; auto|].
    destruct (stop_req s); [destruct I; constructor; simpl; auto|].
    destruct (rx_open s) eqn:Er; auto. destruct (q s) as [|[i|] rest]; auto;
      destruct I; constructor; simpl; auto.
  - (* LH *) unfold handler_step. destruct (cons s) as [|i todo|i k todo|r|r]; auto.
    + destruct todo as [|c todo].
      * destruct (hfail_of s i); destruct I; constructor; simpl; auto.
      * destruct (do_call s c) as [k s'] eqn:H. pose proof (ninv_do_call _ _ _ _ H I) as [].
        constructor; simpl; auto.
    + destruct (child_done s k); auto. destruct I; constructor; simpl; auto.
  - destruct (in_handler (cons s) && kill_req s); auto. destruct I; constructor; simpl; auto.
  - destruct (alive (cons s)); auto. destruct I; constructor; simpl; auto.
  - destruct (cons s); auto. destruct I; constructor; simpl; auto. intros. specialize (n_status0 H). lia.
  - destruct (cons s); auto. destruct I; constructor; simpl; auto.
  - destruct (cons s); auto. destruct (rx_open s) eqn:Er; auto.
    destruct I; constructor; simpl; auto.
Qed.

Theorem reachable_ninv s : reachable s -> NInv s.
Proof.
  intros [ls ->]. unfold run. rewrite <- fold_left_rev_right.
  induction (rev ls) as [|l t IH]; simpl; [apply ninv_init|apply step_ninv; exact IH].
Qed.
