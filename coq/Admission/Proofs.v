(* Proofs about the admission model (Admission/Model.v): invariants of every
   interleaving of any number of send / drain activations with the consumer. *)
From Coq Require Import List Arith NArith Bool Lia.
From RV Require Import Admission.Model.
Import ListNotations.

(* ---------- list helpers ---------- *)

Fixpoint sumf {A} (f : A -> nat) (l : list A) : nat :=
  match l with [] => 0 | x :: t => f x + sumf f t end.

Lemma sumf_upd {A} (f : A -> nat) l i p p' :
  nth_error l i = Some p -> sumf f (upd l i p') + f p = sumf f l + f p'.
Proof.
  revert i; induction l as [|h t IH]; intros [|i] H; simpl in *; try discriminate.
  - injection H as ->. lia.
  - specialize (IH _ H). lia.
Qed.

Lemma sumf_app {A} (f : A -> nat) l1 l2 : sumf f (l1 ++ l2) = sumf f l1 + sumf f l2.
Proof. induction l1; simpl; lia. Qed.

Lemma upd_app {A} (l l2 : list A) i p x :
  nth_error l i = Some p -> upd (l ++ l2) i x = upd l i x ++ l2.
Proof.
  revert i; induction l as [|h t IH]; intros [|i] H; simpl in *; try discriminate; auto.
  f_equal; eauto.
Qed.

Lemma length_upd {A} (l : list A) i x : length (upd l i x) = length l.
Proof. revert i; induction l; intros [|i]; simpl; auto. Qed.

Lemma nth_upd_eq {A} (l : list A) i p x :
  nth_error l i = Some p -> nth_error (upd l i x) i = Some x.
Proof. revert i; induction l; intros [|i] H; simpl in *; try discriminate; eauto. Qed.

Lemma nth_upd_neq {A} (l : list A) i j x : i <> j -> nth_error (upd l i x) j = nth_error l j.
Proof.
  revert i j; induction l; intros [|i] [|j] H; simpl; auto; try congruence.
Qed.

Lemma nth_upd_none {A} (l : list A) i x : nth_error l i = None -> upd l i x = l.
Proof. revert i; induction l; intros [|i] H; simpl in *; try discriminate; auto. f_equal; auto. Qed.

Lemma nth_app_some {A} (l l2 : list A) i p :
  nth_error l i = Some p -> nth_error (l ++ l2) i = Some p.
Proof. intros H. rewrite nth_error_app1; auto. apply nth_error_Some. congruence. Qed.

Lemma markers_app a b : markers (a ++ b) = markers a + markers b.
Proof. induction a as [|[i|] t IH]; simpl; auto. Qed.

Lemma ids_app a b : ids (a ++ b) = ids a ++ ids b.
Proof. induction a as [|[i|] t IH]; simpl; auto. f_equal; auto. Qed.

Lemma word_eqb_eq a b : word_eqb a b = true -> a = b.
Proof.
  destruct a, b; unfold word_eqb; simpl; intros H.
  apply andb_true_iff in H as [H H3]. apply andb_true_iff in H as [H1 H2].
  apply Bool.eqb_prop in H1, H2. apply Nat.eqb_eq in H3. subst; auto.
Qed.

Definition b2n (b : bool) : nat := if b then 1 else 0.

(* ---------- measures over frames ---------- *)

Definition inflight1 (p : spc) : nat :=
  match p with S2g | S2 _ | S2w _ _ | S3 | S4 _ => 1 | _ => 0 end.
Definition sending_ma (a : ma) : nat := match a with MAsend => 1 | _ => 0 end.
Definition s_sending (p : spc) : nat := match p with SMA _ a => sending_ma a | _ => 0 end.
Definition d_sending (p : dpc) : nat := match p with DMA a => sending_ma a | _ => 0 end.
Definition good_word (w : word) : bool := wc w && negb (wm w) && (wn w =? 0).
Definition live_ma (a : ma) : nat :=
  match a with MAload => 1 | MAcas w => if good_word w then 1 else 0 | _ => 0 end.
Definition s_live (p : spc) : nat := match p with SMA _ a => live_ma a | _ => 0 end.
Definition d_live (p : dpc) : nat := match p with D1 => 1 | DMA a => live_ma a | _ => 0 end.
Definition d_past (p : dpc) : nat := match p with D0 => 0 | _ => 1 end.
Definition d_past2 (p : dpc) : nat := match p with D0 | D1 => 0 | _ => 1 end.

(* ---------- the numeric invariant (Appendix C: I1..I6 and companions) ---------- *)

Record NInv (s : st) : Prop := {
  n_cnt : cnt s = sumf inflight1 (ss s);
  n_marker : marker s = true -> closed s = true /\ cnt s = 0;
  n_one : sumf s_sending (ss s) + sumf d_sending (ds s) + markers (hist s) + b2n (mlost s)
          = b2n (marker s);
  n_last : markers (hist s) = 1 -> exists msgs, hist s = msgs ++ [Marker] /\ markers msgs = 0;
  n_live : closed s = true -> marker s = false -> cnt s = 0 ->
           sumf s_live (ss s) + sumf d_live (ds s) >= 1;
  n_closed : sumf d_past (ds s) >= 1 -> closed s = true;
  n_status : sumf d_past2 (ds s) >= 1 -> 4 <= status s;
  n_lost : mlost s = true -> rx_open s = false;
  n_len : length (si s) = length (ss s)
}.

Lemma ninv_init : NInv init.
Proof. constructor; simpl; auto; try lia; try discriminate. Qed.

(* effect of a call: only appends fresh frames / sets request flags *)
Lemma do_call_shape s c k s' : do_call s c = (k, s') ->
  exists l1 l2 l3,
    ss s' = ss s ++ l1 /\ ds s' = ds s ++ l2 /\ si s' = si s ++ l3 /\ length l3 = length l1 /\
    Forall (eq T0) l1 /\ Forall (eq D0) l2 /\
    closed s' = closed s /\ marker s' = marker s /\ cnt s' = cnt s /\ status s' = status s /\
    q s' = q s /\ hist s' = hist s /\ rx_open s' = rx_open s /\ mlost s' = mlost s /\
    taken s' = taken s /\ cons s' = cons s /\ exits s' = exits s.
Proof.
  destruct c as [p w b g f bx hc| | |]; simpl; intros H; injection H as <- <-; simpl.
  - exists [T0], [], [mkInfo p w b g f bx hc].
    rewrite app_nil_r. repeat split; auto.
  - exists [], [D0], []. rewrite !app_nil_r. repeat split; auto.
  - exists [], [], []. rewrite !app_nil_r. repeat split; auto.
  - exists [], [], []. rewrite !app_nil_r. repeat split; auto.
Qed.

Lemma sumf_fresh_s (f : spc -> nat) l : f T0 = 0 -> Forall (eq T0) l -> sumf f l = 0.
Proof. intros H0 H. induction H as [|x t Hx _ IH]; simpl; auto. subst. lia. Qed.
Lemma sumf_fresh_d (f : dpc -> nat) l : f D0 = 0 -> Forall (eq D0) l -> sumf f l = 0.
Proof. intros H0 H. induction H as [|x t Hx _ IH]; simpl; auto. subst. lia. Qed.

Lemma ninv_do_call s c k s' : do_call s c = (k, s') -> NInv s -> NInv s'.
Proof.
  intros H I. destruct (do_call_shape _ _ _ _ H) as
    (l1 & l2 & l3 & Es & Ed & Ei & El & F1 & F2 & Ec & Em & En & Est & Eq & Eh & Er & Eml & _).
  destruct I. constructor; rewrite ?Es, ?Ed, ?Ei, ?Ec, ?Em, ?En, ?Est, ?Eh, ?Er, ?Eml, ?sumf_app,
    ?(sumf_fresh_s inflight1 l1), ?(sumf_fresh_s s_sending l1), ?(sumf_fresh_s s_live l1),
    ?(sumf_fresh_d d_sending l2), ?(sumf_fresh_d d_live l2), ?(sumf_fresh_d d_past l2),
    ?(sumf_fresh_d d_past2 l2), ?Nat.add_0_r, ?app_length; auto; lia.
Qed.

(* the possible effects of one step of send_drain_marker *)
Definition ma_frame (s s' : st) : Prop :=
  ss s' = ss s /\ ds s' = ds s /\ si s' = si s /\ cnt s' = cnt s /\ closed s' = closed s /\
  status s' = status s /\ rx_open s' = rx_open s /\ taken s' = taken s /\ cons s' = cons s /\
  exits s' = exits s /\ log s' = log s /\ stop_req s' = stop_req s /\ kill_req s' = kill_req s.

Lemma ma_step_eff fail s a a' s' : ma_step fail s a = (a', s') ->
  ma_frame s s' /\
  ( (marker s' = marker s /\ hist s' = hist s /\ q s' = q s /\ mlost s' = mlost s /\
     sending_ma a' = sending_ma a /\
     (closed s = true -> marker s = false -> cnt s = 0 -> live_ma a' >= live_ma a))
  \/ (a' = MAsend /\ sending_ma a = 0 /\ marker s = false /\ marker s' = true /\
      closed s = true /\ cnt s = 0 /\ hist s' = hist s /\ q s' = q s /\ mlost s' = mlost s)
  \/ (a = MAsend /\ a' = MAdone true /\ marker s' = marker s /\ rx_open s = true /\
      hist s' = hist s ++ [Marker] /\ q s' = q s ++ [Marker] /\ mlost s' = mlost s)
  \/ (a = MAsend /\ a' = MAdone false /\ marker s' = marker s /\ rx_open s = false /\
      hist s' = hist s /\ q s' = q s /\ mlost s' = true)).
Proof.
  unfold ma_frame.
  destruct a as [|w| |b]; simpl; intros H.
  - injection H as <- <-. split; [repeat split; auto|]. left. repeat split; auto.
    intros Hc Hm Hn. unfold good_word, cur; simpl. rewrite Hc, Hm, Hn. simpl. lia.
  - destruct (negb (wc w) || negb (wn w =? 0) || wm w) eqn:E1.
    + injection H as <- <-. split; [repeat split; auto|]. left. repeat split; auto. simpl.
      intros _ _ _. unfold good_word. destruct (wc w), (wm w), (wn w =? 0); simpl in *; try discriminate; lia.
    + destruct (negb fail && word_eqb w (cur s)) eqn:E2.
      * injection H as <- <-. simpl. split; [repeat split; auto|]. right; left.
        apply orb_false_iff in E1 as [E1 Em]. apply orb_false_iff in E1 as [Ec En].
        apply negb_false_iff in Ec, En. apply Nat.eqb_eq in En.
        apply andb_true_iff in E2 as [_ E2]. apply word_eqb_eq in E2. subst w.
        simpl in *. repeat split; auto.
      * injection H as <- <-. split; [repeat split; auto|]. left. repeat split; auto.
        intros Hc Hm Hn. unfold good_word at 1, cur; simpl. rewrite Hc, Hm, Hn. simpl.
        destruct (wc w && negb (wm w) && (wn w =? 0)); lia.
  - destruct (rx_open s) eqn:Er; injection H as <- <-; simpl; (split; [repeat split; auto|]).
    + right; right; left. repeat split; auto.
    + right; right; right. repeat split; auto.
  - injection H as <- <-. split; [repeat split; auto|]. left. repeat split; auto.
Qed.

Ltac sums Hn p' :=
  pose proof (sumf_upd inflight1 _ _ _ p' Hn);
  pose proof (sumf_upd s_sending _ _ _ p' Hn);
  pose proof (sumf_upd s_live _ _ _ p' Hn).
Ltac dsums Hn p' :=
  pose proof (sumf_upd d_sending _ _ _ p' Hn);
  pose proof (sumf_upd d_live _ _ _ p' Hn);
  pose proof (sumf_upd d_past _ _ _ p' Hn);
  pose proof (sumf_upd d_past2 _ _ _ p' Hn).

Lemma inflight_pos l i p : nth_error l i = Some p -> inflight1 p = 1 -> sumf inflight1 l >= 1.
Proof. intros H H1. pose proof (sumf_upd inflight1 l i p T0 H). simpl in *. lia. Qed.

Ltac fin := intros; repeat match goal with
  | H : ?A -> _, H' : ?A |- _ => specialize (H H') end; try lia;
  try match goal with H : _ -> ?G |- ?G => apply H; lia end.

Lemma ninv_add_log s e : NInv s -> NInv (add_log s e).
Proof. intros []; constructor; simpl; auto. Qed.

Lemma ninv_sstep fail s i : NInv s -> NInv (sstep fail s i).
Proof.
  intros I. unfold sstep.
  destruct (nth_error (ss s) i) as [p|] eqn:Hn; auto.
  destruct (nth_error (si s) i) as [inf|] eqn:Hi; auto.
  destruct p as [| | |w| |todo|k todo| |r|r a|r]; auto.
  - (* T0 *) destruct (wrong inf); [sums Hn (SDone RInvalid)|sums Hn S0]; destruct I; constructor; simpl in *;
      rewrite ?length_upd; auto; fin.
  - (* S0 *) destruct (4 <=? status s); [sums Hn (SDone (RErr i))|sums Hn S1]; destruct I; constructor; simpl in *;
      rewrite ?length_upd; auto; fin.
  - (* S1 *) sums Hn (SA (cur s)); destruct I; constructor; simpl in *; rewrite ?length_upd; auto; fin.
  - (* SA *) destruct (wc w) eqn:Ew.
    + sums Hn (SDone (RErr i)); destruct I; constructor; simpl in *; rewrite ?length_upd; auto; fin.
    + destruct (negb fail && word_eqb w (cur s)) eqn:E.
      * apply andb_true_iff in E as [_ E]. apply word_eqb_eq in E. subst w. simpl in Ew.
        sums Hn S2g; destruct I; constructor; simpl in *; rewrite ?length_upd; auto; fin;
          try (destruct n_marker0; congruence); congruence.
      * sums Hn (SA (cur s)); destruct I; constructor; simpl in *; rewrite ?length_upd; auto; fin.
  - (* S2g *) sums Hn (S2 (box inf)); destruct I; constructor; simpl in *; rewrite ?length_upd; auto; fin.
  - (* S2 *) destruct todo as [|c todo].
    + destruct (boxok inf); [sums Hn S3|sums Hn (S4 RInvalid)]; destruct I; constructor; simpl in *;
        rewrite ?length_upd; auto; fin.
    + destruct (do_call s c) as [k s'] eqn:Hc.
      pose proof (ninv_do_call _ _ _ _ Hc I) as I'.
      destruct (do_call_shape _ _ _ _ Hc) as (l1 & l2 & l3 & Es & _).
      assert (Hn' : nth_error (ss s') i = Some (S2 (c :: todo))) by (rewrite Es; apply nth_app_some; auto).
      sums Hn' (S2w k todo); destruct I'; constructor; simpl in *; rewrite ?length_upd; auto; fin.
  - (* S2w *) destruct (child_done s k); auto.
    sums Hn (S2 todo); destruct I; constructor; simpl in *; rewrite ?length_upd; auto; fin.
  - (* S3 *) pose proof (inflight_pos _ _ _ Hn eq_refl) as Hpos.
    assert (Hm : marker s = false).
    { destruct (marker s) eqn:E; auto. destruct I as [I1 I2]. destruct (I2 E). lia. }
    assert (HK : markers (hist s) = 0).
    { destruct I as [_ _ I3]. rewrite Hm in I3. simpl in I3. lia. }
    destruct (rx_open s); [sums Hn (S4 ROk)|sums Hn (S4 (RErr i))]; destruct I; constructor; simpl in *;
      rewrite ?length_upd, ?markers_app; simpl; auto; fin; congruence.
  - (* S4 *) pose proof (inflight_pos _ _ _ Hn eq_refl) as Hpos.
    assert (Hm : marker s = false).
    { destruct (marker s) eqn:E; auto. destruct I as [I1 I2]. destruct (I2 E). lia. }
    destruct (closed s && (cnt s =? 1)) eqn:E; [sums Hn (SMA r MAload)|sums Hn (SDone r)];
      destruct I; constructor; simpl in *; rewrite ?length_upd; auto; fin; try congruence.
    match goal with Hc : closed s = true |- _ => rewrite Hc in E end. simpl in E. apply Nat.eqb_neq in E. lia.
  - (* SMA *) destruct (ma_step fail s a) as [a' s'] eqn:Hma.
    destruct (ma_step_eff _ _ _ _ _ Hma) as ((Es & Ed & Ei & Ec & Ecl & Est & Erx & _) & Hcase).
    assert (Hn' : nth_error (ss s') i = Some (SMA r a)) by (rewrite Es; exact Hn).
    set (P' := match a' with MAdone _ => SDone r | _ => SMA r a' end).
    assert (A1 : inflight1 P' = 0) by (destruct a'; reflexivity).
    assert (A2 : s_sending P' = sending_ma a') by (destruct a'; reflexivity).
    assert (A3 : s_live P' = live_ma a') by (destruct a'; reflexivity).
    assert (G : NInv (set_spc s' i P')).
    { sums Hn' P'. rewrite A1, A2, A3 in *. clearbody P'. rewrite Es in *.
      destruct Hcase as [(Em & Eh & Eq & Eml & Esd & Elv) | [(Ea & Esd & Em0 & Em1 & Hcl & Hc0 & Eh & Eq & Eml)
           | [(Ea & Ea' & Em & Hrx & Eh & Eq & Eml) | (Ea & Ea' & Em & Hrx & Eh & Eq & Eml)]]];
        try subst a; try subst a'; simpl in *.
      - destruct I; constructor; simpl; rewrite ?length_upd, ?Es, ?Ed, ?Ei, ?Ec, ?Ecl, ?Est, ?Erx, ?Em, ?Eh, ?Eml; auto; fin.
      - destruct I; constructor; simpl; rewrite ?length_upd, ?Es, ?Ed, ?Ei, ?Ec, ?Ecl, ?Est, ?Erx, ?Em1, ?Eh, ?Eml; auto;
          rewrite ?Em0 in *; simpl in *; fin; try congruence.
      - destruct I; constructor; simpl; rewrite ?length_upd, ?Es, ?Ed, ?Ei, ?Ec, ?Ecl, ?Est, ?Erx, ?Em, ?Eh, ?Eml, ?markers_app; auto;
          destruct (marker s) eqn:Emk; simpl in *; fin; try congruence.
        exists (hist s). split; auto. lia.
      - destruct I; constructor; simpl; rewrite ?length_upd, ?Es, ?Ed, ?Ei, ?Ec, ?Ecl, ?Est, ?Erx, ?Em, ?Eh, ?Eml; auto;
          destruct (marker s) eqn:Emk; destruct (mlost s) eqn:Eml0; simpl in *; fin; try congruence. }
    unfold P' in G. destruct a'; try exact G. apply ninv_add_log. exact G.
Qed.

Lemma ninv_dstep fail s j : NInv s -> NInv (dstep fail s j).
Proof.
  intros I. unfold dstep.
  destruct (nth_error (ds s) j) as [p|] eqn:Hn; auto.
  destruct p as [| |a|b]; auto.
  - (* D0 *) dsums Hn D1. destruct I; constructor; simpl in *; auto; fin.
  - (* D1 *) dsums Hn (DMA MAload). destruct I; constructor; simpl in *; auto; fin.
    destruct (status s <? 5) eqn:E; [lia|]. apply Nat.ltb_ge in E. lia.
  - (* DMA *) destruct (ma_step fail s a) as [a' s'] eqn:Hma.
    destruct (ma_step_eff _ _ _ _ _ Hma) as ((Es & Ed & Ei & Ec & Ecl & Est & Erx & _) & Hcase).
    assert (Hn' : nth_error (ds s') j = Some (DMA a)) by (rewrite Ed; exact Hn).
    set (P' := match a' with MAdone ok => DDone ok | _ => DMA a' end).
    assert (A2 : d_sending P' = sending_ma a') by (destruct a'; reflexivity).
    assert (A3 : d_live P' = live_ma a') by (destruct a'; reflexivity).
    assert (A4 : d_past P' = 1) by (destruct a'; reflexivity).
    assert (A5 : d_past2 P' = 1) by (destruct a'; reflexivity).
    assert (G : NInv (set_dpc s' j P')).
    { dsums Hn' P'. rewrite A2, A3, A4, A5 in *. clearbody P'. rewrite Ed in *.
      destruct Hcase as [(Em & Eh & Eq & Eml & Esd & Elv) | [(Ea & Esd & Em0 & Em1 & Hcl & Hc0 & Eh & Eq & Eml)
           | [(Ea & Ea' & Em & Hrx & Eh & Eq & Eml) | (Ea & Ea' & Em & Hrx & Eh & Eq & Eml)]]];
        try subst a; try subst a'; simpl in *.
      - destruct I; constructor; simpl; rewrite ?Es, ?Ed, ?Ei, ?Ec, ?Ecl, ?Est, ?Erx, ?Em, ?Eh, ?Eml; auto; fin.
      - destruct I; constructor; simpl; rewrite ?Es, ?Ed, ?Ei, ?Ec, ?Ecl, ?Est, ?Erx, ?Em1, ?Eh, ?Eml; auto;
          rewrite ?Em0 in *; simpl in *; fin; try congruence.
      - destruct I; constructor; simpl; rewrite ?Es, ?Ed, ?Ei, ?Ec, ?Ecl, ?Est, ?Erx, ?Em, ?Eh, ?Eml, ?markers_app; auto;
          destruct (marker s) eqn:Emk; simpl in *; fin; try congruence.
        exists (hist s). split; auto. lia.
      - destruct I; constructor; simpl; rewrite ?Es, ?Ed, ?Ei, ?Ec, ?Ecl, ?Est, ?Erx, ?Em, ?Eh, ?Eml; auto;
          destruct (marker s) eqn:Emk; destruct (mlost s) eqn:Eml0; simpl in *; fin; try congruence. }
    unfold P' in G. destruct a'; try exact G. apply ninv_add_log. exact G.
Qed.

Theorem step_ninv s l : NInv s -> NInv (step s l).
Proof.
  intros I. destruct l as [c|i|i|j|j| | | | | | | ]; simpl.
  - destruct (do_call s c) as [k s'] eqn:H. simpl. eapply ninv_do_call; eauto.
  - apply ninv_sstep; auto.
  - apply ninv_sstep; auto.
  - apply ninv_dstep; auto.
  - apply ninv_dstep; auto.
  - (* LRecv *) unfold recv_step. destruct (cons s); auto.
    destruct (kill_req s); [destruct I; constructor; simpl; auto|].
    destruct (stop_req s); [destruct I; constructor; simpl; auto|].
    destruct (rx_open s) eqn:Er; auto. destruct (q s) as [|[i|] rest]; auto;
      destruct I; constructor; simpl; auto.
  - (* LH *) unfold handler_step. destruct (cons s) as [|i todo|i k todo|r|r]; auto.
    + destruct todo as [|c todo].
      * destruct (hfail_of s i); destruct I; constructor; simpl; auto.
      * destruct (do_call s c) as [k s'] eqn:H. pose proof (ninv_do_call _ _ _ _ H I) as [].
        constructor; simpl; auto.
    + destruct (child_done s k); auto. destruct I; constructor; simpl; auto.
  - destruct (in_handler (cons s) && kill_req s); auto. destruct I; constructor; simpl; auto.
  - destruct (alive (cons s)); auto. destruct I; constructor; simpl; auto.
  - destruct (cons s); auto. destruct I; constructor; simpl; auto. intros. specialize (n_status0 H). lia.
  - destruct (cons s); auto. destruct I; constructor; simpl; auto.
  - destruct (cons s); auto. destruct (rx_open s) eqn:Er; auto.
    destruct I; constructor; simpl; auto. intros. specialize (n_status0 H). lia.
Qed.

Theorem reachable_ninv s : reachable s -> NInv s.
Proof.
  intros [ls ->]. unfold run. rewrite <- fold_left_rev_right.
  induction (rev ls) as [|l t IH]; simpl; [apply ninv_init|apply step_ninv; exact IH].
Qed.

(* ---------- which frames have enqueued; results hand back the offered message ---------- *)

Definition enq_pc (p : spc) : bool :=
  match p with S4 ROk | SMA ROk _ | SDone ROk => true | _ => false end.
Definition res_ok (i : nat) (p : spc) : Prop :=
  match p with S4 (RErr m) | SMA (RErr m) _ | SDone (RErr m) => m = i | _ => True end.
Definition enq_at (l : list spc) (j : nat) : bool :=
  match nth_error l j with Some p => enq_pc p | None => false end.
Definition res_ok_at (l : list spc) (j : nat) : Prop :=
  match nth_error l j with Some p => res_ok j p | None => True end.

Definition PT (l : list spc) (h : list item) : Prop :=
  forall j, (In (Msg j) h <-> enq_at l j = true) /\ res_ok_at l j.

Lemma PT_upd_same l h i p p' :
  PT l h -> nth_error l i = Some p -> enq_pc p' = enq_pc p -> res_ok i p' -> PT (upd l i p') h.
Proof.
  intros H Hn He Hr j. specialize (H j). unfold enq_at, res_ok_at in *.
  destruct (Nat.eq_dec i j) as [->|Hne].
  - rewrite (nth_upd_eq _ _ _ _ Hn). rewrite Hn in H. rewrite He. tauto.
  - rewrite (nth_upd_neq _ _ _ _ Hne). exact H.
Qed.

Lemma PT_marker l h : PT l h -> PT l (h ++ [Marker]).
Proof.
  intros H j. specialize (H j). split; [|tauto]. rewrite in_app_iff. simpl.
  split; [intros [A|[A|[]]]; [tauto|discriminate]|intros; left; tauto].
Qed.

Lemma PT_enq l h i : PT l h -> nth_error l i = Some S3 -> PT (upd l i (S4 ROk)) (h ++ [Msg i]).
Proof.
  intros H Hn j. specialize (H j). unfold enq_at, res_ok_at in *. rewrite in_app_iff. simpl.
  destruct (Nat.eq_dec i j) as [->|Hne].
  - rewrite (nth_upd_eq _ _ _ _ Hn). simpl. tauto.
  - rewrite (nth_upd_neq _ _ _ _ Hne). destruct H as [H1 H2]. split; auto.
    split; [intros [A|[A|[]]]; [tauto|congruence]|intros; left; tauto].
Qed.

Lemma PT_app l h l1 : PT l h -> Forall (eq T0) l1 -> PT (l ++ l1) h.
Proof.
  intros H F j. specialize (H j). unfold enq_at, res_ok_at in *.
  destruct (nth_error l j) as [p|] eqn:E.
  - rewrite (nth_app_some _ _ _ _ E). exact H.
  - assert (X : nth_error (l ++ l1) j = None \/ nth_error (l ++ l1) j = Some T0).
    { destruct (nth_error (l ++ l1) j) eqn:E2; auto. right.
      apply nth_error_None in E. rewrite nth_error_app2 in E2 by lia.
      apply nth_error_In in E2. rewrite Forall_forall in F. rewrite (F _ E2). auto. }
    destruct X as [-> | ->]; simpl; exact H.
Qed.

Lemma markers_0_notin h : markers h = 0 -> ~ In Marker h.
Proof.
  induction h as [|[i|] t IH]; simpl; intros H A; [auto | destruct A as [A|A]; [discriminate|exact (IH H A)] | discriminate].
Qed.

Record HInv (s : st) : Prop := {
  h_pt : PT (ss s) (hist s);
  h_nodup : NoDup (hist s)
}.

Lemma hinv_init : HInv init.
Proof.
  constructor; simpl; [|constructor].
  intros j. unfold enq_at, res_ok_at. destruct j; simpl; split; auto; split; intros; try discriminate; tauto.
Qed.

Lemma nodup_snoc {A} (l : list A) x : NoDup l -> ~ In x l -> NoDup (l ++ [x]).
Proof.
  intros H Hx. apply NoDup_rev in H. rewrite <- (rev_involutive (l ++ [x])).
  apply NoDup_rev. rewrite rev_app_distr. simpl. constructor; auto. rewrite <- in_rev. exact Hx.
Qed.

Lemma hinv_do_call s c k s' : do_call s c = (k, s') -> HInv s -> HInv s'.
Proof.
  intros H [I1 I2]. destruct (do_call_shape _ _ _ _ H) as
    (l1 & l2 & l3 & Es & Ed & Ei & El & F1 & F2 & Ec & Em & En & Est & Eq & Eh & _).
  constructor; rewrite ?Es, ?Eh; auto. apply PT_app; auto.
Qed.

Lemma hinv_add_log s e : HInv s -> HInv (add_log s e).
Proof. intros []; constructor; simpl; auto. Qed.

Ltac hsame Hn := match goal with HI : HInv _ |- _ => destruct HI as [I1 I2] end; constructor; simpl; auto;
  eapply PT_upd_same; eauto; simpl; auto.

Lemma hinv_sstep fail s i : NInv s -> HInv s -> HInv (sstep fail s i).
Proof.
  intros N HI. unfold sstep.
  destruct (nth_error (ss s) i) as [p|] eqn:Hn; auto.
  destruct (nth_error (si s) i) as [inf|] eqn:Hi; auto.
  assert (Hr : res_ok i p).
  { destruct HI as [I1 _]. specialize (I1 i). unfold res_ok_at in I1. rewrite Hn in I1. tauto. }
  destruct p as [| | |w| |todo|k todo| |r|r a|r]; auto.
  - destruct (wrong inf); hsame Hn.
  - destruct (4 <=? status s); hsame Hn.
  - hsame Hn.
  - destruct (wc w); [hsame Hn|]. destruct (negb fail && word_eqb w (cur s)); hsame Hn.
  - hsame Hn.
  - destruct todo as [|c todo].
    + destruct (boxok inf); hsame Hn.
    + destruct (do_call s c) as [k s'] eqn:Hc.
      pose proof (hinv_do_call _ _ _ _ Hc HI) as I'.
      destruct (do_call_shape _ _ _ _ Hc) as (l1 & l2 & l3 & Es & _).
      assert (Hn' : nth_error (ss s') i = Some (S2 (c :: todo))) by (rewrite Es; apply nth_app_some; auto).
      destruct I' as [I1 I2]; constructor; simpl; auto. eapply PT_upd_same; eauto.
  - destruct (child_done s k); auto. hsame Hn.
  - destruct (rx_open s); [|hsame Hn].
    destruct HI as [I1 I2]; constructor; simpl.
    + apply PT_enq; auto.
    + apply nodup_snoc; auto. intros A. apply (I1 i) in A. unfold enq_at in A. rewrite Hn in A. discriminate.
  - destruct (closed s && (cnt s =? 1)); hsame Hn; destruct r; simpl in *; auto.
  - destruct (ma_step fail s a) as [a' s'] eqn:Hma.
    destruct (ma_step_eff _ _ _ _ _ Hma) as ((Es & Ed & Ei & Ec & Ecl & Est & Erx & _) & Hcase).
    assert (Hn' : nth_error (ss s') i = Some (SMA r a)) by (rewrite Es; exact Hn).
    set (P' := match a' with MAdone _ => SDone r | _ => SMA r a' end).
    assert (A1 : enq_pc P' = enq_pc (SMA r a)) by (destruct a'; destruct r; reflexivity).
    assert (A2 : res_ok i P') by (destruct a'; destruct r; simpl in *; auto).
    assert (G : HInv (set_spc s' i P')).
    { assert (I' : HInv s').
      { destruct HI as [I1 I2].
        destruct Hcase as [(Em & Eh & _) | [(_ & _ & _ & _ & _ & _ & Eh & _)
           | [(Ea & Ea' & Em & Hrx & Eh & Eq & Eml) | (_ & _ & _ & _ & Eh & _)]]];
          constructor; rewrite ?Es, ?Eh; auto.
        - apply PT_marker; auto.
        - apply nodup_snoc; auto. apply markers_0_notin. subst a.
          pose proof (sumf_upd s_sending _ _ _ T0 Hn) as X. simpl in X.
          destruct N as [_ _ N3]. destruct (marker s); simpl in *; lia. }
      destruct I' as [I1 I2]. constructor; simpl; auto. eapply PT_upd_same; eauto. }
    unfold P' in G. destruct a'; try exact G. apply hinv_add_log. exact G.
Qed.

Lemma hinv_dstep fail s j : NInv s -> HInv s -> HInv (dstep fail s j).
Proof.
  intros N HI. unfold dstep.
  destruct (nth_error (ds s) j) as [p|] eqn:Hn; auto.
  destruct p as [| |a|b]; auto.
  - destruct HI; constructor; simpl; auto.
  - destruct HI; constructor; simpl; auto.
  - destruct (ma_step fail s a) as [a' s'] eqn:Hma.
    destruct (ma_step_eff _ _ _ _ _ Hma) as ((Es & Ed & Ei & Ec & Ecl & Est & Erx & _) & Hcase).
    assert (I' : HInv s').
    { destruct HI as [I1 I2].
      destruct Hcase as [(Em & Eh & _) | [(_ & _ & _ & _ & _ & _ & Eh & _)
         | [(Ea & Ea' & Em & Hrx & Eh & Eq & Eml) | (_ & _ & _ & _ & Eh & _)]]];
        constructor; rewrite ?Es, ?Eh; auto.
      - apply PT_marker; auto.
      - apply nodup_snoc; auto. apply markers_0_notin. subst a.
        pose proof (sumf_upd d_sending _ _ _ D0 Hn) as X. simpl in X.
        destruct N as [_ _ N3]. destruct (marker s); simpl in *; lia. }
    destruct I' as [I1 I2].
    destruct a'; constructor; simpl; auto.
Qed.

Theorem step_hinv s l : NInv s -> HInv s -> HInv (step s l).
Proof.
  intros N HI. destruct l as [c|i|i|j|j| | | | | | | ]; simpl.
  - destruct (do_call s c) as [k s'] eqn:H. simpl. eapply hinv_do_call; eauto.
  - apply hinv_sstep; auto.
  - apply hinv_sstep; auto.
  - apply hinv_dstep; auto.
  - apply hinv_dstep; auto.
  - unfold recv_step. destruct (cons s); auto.
    destruct (kill_req s); [destruct HI; constructor; simpl; auto|].
    destruct (stop_req s); [destruct HI; constructor; simpl; auto|].
    destruct (rx_open s) eqn:Er; auto. destruct (q s) as [|[i|] rest]; auto;
      destruct HI; constructor; simpl; auto.
  - unfold handler_step. destruct (cons s) as [|i todo|i k todo|r|r]; auto.
    + destruct todo as [|c todo].
      * destruct (hfail_of s i); destruct HI; constructor; simpl; auto.
      * destruct (do_call s c) as [k s'] eqn:H. pose proof (hinv_do_call _ _ _ _ H HI) as [].
        constructor; simpl; auto.
    + destruct (child_done s k); auto. destruct HI; constructor; simpl; auto.
  - destruct (in_handler (cons s) && kill_req s); auto. destruct HI; constructor; simpl; auto.
  - destruct (alive (cons s)); auto. destruct HI; constructor; simpl; auto.
  - destruct (cons s); auto. destruct HI; constructor; simpl; auto.
  - destruct (cons s); auto. destruct HI; constructor; simpl; auto.
  - destruct (cons s); auto. destruct (rx_open s) eqn:Er; auto.
    destruct HI; constructor; simpl; auto.
Qed.

(* ---------- channel / consumer invariant ---------- *)

Definition drained_r (r : reason) : bool := match r with RDrained => true | _ => false end.

Record QInv (s : st) : Prop := {
  q_split : exists fl, hist s = taken s ++ fl /\ (rx_open s = true -> fl = q s);
  q_alive : alive (cons s) = true -> rx_open s = true /\ exits s = [] /\ markers (taken s) = 0;
  q_exit : forall r, cons s = CExit r ->
           exits s = [] /\ (if drained_r r then markers (taken s) = 1 else markers (taken s) = 0);
  q_dead : forall r, cons s = CDead r ->
           exits s = [r] /\ rx_open s = false /\
           (if drained_r r then markers (taken s) = 1 else markers (taken s) = 0)
}.

Lemma qinv_init : QInv init.
Proof.
  constructor; simpl; auto; try discriminate. exists []. auto.
Qed.

Lemma qinv_do_call s c k s' : do_call s c = (k, s') -> QInv s -> QInv s'.
Proof.
  intros H [I1 I2 I3 I4]. destruct (do_call_shape _ _ _ _ H) as
    (l1 & l2 & l3 & Es & Ed & Ei & El & F1 & F2 & Ec & Em & En & Est & Eq & Eh & Er & Eml & Et & Eco & Eex).
  constructor; rewrite ?Eh, ?Et, ?Er, ?Eq, ?Eco, ?Eex; auto.
Qed.

(* a step that leaves the consumer alone and either leaves the channel alone or enqueues
   (which requires an open receiver) *)
Lemma qinv_chan s s' :
  QInv s -> taken s' = taken s -> cons s' = cons s -> exits s' = exits s -> rx_open s' = rx_open s ->
  ((hist s' = hist s /\ q s' = q s) \/
   (exists x, rx_open s = true /\ hist s' = hist s ++ [x] /\ q s' = q s ++ [x])) ->
  QInv s'.
Proof.
  intros [I1 I2 I3 I4] Et Ec Ee Er H.
  constructor; rewrite ?Et, ?Ec, ?Ee, ?Er; auto.
  destruct I1 as (fl & E1 & E2). destruct H as [[Eh Eq]|(x & Hrx & Eh & Eq)]; rewrite Eh, Eq.
  - exists fl; auto.
  - exists (fl ++ [x]). split; [rewrite E1, app_assoc; auto|]. intros _. rewrite E2; auto.
Qed.

Lemma qinv_sstep fail s i : QInv s -> QInv (sstep fail s i).
Proof.
  intros HI. unfold sstep.
  destruct (nth_error (ss s) i) as [p|] eqn:Hn; auto.
  destruct (nth_error (si s) i) as [inf|] eqn:Hi; auto.
  destruct p as [| | |w| |todo|k todo| |r|r a|r]; auto;
    try (repeat match goal with |- context [if ?b then _ else _] => destruct b eqn:? end;
         eapply qinv_chan; eauto; simpl; auto; fail).
  - destruct todo as [|c todo].
    + destruct (boxok inf); eapply qinv_chan; eauto; simpl; auto.
    + destruct (do_call s c) as [k s'] eqn:Hc.
      pose proof (qinv_do_call _ _ _ _ Hc HI) as I'. eapply qinv_chan; eauto; simpl; auto.
  - destruct (rx_open s) eqn:Er; eapply qinv_chan; eauto; simpl; auto.
    right. exists (Msg i). auto.
  - destruct (ma_step fail s a) as [a' s'] eqn:Hma.
    destruct (ma_step_eff _ _ _ _ _ Hma) as ((Es & Ed & Ei & Ec & Ecl & Est & Erx & Et & Eco & Eex & _) & Hcase).
    assert (I' : QInv s').
    { eapply qinv_chan; eauto.
      destruct Hcase as [(Em & Eh & Eq & _) | [(_ & _ & _ & _ & _ & _ & Eh & Eq & _)
         | [(Ea & Ea' & Em & Hrx & Eh & Eq & Eml) | (_ & _ & _ & _ & Eh & Eq & _)]]]; auto.
      right. exists Marker. auto. }
    destruct a'; eapply qinv_chan; eauto; simpl; auto.
Qed.

Lemma qinv_dstep fail s j : QInv s -> QInv (dstep fail s j).
Proof.
  intros HI. unfold dstep.
  destruct (nth_error (ds s) j) as [p|] eqn:Hn; auto.
  destruct p as [| |a|b]; auto; try (eapply qinv_chan; eauto; simpl; auto; fail).
  destruct (ma_step fail s a) as [a' s'] eqn:Hma.
  destruct (ma_step_eff _ _ _ _ _ Hma) as ((Es & Ed & Ei & Ec & Ecl & Est & Erx & Et & Eco & Eex & _) & Hcase).
  assert (I' : QInv s').
  { eapply qinv_chan; eauto.
    destruct Hcase as [(Em & Eh & Eq & _) | [(_ & _ & _ & _ & _ & _ & Eh & Eq & _)
       | [(Ea & Ea' & Em & Hrx & Eh & Eq & Eml) | (_ & _ & _ & _ & Eh & Eq & _)]]]; auto.
    right. exists Marker. auto. }
  destruct a'; eapply qinv_chan; eauto; simpl; auto.
Qed.

Theorem step_qinv s l : QInv s -> QInv (step s l).
Proof.
  intros HI. destruct l as [c|i|i|j|j| | | | | | | ]; simpl.
  - destruct (do_call s c) as [k s'] eqn:H. simpl. eapply qinv_do_call; eauto.
  - apply qinv_sstep; auto.
  - apply qinv_sstep; auto.
  - apply qinv_dstep; auto.
  - apply qinv_dstep; auto.
  - (* LRecv *) unfold recv_step. destruct (cons s) eqn:Ec; auto.
    destruct HI as [I1 I2 I3 I4]. rewrite Ec in I2. destruct (I2 eq_refl) as (Hrx & Hex & Hmk).
    destruct (kill_req s); [constructor; simpl; auto; try discriminate; intros r [= <-]; auto|].
    destruct (stop_req s); [constructor; simpl; auto; try discriminate; intros r [= <-]; auto|].
    rewrite Hrx. destruct I1 as (fl & E1 & E2). specialize (E2 Hrx). subst fl.
    destruct (q s) as [|[i|] rest] eqn:Eq.
    + constructor; rewrite ?Ec; auto; try discriminate. exists []. auto.
    + constructor; simpl; rewrite ?markers_app; simpl; auto; try discriminate.
      * exists rest. rewrite E1, <- app_assoc. auto.
      * intros _. repeat split; auto. lia.
    + constructor; simpl; rewrite ?markers_app; simpl; auto; try discriminate.
      * exists rest. rewrite E1, <- app_assoc. auto.
      * intros r [= <-]. simpl. split; auto. lia.
  - (* LH *) unfold handler_step. destruct (cons s) as [|i todo|i k todo|r|r] eqn:Ec; auto.
    + destruct todo as [|c todo].
      * destruct HI as [I1 I2 I3 I4]. rewrite Ec in I2. destruct (I2 eq_refl) as (Hrx & Hex & Hmk).
        destruct (hfail_of s i); constructor; simpl; auto; try discriminate. intros r [= <-]; auto.
      * destruct (do_call s c) as [k s'] eqn:H. pose proof (qinv_do_call _ _ _ _ H HI) as [I1 I2 I3 I4].
        destruct (do_call_shape _ _ _ _ H) as (_ & _ & _ & _ & _ & _ & _ & _ & _ & _ & _ & _ & _ & _ & _ & _ & _ & _ & Eco & _).
        rewrite Eco, Ec in I2.
        constructor; simpl; auto; try discriminate.
    + destruct (child_done s k); auto.
      destruct HI as [I1 I2 I3 I4]. rewrite Ec in I2. constructor; simpl; auto; try discriminate.
  - (* LKillNow *) destruct (in_handler (cons s) && kill_req s) eqn:E; auto.
    apply andb_true_iff in E as [E _].
    destruct HI as [I1 I2 I3 I4].
    assert (A : alive (cons s) = true) by (destruct (cons s); simpl in *; auto; discriminate).
    destruct (I2 A) as (Hrx & Hex & Hmk).
    constructor; simpl; auto; try discriminate. intros r [= <-]; auto.
  - (* LCrash *) destruct (alive (cons s)) eqn:A; auto.
    destruct HI as [I1 I2 I3 I4]. destruct (I2 A) as (Hrx & Hex & Hmk).
    constructor; simpl; auto; try discriminate. intros r [= <-]; auto.
  - destruct (cons s) eqn:Ec; auto. destruct HI as [I1 I2 I3 I4]. constructor; simpl; auto.
  - destruct (cons s) eqn:Ec; auto. destruct HI as [I1 I2 I3 I4]. constructor; simpl.
    + destruct I1 as (fl & E1 & _). exists fl. split; auto. discriminate.
    + rewrite Ec. discriminate.
    + rewrite Ec. intros r0 [= <-]. apply I3; auto.
    + rewrite Ec. discriminate.
  - destruct (cons s) eqn:Ec; auto. destruct (rx_open s) eqn:Er; auto.
    destruct HI as [I1 I2 I3 I4]. destruct (I3 _ Ec) as [Hex Hmk].
    constructor; simpl; auto; try discriminate. intros r' [= <-]. rewrite Hex. auto.
Qed.

(* ---------- all invariants of reachable states ---------- *)

Record Inv (s : st) : Prop := { inv_n : NInv s; inv_h : HInv s; inv_q : QInv s }.

Theorem step_inv s l : Inv s -> Inv (step s l).
Proof. intros [N H Q]. constructor; [apply step_ninv|apply step_hinv|apply step_qinv]; auto. Qed.

Theorem run_inv s ls : Inv s -> Inv (run s ls).
Proof. revert s; induction ls as [|l t IH]; simpl; intros s I; auto. apply IH, step_inv, I. Qed.

Theorem reachable_inv s : reachable s -> Inv s.
Proof.
  intros [ls ->]. apply run_inv. constructor; [apply ninv_init|apply hinv_init|apply qinv_init].
Qed.

(* ---------- list facts about ids / markers ---------- *)

Lemma in_ids h i : In i (ids h) <-> In (Msg i) h.
Proof.
  induction h as [|[k|] t IH]; simpl; [tauto| |].
  - rewrite IH. split; intros [A|A]; auto; left; congruence.
  - rewrite IH. split; [auto|intros [A|A]; [discriminate|auto]].
Qed.

Lemma nodup_ids h : NoDup h -> NoDup (ids h).
Proof.
  induction h as [|[k|] t IH]; simpl; intros H; inversion H; subst; auto; [constructor|constructor; auto].
  rewrite in_ids. auto.
Qed.

Lemma firstn_app_exact {A} (a b : list A) : firstn (length a) (a ++ b) = a.
Proof. rewrite firstn_app, Nat.sub_diag, firstn_all. simpl. apply app_nil_r. Qed.

Lemma in_markers h : In Marker h -> markers h >= 1.
Proof. induction h as [|[k|] t IH]; simpl; intros H; [tauto| |lia]. destruct H as [H|H]; [discriminate|auto]. Qed.

(* if a history with exactly one marker, placed last, is split and the marker is in the
   first part, the second part is empty *)
Lemma marker_last_split (a b msgs : list item) :
  a ++ b = msgs ++ [Marker] -> markers msgs = 0 -> markers a >= 1 -> b = [].
Proof.
  intros E Hm Ha. destruct b as [|x b] using rev_ind; auto. clear IHb.
  rewrite app_assoc in E. apply app_inj_tail in E as [E ->].
  assert (X : markers (a ++ b) = 0) by (rewrite E; auto).
  rewrite markers_app in X. lia.
Qed.

Lemma markers_pos_in h : markers h >= 1 -> In Marker h.
Proof. induction h as [|[k|] t IH]; simpl; intros H; [lia|right; auto|left; auto]. Qed.

Lemma nodup_app_l {A} (a b : list A) : NoDup (a ++ b) -> NoDup a.
Proof.
  induction a as [|x a IH]; simpl; intros H; [constructor|]. inversion H; subst.
  constructor; auto. intros X. apply H2. apply in_or_app. auto.
Qed.

Definition before {A} (x y : A) (l : list A) : Prop := exists a b c, l = a ++ x :: b ++ y :: c.

(* ---------- single-state consequences ---------- *)

Lemma result_pc s i r : result s i = Some r -> nth_error (ss s) i = Some (SDone r).
Proof.
  unfold result. destruct (nth_error (ss s) i) as [[]|]; try discriminate. intros [= ->]. auto.
Qed.

Lemma ok_accepted s i : Inv s -> result s i = Some ROk -> In i (accepted s).
Proof.
  intros [_ [PTs _] _] H. apply result_pc in H. unfold accepted. rewrite in_ids.
  apply (PTs i). unfold enq_at. rewrite H. auto.
Qed.

Lemma rejected_not_accepted s i r :
  Inv s -> result s i = Some r -> r <> ROk ->
  ~ In i (accepted s) /\ ~ In i (handled s) /\ (forall m, r = RErr m -> m = i).
Proof.
  intros [_ [PTs _] [(fl & E1 & _) _ _ _]] H Hr. apply result_pc in H.
  assert (A : ~ In i (accepted s)).
  { unfold accepted. rewrite in_ids. intros X. apply (PTs i) in X. unfold enq_at in X. rewrite H in X.
    destruct r; simpl in X; congruence. }
  split; auto. split.
  - intros X. apply A. unfold accepted, handled in *. rewrite E1, ids_app. apply in_or_app. auto.
  - intros m ->. destruct (PTs i) as [_ X]. unfold res_ok_at in X. rewrite H in X. exact X.
Qed.

Lemma refines_fifo s : Inv s ->
  handled s = firstn (length (handled s)) (accepted s) /\ NoDup (accepted s) /\ NoDup (handled s).
Proof.
  intros [_ [_ ND] [(fl & E1 & _) _ _ _]]. unfold handled, accepted.
  assert (E : ids (hist s) = ids (taken s) ++ ids fl) by (rewrite E1; apply ids_app).
  split; [rewrite E; symmetry; apply firstn_app_exact|].
  pose proof (nodup_ids _ ND) as X. split; auto.
  rewrite E in X. apply nodup_app_l in X. exact X.
Qed.

Lemma exactly_once_if_alive s : Inv s -> alive (cons s) = true -> q s = [] -> handled s = accepted s.
Proof.
  intros [_ _ [(fl & E1 & E2) QA _ _]] A Eq. destruct (QA A) as (Hrx & _).
  specialize (E2 Hrx). unfold handled, accepted. rewrite E1, E2, Eq, app_nil_r. auto.
Qed.

Lemma marker_unique s : Inv s -> markers (hist s) <= 1.
Proof. intros [[_ _ N3 _ _ _ _ _ _] _ _]. destruct (marker s); simpl in N3; lia. Qed.

Lemma marker_after_accepted s : Inv s -> In Marker (hist s) ->
  exists msgs, hist s = msgs ++ [Marker] /\ ~ In Marker msgs /\
    (forall i, result s i = Some ROk -> In (Msg i) msgs) /\
    sumf inflight1 (ss s) = 0 /\ closed s = true.
Proof.
  intros I H. pose proof (marker_unique _ I) as U. pose proof (in_markers _ H) as L.
  destruct I as [N HI Q]. destruct (n_last _ N ltac:(lia)) as (msgs & E & Hm).
  exists msgs. split; auto. split; [apply markers_0_notin; auto|]. split.
  - intros i Hr. pose proof (ok_accepted s i (Build_Inv _ N HI Q) Hr) as X.
    unfold accepted in X. rewrite in_ids, E in X. apply in_app_or in X as [X|[X|[]]]; auto. discriminate.
  - assert (Mk : marker s = true).
    { destruct (marker s) eqn:Em; auto. pose proof (n_one _ N) as X. rewrite Em in X. simpl in X. lia. }
    destruct (n_marker _ N Mk) as [Hc Hn]. rewrite <- (n_cnt _ N). auto.
Qed.

Lemma forallb_sumf0 {A} (d : A -> bool) (f : A -> nat) l :
  (forall x, d x = true -> f x = 0) -> forallb d l = true -> sumf f l = 0.
Proof.
  intros H. induction l as [|x t IH]; simpl; auto. intros E. apply andb_true_iff in E as [E1 E2].
  rewrite (H _ E1), IH; auto.
Qed.

Lemma marker_eventually_closed s : Inv s -> all_done s = true -> closed s = true ->
  marker s = true /\ (In Marker (hist s) \/ (mlost s = true /\ rx_open s = false)).
Proof.
  intros [N _ _] AD Hc. unfold all_done in AD. apply andb_true_iff in AD as [As Ad].
  assert (Z1 : sumf inflight1 (ss s) = 0) by (apply (forallb_sumf0 s_done); auto; intros []; simpl; auto; discriminate).
  assert (Z2 : sumf s_sending (ss s) = 0) by (apply (forallb_sumf0 s_done); auto; intros []; simpl; auto; discriminate).
  assert (Z3 : sumf s_live (ss s) = 0) by (apply (forallb_sumf0 s_done); auto; intros []; simpl; auto; discriminate).
  assert (Z4 : sumf d_sending (ds s) = 0) by (apply (forallb_sumf0 d_done); auto; intros []; simpl; auto; discriminate).
  assert (Z5 : sumf d_live (ds s) = 0) by (apply (forallb_sumf0 d_done); auto; intros []; simpl; auto; discriminate).
  assert (Mk : marker s = true).
  { destruct (marker s) eqn:Em; auto. pose proof (n_live _ N Hc Em) as X.
    rewrite (n_cnt _ N), Z1, Z3, Z5 in X. specialize (X eq_refl). lia. }
  split; auto. pose proof (n_one _ N) as X. rewrite Mk, Z2, Z4 in X. simpl in X.
  destruct (mlost s) eqn:El; simpl in X.
  - right. split; auto. apply (n_lost _ N); auto.
  - left. apply markers_pos_in. lia.
Qed.

Lemma marker_eventually s : Inv s -> all_done s = true -> ds s <> [] ->
  marker s = true /\ (In Marker (hist s) \/ (mlost s = true /\ rx_open s = false)).
Proof.
  intros I AD Hd. apply marker_eventually_closed; auto.
  destruct I as [N _ _]. apply (n_closed _ N).
  unfold all_done in AD. apply andb_true_iff in AD as [_ Ad].
  destruct (ds s) as [|p t]; [congruence|]. simpl in *. apply andb_true_iff in Ad as [Ap _].
  destruct p; simpl in *; try discriminate; lia.
Qed.

Lemma not_idle_closed s : Inv s -> all_done s = true -> closed s = true -> alive (cons s) = true ->
  In Marker (q s).
Proof.
  intros I AD Hc A. destruct (marker_eventually_closed s I AD Hc) as [_ [H|[_ H]]].
  - destruct I as [_ _ [(fl & E1 & E2) QA _ _]]. destruct (QA A) as (Hrx & _ & Hmk).
    rewrite <- (E2 Hrx). rewrite E1 in H. apply in_app_or in H as [H|H]; auto.
    apply in_markers in H. lia.
  - destruct I as [_ _ [_ QA _ _]]. destruct (QA A) as (Hrx & _). congruence.
Qed.

(* a drain cannot leave the actor idle forever: in a state where every call has returned and
   some drain ran, a still-polling actor has the marker ahead of it in its queue *)
Lemma drained_not_idle s : Inv s -> all_done s = true -> ds s <> [] -> alive (cons s) = true ->
  In Marker (q s).
Proof.
  intros I AD Hd A. destruct (marker_eventually s I AD Hd) as [_ [H|[_ H]]].
  - destruct I as [_ _ [(fl & E1 & E2) QA _ _]]. destruct (QA A) as (Hrx & _ & Hmk).
    rewrite <- (E2 Hrx). rewrite E1 in H. apply in_app_or in H as [H|H]; auto.
    apply in_markers in H. lia.
  - destruct I as [_ _ [_ QA _ _]]. destruct (QA A) as (Hrx & _). congruence.
Qed.

Lemma drained_once s : Inv s ->
  length (exits s) <= 1 /\
  (forall r, cons s = CExit r \/ cons s = CDead r -> r = RDrained ->
     In Marker (taken s) /\ handled s = accepted s /\ sumf inflight1 (ss s) = 0) /\
  (forall r, exits s = [r] <-> cons s = CDead r).
Proof.
  intros I. pose proof I as [N HI [QS QA QE QD]]. split; [|split].
  - destruct (cons s) eqn:Ec.
    + destruct (QA eq_refl) as (_ & -> & _). simpl; lia.
    + destruct (QA eq_refl) as (_ & -> & _). simpl; lia.
    + destruct (QA eq_refl) as (_ & -> & _). simpl; lia.
    + destruct (QE _ eq_refl) as (-> & _). simpl; lia.
    + destruct (QD _ eq_refl) as (-> & _). simpl; lia.
  - intros r Hc ->.
    assert (Hmk : markers (taken s) = 1).
    { destruct Hc as [Hc|Hc]; [apply QE in Hc|apply QD in Hc]; simpl in Hc; tauto. }
    destruct QS as (fl & E1 & E2).
    assert (HM : In Marker (hist s)).
    { rewrite E1. apply in_or_app. left. apply markers_pos_in. lia. }
    destruct (marker_after_accepted s I HM) as (msgs & E & Hn & _ & Had & _).
    assert (Hfl : fl = []).
    { apply (marker_last_split (taken s) fl msgs); [congruence| |lia].
      destruct (markers msgs) eqn:X; auto. exfalso. apply Hn, markers_pos_in. lia. }
    subst fl. rewrite app_nil_r in E1. split.
    + apply markers_pos_in. lia.
    + split; [unfold handled, accepted; congruence|auto].
  - intros r. split.
    + intros E. destruct (cons s) eqn:Ec.
      * destruct (QA eq_refl) as (_ & X & _). congruence.
      * destruct (QA eq_refl) as (_ & X & _). congruence.
      * destruct (QA eq_refl) as (_ & X & _). congruence.
      * destruct (QE _ eq_refl) as (X & _). congruence.
      * destruct (QD _ eq_refl) as (X & _). congruence.
    + intros Hc. apply QD in Hc. tauto.
Qed.

(* ---------- how one step changes what later states are compared on ---------- *)

Lemma nth_app_fresh (l l1 : list spc) i : Forall (eq T0) l1 -> nth_error l i = None ->
  nth_error (l ++ l1) i = None \/ nth_error (l ++ l1) i = Some T0.
Proof.
  intros F E. destruct (nth_error (l ++ l1) i) eqn:E2; auto. right.
  apply nth_error_None in E. rewrite nth_error_app2 in E2 by lia.
  apply nth_error_In in E2. rewrite Forall_forall in F. rewrite (F _ E2). auto.
Qed.

Definition pc_keep (l l' : list spc) (i : nat) : Prop :=
  nth_error l' i = nth_error l i \/ (nth_error l i = None /\ nth_error l' i = Some T0).

Lemma do_call_keep s c k s' i : do_call s c = (k, s') -> pc_keep (ss s) (ss s') i.
Proof.
  intros H. destruct (do_call_shape _ _ _ _ H) as (l1 & l2 & l3 & Es & _ & _ & _ & F & _).
  unfold pc_keep. rewrite Es. destruct (nth_error (ss s) i) eqn:E.
  - left. apply nth_app_some; auto.
  - destruct (nth_app_fresh _ _ _ F E) as [X|X]; rewrite X; auto.
Qed.

Lemma pc_keep_upd l l' i j p : pc_keep l l' i -> j <> i -> pc_keep l (upd l' j p) i.
Proof. unfold pc_keep. intros H Hne. rewrite (nth_upd_neq _ _ _ _ Hne). exact H. Qed.

Lemma pc_keep_refl l i : pc_keep l l i.
Proof. left; auto. Qed.

Lemma sstep_other fail s j i : j <> i -> pc_keep (ss s) (ss (sstep fail s j)) i.
Proof.
  intros Hne. unfold sstep.
  destruct (nth_error (ss s) j) as [p|] eqn:Hn; [|apply pc_keep_refl].
  destruct (nth_error (si s) j) as [inf|] eqn:Hi; [|apply pc_keep_refl].
  destruct p as [| | |w| |todo|k todo| |r|r a|r]; try apply pc_keep_refl;
    try (repeat match goal with |- context [if ?b then _ else _] => destruct b eqn:? end;
         simpl; try apply pc_keep_upd; auto; apply pc_keep_refl).
  - destruct todo as [|c todo].
    + destruct (boxok inf); simpl; apply pc_keep_upd; auto; apply pc_keep_refl.
    + destruct (do_call s c) as [k s'] eqn:Hc. simpl. apply pc_keep_upd; auto. eapply do_call_keep; eauto.
  - destruct (ma_step fail s a) as [a' s'] eqn:Hma.
    destruct (ma_step_eff _ _ _ _ _ Hma) as ((Es & _) & _).
    destruct a'; simpl; rewrite Es; apply pc_keep_upd; auto; apply pc_keep_refl.
Qed.

Lemma dstep_ss fail s j : ss (dstep fail s j) = ss s.
Proof.
  unfold dstep. destruct (nth_error (ds s) j) as [[| |a|b]|]; auto.
  destruct (ma_step fail s a) as [a' s'] eqn:Hma.
  destruct (ma_step_eff _ _ _ _ _ Hma) as ((Es & _) & _). destruct a'; simpl; auto.
Qed.

(* every step either leaves frame i alone, creates it, or is a step of frame i *)
Lemma step_pc s l i :
  pc_keep (ss s) (ss (step s l)) i \/ (exists f, step s l = sstep f s i).
Proof.
  destruct l as [c|j|j|j|j| | | | | | | ]; simpl.
  - left. destruct (do_call s c) as [k s'] eqn:H. simpl. eapply do_call_keep; eauto.
  - destruct (Nat.eq_dec j i) as [->|Hne]; [right; eauto|left; apply sstep_other; auto].
  - destruct (Nat.eq_dec j i) as [->|Hne]; [right; eauto|left; apply sstep_other; auto].
  - left. rewrite dstep_ss. apply pc_keep_refl.
  - left. rewrite dstep_ss. apply pc_keep_refl.
  - left. unfold recv_step. destruct (cons s); try apply pc_keep_refl.
    destruct (kill_req s); [apply pc_keep_refl|]. destruct (stop_req s); [apply pc_keep_refl|].
    destruct (rx_open s); [|apply pc_keep_refl]. destruct (q s) as [|[k|] t]; apply pc_keep_refl.
  - left. unfold handler_step. destruct (cons s) as [|k todo|k ch todo|r|r]; try apply pc_keep_refl.
    + destruct todo as [|c todo]; [destruct (hfail_of s k); apply pc_keep_refl|].
      destruct (do_call s c) as [ch s'] eqn:H. simpl. eapply do_call_keep; eauto.
    + destruct (child_done s ch); apply pc_keep_refl.
  - left. destruct (in_handler (cons s) && kill_req s); apply pc_keep_refl.
  - left. destruct (alive (cons s)); apply pc_keep_refl.
  - left. destruct (cons s); apply pc_keep_refl.
  - left. destruct (cons s); apply pc_keep_refl.
  - left. destruct (cons s); try apply pc_keep_refl. destruct (rx_open s); apply pc_keep_refl.
Qed.

(* monotone parts of the state *)
Record Mono (s s' : st) : Prop := {
  m_status : status s <= status s';
  m_closed : closed s = true -> closed s' = true;
  m_hist : exists ext, hist s' = hist s ++ ext;
  m_si : forall i inf, nth_error (si s) i = Some inf -> nth_error (si s') i = Some inf
}.

Lemma mono_refl s : Mono s s.
Proof. constructor; auto. exists []. rewrite app_nil_r; auto. Qed.

Lemma mono_trans a b c : Mono a b -> Mono b c -> Mono a c.
Proof.
  intros [A1 A2 (e1 & A3) A4] [B1 B2 (e2 & B3) B4]. constructor; auto; try lia.
  exists (e1 ++ e2). rewrite B3, A3, app_assoc. auto.
Qed.

Lemma mono_do_call s c k s' : do_call s c = (k, s') -> Mono s s'.
Proof.
  intros H. destruct (do_call_shape _ _ _ _ H) as
    (l1 & l2 & l3 & Es & Ed & Ei & El & F1 & F2 & Ec & Em & En & Est & Eq & Eh & _).
  constructor; rewrite ?Est, ?Ec, ?Eh; auto.
  - exists []. rewrite app_nil_r; auto.
  - intros i inf Hn. rewrite Ei. apply nth_app_some. auto.
Qed.

(* a state that differs only in fields Mono does not constrain, or constrains monotonically *)
Lemma mono_fields s s' :
  status s <= status s' -> (closed s = true -> closed s' = true) ->
  (hist s' = hist s \/ exists x, hist s' = hist s ++ [x]) -> si s' = si s -> Mono s s'.
Proof.
  intros A B C D. constructor; auto.
  - destruct C as [->|(x & ->)]; [exists []; rewrite app_nil_r; auto|eauto].
  - rewrite D; auto.
Qed.

Lemma mono_ma fail s a a' s' : ma_step fail s a = (a', s') -> Mono s s'.
Proof.
  intros H. destruct (ma_step_eff _ _ _ _ _ H) as ((Es & Ed & Ei & Ec & Ecl & Est & _) & Hcase).
  apply mono_fields; try rewrite Est; try rewrite Ecl; auto.
  destruct Hcase as [(_ & Eh & _) | [(_ & _ & _ & _ & _ & _ & Eh & _)
     | [(_ & _ & _ & _ & Eh & _) | (_ & _ & _ & _ & Eh & _)]]]; eauto.
Qed.

Lemma mono_sstep fail s i : Mono s (sstep fail s i).
Proof.
  unfold sstep.
  destruct (nth_error (ss s) i) as [p|] eqn:Hn; [|apply mono_refl].
  destruct (nth_error (si s) i) as [inf|] eqn:Hi; [|apply mono_refl].
  destruct p as [| | |w| |todo|k todo| |r|r a|r]; try apply mono_refl;
    try (repeat match goal with |- context [if ?b then _ else _] => destruct b eqn:? end;
         apply mono_fields; simpl; eauto; fail).
  - destruct todo as [|c todo].
    + destruct (boxok inf); apply mono_fields; simpl; auto.
    + destruct (do_call s c) as [k s'] eqn:Hc. eapply mono_trans; [eapply mono_do_call; eauto|].
      apply mono_fields; simpl; auto.
  - destruct (ma_step fail s a) as [a' s'] eqn:Hma.
    eapply mono_trans; [eapply mono_ma; eauto|]. destruct a'; apply mono_fields; simpl; auto.
Qed.

Lemma mono_dstep fail s j : Mono s (dstep fail s j).
Proof.
  unfold dstep. destruct (nth_error (ds s) j) as [[| |a|b]|]; try apply mono_refl.
  - apply mono_fields; simpl; auto.
  - apply mono_fields; simpl; auto. destruct (status s <? 5) eqn:E; auto. apply Nat.ltb_lt in E. lia.
  - destruct (ma_step fail s a) as [a' s'] eqn:Hma.
    eapply mono_trans; [eapply mono_ma; eauto|]. destruct a'; apply mono_fields; simpl; auto.
Qed.

Lemma mono_step s l : Mono s (step s l).
Proof.
  destruct l as [c|j|j|j|j| | | | | | | ]; simpl; try apply mono_sstep; try apply mono_dstep.
  - destruct (do_call s c) as [k s'] eqn:H. simpl. eapply mono_do_call; eauto.
  - unfold recv_step. destruct (cons s); try apply mono_refl.
    destruct (kill_req s); [apply mono_fields; simpl; auto|].
    destruct (stop_req s); [apply mono_fields; simpl; auto|].
    destruct (rx_open s); [|apply mono_refl]. destruct (q s) as [|[k|] t]; try apply mono_refl;
      apply mono_fields; simpl; auto.
  - unfold handler_step. destruct (cons s) as [|k todo|k ch todo|r|r]; try apply mono_refl.
    + destruct todo as [|c todo]; [destruct (hfail_of s k); apply mono_fields; simpl; auto|].
      destruct (do_call s c) as [ch s'] eqn:H. eapply mono_trans; [eapply mono_do_call; eauto|].
      apply mono_fields; simpl; auto.
    + destruct (child_done s ch); [apply mono_fields; simpl; auto|apply mono_refl].
  - destruct (in_handler (cons s) && kill_req s); [apply mono_fields; simpl; auto|apply mono_refl].
  - destruct (alive (cons s)); [apply mono_fields; simpl; auto|apply mono_refl].
  - destruct (cons s); try apply mono_refl. apply mono_fields; simpl; auto. lia.
  - destruct (cons s); try apply mono_refl. apply mono_fields; simpl; auto.
  - destruct (cons s); try apply mono_refl. destruct (rx_open s); [apply mono_refl|].
    apply mono_fields; simpl; auto.
    lia.
Qed.

Lemma mono_run s ls : Mono s (run s ls).
Proof.
  revert s; induction ls as [|l t IH]; simpl; intros s; [apply mono_refl|].
  eapply mono_trans; [apply mono_step|apply IH].
Qed.

(* ---------- sends that begin after a drain has returned ---------- *)

Definition late_ok (s : st) (i : nat) : Prop :=
  match nth_error (ss s) i with
  | None | Some T0 | Some S0 => True
  | Some (SDone (RErr m)) => m = i
  | Some (SDone RInvalid) => exists inf, nth_error (si s) i = Some inf /\ wrong inf = true
  | _ => False
  end.

Lemma late_step s l i : 4 <= status s -> late_ok s i -> late_ok (step s l) i.
Proof.
  intros Hs H. destruct (step_pc s l i) as [[K|[K1 K2]]|[f K]].
  - unfold late_ok in *. rewrite K. destruct (nth_error (ss s) i) as [[| | | | | | | | | |[]]|]; auto.
    destruct H as (inf & A & B). exists inf. split; auto. apply (m_si _ _ (mono_step s l)); auto.
  - unfold late_ok. rewrite K2. auto.
  - rewrite K. unfold late_ok in *. unfold sstep.
    destruct (nth_error (ss s) i) as [p|] eqn:Hn; [|rewrite Hn; auto].
    destruct (nth_error (si s) i) as [inf|] eqn:Hi; [|rewrite Hn, ?Hi; exact H].
    destruct p as [| | |w| |todo|k todo| |r|r a|r]; try tauto.
    + destruct (wrong inf) eqn:Ew; simpl; rewrite (nth_upd_eq _ _ _ _ Hn); eauto.
    + apply Nat.leb_le in Hs. rewrite Hs. simpl. rewrite (nth_upd_eq _ _ _ _ Hn). auto.
    + rewrite Hn, Hi. auto.
Qed.

Lemma late_run s ls i : 4 <= status s -> late_ok s i -> late_ok (run s ls) i.
Proof.
  revert s; induction ls as [|l t IH]; simpl; intros s Hs H; auto.
  apply IH; [pose proof (m_status _ _ (mono_step s l)); lia|apply late_step; auto].
Qed.

Theorem closed_rejects s1 ls j ok i r :
  Inv s1 -> nth_error (ds s1) j = Some (DDone ok) -> nth_error (ss s1) i = None ->
  result (run s1 ls) i = Some r ->
  r = RErr i \/ (r = RInvalid /\ exists inf, nth_error (si (run s1 ls)) i = Some inf /\ wrong inf = true).
Proof.
  intros I Hd Hn Hr.
  assert (Hs : 4 <= status s1).
  { apply (n_status _ (inv_n _ I)). pose proof (sumf_upd d_past2 _ _ _ D0 Hd) as X. simpl in X. lia. }
  assert (L : late_ok s1 i) by (unfold late_ok; rewrite Hn; auto).
  pose proof (late_run s1 ls i Hs L) as L2. apply result_pc in Hr. unfold late_ok in L2. rewrite Hr in L2.
  destruct r; [tauto|left; congruence|right; auto].
Qed.

(* ---------- real-time order ---------- *)

Lemma before_ids h i j : before (Msg i) (Msg j) h -> before i j (ids h).
Proof.
  intros (a & b & c & ->). exists (ids a), (ids b), (ids c).
  rewrite ids_app. simpl. rewrite ids_app. simpl. auto.
Qed.

Lemma nodup_split_unique {A} (y : A) p1 r1 p2 r2 :
  NoDup (p1 ++ y :: r1) -> p1 ++ y :: r1 = p2 ++ y :: r2 -> p1 = p2.
Proof.
  revert p2. induction p1 as [|z p1 IH]; intros [|z' p2] ND E; simpl in *; auto.
  - injection E as <- E. exfalso. inversion ND; subst. apply H1. apply in_or_app. right. left. auto.
  - injection E as -> E. exfalso. inversion ND; subst. apply H1. apply in_or_app. right. left. auto.
  - injection E as <- E. f_equal. inversion ND; subst. eapply IH; eauto.
Qed.

Lemma before_prefix {A} (x y : A) t fl : NoDup (t ++ fl) -> before x y (t ++ fl) -> In y t -> before x y t.
Proof.
  intros ND (a & b & c & E) Hy. apply in_split in Hy as (t1 & t2 & ->).
  rewrite <- app_assoc in E, ND. simpl in E, ND.
  assert (X : t1 = a ++ x :: b).
  { eapply nodup_split_unique; [exact ND|]. rewrite E. rewrite app_comm_cons, app_assoc. reflexivity. }
  exists a, b, t2. rewrite X. rewrite <- app_assoc. reflexivity.
Qed.

Theorem real_time_order s1 ls i j :
  Inv s1 -> result s1 i = Some ROk -> nth_error (ss s1) j = None ->
  forall s2, s2 = run s1 ls ->
  (In j (accepted s2) -> before i j (accepted s2)) /\
  (In j (handled s2) -> before i j (handled s2)).
Proof.
  intros I1 Hi Hj s2 ->. set (s2 := run s1 ls). pose proof (run_inv s1 ls I1) as I2. fold s2 in I2.
  destruct (m_hist _ _ (mono_run s1 ls)) as (ext & Eh). fold s2 in Eh.
  assert (A1 : In (Msg i) (hist s1)) by (apply in_ids; apply (ok_accepted s1 i I1 Hi)).
  assert (A2 : ~ In (Msg j) (hist s1)).
  { intros X. apply (h_pt _ (inv_h _ I1) j) in X. unfold enq_at in X. rewrite Hj in X. discriminate. }
  assert (B : In (Msg j) (hist s2) -> before (Msg i) (Msg j) (hist s2)).
  { intros X. rewrite Eh in X. apply in_app_or in X as [X|X]; [tauto|].
    apply in_split in A1 as (a & b & Ea). apply in_split in X as (e1 & e2 & Ee).
    exists a, (b ++ e1), e2. rewrite Eh, Ea, Ee. rewrite <- !app_assoc. simpl. reflexivity. }
  split.
  - unfold accepted. intros X. apply before_ids, B, in_ids, X.
  - unfold handled. intros X. apply in_ids in X. apply before_ids.
    destruct (q_split _ (inv_q _ I2)) as (fl & E1 & _).
    apply (before_prefix _ _ _ fl); auto.
    + rewrite <- E1. apply (h_nodup _ (inv_h _ I2)).
    + rewrite <- E1. apply B. rewrite E1. apply in_or_app. auto.
Qed.

(* ---------- once the marker is in the channel nothing is ever enqueued again ---------- *)

Theorem marker_last s1 ls : Inv s1 -> In Marker (hist s1) -> hist (run s1 ls) = hist s1.
Proof.
  intros I1 HM. pose proof (run_inv s1 ls I1) as I2.
  destruct (m_hist _ _ (mono_run s1 ls)) as (ext & Eh).
  assert (HM2 : In Marker (hist (run s1 ls))) by (rewrite Eh; apply in_or_app; auto).
  destruct (marker_after_accepted _ I2 HM2) as (msgs & E & Hn & _).
  assert (X : ext = []).
  { apply (marker_last_split (hist s1) ext msgs); [congruence| |apply in_markers; auto].
    destruct (markers msgs) eqn:Y; auto. exfalso. apply Hn, markers_pos_in. lia. }
  rewrite Eh, X, app_nil_r. auto.
Qed.

(* a send whose type does not match is rejected and changes nothing but its own frame *)
Theorem wrong_type_inert fail s i inf :
  nth_error (ss s) i = Some T0 -> nth_error (si s) i = Some inf -> wrong inf = true ->
  sstep fail s i = add_log (set_ss s (upd (ss s) i (SDone RInvalid))) (EEnd i RInvalid).
Proof. intros H1 H2 H3. unfold sstep. rewrite H1, H2, H3. reflexivity. Qed.

(* ---------- what a step shows to an observer of the log ---------- *)

Definition quiet (c : cpc) : bool :=
  match c with CExit r | CDead r => drained_r r | _ => true end.
Definition is_interv (e : ev) : bool :=
  match e with EStopReq | EKillReq | EFail => true | _ => false end.

Definition cframe (s s' : st) : Prop :=
  exits s' = exits s /\ handled s' = handled s /\ stop_req s' = stop_req s /\
  kill_req s' = kill_req s /\ quiet (cons s') = quiet (cons s) /\ si s' = si s.

Inductive SObs (s s' : st) : Prop :=
| so_silent : log s' = log s -> exits s' = exits s -> handled s' = handled s ->
    stop_req s' = stop_req s -> kill_req s' = kill_req s -> si s' = si s ->
    (stop_req s = false -> kill_req s = false -> quiet (cons s) = true -> quiet (cons s') = true) ->
    SObs s s'
| so_begin i w inf : log s' = log s ++ [EBegin i w] -> nth_error (ss s) i = None ->
    nth_error (si s') i = Some inf -> wrong inf = w ->
    (forall x y, nth_error (si s') x = Some y -> x = i \/ nth_error (si s) x = Some y) ->
    exits s' = exits s -> handled s' = handled s -> stop_req s' = stop_req s ->
    kill_req s' = kill_req s -> quiet (cons s') = quiet (cons s) -> SObs s s'
| so_end i r : log s' = log s ++ [EEnd i r] -> result s' i = Some r -> result s i = None ->
    cframe s s' -> SObs s s'
| so_drain ok j : log s' = log s ++ [EDrainEnd ok] -> nth_error (ds s') j = Some (DDone ok) ->
    cframe s s' -> SObs s s'
| so_handle i : log s' = log s ++ [EHandle i] -> handled s' = handled s ++ [i] ->
    exits s' = exits s -> stop_req s' = stop_req s -> kill_req s' = kill_req s ->
    quiet (cons s') = true -> stop_req s = false -> kill_req s = false -> si s' = si s ->
    alive (cons s') = true -> SObs s s'
| so_exit r : log s' = log s ++ [EExit r] -> exits s' = exits s ++ [r] -> handled s' = handled s ->
    stop_req s' = stop_req s -> kill_req s' = kill_req s -> quiet (cons s') = quiet (cons s) ->
    si s' = si s -> 6 <= status s' -> SObs s s'
| so_interv e : is_interv e = true -> log s' = log s ++ [e] -> exits s' = exits s ->
    handled s' = handled s -> si s' = si s -> SObs s s'.

Lemma cframe_refl s : cframe s s.
Proof. repeat split; auto. Qed.

Lemma silent_of_cframe s s' : log s' = log s -> cframe s s' -> SObs s s'.
Proof. intros L (A & B & C & D & E & F). apply so_silent; auto. rewrite E. auto. Qed.

Lemma nth_snoc_len {A} (l : list A) x n : n = length l -> nth_error (l ++ [x]) n = Some x.
Proof. intros ->. rewrite nth_error_app2 by lia. rewrite Nat.sub_diag. auto. Qed.

Lemma sobs_do_call s c k s' : length (si s) = length (ss s) -> do_call s c = (k, s') -> SObs s s'.
Proof.
  intros Hl H.
  destruct c as [p w b g f bx hc| | |]; simpl in H; injection H as <- <-.
  - eapply (so_begin _ _ (length (ss s)) w (mkInfo p w b g f bx hc)); simpl; auto.
    + apply nth_error_None. lia.
    + apply nth_snoc_len. auto.
    + intros x y Hx. destruct (lt_dec x (length (si s))) as [Hlt|Hge].
      * right. rewrite nth_error_app1 in Hx; auto.
      * left. assert (x < length (si s ++ [mkInfo p w b g f bx hc])) by (apply nth_error_Some; congruence).
        rewrite app_length in H. simpl in H. lia.
  - apply silent_of_cframe; simpl; auto. (repeat split; auto).
  - apply (so_interv _ _ EStopReq); simpl; auto.
  - apply (so_interv _ _ EKillReq); simpl; auto.
Qed.

(* SObs only looks at the log and the consumer-side fields *)
Lemma sobs_ext s s' s2 :
  SObs s s' -> log s2 = log s' -> exits s2 = exits s' -> handled s2 = handled s' ->
  stop_req s2 = stop_req s' -> kill_req s2 = kill_req s' -> quiet (cons s2) = quiet (cons s') ->
  alive (cons s2) = alive (cons s') ->
  si s2 = si s' -> ds s2 = ds s' -> status s2 = status s' ->
  (forall i r, result s' i = Some r -> result s2 i = Some r) -> SObs s s2.
Proof.
  intros H L E T S K C Al I Dd St R.
  destruct H; unfold cframe in *.
  - apply so_silent; try congruence. rewrite C. auto.
  - eapply so_begin; eauto; try congruence. intros x y Hx. rewrite I in Hx. auto.
  - eapply so_end; eauto; try congruence. unfold cframe; intuition congruence.
  - eapply (so_drain _ _ ok j); try congruence. unfold cframe; intuition congruence.
  - eapply (so_handle _ _ i); try congruence.
  - eapply (so_exit _ _ r); try congruence.
  - eapply (so_interv _ _ e); try congruence.
Qed.

Lemma result_upd_other s i p j r : i <> j -> result s j = Some r -> result (set_spc s i p) j = Some r.
Proof. unfold result. simpl. intros Hne. rewrite (nth_upd_neq _ _ _ _ Hne). auto. Qed.

Lemma sobs_sstep fail s i : length (si s) = length (ss s) -> SObs s (sstep fail s i).
Proof.
  intros Hl. unfold sstep.
  destruct (nth_error (ss s) i) as [p|] eqn:Hn; [|apply silent_of_cframe; auto; (repeat split; auto)].
  destruct (nth_error (si s) i) as [inf|] eqn:Hi; [|apply silent_of_cframe; auto; (repeat split; auto)].
  assert (FIN : forall s0 r, log s0 = log s -> cframe s s0 -> nth_error (ss s0) i = Some p ->
                 s_done p = false -> SObs s (s_finish s0 i r)).
  { intros s0 r L C N ND. apply (so_end _ _ i r).
    - simpl. rewrite L. auto.
    - unfold result. simpl. rewrite (nth_upd_eq _ _ _ _ N). auto.
    - unfold result. rewrite Hn. destruct p; auto; discriminate.
    - unfold cframe in *. simpl. exact C. }
  assert (SIL : forall s0 p', log s0 = log s -> cframe s s0 -> SObs s (set_spc s0 i p')).
  { intros s0 p' L C. apply silent_of_cframe; simpl; auto. }
  destruct p as [| | |w| |todo|k todo| |r|r a|r];
    try (repeat match goal with |- context [if ?b then _ else _] => destruct b eqn:? end;
         solve [apply FIN; simpl; auto; (repeat split; auto)
               |apply SIL; simpl; auto; (repeat split; auto)
               |apply silent_of_cframe; auto; (repeat split; auto)]).
  - destruct todo as [|c todo].
    + destruct (boxok inf); apply SIL; auto; (repeat split; auto).
    + destruct (do_call s c) as [k s'] eqn:Hc.
      pose proof (sobs_do_call _ _ _ _ Hl Hc) as X.
      eapply sobs_ext; eauto; simpl; auto.
      intros j r Hr. destruct (Nat.eq_dec i j) as [<-|Hne]; [|apply result_upd_other; auto].
      exfalso. destruct (do_call_shape _ _ _ _ Hc) as (l1 & _ & _ & Es & _).
      apply result_pc in Hr. rewrite Es, (nth_app_some _ _ _ _ Hn) in Hr. discriminate.
  - destruct (ma_step fail s a) as [a' s'] eqn:Hma.
    destruct (ma_step_eff _ _ _ _ _ Hma) as ((Es & Ed & Ei & Ec & Ecl & Est & Erx & Et & Eco & Eex & El & Esr & Ekr) & _).
    assert (C : cframe s s') by (unfold cframe, handled; rewrite Eco, Et; repeat split; auto).
    destruct a'; try (apply SIL; auto).
    apply FIN; auto. rewrite Es; auto.
Qed.

Lemma sobs_dstep fail s j : SObs s (dstep fail s j).
Proof.
  unfold dstep. destruct (nth_error (ds s) j) as [[| |a|b]|] eqn:Hn;
    try (apply silent_of_cframe; simpl; auto; repeat split; auto; fail).
  destruct (ma_step fail s a) as [a' s'] eqn:Hma.
  destruct (ma_step_eff _ _ _ _ _ Hma) as ((Es & Ed & Ei & Ec & Ecl & Est & Erx & Et & Eco & Eex & El & Esr & Ekr) & _).
  assert (C : cframe s s') by (unfold cframe, handled; rewrite Eco, Et; repeat split; auto).
  destruct a' as [|w| |okb]; try (apply silent_of_cframe; simpl; auto; fail).
  eapply (so_drain _ _ okb j); simpl; try rewrite El; auto.
  rewrite Ed. eapply nth_upd_eq; eauto.
Qed.

Theorem sobs_step s l : length (si s) = length (ss s) -> SObs s (step s l).
Proof.
  intros Hl. destruct l as [c|i|i|j|j| | | | | | | ]; simpl;
    try apply sobs_sstep; try apply sobs_dstep; auto.
  - destruct (do_call s c) as [k s'] eqn:H. simpl. eapply sobs_do_call; eauto.
  - (* LRecv *) unfold recv_step. destruct (cons s) eqn:Ec; try (apply silent_of_cframe; auto; apply cframe_refl).
    destruct (kill_req s) eqn:Ek; [apply so_silent; simpl; auto; intros; congruence|].
    destruct (stop_req s) eqn:Es; [apply so_silent; simpl; auto; intros; congruence|].
    destruct (rx_open s); [|apply silent_of_cframe; auto; apply cframe_refl].
    destruct (q s) as [|[i|] rest]; [apply silent_of_cframe; auto; apply cframe_refl| |].
    + apply (so_handle _ _ i); simpl; auto. unfold handled; simpl. rewrite ids_app. auto.
    + apply so_silent; simpl; auto. unfold handled; simpl. rewrite ids_app. simpl. apply app_nil_r.
  - (* LH *) unfold handler_step. destruct (cons s) as [|i todo|i k todo|r|r] eqn:Ec;
      try (apply silent_of_cframe; auto; apply cframe_refl).
    + destruct todo as [|c todo].
      * destruct (hfail_of s i); [apply (so_interv _ _ EFail); simpl; auto|apply so_silent; simpl; auto].
      * destruct (do_call s c) as [k s'] eqn:H. pose proof (sobs_do_call _ _ _ _ Hl H) as X.
        destruct (do_call_shape _ _ _ _ H) as (_ & _ & _ & _ & _ & _ & _ & _ & _ & _ & _ & _ & _ & _ & _ & _ & _ & _ & Eco & _).
        eapply sobs_ext; eauto; simpl; auto; rewrite Eco, Ec; auto.
    + destruct (child_done s k); [apply so_silent; simpl; auto|apply silent_of_cframe; auto; apply cframe_refl].
  - (* LKillNow *) destruct (in_handler (cons s) && kill_req s) eqn:E; [|apply silent_of_cframe; auto; apply cframe_refl].
    apply andb_true_iff in E as [_ E]. apply so_silent; simpl; auto. intros; congruence.
  - (* LCrash *) destruct (alive (cons s)); [|apply silent_of_cframe; auto; apply cframe_refl].
    apply (so_interv _ _ EFail); simpl; auto.
  - destruct (cons s) eqn:Ec; try (apply silent_of_cframe; auto; apply cframe_refl).
    apply silent_of_cframe; simpl; auto. unfold cframe; simpl; rewrite ?Ec; repeat split; auto.
  - destruct (cons s) eqn:Ec; try (apply silent_of_cframe; auto; apply cframe_refl).
    apply silent_of_cframe; simpl; auto. unfold cframe; simpl; rewrite ?Ec; repeat split; auto.
  - destruct (cons s) eqn:Ec; try (apply silent_of_cframe; auto; apply cframe_refl).
    destruct (rx_open s); [apply silent_of_cframe; auto; apply cframe_refl|].
    apply (so_exit _ _ r); simpl; auto; [rewrite Ec; auto|lia].
Qed.

(* ---------- soundness of the executable oracle check_C07 on model logs ---------- *)

Lemma result_step s l i r : result s i = Some r -> result (step s l) i = Some r.
Proof.
  intros H. pose proof (result_pc _ _ _ H) as Hn. unfold result.
  destruct (step_pc s l i) as [[K|[K1 K2]]|[f K]].
  - rewrite K, Hn. auto.
  - congruence.
  - rewrite K. unfold sstep. rewrite Hn. destruct (nth_error (si s) i); rewrite Hn; auto.
Qed.

Lemma mem_in x l : mem x l = true <-> In x l.
Proof.
  unfold mem. rewrite existsb_exists. split.
  - intros (y & Hy & E). apply Nat.eqb_eq in E. subst; auto.
  - intros H. exists x. split; auto. apply Nat.eqb_refl.
Qed.

Lemma mem_cons x y l : mem x (y :: l) = true <-> x = y \/ mem x l = true.
Proof. rewrite !mem_in. simpl. split; intros [A|A]; auto. Qed.

Definition O7 (s : st) : o7 := fold_left o7_step (log s) o7_init.

Lemma O7_snoc s s' e : log s' = log s ++ [e] -> O7 s' = o7_step (O7 s) e.
Proof. unfold O7. intros ->. rewrite fold_left_app. reflexivity. Qed.

Lemma O7_same s s' : log s' = log s -> O7 s' = O7 s.
Proof. unfold O7. intros ->. reflexivity. Qed.

Record OInv7 (s : st) : Prop := {
  o_bad : d_bad (O7 s) = false;
  o_dr : d_drained (O7 s) = true -> 4 <= status s /\ closed s = true;
  o_late : forall i, mem i (d_late (O7 s)) = true -> 4 <= status s /\ late_ok s i;
  o_wrong : forall i inf, nth_error (si s) i = Some inf -> wrong inf = true ->
            mem i (d_wrong (O7 s)) = true;
  o_ex : d_exits (O7 s) = exits s;
  o_ok : forall i, mem i (d_ok (O7 s)) = true -> result s i = Some ROk;
  o_hd : forall i, In i (handled s) -> mem i (d_handled (O7 s)) = true;
  o_iv : d_interv (O7 s) = false ->
         stop_req s = false /\ kill_req s = false /\ quiet (cons s) = true;
  o_st : exits s <> [] -> 6 <= status s
}.

Lemma oinv7_init : OInv7 init.
Proof.
  constructor; unfold O7; simpl; auto; try discriminate; try tauto.
  intros [|i] inf H; discriminate.
Qed.

Theorem oinv7_step s l : Inv s -> OInv7 s -> OInv7 (step s l).
Proof.
  intros I [B Dr La Wr Ex Ok Hd Iv Sx].
  pose proof (step_inv s l I) as I'.
  pose proof (mono_step s l) as [Ms Mc _ Msi].
  pose proof (sobs_step s l (n_len _ (inv_n _ I))) as SO.
  set (s' := step s l) in *.
  assert (LATE : forall i, 4 <= status s /\ late_ok s i -> 4 <= status s' /\ late_ok s' i).
  { intros i [A1 A2]. split; [lia|apply late_step; auto]. }
  destruct SO as [L E H S K Si Q | i w inf L Hn Hi Hw Hsi E H S K Q | i r L Hr Hr0 (E & H & S & K & Q & Si)
                 | ok j L Hj (E & H & S & K & Q & Si) | i L H E S K Q S0 K0 Si Al | r L E H S K Q Si S6 | e He L E H Si].
  - (* silent *)
    constructor; rewrite ?(O7_same _ _ L).
    + auto.
    + intros X. destruct (Dr X). split; auto; lia.
    + intros x X. apply LATE, La, X.
    + rewrite Si. auto.
    + congruence.
    + intros x X. apply result_step, Ok, X.
    + rewrite H. auto.
    + intros X. destruct (Iv X) as (A1 & A2 & A3). rewrite S, K. auto.
    + intros X. rewrite E in X. specialize (Sx X). lia.
  - (* begin *)
    constructor; rewrite ?(O7_snoc _ _ _ L); simpl.
    + auto.
    + intros X. destruct (Dr X). split; auto; lia.
    + intros x X. destruct (d_drained (O7 s)) eqn:Ed; [|apply LATE, La, X].
      apply mem_cons in X as [->|X]; [|apply LATE, La, X].
      destruct (Dr eq_refl) as [A1 _]. apply LATE. split; auto. unfold late_ok. rewrite Hn. auto.
    + intros x y Hx Hwy. destruct (Hsi _ _ Hx) as [->|Hx'].
      * rewrite Hi in Hx. injection Hx as <-. rewrite <- Hw, Hwy. apply mem_cons. auto.
      * pose proof (Wr _ _ Hx' Hwy) as Y. destruct w; auto. apply mem_cons. auto.
    + congruence.
    + intros x X. apply result_step, Ok, X.
    + rewrite H. auto.
    + intros X. destruct (Iv X) as (A1 & A2 & A3). rewrite S, K, Q. auto.
    + intros X. rewrite E in X. specialize (Sx X). lia.
  - (* end *)
    constructor; rewrite ?(O7_snoc _ _ _ L); simpl.
    + rewrite B. simpl. apply negb_false_iff.
      destruct (mem i (d_late (O7 s))) eqn:Em; auto.
      destruct (LATE _ (La _ Em)) as [_ X]. unfold late_ok in X.
      rewrite (result_pc _ _ _ Hr) in X.
      destruct r as [|m|]; [tauto|subst; apply Nat.eqb_refl|].
      destruct X as (inf & A1 & A2). rewrite Si in A1. eapply Wr; eauto.
    + intros X. destruct (Dr X). split; auto; lia.
    + intros x X. apply LATE, La, X.
    + rewrite Si. auto.
    + congruence.
    + intros x X. destruct r; try (apply result_step, Ok, X).
      apply mem_cons in X as [->|X]; auto. apply result_step, Ok, X.
    + rewrite H. auto.
    + intros X. destruct (Iv X) as (A1 & A2 & A3). rewrite S, K, Q. auto.
    + intros X. rewrite E in X. specialize (Sx X). lia.
  - (* drain end *)
    constructor; rewrite ?(O7_snoc _ _ _ L); simpl.
    + auto.
    + intros _. destruct I' as [N' _ _].
      pose proof (sumf_upd d_past2 _ _ _ D0 Hj) as X1. pose proof (sumf_upd d_past _ _ _ D0 Hj) as X2.
      simpl in X1, X2. split; [apply (n_status _ N')|apply (n_closed _ N')]; lia.
    + intros x X. apply LATE, La, X.
    + rewrite Si. auto.
    + congruence.
    + intros x X. apply result_step, Ok, X.
    + rewrite H. auto.
    + intros X. destruct (Iv X) as (A1 & A2 & A3). rewrite S, K, Q. auto.
    + intros X. rewrite E in X. specialize (Sx X). lia.
  - (* handle *)
    constructor; rewrite ?(O7_snoc _ _ _ L); simpl.
    + auto.
    + intros X. destruct (Dr X). split; auto; lia.
    + intros x X. apply LATE, La, X.
    + rewrite Si. auto.
    + congruence.
    + intros x X. apply result_step, Ok, X.
    + intros x X. rewrite H in X. apply mem_cons. apply in_app_or in X as [X|[X|[]]]; auto.
    + intros _. rewrite S, K. auto.
    + intros X. rewrite E in X. specialize (Sx X). lia.
  - (* exit *)
    constructor; rewrite ?(O7_snoc _ _ _ L); simpl.
    + rewrite B, Ex. simpl.
      destruct (drained_once _ I') as (Len & _). fold s' in Len. rewrite E, app_length in Len. simpl in Len.
      destruct (exits s); auto. simpl in Len. lia.
    + intros X. destruct (Dr X). split; auto; lia.
    + intros x X. apply LATE, La, X.
    + rewrite Si. auto.
    + congruence.
    + intros x X. apply result_step, Ok, X.
    + rewrite H. auto.
    + intros X. destruct (Iv X) as (A1 & A2 & A3). rewrite S, K, Q. auto.
    + intros _. exact S6.
  - (* intervention *)
    assert (Z : o7_step (O7 s) e = mkO7 (d_drained (O7 s)) (d_late (O7 s)) (d_wrong (O7 s)) (d_ok (O7 s))
                  (d_handled (O7 s)) (d_exits (O7 s)) true (d_bad (O7 s))) by (destruct e; try discriminate; auto).
    constructor; rewrite ?(O7_snoc _ _ _ L), ?Z; simpl.
    + auto.
    + intros X. destruct (Dr X). split; auto; lia.
    + intros x X. apply LATE, La, X.
    + rewrite Si. auto.
    + congruence.
    + intros x X. apply result_step, Ok, X.
    + rewrite H. auto.
    + discriminate.
    + intros X. rewrite E in X. specialize (Sx X). lia.
Qed.

Theorem reachable_oinv7 s : reachable s -> Inv s /\ OInv7 s.
Proof.
  intros [ls ->]. unfold run. rewrite <- fold_left_rev_right.
  induction (rev ls) as [|l t IH]; simpl.
  - split; [constructor; [apply ninv_init|apply hinv_init|apply qinv_init]|apply oinv7_init].
  - destruct IH. split; [apply step_inv|apply oinv7_step]; auto.
Qed.

Theorem check_C07_sound s : reachable s -> check_C07 (complete s) (log s) = true.
Proof.
  intros R. destruct (reachable_oinv7 s R) as [I [B Dr La Wr Ex Ok Hd Iv Sx]].
  unfold check_C07. fold (O7 s). rewrite B. simpl.
  apply andb_true_iff. split.
  - destruct (only_drained (d_exits (O7 s))) eqn:Eo; auto.
    rewrite Ex in Eo. destruct (exits s) as [|r [|]] eqn:Ee; try discriminate. simpl in Eo.
    destruct r; try discriminate.
    destruct (drained_once _ I) as (_ & D2 & D3). apply D3 in Ee.
    destruct (D2 RDrained (or_intror Ee) eq_refl) as (_ & Hh & _).
    unfold subset. apply forallb_forall. intros x Hx. apply mem_in in Hx. apply Hd. rewrite Hh.
    apply ok_accepted; auto.
  - destruct (complete s && d_drained (O7 s) && negb (d_interv (O7 s))) eqn:Ec; auto.
    apply andb_true_iff in Ec as [Ec E3]. apply andb_true_iff in Ec as [E1 E2].
    apply negb_true_iff in E3. destruct (Iv E3) as (S0 & K0 & Q). destruct (Dr E2) as [_ Hc].
    unfold complete in E1. apply andb_true_iff in E1 as [AD E1]. rewrite Ex.
    destruct (cons s) eqn:Eco; try discriminate.
    + exfalso. assert (A : alive (cons s) = true) by (rewrite Eco; auto).
      pose proof (not_idle_closed s I AD Hc A) as X. destruct (q s); [destruct X|discriminate].
    + simpl in Q. destruct r; try discriminate.
      destruct (q_dead _ (inv_q _ I) _ Eco) as (-> & _). auto.
Qed.

Theorem check_status_sound s : reachable s -> check_status (log s) (status s) = true.
Proof.
  intros R. destruct (reachable_oinv7 s R) as [I [B Dr La Wr Ex Ok Hd Iv Sx]].
  unfold check_status. fold (O7 s). rewrite Ex. destruct (exits s) eqn:E; auto.
  apply Nat.leb_le. apply Sx. discriminate.
Qed.

(* ---------- soundness of the executable oracle check_C02 on model logs ---------- *)

(* a frame offering a message of the wrong type never gets past the TypeId check *)
Definition wrong_ok (s : st) (i : nat) : Prop :=
  forall inf, nth_error (si s) i = Some inf -> wrong inf = true ->
  match nth_error (ss s) i with
  | Some T0 | Some (SDone RInvalid) | None => True
  | _ => False
  end.

Lemma wrong_step s l i : Inv s -> wrong_ok s i -> wrong_ok (step s l) i.
Proof.
  intros I W inf' Hsi' Hw'.
  destruct (nth_error (si s) i) as [inf1|] eqn:E1.
  - pose proof (m_si _ _ (mono_step s l) _ _ E1) as X. rewrite X in Hsi'. injection Hsi' as <-.
    specialize (W _ E1 Hw').
    destruct (step_pc s l i) as [[K|[K1 K2]]|[f K]].
    + rewrite K. exact W.
    + rewrite K2. auto.
    + rewrite K. unfold sstep.
      destruct (nth_error (ss s) i) as [p|] eqn:Hn; [|rewrite Hn; auto]. rewrite E1.
      destruct p; try tauto.
      * rewrite Hw'. simpl. rewrite (nth_upd_eq _ _ _ _ Hn). auto.
      * rewrite Hn. exact W.
  - assert (Hn : nth_error (ss s) i = None).
    { apply nth_error_None. rewrite <- (n_len _ (inv_n _ I)). apply nth_error_None. auto. }
    destruct (step_pc s l i) as [[K|[K1 K2]]|[f K]].
    + rewrite K, Hn. auto.
    + rewrite K2. auto.
    + rewrite K. unfold sstep. rewrite Hn, Hn. auto.
Qed.

Lemma if_same_false (b : bool) : (if b then false else false) = false.
Proof. destruct b; auto. Qed.

Section OracleC02.
Variable rt : bool.

Definition O2 (s : st) : o2 := fold_left (o2_step rt) (log s) o2_init.

Lemma O2_snoc s s' e : log s' = log s ++ [e] -> O2 s' = o2_step rt (O2 s) e.
Proof. unfold O2. intros ->. rewrite fold_left_app. reflexivity. Qed.
Lemma O2_same s s' : log s' = log s -> O2 s' = O2 s.
Proof. unfold O2. intros ->. reflexivity. Qed.

Lemma mem_false x l : mem x l = false <-> ~ In x l.
Proof. rewrite <- mem_in. destruct (mem x l); split; intros; try congruence; try tauto. Qed.

(* x was accepted, and precedes j in acceptance order if j is accepted at all *)
Definition precedes (s : st) (x j : nat) : Prop :=
  In x (accepted s) /\ (In j (accepted s) -> before x j (accepted s)).

Lemma precedes_mono s s' x j : Mono s s' -> precedes s x j -> precedes s' x j.
Proof.
  intros [_ _ (ext & Eh) _] [A B]. unfold precedes, accepted in *. rewrite Eh, ids_app.
  split; [apply in_or_app; auto|]. intros X. apply in_app_or in X as [X|X].
  - destruct (B X) as (a & b & c & E). exists a, b, (c ++ ids ext). rewrite E.
    rewrite <- !app_assoc. simpl. rewrite <- app_assoc. reflexivity.
  - apply in_split in A as (a & b & Ea). apply in_split in X as (c & d & Ec).
    exists a, (b ++ c), d. rewrite Ea, Ec. rewrite <- !app_assoc. simpl. reflexivity.
Qed.

Record OInv2 (s : st) : Prop := {
  p_bad : b_bad (O2 s) = false;
  p_begun : forall i, mem i (b_begun (O2 s)) = true <-> nth_error (si s) i <> None;
  p_ended : forall i, mem i (b_ended (O2 s)) = true -> result s i <> None;
  p_ok : forall i, mem i (b_ok (O2 s)) = true -> result s i = Some ROk;
  p_rej : forall i, mem i (b_rej (O2 s)) = true -> exists r, result s i = Some r /\ r <> ROk;
  p_hd : forall i, mem i (b_handled (O2 s)) = true <-> In i (handled s);
  p_ex : b_exited (O2 s) = true -> exits s <> [];
  p_wr : forall i, mem i (b_wrong (O2 s)) = true ->
         exists inf, nth_error (si s) i = Some inf /\ wrong inf = true;
  p_snap : forall j x, mem x (snap_of j (b_snap (O2 s))) = true -> precedes s x j;
  p_w : forall i, wrong_ok s i
}.

Lemma oinv2_init : OInv2 init.
Proof.
  constructor; unfold O2; simpl; auto; try discriminate; try tauto.
  - intros i. split; [discriminate|]. destruct i; simpl; tauto.
  - intros i. split; [discriminate|tauto].
  - intros i inf H. destruct i; discriminate.
Qed.

Lemma wrong_not_accepted s i inf : Inv s -> wrong_ok s i ->
  nth_error (si s) i = Some inf -> wrong inf = true -> ~ In i (accepted s).
Proof.
  intros I W Hs Hw X. specialize (W _ Hs Hw). unfold accepted in X. rewrite in_ids in X.
  apply (h_pt _ (inv_h _ I) i) in X. unfold enq_at in X.
  destruct (nth_error (ss s) i) as [[| | | | | | | | | |[]]|]; simpl in *; try tauto; discriminate.
Qed.

Lemma handled_accepted s i : Inv s -> In i (handled s) -> In i (accepted s).
Proof.
  intros I H. destruct (q_split _ (inv_q _ I)) as (fl & E & _). unfold handled, accepted in *.
  rewrite E, ids_app. apply in_or_app. auto.
Qed.

Lemma before_nodup_neq {A} (x y : A) l : NoDup l -> before x y l -> x <> y.
Proof.
  intros ND (a & b & c & ->) <-. apply NoDup_remove_2 in ND. apply ND.
  apply in_or_app. right. apply in_or_app. right. left. auto.
Qed.

Lemma before_in_l {A} (x y : A) l : before x y l -> In x l.
Proof. intros (a & b & c & ->). apply in_or_app. right. left. auto. Qed.

Lemma si_of_result s i r : Inv s -> result s i = Some r -> nth_error (si s) i <> None.
Proof.
  intros I H. apply result_pc in H. apply nth_error_Some. rewrite (n_len _ (inv_n _ I)).
  apply nth_error_Some. congruence.
Qed.

Local Arguments mem : simpl never.

Theorem oinv2_step s l : Inv s -> OInv2 s -> OInv2 (step s l).
Proof.
  intros I [B Bg En Ok Rj Hd Ex Wr Sn W].
  pose proof (step_inv s l I) as I'.
  pose proof (mono_step s l) as M. pose proof M as [_ _ _ Msi].
  pose proof (sobs_step s l (n_len _ (inv_n _ I))) as SO.
  set (s' := step s l) in *.
  assert (G_en : forall i, mem i (b_ended (O2 s)) = true -> result s' i <> None).
  { intros i X. specialize (En i X). destruct (result s i) eqn:E; [|congruence].
    unfold s'. rewrite (result_step _ l _ _ E). discriminate. }
  assert (G_ok : forall i, mem i (b_ok (O2 s)) = true -> result s' i = Some ROk).
  { intros i X. apply result_step, Ok, X. }
  assert (G_rj : forall i, mem i (b_rej (O2 s)) = true -> exists r, result s' i = Some r /\ r <> ROk).
  { intros i X. destruct (Rj i X) as (r & A1 & A2). exists r. split; auto. apply result_step; auto. }
  assert (G_wr : forall i, mem i (b_wrong (O2 s)) = true ->
                 exists inf, nth_error (si s') i = Some inf /\ wrong inf = true).
  { intros i X. destruct (Wr i X) as (inf & A1 & A2). exists inf. split; auto. }
  assert (G_sn : forall j x, mem x (snap_of j (b_snap (O2 s))) = true -> precedes s' x j).
  { intros j x X. eapply precedes_mono; eauto. }
  assert (G_w : forall i, wrong_ok s' i) by (intros i; apply wrong_step; auto).
  destruct SO as [L E H S K Si Q | i w inf L Hn Hi Hw Hsi E H S K Q | i r L Hr Hr0 (E & H & S & K & Q & Si)
                 | ok j L Hj (E & H & S & K & Q & Si) | i L H E S K Q S0 K0 Si Al | r L E H S K Q Si _ | e He L E H Si].
  - (* silent *)
    constructor; rewrite ?(O2_same _ _ L); auto.
    + intros i. rewrite Si. auto.
    + intros i. rewrite H. auto.
    + rewrite E. auto.
  - (* begin *)
    assert (Nb : mem i (b_begun (O2 s)) = false).
    { apply mem_false. intros X. apply mem_in, Bg in X. apply X. apply nth_error_None.
      rewrite (n_len _ (inv_n _ I)). apply nth_error_None. auto. }
    constructor; rewrite ?(O2_snoc _ _ _ L); simpl; rewrite ?Nb; simpl; auto.
    + intros x. rewrite mem_cons. split.
      * intros [->|X]; [congruence|]. apply Bg in X. destruct (nth_error (si s) x) eqn:E1; [|congruence].
        rewrite (Msi _ _ E1). discriminate.
      * intros X. destruct (nth_error (si s') x) as [y|] eqn:E1; [|congruence].
        destruct (Hsi _ _ E1) as [->|E2]; auto. right. apply Bg. congruence.
    + intros x. rewrite H. auto.
    + rewrite E. auto.
    + intros x X. destruct w; [apply mem_cons in X as [->|X]|]; eauto.
    + intros j x X. destruct (Nat.eqb j i) eqn:Ej; [|eauto].
      apply Nat.eqb_eq in Ej. subst j. eapply precedes_mono; eauto.
      split; [apply ok_accepted; auto|]. intros Y. exfalso.
      unfold accepted in Y. rewrite in_ids in Y. apply (h_pt _ (inv_h _ I) i) in Y.
      unfold enq_at in Y. rewrite Hn in Y. discriminate.
  - (* end *)
    assert (Hb : mem i (b_begun (O2 s)) = true).
    { apply Bg. rewrite <- Si. eapply si_of_result; eauto. }
    assert (He : mem i (b_ended (O2 s)) = false).
    { destruct (mem i (b_ended (O2 s))) eqn:X; auto. apply En in X. congruence. }
    assert (Hnw : forall r', r = r' -> r' <> RInvalid -> mem i (b_wrong (O2 s)) = false).
    { intros r' -> Hr'. destruct (mem i (b_wrong (O2 s))) eqn:X; auto. exfalso.
      destruct (G_wr _ X) as (inf & A1 & A2). specialize (G_w i _ A1 A2).
      rewrite (result_pc _ _ _ Hr) in G_w. destruct r'; tauto. }
    assert (Hnh : r <> ROk -> mem i (b_handled (O2 s)) = false).
    { intros Hr'. apply mem_false. intros X. apply mem_in, Hd in X. rewrite <- H in X.
      destruct (rejected_not_accepted s' i r I' Hr Hr') as (_ & A & _). auto. }
    constructor; rewrite ?(O2_snoc _ _ _ L); simpl; rewrite ?Hb, ?He; simpl.
    + destruct r as [|m|].
      * rewrite (Hnw ROk eq_refl) by discriminate. simpl. auto.
      * destruct (rejected_not_accepted s' i _ I' Hr ltac:(discriminate)) as (_ & _ & A).
        rewrite (A m eq_refl), Nat.eqb_refl, (Hnh ltac:(discriminate)).
        simpl. auto.
      * rewrite (Hnh ltac:(discriminate)). simpl. auto.
    + intros x. rewrite Si.
      destruct r as [|m|]; [rewrite (Hnw ROk eq_refl) by discriminate; simpl; auto| |].
      * destruct (Nat.eqb m i && negb (mem i (b_handled (O2 s)))); simpl; auto.
      * destruct (mem i (b_handled (O2 s))); simpl; auto.
    + intros x.
      destruct r as [|m|]; [rewrite (Hnw ROk eq_refl) by discriminate; simpl| |].
      * intros X. apply mem_cons in X as [->|X]; auto. congruence.
      * destruct (Nat.eqb m i && negb (mem i (b_handled (O2 s)))); simpl; auto.
        intros X. apply mem_cons in X as [->|X]; auto. congruence.
      * destruct (mem i (b_handled (O2 s))); simpl; auto.
        intros X. apply mem_cons in X as [->|X]; auto. congruence.
    + intros x.
      destruct r as [|m|]; [rewrite (Hnw ROk eq_refl) by discriminate; simpl| |].
      * intros X. apply mem_cons in X as [->|X]; auto.
      * destruct (Nat.eqb m i && negb (mem i (b_handled (O2 s)))); simpl; auto.
      * destruct (mem i (b_handled (O2 s))); simpl; auto.
    + intros x.
      destruct r as [|m|]; [rewrite (Hnw ROk eq_refl) by discriminate; simpl; auto| |].
      * destruct (Nat.eqb m i && negb (mem i (b_handled (O2 s)))); simpl; auto.
        intros X. apply mem_cons in X as [->|X]; auto. exists (RErr m). split; auto. discriminate.
      * destruct (mem i (b_handled (O2 s))); simpl; auto.
        intros X. apply mem_cons in X as [->|X]; auto. exists RInvalid. split; auto. discriminate.
    + intros x. rewrite H.
      destruct r as [|m|]; [rewrite (Hnw ROk eq_refl) by discriminate; simpl; auto| |].
      * destruct (Nat.eqb m i && negb (mem i (b_handled (O2 s)))); simpl; auto.
      * destruct (mem i (b_handled (O2 s))); simpl; auto.
    + rewrite E.
      destruct r as [|m|]; [rewrite (Hnw ROk eq_refl) by discriminate; simpl; auto| |].
      * destruct (Nat.eqb m i && negb (mem i (b_handled (O2 s)))); simpl; auto.
      * destruct (mem i (b_handled (O2 s))); simpl; auto.
    + intros x.
      destruct r as [|m|]; [rewrite (Hnw ROk eq_refl) by discriminate; simpl; auto| |].
      * destruct (Nat.eqb m i && negb (mem i (b_handled (O2 s)))); simpl; auto.
      * destruct (mem i (b_handled (O2 s))); simpl; auto.
    + intros j x.
      destruct r as [|m|]; [rewrite (Hnw ROk eq_refl) by discriminate; simpl; auto| |].
      * destruct (Nat.eqb m i && negb (mem i (b_handled (O2 s)))); simpl; auto.
      * destruct (mem i (b_handled (O2 s))); simpl; auto.
    + auto.
  - (* drain end *)
    constructor; rewrite ?(O2_snoc _ _ _ L); simpl; auto.
    + intros i. rewrite Si. auto.
    + intros i. rewrite H. auto.
    + rewrite E. auto.
  - (* handle *)
    pose proof (refines_fifo s' I') as (_ & NDa & NDh). fold s' in NDh.
    assert (Hin : In i (handled s')) by (rewrite H; apply in_or_app; right; left; auto).
    assert (Hacc : In i (accepted s')) by (apply handled_accepted; auto).
    assert (N1 : mem i (b_handled (O2 s)) = false).
    { apply mem_false. intros X. apply mem_in, Hd in X. rewrite H in NDh.
      apply NoDup_remove_2 in NDh. rewrite app_nil_r in NDh. auto. }
    assert (N2 : mem i (b_rej (O2 s)) = false).
    { destruct (mem i (b_rej (O2 s))) eqn:X; auto. exfalso. destruct (G_rj _ X) as (r & A1 & A2).
      destruct (rejected_not_accepted s' i r I' A1 A2) as (_ & A & _). auto. }
    assert (N3 : mem i (b_begun (O2 s)) = true).
    { apply Bg. rewrite <- Si. unfold accepted in Hacc. rewrite in_ids in Hacc.
      apply (h_pt _ (inv_h _ I') i) in Hacc. unfold enq_at in Hacc.
      destruct (nth_error (ss s') i) eqn:X; [|discriminate].
      apply nth_error_Some. rewrite (n_len _ (inv_n _ I')). apply nth_error_Some. congruence. }
    assert (N4 : b_exited (O2 s) = false).
    { destruct (b_exited (O2 s)) eqn:X; auto. exfalso. apply (Ex eq_refl). rewrite <- E.
      destruct (q_alive _ (inv_q _ I') Al) as (_ & A & _). exact A. }
    assert (N5 : mem i (b_wrong (O2 s)) = false).
    { destruct (mem i (b_wrong (O2 s))) eqn:X; auto. exfalso. destruct (G_wr _ X) as (inf & A1 & A2).
      eapply (wrong_not_accepted s' i); eauto. }
    assert (N6 : subset (snap_of i (b_snap (O2 s))) (b_handled (O2 s)) = true).
    { unfold subset. apply forallb_forall. intros x X. apply mem_in in X.
      destruct (G_sn _ _ X) as [_ P]. specialize (P Hacc).
      destruct (q_split _ (inv_q _ I')) as (fl & E1 & _).
      assert (E2 : accepted s' = handled s' ++ ids fl) by (unfold accepted, handled; rewrite E1; apply ids_app).
      rewrite E2 in P, NDa. pose proof (before_prefix _ _ _ _ NDa P Hin) as P2.
      pose proof (before_nodup_neq _ _ _ NDh P2) as Hne. apply before_in_l in P2.
      rewrite H in P2. apply in_app_or in P2 as [P2|[P2|[]]]; [|congruence].
      apply Hd. auto. }
    constructor; rewrite ?(O2_snoc _ _ _ L); simpl; rewrite ?N1, ?N2, ?N3, ?N4, ?N5, ?N6; simpl; rewrite ?if_same_false; simpl; auto.
    + intros x. rewrite Si. auto.
    + intros x. rewrite mem_cons, H, in_app_iff. simpl. rewrite Hd. intuition.
    + rewrite N4 in Ex. intros X. discriminate.
  - (* exit *)
    constructor; rewrite ?(O2_snoc _ _ _ L); simpl; auto.
    + intros i. rewrite Si. auto.
    + intros i. rewrite H. auto.
    + intros _. rewrite E. destruct (exits s); discriminate.
  - (* intervention *)
    assert (Z : o2_step rt (O2 s) e = O2 s) by (destruct e; try discriminate; auto).
    constructor; rewrite ?(O2_snoc _ _ _ L), ?Z; auto.
    + intros i. rewrite Si. auto.
    + intros i. rewrite H. auto.
    + rewrite E. auto.
Qed.

Theorem reachable_oinv2 s : reachable s -> Inv s /\ OInv2 s.
Proof.
  intros [ls ->]. unfold run. rewrite <- fold_left_rev_right.
  induction (rev ls) as [|l t IH]; simpl.
  - split; [constructor; [apply ninv_init|apply hinv_init|apply qinv_init]|apply oinv2_init].
  - destruct IH. split; [apply step_inv|apply oinv2_step]; auto.
Qed.

(* the flag the harness passes: the actor is still polling and its mailbox is empty *)
Definition alive_idle (s : st) : bool :=
  alive (cons s) && match q s with [] => true | _ => false end.

Theorem check_C02_gen_sound s : reachable s -> check_C02_gen rt (alive_idle s) (log s) = true.
Proof.
  intros R. destruct (reachable_oinv2 s R) as [I [B Bg En Ok Rj Hd Ex Wr Sn W]].
  unfold check_C02_gen. fold (O2 s). rewrite B. simpl.
  destruct (alive_idle s) eqn:A; auto.
  unfold alive_idle in A. apply andb_true_iff in A as [A1 A2].
  destruct (q s) eqn:Eq; [|discriminate].
  pose proof (exactly_once_if_alive s I A1 Eq) as E.
  unfold subset. apply forallb_forall. intros x X. apply mem_in in X.
  apply Hd. rewrite E. apply ok_accepted; auto.
Qed.

End OracleC02.

Theorem check_C02_sound s : reachable s -> check_C02 (alive_idle s) (log s) = true.
Proof. exact (check_C02_gen_sound true s). Qed.
Theorem check_C02_lite_sound s : reachable s -> check_C02_lite (alive_idle s) (log s) = true.
Proof. exact (check_C02_gen_sound false s). Qed.

(* ---------- the deterministic drivers only compose steps ---------- *)

Local Opaque FUEL.

Definition steps (s s' : st) : Prop := exists ls, s' = run s ls.

Lemma steps_refl s : steps s s.
Proof. exists []. auto. Qed.
Lemma steps_trans a b c : steps a b -> steps b c -> steps a c.
Proof. intros [l1 ->] [l2 ->]. exists (l1 ++ l2). unfold run. rewrite fold_left_app. auto. Qed.
Lemma steps_step s l : steps s (step s l).
Proof. exists [l]. auto. Qed.

Lemma steps_drive1 s k : steps s (drive1 s k).
Proof. unfold drive1. destruct (leaf 64 s k); try apply steps_step. apply steps_refl. Qed.

Lemma steps_drive fuel park s k : steps s (drive fuel park s k).
Proof.
  revert s; induction fuel as [|f IH]; intros s; simpl; [apply steps_refl|].
  destruct (child_done s k); [apply steps_refl|].
  destruct (park && at_gate s k); [apply steps_refl|].
  eapply steps_trans; [apply steps_drive1|apply IH].
Qed.

Lemma steps_fold_drive ps s : steps s (fold_left (fun x i => drive FUEL false x (KS i)) ps s).
Proof.
  revert s; induction ps as [|i t IH]; intros s; simpl; [apply steps_refl|].
  eapply steps_trans; [apply steps_drive|apply IH].
Qed.

Lemma steps_consume fuel ps s : steps s (consume fuel ps s).
Proof.
  revert s; induction fuel as [|f IH]; intros s; [apply steps_refl|].
  cbn [consume].
  destruct (cons s) as [|i todo|i k todo|r|r].
  - destruct (cons (step s LRecv)); try apply (steps_step s LRecv);
      (eapply steps_trans; [apply (steps_step s LRecv)|apply IH]).
  - eapply steps_trans; [apply (steps_step s LH)|apply IH].
  - destruct (child_done s k); (eapply steps_trans; [|apply IH]); [apply (steps_step s LH)|apply steps_drive1].
  - eapply steps_trans; [|apply IH].
    eapply steps_trans; [apply (steps_step s LCStopping)|].
    eapply steps_trans; [|eapply steps_trans; [apply (steps_step _ LCClose)|apply (steps_step _ LFinish)]].
    destruct (post_stop_runs r); [apply steps_fold_drive|apply steps_refl].
  - apply steps_refl.
Qed.

Lemma steps_exec_act ps s st0 a : steps s (fst (exec_act ps (s, st0) a)).
Proof.
  destruct a as [c|c|n|]; cbn [exec_act].
  - destruct (do_call s c) as [k s'] eqn:E. cbn [fst].
    eapply steps_trans; [|apply steps_drive]. replace s' with (step s (LSpawn c)) by (simpl; rewrite E; auto).
    apply steps_step.
  - destruct (do_call s c) as [k s'] eqn:E. cbn [fst].
    eapply steps_trans; [|apply steps_drive]. replace s' with (step s (LSpawn c)) by (simpl; rewrite E; auto).
    apply steps_step.
  - destruct (nth_error st0 n); cbn [fst]; [apply steps_drive|apply steps_refl].
  - apply steps_consume.
Qed.

Theorem exec_reachable ps acts : reachable (exec_ps ps acts).
Proof.
  unfold exec_ps, reachable.
  assert (G : forall xs, steps init (fst xs) -> steps init (fst (fold_left (exec_act ps) acts xs))).
  { induction acts as [|a t IH]; intros xs H; simpl; auto. apply IH.
    destruct xs as [s st0]. eapply steps_trans; [exact H|apply steps_exec_act]. }
  apply (G (init, [])). apply steps_refl.
Qed.
