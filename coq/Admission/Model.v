(* Model of the lock-free send/drain admission handshake of
   ractor/src/actor/actor_properties.rs (message_admission word, send_message,
   send_message_unchecked, try_*_message (the admission attempt), MessageAdmission::drop,
   send_drain_marker, drain) together with the consumer side of
   ractor/src/actor.rs (processing loop: biased priority kill > stop > message,
   the dequeued drain marker becomes a stop with reason "Drained", exit sequence
   Stopping / receiver close+flush / Stopped).

   One model step = one atomic operation of the code. Threads are frames in the
   lists [ss] (send activations) and [ds] (drain activations); a label list is an
   interleaving. Calls issued from inside Message::box_message or from inside a
   message handler are child frames: the parent waits until the child is Done.
   Definitions only; proofs are in Admission/Proofs.v. *)
From Coq Require Import List Arith NArith Bool.
Import ListNotations.

(* ---------- data ---------- *)

(* channel items; a message is identified with the send activation (frame index)
   that offers it, so identities are unique by construction *)
Inductive item := Msg (i : nat) | Marker.

(* the admission word: closed bit, marker-sent bit, in-flight count *)
Record word := mkW { wc : bool; wm : bool; wn : nat }.

(* result of a send: Ok | Err(SendErr(m)) | Err(InvalidActorType) *)
Inductive res := ROk | RErr (m : nat) | RInvalid.

(* calls a thread can make against the actor.  CSend carries the description of
   the message: payload id (only used to print views), wrong (TypeId mismatch),
   boxok (box_message returns Ok), gate (harness parks the thread inside
   box_message; irrelevant for [step]), hfail (its handler returns Err),
   box (calls made from inside box_message), hcalls (calls made by its handler) *)
Inductive call :=
| CSend (pid : nat) (wrong boxok gate hfail : bool) (box hcalls : list call)
| CDrain | CStop | CKill.

Record minfo := mkInfo { pid : nat; wrong : bool; boxok : bool; gate : bool; hfail : bool;
                         box : list call; hcalls : list call }.

(* marker attempt = send_drain_marker: load; loop { give up | CAS }; channel send *)
Inductive ma := MAload | MAcas (w : word) | MAsend | MAdone (ok : bool).

Inductive child := KS (k : nat) | KD (k : nat) | KNone.

(* program counters of a send activation (send_message -> send_message_unchecked) *)
Inductive spc :=
| T0                      (* TypeId check *)
| S0                      (* status.load; >= Draining rejects *)
| S1                      (* try_*_message (the admission attempt): message_admission.load *)
| SA (w : word)           (* closed test on the local copy, then compare_exchange_weak *)
| S2g                     (* granted; entering box_message *)
| S2 (todo : list call)   (* inside box_message: next re-entrant call *)
| S2w (k : child) (todo : list call)   (* waiting for the re-entrant call to return *)
| S3                      (* channel send of the boxed message *)
| S4 (r : res)            (* ticket drop: fetch_sub *)
| SMA (r : res) (a : ma)  (* ticket drop: send_drain_marker *)
| SDone (r : res).

(* drain(): fetch_or closed; status fetch_update; send_drain_marker *)
Inductive dpc := D0 | D1 | DMA (a : ma) | DDone (ok : bool).

Inductive reason := RDrained | RStop | RKilled | RFailed.

(* the actor's processing loop *)
Inductive cpc :=
| CRun                                  (* waiting in listen_in_priority *)
| CH (i : nat) (todo : list call)       (* inside the handler of message i *)
| CHw (i : nat) (k : child) (todo : list call)
| CExit (r : reason)                    (* loop left; Stopping / ports drop pending *)
| CDead (r : reason).                   (* terminal event published, status Stopped *)

(* ghost log of observable events, in real-time order *)
Inductive ev :=
| EBegin (i : nat) (w : bool) | EEnd (i : nat) (r : res) | EDrainEnd (ok : bool)
| EHandle (i : nat) | EExit (r : reason) | EStopReq | EKillReq | EFail.

Record st := mkSt { closed : bool; marker : bool; cnt : nat; status : nat; q : list item; hist : list item; rx_open : bool; mlost : bool; ss : list spc; si : list minfo; ds : list dpc; cons : cpc; taken : list item; stop_req : bool; kill_req : bool; exits : list reason; log : list ev }.

Definition set_closed (s : st) (x : bool) : st :=
  {| closed := x; marker := marker s; cnt := cnt s; status := status s; q := q s; hist := hist s; rx_open := rx_open s; mlost := mlost s; ss := ss s; si := si s; ds := ds s; cons := cons s; taken := taken s; stop_req := stop_req s; kill_req := kill_req s; exits := exits s; log := log s |}.
Definition set_marker (s : st) (x : bool) : st :=
  {| closed := closed s; marker := x; cnt := cnt s; status := status s; q := q s; hist := hist s; rx_open := rx_open s; mlost := mlost s; ss := ss s; si := si s; ds := ds s; cons := cons s; taken := taken s; stop_req := stop_req s; kill_req := kill_req s; exits := exits s; log := log s |}.
Definition set_cnt (s : st) (x : nat) : st :=
  {| closed := closed s; marker := marker s; cnt := x; status := status s; q := q s; hist := hist s; rx_open := rx_open s; mlost := mlost s; ss := ss s; si := si s; ds := ds s; cons := cons s; taken := taken s; stop_req := stop_req s; kill_req := kill_req s; exits := exits s; log := log s |}.
Definition set_status (s : st) (x : nat) : st :=
  {| closed := closed s; marker := marker s; cnt := cnt s; status := x; q := q s; hist := hist s; rx_open := rx_open s; mlost := mlost s; ss := ss s; si := si s; ds := ds s; cons := cons s; taken := taken s; stop_req := stop_req s; kill_req := kill_req s; exits := exits s; log := log s |}.
Definition set_q (s : st) (x : list item) : st :=
  {| closed := closed s; marker := marker s; cnt := cnt s; status := status s; q := x; hist := hist s; rx_open := rx_open s; mlost := mlost s; ss := ss s; si := si s; ds := ds s; cons := cons s; taken := taken s; stop_req := stop_req s; kill_req := kill_req s; exits := exits s; log := log s |}.
Definition set_hist (s : st) (x : list item) : st :=
  {| closed := closed s; marker := marker s; cnt := cnt s; status := status s; q := q s; hist := x; rx_open := rx_open s; mlost := mlost s; ss := ss s; si := si s; ds := ds s; cons := cons s; taken := taken s; stop_req := stop_req s; kill_req := kill_req s; exits := exits s; log := log s |}.
Definition set_rx_open (s : st) (x : bool) : st :=
  {| closed := closed s; marker := marker s; cnt := cnt s; status := status s; q := q s; hist := hist s; rx_open := x; mlost := mlost s; ss := ss s; si := si s; ds := ds s; cons := cons s; taken := taken s; stop_req := stop_req s; kill_req := kill_req s; exits := exits s; log := log s |}.
Definition set_mlost (s : st) (x : bool) : st :=
  {| closed := closed s; marker := marker s; cnt := cnt s; status := status s; q := q s; hist := hist s; rx_open := rx_open s; mlost := x; ss := ss s; si := si s; ds := ds s; cons := cons s; taken := taken s; stop_req := stop_req s; kill_req := kill_req s; exits := exits s; log := log s |}.
Definition set_ss (s : st) (x : list spc) : st :=
  {| closed := closed s; marker := marker s; cnt := cnt s; status := status s; q := q s; hist := hist s; rx_open := rx_open s; mlost := mlost s; ss := x; si := si s; ds := ds s; cons := cons s; taken := taken s; stop_req := stop_req s; kill_req := kill_req s; exits := exits s; log := log s |}.
Definition set_si (s : st) (x : list minfo) : st :=
  {| closed := closed s; marker := marker s; cnt := cnt s; status := status s; q := q s; hist := hist s; rx_open := rx_open s; mlost := mlost s; ss := ss s; si := x; ds := ds s; cons := cons s; taken := taken s; stop_req := stop_req s; kill_req := kill_req s; exits := exits s; log := log s |}.
Definition set_ds (s : st) (x : list dpc) : st :=
  {| closed := closed s; marker := marker s; cnt := cnt s; status := status s; q := q s; hist := hist s; rx_open := rx_open s; mlost := mlost s; ss := ss s; si := si s; ds := x; cons := cons s; taken := taken s; stop_req := stop_req s; kill_req := kill_req s; exits := exits s; log := log s |}.
Definition set_cons (s : st) (x : cpc) : st :=
  {| closed := closed s; marker := marker s; cnt := cnt s; status := status s; q := q s; hist := hist s; rx_open := rx_open s; mlost := mlost s; ss := ss s; si := si s; ds := ds s; cons := x; taken := taken s; stop_req := stop_req s; kill_req := kill_req s; exits := exits s; log := log s |}.
Definition set_taken (s : st) (x : list item) : st :=
  {| closed := closed s; marker := marker s; cnt := cnt s; status := status s; q := q s; hist := hist s; rx_open := rx_open s; mlost := mlost s; ss := ss s; si := si s; ds := ds s; cons := cons s; taken := x; stop_req := stop_req s; kill_req := kill_req s; exits := exits s; log := log s |}.
Definition set_stop_req (s : st) (x : bool) : st :=
  {| closed := closed s; marker := marker s; cnt := cnt s; status := status s; q := q s; hist := hist s; rx_open := rx_open s; mlost := mlost s; ss := ss s; si := si s; ds := ds s; cons := cons s; taken := taken s; stop_req := x; kill_req := kill_req s; exits := exits s; log := log s |}.
Definition set_kill_req (s : st) (x : bool) : st :=
  {| closed := closed s; marker := marker s; cnt := cnt s; status := status s; q := q s; hist := hist s; rx_open := rx_open s; mlost := mlost s; ss := ss s; si := si s; ds := ds s; cons := cons s; taken := taken s; stop_req := stop_req s; kill_req := x; exits := exits s; log := log s |}.
Definition set_exits (s : st) (x : list reason) : st :=
  {| closed := closed s; marker := marker s; cnt := cnt s; status := status s; q := q s; hist := hist s; rx_open := rx_open s; mlost := mlost s; ss := ss s; si := si s; ds := ds s; cons := cons s; taken := taken s; stop_req := stop_req s; kill_req := kill_req s; exits := x; log := log s |}.
Definition set_log (s : st) (x : list ev) : st :=
  {| closed := closed s; marker := marker s; cnt := cnt s; status := status s; q := q s; hist := hist s; rx_open := rx_open s; mlost := mlost s; ss := ss s; si := si s; ds := ds s; cons := cons s; taken := taken s; stop_req := stop_req s; kill_req := kill_req s; exits := exits s; log := x |}.

Definition init : st :=
  {| closed := false; marker := false; cnt := 0; status := 2; q := []; hist := [];
     rx_open := true; mlost := false; ss := []; si := []; ds := []; cons := CRun;
     taken := []; stop_req := false; kill_req := false; exits := []; log := [] |}.

(* ---------- helpers ---------- *)

Fixpoint upd {A} (l : list A) (i : nat) (x : A) : list A :=
  match l, i with
  | [], _ => []
  | _ :: t, O => x :: t
  | h :: t, S i => h :: upd t i x
  end.

Definition cur (s : st) : word := mkW (closed s) (marker s) (cnt s).
Definition word_eqb (a b : word) : bool :=
  Bool.eqb (wc a) (wc b) && Bool.eqb (wm a) (wm b) && Nat.eqb (wn a) (wn b).

Definition add_log (s : st) (e : ev) : st := set_log s (log s ++ [e]).

(* successful channel send *)
Definition enqueue (s : st) (x : item) : st :=
  set_hist (set_q s (q s ++ [x])) (hist s ++ [x]).

Definition info_of (c : call) : minfo :=
  match c with
  | CSend p w b g f bx hc => mkInfo p w b g f bx hc
  | _ => mkInfo 0 false true false false [] []
  end.

Definition child_done (s : st) (k : child) : bool :=
  match k with
  | KS k => match nth_error (ss s) k with Some (SDone _) => true | _ => false end
  | KD k => match nth_error (ds s) k with Some (DDone _) => true | _ => false end
  | KNone => true
  end.

(* a thread begins a call: a new frame (send, drain) or an immediate request *)
Definition do_call (s : st) (c : call) : child * st :=
  match c with
  | CSend _ w _ _ _ _ _ =>
      (KS (length (ss s)),
       add_log (set_si (set_ss s (ss s ++ [T0])) (si s ++ [info_of c])) (EBegin (length (ss s)) w))
  | CDrain => (KD (length (ds s)), set_ds s (ds s ++ [D0]))
  | CStop => (KNone, add_log (set_stop_req s true) EStopReq)
  | CKill => (KNone, add_log (set_kill_req s true) EKillReq)
  end.

(* one atomic step of send_drain_marker; fail = spurious compare_exchange_weak failure *)
Definition ma_step (fail : bool) (s : st) (a : ma) : ma * st :=
  match a with
  | MAload => (MAcas (cur s), s)
  | MAcas w =>
      if negb (wc w) || negb (wn w =? 0) || wm w then (MAdone true, s)
      else if negb fail && word_eqb w (cur s) then (MAsend, set_marker s true)
      else (MAcas (cur s), s)
  | MAsend => if rx_open s then (MAdone true, enqueue s Marker)
              else (MAdone false, set_mlost s true)
  | MAdone b => (MAdone b, s)
  end.

Definition set_spc (s : st) (i : nat) (p : spc) : st := set_ss s (upd (ss s) i p).
Definition set_dpc (s : st) (j : nat) (p : dpc) : st := set_ds s (upd (ds s) j p).
Definition s_finish (s : st) (i : nat) (r : res) : st :=
  add_log (set_spc s i (SDone r)) (EEnd i r).

Definition sstep (fail : bool) (s : st) (i : nat) : st :=
  match nth_error (ss s) i, nth_error (si s) i with
  | Some p, Some inf =>
    match p with
    | T0 => if wrong inf then s_finish s i RInvalid else set_spc s i S0
    | S0 => if 4 <=? status s then s_finish s i (RErr i) else set_spc s i S1
    | S1 => set_spc s i (SA (cur s))
    | SA w => if wc w then s_finish s i (RErr i)
              else if negb fail && word_eqb w (cur s)
                   then set_spc (set_cnt s (S (cnt s))) i S2g
                   else set_spc s i (SA (cur s))
    | S2g => set_spc s i (S2 (box inf))
    | S2 [] => if boxok inf then set_spc s i S3 else set_spc s i (S4 RInvalid)
    | S2 (c :: todo) => let '(k, s') := do_call s c in set_spc s' i (S2w k todo)
    | S2w k todo => if child_done s k then set_spc s i (S2 todo) else s
    | S3 => if rx_open s then set_spc (enqueue s (Msg i)) i (S4 ROk)
            else set_spc s i (S4 (RErr i))
    | S4 r => let s' := set_cnt s (pred (cnt s)) in
              if closed s && (cnt s =? 1) then set_spc s' i (SMA r MAload)
              else s_finish s' i r
    | SMA r a => let '(a', s') := ma_step fail s a in
                 match a' with
                 | MAdone _ => s_finish s' i r
                 | _ => set_spc s' i (SMA r a')
                 end
    | SDone _ => s
    end
  | _, _ => s
  end.

Definition dstep (fail : bool) (s : st) (j : nat) : st :=
  match nth_error (ds s) j with
  | Some p =>
    match p with
    | D0 => set_dpc (set_closed s true) j D1
    | D1 => set_dpc (set_status s (if status s <? 5 then 4 else status s)) j (DMA MAload)
    | DMA a => let '(a', s') := ma_step fail s a in
               match a' with
               | MAdone ok => add_log (set_dpc s' j (DDone ok)) (EDrainEnd ok)
               | _ => set_dpc s' j (DMA a')
               end
    | DDone _ => s
    end
  | None => s
  end.

Definition hcalls_of (s : st) (i : nat) : list call :=
  match nth_error (si s) i with Some inf => hcalls inf | None => [] end.
Definition hfail_of (s : st) (i : nat) : bool :=
  match nth_error (si s) i with Some inf => hfail inf | None => false end.

(* listen_in_priority (biased select): kill, stop, then the message channel *)
Definition recv_step (s : st) : st :=
  match cons s with
  | CRun =>
      if kill_req s then set_cons s (CExit RKilled)
      else if stop_req s then set_cons s (CExit RStop)
      else if rx_open s then
        match q s with
        | Msg i :: rest =>
            add_log (set_cons (set_taken (set_q s rest) (taken s ++ [Msg i])) (CH i (hcalls_of s i)))
                    (EHandle i)
        | Marker :: rest =>
            set_cons (set_taken (set_q s rest) (taken s ++ [Marker])) (CExit RDrained)
        | [] => s
        end
      else s
  | _ => s
  end.

(* the handler of the current message advances by one call *)
Definition handler_step (s : st) : st :=
  match cons s with
  | CH i [] => if hfail_of s i then add_log (set_cons s (CExit RFailed)) EFail else set_cons s CRun
  | CH i (c :: todo) => let '(k, s') := do_call s c in set_cons s' (CHw i k todo)
  | CHw i k todo => if child_done s k then set_cons s (CH i todo) else s
  | _ => s
  end.

Definition in_handler (c : cpc) : bool :=
  match c with CH _ _ | CHw _ _ _ => true | _ => false end.
Definition alive (c : cpc) : bool :=
  match c with CRun | CH _ _ | CHw _ _ _ => true | _ => false end.

Inductive label :=
| LSpawn (c : call)      (* some thread begins a call on the actor *)
| LS (i : nat) | LSf (i : nat)   (* send activation i steps (f: a weak CAS fails spuriously) *)
| LD (j : nat) | LDf (j : nat)   (* drain activation j steps *)
| LRecv                  (* the loop polls its ports *)
| LH                     (* the current handler advances *)
| LKillNow               (* a pending kill interrupts the running handler *)
| LCrash                 (* panic / failure of the actor *)
| LCStopping             (* exit: status.fetch_max(Stopping) *)
| LCClose                (* exit: ports dropped: receiver closed and flushed *)
| LFinish.               (* exit: terminal event, status Stopped *)

Definition step (s : st) (l : label) : st :=
  match l with
  | LSpawn c => snd (do_call s c)
  | LS i => sstep false s i
  | LSf i => sstep true s i
  | LD j => dstep false s j
  | LDf j => dstep true s j
  | LRecv => recv_step s
  | LH => handler_step s
  | LKillNow => if in_handler (cons s) && kill_req s then set_cons s (CExit RKilled) else s
  | LCrash => if alive (cons s) then add_log (set_cons s (CExit RFailed)) EFail else s
  | LCStopping => match cons s with CExit _ => set_status s (Nat.max (status s) 5) | _ => s end
  | LCClose => match cons s with CExit _ => set_q (set_rx_open s false) [] | _ => s end
  | LFinish => match cons s with
               | CExit r => if rx_open s then s
                            else add_log (set_exits (set_status (set_cons s (CDead r)) (Nat.max (status s) 6)) (exits s ++ [r])) (EExit r)
               | _ => s
               end
  end.

Definition run (s : st) (ls : list label) : st := fold_left step ls s.
Definition reachable (s : st) : Prop := exists ls, s = run init ls.

(* ---------- observations ---------- *)

Fixpoint ids (l : list item) : list nat :=
  match l with [] => [] | Msg i :: t => i :: ids t | Marker :: t => ids t end.
Fixpoint markers (l : list item) : nat :=
  match l with [] => 0 | Marker :: t => S (markers t) | _ :: t => markers t end.

Definition accepted (s : st) : list nat := ids (hist s).   (* in acceptance (= enqueue) order *)
Definition handled (s : st) : list nat := ids (taken s).   (* in handling order *)

Definition s_done (p : spc) : bool := match p with SDone _ => true | _ => false end.
Definition d_done (p : dpc) : bool := match p with DDone _ => true | _ => false end.
Definition all_done (s : st) : bool := forallb s_done (ss s) && forallb d_done (ds s).
Definition result (s : st) (i : nat) : option res :=
  match nth_error (ss s) i with Some (SDone r) => Some r | _ => None end.

(* ---------- deterministic drivers used by the correspondence runs ----------
   Every function below is a composition of [step]s, so each state it produces is
   [run init ls] for some label list (Proofs.exec_reachable). *)

(* the innermost frame that can move on behalf of frame k *)
Fixpoint leaf (fuel : nat) (s : st) (k : child) : child :=
  match fuel with
  | O => k
  | S f =>
    match k with
    | KS i => match nth_error (ss s) i with
              | Some (S2w ch _) => if child_done s ch then k else leaf f s ch
              | _ => k
              end
    | _ => k
    end
  end.

Definition drive1 (s : st) (k : child) : st :=
  match leaf 64 s k with
  | KS i => step s (LS i)
  | KD j => step s (LD j)
  | KNone => s
  end.

Definition at_gate (s : st) (k : child) : bool :=
  match k with
  | KS i => match nth_error (ss s) i with Some S2g => true | _ => false end
  | _ => false
  end.

(* run the call k until it returns (or, for a gated send, until its thread is parked
   inside box_message) *)
Fixpoint drive (fuel : nat) (park : bool) (s : st) (k : child) : st :=
  match fuel with
  | O => s
  | S f => if child_done s k then s
           else if park && at_gate s k then s
           else drive f park (drive1 s k) k
  end.

Definition FUEL : nat := 4000.

(* post_stop runs after a graceful loop exit only (not after kill / failure) *)
Definition post_stop_runs (r : reason) : bool :=
  match r with RDrained | RStop => true | _ => false end.

(* let the actor run until it is idle or dead. [ps]: send frames (threads parked in
   box_message) that the harness actor's post_stop releases and waits for - post_stop runs
   after Stopping was published and before the ports are dropped *)
Fixpoint consume (fuel : nat) (ps : list nat) (s : st) : st :=
  match fuel with
  | O => s
  | S f =>
    match cons s with
    | CRun => let s' := step s LRecv in
              match cons s' with CRun => s' | _ => consume f ps s' end
    | CH _ _ => consume f ps (step s LH)
    | CHw _ k _ => if child_done s k then consume f ps (step s LH) else consume f ps (drive1 s k)
    | CExit r =>
        let s1 := step s LCStopping in
        let s2 := if post_stop_runs r
                  then fold_left (fun x i => drive FUEL false x (KS i)) ps s1 else s1 in
        consume f ps (step (step s2 LCClose) LFinish)
    | CDead _ => s
    end
  end.

(* driver actions of the harness *)
Inductive act :=
| ADo (c : call)        (* the driver performs the call inline, to completion *)
| AStart (c : call)     (* a new OS thread performs a gated send: runs until parked in box_message *)
| ARelease (n : nat)    (* the n-th started thread is released and runs to completion *)
| AConsume.             (* the actor task runs until quiescent *)

Definition resolve (started : list nat) (ps : list nat) : list nat :=
  flat_map (fun n => match nth_error started n with Some i => [i] | None => [] end) ps.

Definition exec_act (ps : list nat) (xs : st * list nat) (a : act) : st * list nat :=
  let '(s, started) := xs in
  match a with
  | ADo c => let '(k, s') := do_call s c in (drive FUEL false s' k, started)
  | AStart c => let '(k, s') := do_call s c in
                (drive FUEL true s' k, started ++ [match k with KS i => i | _ => 0 end])
  | ARelease n => match nth_error started n with
                  | Some i => (drive FUEL false s (KS i), started)
                  | None => (s, started)
                  end
  | AConsume => (consume FUEL (resolve started ps) s, started)
  end.

(* ps: start-order indices of the threads released by post_stop *)
Definition exec_ps (ps : list nat) (acts : list act) : st :=
  fst (fold_left (exec_act ps) acts (init, [])).
Definition exec (acts : list act) : st := exec_ps [] acts.

(* the view compared with the implementation: the event log with payload ids in
   place of frame indices, and the final lifecycle status *)
Definition pid_of (s : st) (i : nat) : nat :=
  match nth_error (si s) i with Some inf => pid inf | None => 0 end.
Definition res_map (f : nat -> nat) (r : res) : res :=
  match r with RErr m => RErr (f m) | _ => r end.
Definition ev_map (f : nat -> nat) (e : ev) : ev :=
  match e with
  | EBegin i w => EBegin (f i) w
  | EEnd i r => EEnd (f i) (res_map f r)
  | EHandle i => EHandle (f i)
  | _ => e
  end.
Definition view (s : st) : list ev * nat := (map (ev_map (pid_of s)) (log s), status s).

(* all calls have returned and the actor can make no further move on its own *)
Definition complete (s : st) : bool :=
  all_done s &&
  match cons s with
  | CDead _ => true
  | CRun => match q s with [] => negb (stop_req s) && negb (kill_req s) | _ => false end
  | _ => false
  end.

(* ---------- executable oracles on event logs (model or implementation) ---------- *)

Definition mem (x : nat) (l : list nat) : bool := existsb (Nat.eqb x) l.
Definition subset (a b : list nat) : bool := forallb (fun x => mem x b) a.

Fixpoint snap_of (i : nat) (l : list (nat * list nat)) : list nat :=
  match l with
  | [] => []
  | (j, sn) :: t => if Nat.eqb i j then sn else snap_of i t
  end.

(* C02: at most once, never a rejected one, nothing after the exit, real-time order
   (a send that had returned Ok before send j began is handled before j), a wrong-typed
   send is rejected (InvalidActorType, or SendErr with the message handed back when the actor
   no longer accepts anything) and is never handled, and - when the actor is still alive
   and idle at the end - every Ok send was handled *)
Record o2 := mkO2 { b_begun : list nat; b_snap : list (nat * list nat); b_ok : list nat;
                    b_rej : list nat; b_ended : list nat; b_handled : list nat;
                    b_exited : bool; b_wrong : list nat; b_bad : bool }.

Definition o2_init : o2 := mkO2 [] [] [] [] [] [] false [] false.
Definition o2_fail (o : o2) : o2 :=
  mkO2 (b_begun o) (b_snap o) (b_ok o) (b_rej o) (b_ended o) (b_handled o) (b_exited o) (b_wrong o) true.

(* rt = false skips the real-time-order clause (cubic in the log length; long-backlog logs use the
   remaining clauses only - a weaker check, accepted whenever the full one is) *)
Definition o2_step (rt : bool) (o : o2) (e : ev) : o2 :=
  match e with
  | EBegin i w =>
      if mem i (b_begun o) then o2_fail o
      else mkO2 (i :: b_begun o) ((i, b_ok o) :: b_snap o) (b_ok o) (b_rej o) (b_ended o)
                (b_handled o) (b_exited o) (if w then i :: b_wrong o else b_wrong o) (b_bad o)
  | EEnd i r =>
      if negb (mem i (b_begun o)) || mem i (b_ended o) then o2_fail o
      else match r with
           | ROk =>
               if mem i (b_wrong o) then o2_fail o
               else mkO2 (b_begun o) (b_snap o) (i :: b_ok o) (b_rej o) (i :: b_ended o)
                         (b_handled o) (b_exited o) (b_wrong o) (b_bad o)
           | RErr m =>
               if Nat.eqb m i && negb (mem i (b_handled o))
               then mkO2 (b_begun o) (b_snap o) (b_ok o) (i :: b_rej o) (i :: b_ended o)
                         (b_handled o) (b_exited o) (b_wrong o) (b_bad o)
               else o2_fail o
           | RInvalid =>
               if mem i (b_handled o) then o2_fail o
               else mkO2 (b_begun o) (b_snap o) (b_ok o) (i :: b_rej o) (i :: b_ended o)
                         (b_handled o) (b_exited o) (b_wrong o) (b_bad o)
           end
  | EHandle i =>
      if mem i (b_handled o) || mem i (b_rej o) || negb (mem i (b_begun o)) || b_exited o
         || mem i (b_wrong o)
         || (if rt then negb (subset (snap_of i (b_snap o)) (b_handled o)) else false)
      then o2_fail o
      else mkO2 (b_begun o) (b_snap o) (b_ok o) (b_rej o) (b_ended o) (i :: b_handled o)
                (b_exited o) (b_wrong o) (b_bad o)
  | EExit _ => mkO2 (b_begun o) (b_snap o) (b_ok o) (b_rej o) (b_ended o) (b_handled o) true
                    (b_wrong o) (b_bad o)
  | _ => o
  end.

Definition check_C02_gen (rt alive_idle : bool) (l : list ev) : bool :=
  let o := fold_left (o2_step rt) l o2_init in
  negb (b_bad o) && (if alive_idle then subset (b_ok o) (b_handled o) else true).
Definition check_C02 : bool -> list ev -> bool := check_C02_gen true.
Definition check_C02_lite : bool -> list ev -> bool := check_C02_gen false.

(* C07: sends begun after a drain returned get their message back; at most one exit; a
   Drained exit only after every Ok send was handled; and, when every call has returned
   and the actor has had its chance to run (complete), a drain without stop / kill /
   failure ends in exactly one exit with reason Drained *)
Record o7 := mkO7 { d_drained : bool; d_late : list nat; d_wrong : list nat; d_ok : list nat;
                    d_handled : list nat; d_exits : list reason; d_interv : bool; d_bad : bool }.

Definition o7_init : o7 := mkO7 false [] [] [] [] [] false false.

Definition reason_drained (r : reason) : bool := match r with RDrained => true | _ => false end.

Definition o7_step (o : o7) (e : ev) : o7 :=
  match e with
  | EDrainEnd _ => mkO7 true (d_late o) (d_wrong o) (d_ok o) (d_handled o) (d_exits o) (d_interv o) (d_bad o)
  | EBegin i w =>
      mkO7 (d_drained o) (if d_drained o then i :: d_late o else d_late o)
           (if w then i :: d_wrong o else d_wrong o) (d_ok o) (d_handled o) (d_exits o)
           (d_interv o) (d_bad o)
  | EEnd i r =>
      let good := if mem i (d_late o)
                  then match r with
                       | RErr m => Nat.eqb m i
                       | RInvalid => mem i (d_wrong o)
                       | ROk => false
                       end
                  else true in
      mkO7 (d_drained o) (d_late o) (d_wrong o)
           (match r with ROk => i :: d_ok o | _ => d_ok o end) (d_handled o) (d_exits o)
           (d_interv o) (d_bad o || negb good)
  | EHandle i => mkO7 (d_drained o) (d_late o) (d_wrong o) (d_ok o) (i :: d_handled o) (d_exits o)
                      (d_interv o) (d_bad o)
  | EExit r => mkO7 (d_drained o) (d_late o) (d_wrong o) (d_ok o) (d_handled o) (d_exits o ++ [r])
                    (d_interv o) (d_bad o || match d_exits o with [] => false | _ => true end)
  | EStopReq | EKillReq | EFail =>
      mkO7 (d_drained o) (d_late o) (d_wrong o) (d_ok o) (d_handled o) (d_exits o) true (d_bad o)
  end.

Definition only_drained (l : list reason) : bool :=
  match l with [r] => reason_drained r | _ => false end.

(* repeated / late drains are harmless also for the lifecycle status: once the terminal event has been
   published the status observed afterwards is Stopped (rank 6), whatever drains were issued since *)
Definition check_status (l : list ev) (st : nat) : bool :=
  match d_exits (fold_left o7_step l o7_init) with
  | [] => true
  | _ => 6 <=? st
  end.

Definition check_C07 (compl : bool) (l : list ev) : bool :=
  let o := fold_left o7_step l o7_init in
  negb (d_bad o)
  && (if only_drained (d_exits o) then subset (d_ok o) (d_handled o) else true)
  && (if compl && d_drained o && negb (d_interv o) then only_drained (d_exits o) else true).
