(* Proofs about the leaky bucket model (Ratelim/Model.v). *)
From Coq Require Import List NArith Bool Lia.
From RV Require Import Ratelim.Model.
Import ListNotations.
Local Open Scope N_scope.

(* ------------------------------------------------------------------ *)
(* the saturating helpers never exceed the exact result                *)

Lemma sat_add_le m x y : sat_add m x y <= x + y.
Proof. unfold sat_add. destruct (N.leb_spec (x + y) m); lia. Qed.

Lemma sat_add_exact m x y : x + y <= m -> sat_add m x y = x + y.
Proof. unfold sat_add. intros H. destruct (N.leb_spec (x + y) m); lia. Qed.

Lemma sat_mul_le m x y : sat_mul m x y <= x * y.
Proof. unfold sat_mul. destruct (N.leb_spec (x * y) m); lia. Qed.

Lemma sat_mul_exact m x y : x * y <= m -> sat_mul m x y = x * y.
Proof. unfold sat_mul. intros H. destruct (N.leb_spec (x * y) m); lia. Qed.

Lemma clamp_le m x : clamp m x <= x.
Proof. unfold clamp. destruct (N.leb_spec x m); lia. Qed.

Lemma clamp_min m x : clamp m x = N.min x m.
Proof. unfold clamp. destruct (N.leb_spec x m); lia. Qed.

Lemma clamp_exact m x : x <= m -> clamp m x = x.
Proof. unfold clamp. intros H. destruct (N.leb_spec x m); lia. Qed.

Lemma checked_add_some c t d x : checked_add c t d = Some x -> x = t + d /\ t + d <= instant_max c.
Proof. unfold checked_add. destruct (N.leb_spec (t + d) (instant_max c)); intros E; inversion E; lia. Qed.

(* ------------------------------------------------------------------ *)
(* what one refresh can do                                             *)

(* the duration rebuilt from (seconds, subsec) never exceeds the remainder it came from *)
Lemma rebuilt_le rem :
  clamp u64_max (rem / ns_per_s) * ns_per_s + clamp u32_max (rem mod ns_per_s) <= rem.
Proof.
  pose proof (clamp_le u64_max (rem / ns_per_s)) as H1.
  pose proof (clamp_le u32_max (rem mod ns_per_s)) as H2.
  assert (Hn : ns_per_s <> 0) by (unfold ns_per_s; lia).
  pose proof (N.div_mod rem ns_per_s Hn) as E.
  assert (clamp u64_max (rem / ns_per_s) * ns_per_s <= (rem / ns_per_s) * ns_per_s)
    by (apply N.mul_le_mono_r; exact H1).
  lia.
Qed.

Lemma rebuilt_exact rem :
  rem <= dur_max ->
  clamp u64_max (rem / ns_per_s) * ns_per_s + clamp u32_max (rem mod ns_per_s) = rem.
Proof.
  intros Hr.
  assert (Hn : ns_per_s <> 0) by (unfold ns_per_s; lia).
  pose proof (N.div_mod rem ns_per_s Hn) as E.
  pose proof (N.mod_lt rem ns_per_s Hn) as Hm.
  rewrite !clamp_exact.
  - lia.
  - clear E. unfold u32_max, ns_per_s in *. lia.
  - apply N.lt_succ_r. apply N.div_lt_upper_bound; [exact Hn|].
    unfold dur_max, u64_max, ns_per_s in *. lia.
Qed.

(* number of interval boundaries d, d+I, d+2I, ... that are <= now *)
Definition periods_at (c : cfg) (d now : N) : N := (now - d) / interval c + 1.

Lemma refresh_noop_none c b now : deadline b = None -> refresh c b now = b.
Proof. unfold refresh. intros ->. reflexivity. Qed.

Lemma refresh_noop_early c b now d : deadline b = Some d -> now < d -> refresh c b now = b.
Proof.
  unfold refresh. intros -> H. destruct (N.ltb_spec now d); [reflexivity|lia].
Qed.

(* interval > 0, deadline reached: at most periods*refill tokens are credited and the
   next deadline (if representable) is at least `periods` intervals later *)
Lemma refresh_due c b now d :
  interval c <> 0 -> deadline b = Some d -> d <= now ->
  let k := periods_at c d now in
  balance (refresh c b now) <= balance b + k * refill c
  /\ balance (refresh c b now) <= N.max (balance b) (maxb c)
  /\ match deadline (refresh c b now) with
     | None => True
     | Some d' => d + k * interval c <= d'
     end.
Proof.
  intros HI Hd Hle k. unfold refresh. rewrite Hd.
  destruct (N.ltb_spec now d) as [Hlt|_]; [lia|].
  destruct (N.eqb_spec (interval c) 0) as [E|_]; [contradiction|].
  cbn [balance deadline].
  set (since := now - d).
  set (per := clamp (usize_max c) (sat_add u128_max (since / interval c) 1)).
  assert (Hper : per <= k).
  { unfold per, k, periods_at. fold since.
    pose proof (clamp_le (usize_max c) (sat_add u128_max (since / interval c) 1)).
    pose proof (sat_add_le u128_max (since / interval c) 1). lia. }
  set (tok := N.min (sat_mul (usize_max c) per (refill c)) (max_lb c)).
  assert (Htok : tok <= k * refill c).
  { unfold tok. pose proof (sat_mul_le (usize_max c) per (refill c)).
    assert (per * refill c <= k * refill c) by (apply N.mul_le_mono_r; exact Hper). lia. }
  pose proof (sat_add_le (usize_max c) (balance b) tok) as Hsa.
  split; [lia|]. split; [lia|].
  set (rem := since mod interval c).
  set (dur := clamp u64_max (rem / ns_per_s) * ns_per_s + clamp u32_max (rem mod ns_per_s)).
  destruct (checked_add c now (interval c - dur)) as [d'|] eqn:Eca; [|exact I].
  apply checked_add_some in Eca. destruct Eca as [-> _].
  assert (Hdur : dur <= rem) by apply rebuilt_le.
  assert (Hrem : rem < interval c) by (apply N.mod_lt; exact HI).
  pose proof (N.div_mod since (interval c) HI) as Edm. fold rem in Edm.
  unfold k, periods_at. fold since.
  assert (now = d + since) by (unfold since; lia).
  nia.
Qed.

Lemma refresh_zero c b now d :
  interval c = 0 -> deadline b = Some d -> d <= now ->
  balance (refresh c b now) <= balance b + refill c
  /\ deadline (refresh c b now) = Some now.
Proof.
  intros HI Hd Hle. unfold refresh. rewrite Hd.
  destruct (N.ltb_spec now d) as [Hlt|_]; [lia|].
  rewrite HI. cbn [N.eqb balance deadline].
  pose proof (sat_add_le (usize_max c) (balance b) (refill c)). split; [lia|reflexivity].
Qed.

(* exact value of a refresh when no machine bound is touched *)
Lemma refresh_exact c b now d :
  interval c <> 0 -> interval c <= dur_max -> deadline b = Some d -> d <= now ->
  let k := periods_at c d now in
  k <= usize_max c -> k <= u128_max ->
  k * refill c <= max_lb c -> balance b + k * refill c <= usize_max c ->
  d + k * interval c <= instant_max c ->
  refresh c b now = mkB (N.min (balance b + k * refill c) (maxb c)) (Some (d + k * interval c)).
Proof.
  intros HI HImax Hd Hle k Hk1 Hk2 Hk3 Hk4 Hk5. unfold refresh. rewrite Hd.
  destruct (N.ltb_spec now d) as [Hlt|_]; [lia|].
  destruct (N.eqb_spec (interval c) 0) as [E|_]; [contradiction|].
  set (since := now - d).
  assert (Hmaxlb : max_lb c <= usize_max c).
  { unfold max_lb. apply N.div_le_upper_bound; lia. }
  assert (Ek : sat_add u128_max (since / interval c) 1 = k).
  { unfold k, periods_at. fold since. apply sat_add_exact. unfold k, periods_at in Hk2. fold since in Hk2. lia. }
  rewrite Ek. rewrite (clamp_exact (usize_max c) k Hk1).
  rewrite (sat_mul_exact (usize_max c) k (refill c)) by lia.
  rewrite (N.min_l (k * refill c) (max_lb c) Hk3).
  rewrite (sat_add_exact (usize_max c) (balance b) (k * refill c) Hk4).
  set (rem := since mod interval c).
  assert (Hrem : rem < interval c) by (apply N.mod_lt; exact HI).
  rewrite rebuilt_exact by lia.
  pose proof (N.div_mod since (interval c) HI) as Edm. fold rem in Edm.
  assert (En : now + (interval c - rem) = d + k * interval c).
  { unfold k, periods_at. fold since. assert (now = d + since) by (unfold since; lia). nia. }
  unfold checked_add. rewrite En.
  destruct (N.leb_spec (d + k * interval c) (instant_max c)); [reflexivity|lia].
Qed.

(* ------------------------------------------------------------------ *)
(* C15_bucket_cap                                                      *)

Lemma refresh_cap c b now : balance b <= maxb c -> balance (refresh c b now) <= maxb c.
Proof.
  intros H. unfold refresh. destruct (deadline b) as [d|]; [|exact H].
  destruct (now <? d); [exact H|].
  destruct (interval c =? 0); cbn [balance]; lia.
Qed.

Lemma bump_le b : balance (bump b) <= balance b.
Proof. unfold bump. destruct (N.ltb_spec 0 (balance b)); cbn [balance]; lia. Qed.

Lemma bump_deadline b : deadline (bump b) = deadline b.
Proof. unfold bump. destruct (0 <? balance b); reflexivity. Qed.

Lemma step_cap c b o : balance b <= maxb c -> balance (step c b o) <= maxb c.
Proof.
  destruct o as [t|]; cbn [step]; intros H; [apply refresh_cap; exact H|].
  pose proof (bump_le b). lia.
Qed.

Lemma new_cap c initial now : balance (new c initial now) <= maxb c.
Proof. unfold new. cbn [balance]. lia. Qed.

Lemma run_cap c ops : forall b, balance b <= maxb c -> balance (run c b ops) <= maxb c.
Proof.
  unfold run. induction ops as [|o r IH]; intros b H; cbn [fold_left]; [exact H|].
  apply IH. apply step_cap. exact H.
Qed.

(* every prefix: the cap holds at every moment of every history *)
Theorem bucket_cap c initial now ops1 ops2 :
  balance (run c (new c initial now) ops1) <= maxb c
  /\ balance (run c (new c initial now) (ops1 ++ ops2)) <= maxb c.
Proof. split; apply run_cap; apply new_cap. Qed.

(* ------------------------------------------------------------------ *)
(* C15_bucket_window                                                   *)

(* tokens that may still be credited up to instant t1, given the current deadline *)
Definition credit (c : cfg) (t1 : N) (dl : option N) : N :=
  match dl with
  | None => 0
  | Some d => if t1 <? d then 0 else refill c * ((t1 - d) / interval c + 1)
  end.

Lemma div_shift a k i : i <> 0 -> k * i <= a -> (a - k * i) / i = a / i - k.
Proof.
  intros Hi Hle.
  assert (H : (a - k * i + k * i) / i = (a - k * i) / i + k) by (apply N.div_add; exact Hi).
  rewrite N.sub_add in H by exact Hle. rewrite H. symmetry. apply N.add_sub.
Qed.

Lemma refresh_potential c b now t1 :
  interval c <> 0 -> now <= t1 ->
  balance (refresh c b now) + credit c t1 (deadline (refresh c b now))
  <= balance b + credit c t1 (deadline b).
Proof.
  intros HI Hnow.
  destruct (deadline b) as [d|] eqn:Hd.
  2:{ rewrite refresh_noop_none by exact Hd. rewrite Hd. lia. }
  destruct (N.lt_ge_cases now d) as [Hlt|Hge].
  { rewrite (refresh_noop_early c b now d Hd Hlt). rewrite Hd. lia. }
  pose proof (refresh_due c b now d HI Hd Hge) as (Hb & _ & Hdl).
  set (k := periods_at c d now) in *.
  cbn [credit]. destruct (N.ltb_spec t1 d) as [Hx|_]; [lia|].
  (* k <= (t1-d)/I + 1 *)
  assert (Hk : k <= (t1 - d) / interval c + 1).
  { unfold k, periods_at. apply N.add_le_mono_r. apply N.div_le_mono; [exact HI|lia]. }
  destruct (deadline (refresh c b now)) as [d'|]; cbn [credit].
  2:{ assert (k * refill c <= ((t1 - d) / interval c + 1) * refill c)
        by (apply N.mul_le_mono_r; exact Hk). lia. }
  destruct (N.ltb_spec t1 d') as [Hy|Hy].
  { assert (k * refill c <= ((t1 - d) / interval c + 1) * refill c)
      by (apply N.mul_le_mono_r; exact Hk). lia. }
  (* d + k*I <= d' <= t1 *)
  assert (Hq : (t1 - d') / interval c <= (t1 - d) / interval c - k).
  { rewrite <- (div_shift (t1 - d) k (interval c) HI) by lia.
    apply N.div_le_mono; [exact HI|lia]. }
  assert (Hkq : k <= (t1 - d) / interval c).
  { assert (k * interval c <= t1 - d) by lia.
    apply N.div_le_lower_bound; [exact HI|lia]. }
  assert (refill c * ((t1 - d') / interval c + 1) + k * refill c
          <= refill c * ((t1 - d) / interval c + 1)) by nia.
  lia.
Qed.

Lemma window_potential c t1 ops :
  interval c <> 0 -> Forall (op_time_le t1) ops ->
  forall b, granted c b ops <= balance b + credit c t1 (deadline b).
Proof.
  intros HI. induction 1 as [|o r Ho _ IH]; intros b; cbn [granted]; [lia|].
  destruct o as [t|].
  - cbn [op_time_le] in Ho. specialize (IH (refresh c b t)).
    pose proof (refresh_potential c b t t1 HI Ho). lia.
  - specialize (IH (bump b)). rewrite bump_deadline in IH.
    unfold bump in *. destruct (N.ltb_spec 0 (balance b)); cbn [balance] in *; lia.
Qed.

Lemma credit_fresh c b t0 t1 :
  interval c <> 0 -> fresh b t0 ->
  credit c t1 (deadline b) <= refill c * ((t1 - t0) / interval c + 1).
Proof.
  intros HI Hf. unfold fresh in Hf. destruct (deadline b) as [d|]; cbn [credit]; [|apply N.le_0_l].
  destruct (N.ltb_spec t1 d); [apply N.le_0_l|].
  apply N.mul_le_mono_l. apply N.add_le_mono_r. apply N.div_le_mono; [exact HI|lia].
Qed.

(* The window bound.  b is ANY bucket state (not only reachable ones) for which nothing can
   be credited at or before t0; ops is ANY sequence of checks and bumps whose checks happen
   no later than t1 (no ordering assumed). *)
Theorem bucket_window c b ops t0 t1 :
  0 < interval c -> fresh b t0 -> Forall (op_time_le t1) ops ->
  granted c b ops <= balance b + refill c * ((t1 - t0) / interval c + 1).
Proof.
  intros HI Hf Hops. assert (HI' : interval c <> 0) by lia.
  pose proof (window_potential c t1 ops HI' Hops b).
  pose proof (credit_fresh c b t0 t1 HI' Hf). lia.
Qed.

(* observation points: a check at t0, and creation at t0, leave a state fresh at t0 *)
Lemma fresh_after_refresh c b t0 : 0 < interval c -> fresh (refresh c b t0) t0.
Proof.
  intros HI. assert (HI' : interval c <> 0) by lia. unfold fresh.
  destruct (deadline b) as [d|] eqn:Hd.
  2:{ rewrite refresh_noop_none by exact Hd. rewrite Hd. exact I. }
  destruct (N.lt_ge_cases t0 d) as [Hlt|Hge].
  { rewrite (refresh_noop_early c b t0 d Hd Hlt). rewrite Hd. exact Hlt. }
  pose proof (refresh_due c b t0 d HI' Hd Hge) as (_ & _ & Hdl).
  destruct (deadline (refresh c b t0)) as [d'|]; [|exact I].
  unfold periods_at in Hdl.
  pose proof (N.div_mod (t0 - d) (interval c) HI') as Edm.
  pose proof (N.mod_lt (t0 - d) (interval c) HI') as Hm.
  set (q := (t0 - d) / interval c) in *. set (r := (t0 - d) mod interval c) in *.
  nia.
Qed.

Lemma fresh_new c initial t0 : 0 < interval c -> fresh (new c initial t0) t0.
Proof.
  intros HI. unfold fresh, new. cbn [deadline]. unfold checked_add.
  destruct (t0 + interval c <=? instant_max c); [lia|exact I].
Qed.

(* whole histories: any history h1, then a check at t0, then any continuation whose checks
   are no later than t1 -- the continuation lets in at most the balance seen by that check
   plus the refills of the window *)
Theorem bucket_window_history c initial tc h1 t0 ops t1 :
  0 < interval c -> Forall (op_time_le t1) ops ->
  let b0 := run c (new c initial tc) (h1 ++ [Check t0]) in
  granted c b0 ops <= balance b0 + refill c * ((t1 - t0) / interval c + 1)
  /\ balance b0 <= maxb c.
Proof.
  intros HI Hops b0. split.
  - apply bucket_window; [exact HI| |exact Hops].
    unfold b0, run. rewrite fold_left_app. cbn [fold_left step]. apply fresh_after_refresh. exact HI.
  - apply run_cap. apply new_cap.
Qed.

(* no boundary inside the window: a burst is bounded by the balance (hence by max) *)
Theorem bucket_burst c b ops t1 :
  0 < interval c -> fresh b t1 -> Forall (op_time_le t1) ops ->
  granted c b ops <= balance b.
Proof.
  intros HI Hf Hops. assert (HI' : interval c <> 0) by lia.
  pose proof (window_potential c t1 ops HI' Hops b) as H.
  unfold fresh in Hf. destruct (deadline b) as [d|]; cbn [credit] in H; [|lia].
  destruct (N.ltb_spec t1 d); lia.
Qed.

(* ------------------------------------------------------------------ *)
(* interval = 0: one refill per check; unrepresentable deadline: no refill *)

Lemma refresh_zero_le c b now : interval c = 0 -> balance (refresh c b now) <= balance b + refill c.
Proof.
  intros HI. destruct (deadline b) as [d|] eqn:Hd.
  2:{ rewrite refresh_noop_none by exact Hd. lia. }
  destruct (N.lt_ge_cases now d) as [Hlt|Hge].
  { rewrite (refresh_noop_early c b now d Hd Hlt). lia. }
  apply (refresh_zero c b now d HI Hd Hge).
Qed.

Theorem bucket_zero_interval c b ops :
  interval c = 0 -> granted c b ops <= balance b + refill c * count_checks ops.
Proof.
  intros HI. revert b. induction ops as [|o r IH]; intros b; cbn [granted count_checks]; [lia|].
  destruct o as [t|].
  - specialize (IH (refresh c b t)). pose proof (refresh_zero_le c b t HI). lia.
  - specialize (IH (bump b)).
    unfold bump in *. destruct (N.ltb_spec 0 (balance b)); cbn [balance] in *; lia.
Qed.

Lemma run_deadline_none c ops : forall b, deadline b = None ->
  deadline (run c b ops) = None /\ balance (run c b ops) <= balance b.
Proof.
  unfold run. induction ops as [|o r IH]; intros b Hd; cbn [fold_left]; [split; [exact Hd|lia]|].
  destruct o as [t|]; cbn [step].
  - rewrite refresh_noop_none by exact Hd. apply IH. exact Hd.
  - assert (Hd' : deadline (bump b) = None) by (rewrite bump_deadline; exact Hd).
    destruct (IH (bump b) Hd') as [H1 H2]. pose proof (bump_le b). split; [exact H1|lia].
Qed.

Theorem bucket_no_deadline c b ops :
  deadline b = None -> granted c b ops <= balance b.
Proof.
  revert b. induction ops as [|o r IH]; intros b Hd; cbn [granted]; [lia|].
  destruct o as [t|].
  - rewrite refresh_noop_none by exact Hd. apply IH. exact Hd.
  - assert (Hd' : deadline (bump b) = None) by (rewrite bump_deadline; exact Hd).
    specialize (IH (bump b) Hd').
    unfold bump in *. destruct (N.ltb_spec 0 (balance b)); cbn [balance] in *; lia.
Qed.

(* when the deadline is lost: at creation or in a refresh whose next deadline overflows *)
Lemma new_deadline_none c initial now :
  deadline (new c initial now) = None <-> instant_max c < now + interval c.
Proof.
  unfold new, checked_add. cbn [deadline].
  destruct (N.leb_spec (now + interval c) (instant_max c)) as [Hle|Hgt]; split; intros H; try discriminate; try lia; reflexivity.
Qed.

(* ------------------------------------------------------------------ *)
(* RateLimitedRouter: handled = granted, rejected = rate limited       *)

Fixpoint route_ops (c : cfg) (b : bucket) (rs : list (N * bool)) : list op :=
  match rs with
  | [] => []
  | (t, h) :: r =>
    let b' := refresh c b t in
    if (0 <? balance b') && h then Check t :: Bump :: route_ops c (bump b') r
    else Check t :: route_ops c b' r
  end.

Lemma route_all_granted c rs : forall b,
  count_handled (snd (route_all c b rs)) = granted c b (route_ops c b rs)
  /\ fst (route_all c b rs) = run c b (route_ops c b rs).
Proof.
  induction rs as [|[t h] r IH]; intros b; cbn [route_all route_ops]; [split; reflexivity|].
  unfold route, check.
  destruct (N.ltb_spec 0 (balance (refresh c b t))) as [Hpos|Hz]; cbn [andb].
  - destruct h.
    + destruct (route_all c (bump (refresh c b t)) r) as [b'' xs] eqn:E.
      specialize (IH (bump (refresh c b t))). rewrite E in IH. cbn [fst snd] in *.
      destruct IH as [IH1 IH2]. cbn [granted].
      destruct (N.ltb_spec 0 (balance (refresh c b t))); [|lia].
      unfold count_handled in *. cbn [filter is_handled length].
      split; [lia|]. unfold run in *. cbn [fold_left step]. exact IH2.
    + destruct (route_all c (refresh c b t) r) as [b'' xs] eqn:E.
      specialize (IH (refresh c b t)). rewrite E in IH. cbn [fst snd] in *.
      destruct IH as [IH1 IH2]. cbn [granted].
      unfold count_handled in *. cbn [filter is_handled].
      split; [exact IH1|]. unfold run in *. cbn [fold_left step]. exact IH2.
  - destruct (route_all c (refresh c b t) r) as [b'' xs] eqn:E.
    specialize (IH (refresh c b t)). rewrite E in IH. cbn [fst snd] in *.
    destruct IH as [IH1 IH2]. cbn [granted].
    unfold count_handled in *. cbn [filter is_handled].
    split; [exact IH1|]. unfold run in *. cbn [fold_left step]. exact IH2.
Qed.

Lemma route_ops_times c t1 rs : forall b,
  Forall (fun r => fst r <= t1) rs -> Forall (op_time_le t1) (route_ops c b rs).
Proof.
  induction rs as [|[t h] r IH]; intros b H; cbn [route_ops]; [constructor|].
  inversion H as [|? ? Ht Hr]; subst. cbn [fst] in Ht.
  destruct ((0 <? balance (refresh c b t)) && h).
  - constructor; [exact Ht|]. constructor; [exact I|]. apply IH. exact Hr.
  - constructor; [exact Ht|]. apply IH. exact Hr.
Qed.

(* jobs handed to workers through a rate limited router, over a window *)
Theorem router_window c b rs t0 t1 :
  0 < interval c -> fresh b t0 -> Forall (fun r => fst r <= t1) rs ->
  count_handled (snd (route_all c b rs)) <= balance b + refill c * ((t1 - t0) / interval c + 1).
Proof.
  intros HI Hf Hrs. destruct (route_all_granted c rs b) as [-> _].
  apply bucket_window; [exact HI|exact Hf|]. apply route_ops_times. exact Hrs.
Qed.

(* a route is refused exactly when the refreshed balance is empty, and then nothing changes
   but the refresh; a job that is not refused and not handled is handed back for queueing *)
Theorem route_rejects c b t h :
  let b' := refresh c b t in
  (balance b' = 0 -> route c b t h = (b', RRateLimited))
  /\ (0 < balance b' -> route c b t h = if h then (bump b', RHandled) else (b', RBacklog)).
Proof.
  intros b'. unfold route, check. fold b'.
  destruct (N.ltb_spec 0 (balance b')); split; intros; try lia; reflexivity.
Qed.

(* ------------------------------------------------------------------ *)
(* the oracle accepts every run of the model                            *)

Lemma timed_times now ops : Forall (op_time_le (end_time now ops)) (timed now ops)
  /\ now <= end_time now ops.
Proof.
  revert now. induction ops as [|o r IH]; intros now; cbn [timed end_time]; [split; [constructor|lia]|].
  destruct o as [dt| |].
  - destruct (IH (now + dt)) as [H1 H2]. split; [exact H1|lia].
  - destruct (IH now) as [H1 H2]. split; [|exact H2]. constructor; [exact H2|exact H1].
  - destruct (IH now) as [H1 H2]. split; [|exact H2]. constructor; [exact I|exact H1].
Qed.

(* prefix-closed accounting: window_ok over the model's own trace.
   Invariant: b is the model state, prev = balance b, adm + (what b can still let through) is bounded. *)
Lemma window_ok_model c b0 t0 ops : forall b now adm nchk,
  now >= t0 ->
  (interval c <> 0 -> adm + balance b + credit c (end_time now ops) (deadline b)
                      <= b0 + refill c * ((end_time now ops - t0) / interval c + 1)) ->
  (interval c <> 0 -> forall t1, now <= t1 ->
      adm + balance b + credit c t1 (deadline b) <= b0 + refill c * ((t1 - t0) / interval c + 1)) ->
  (interval c = 0 -> adm + balance b <= b0 + refill c * nchk) ->
  window_ok c b0 t0 now (balance b) adm nchk ops (trace c b now ops) = true.
Proof.
  induction ops as [|o r IH]; intros b now adm nchk Hnow _ Hpos Hzero; cbn [window_ok trace]; [reflexivity|].
  destruct o as [dt| |].
  - (* advance *)
    cbn [out_bal]. apply andb_true_iff. split.
    + apply N.leb_le. destruct (N.eqb_spec (interval c) 0) as [E|E].
      * specialize (Hzero E). lia.
      * specialize (Hpos E (now + dt) ltac:(lia)). lia.
    + apply IH; [lia| | |exact Hzero].
      * intros E. apply Hpos; [exact E|]. pose proof (timed_times (now + dt) r) as [_ H]. lia.
      * intros E t1 Ht1. apply Hpos; [exact E|lia].
  - (* check *)
    unfold check. cbn [out_bal]. apply andb_true_iff. split.
    + apply N.leb_le. destruct (N.eqb_spec (interval c) 0) as [E|E].
      * specialize (Hzero E). lia.
      * specialize (Hpos E now ltac:(lia)). lia.
    + apply IH; [exact Hnow| | |].
      * intros E. pose proof (timed_times now r) as [_ H].
        pose proof (refresh_potential c b now (end_time now r) E H).
        specialize (Hpos E (end_time now r) H). lia.
      * intros E t1 Ht1. pose proof (refresh_potential c b now t1 E Ht1).
        specialize (Hpos E t1 Ht1). lia.
      * intros E. specialize (Hzero E). pose proof (refresh_zero_le c b now E). lia.
  - (* bump *)
    cbn [out_bal]. apply andb_true_iff.
    assert (Hb : (if 0 <? balance b then adm + 1 else adm) + balance (bump b) = adm + balance b).
    { unfold bump. destruct (N.ltb_spec 0 (balance b)); cbn [balance]; lia. }
    split.
    + apply N.leb_le. destruct (N.eqb_spec (interval c) 0) as [E|E].
      * specialize (Hzero E). lia.
      * specialize (Hpos E now ltac:(lia)). lia.
    + apply IH; [exact Hnow| | |].
      * intros E. rewrite bump_deadline. pose proof (timed_times now r) as [_ H].
        specialize (Hpos E (end_time now r) H). lia.
      * intros E t1 Ht1. rewrite bump_deadline. specialize (Hpos E t1 Ht1). lia.
      * intros E. specialize (Hzero E). lia.
Qed.

Lemma window_ok_fresh c b t0 ops :
  (interval c <> 0 -> fresh b t0) ->
  window_ok c (balance b) t0 t0 (balance b) 0 0 ops (trace c b t0 ops) = true.
Proof.
  intros Hf. apply window_ok_model; [lia| | |lia].
  - intros E. pose proof (credit_fresh c b t0 (end_time t0 ops) E (Hf E)). lia.
  - intros E t1 _. pose proof (credit_fresh c b t0 t1 E (Hf E)). lia.
Qed.

Lemma windows_ok_model c ops : forall b now,
  windows_ok c now ops (trace c b now ops) = true.
Proof.
  induction ops as [|o r IH]; intros b now; cbn [windows_ok trace]; [reflexivity|].
  destruct o as [dt| |].
  - cbn [andb]. apply IH.
  - unfold check. cbn [out_bal]. apply andb_true_iff. split; [|apply IH].
    apply window_ok_fresh. intros E. apply fresh_after_refresh. lia.
  - cbn [andb]. apply IH.
Qed.

Lemma trace_cap c ops : forall b now, balance b <= maxb c ->
  forallb (fun x => out_bal x <=? maxb c) (trace c b now ops) = true.
Proof.
  induction ops as [|o r IH]; intros b now H; cbn [trace forallb]; [reflexivity|].
  destruct o as [dt| |].
  - cbn [forallb out_bal]. apply andb_true_iff. split; [apply N.leb_le; exact H|apply IH; exact H].
  - unfold check. cbn [forallb out_bal]. pose proof (refresh_cap c b now H).
    apply andb_true_iff. split; [apply N.leb_le; assumption|apply IH; assumption].
  - cbn [forallb out_bal]. pose proof (bump_le b).
    apply andb_true_iff. split; [apply N.leb_le; lia|apply IH; lia].
Qed.

Lemma trace_answers c ops : forall b now, answers_ok (trace c b now ops) = true.
Proof.
  induction ops as [|o r IH]; intros b now; cbn [trace answers_ok]; [reflexivity|].
  destruct o as [dt| |]; cbn [answers_ok]; try apply IH.
  unfold check. cbn [answers_ok]. rewrite eqb_reflx. cbn [andb]. apply IH.
Qed.

Lemma total_adm_model c ops : forall b now,
  total_adm (balance b) ops (trace c b now ops) = granted c b (timed now ops).
Proof.
  induction ops as [|o r IH]; intros b now; cbn [total_adm trace timed granted]; [reflexivity|].
  destruct o as [dt| |].
  - cbn [out_bal]. rewrite IH. lia.
  - unfold check. cbn [out_bal granted]. rewrite IH. lia.
  - cbn [out_bal granted]. rewrite IH. reflexivity.
Qed.

Theorem oracle_sound c initial t0 ops :
  let r := bucket_run c initial t0 ops in
  check_C15_bucket c t0 (fst r, ops, snd r) = true.
Proof.
  cbn zeta. unfold bucket_run, check_C15_bucket. cbn [fst snd].
  set (b := new c initial t0).
  repeat (apply andb_true_iff; split).
  - apply N.leb_le. apply new_cap.
  - apply trace_cap. apply new_cap.
  - apply trace_answers.
  - apply window_ok_fresh. intros E. apply fresh_new. lia.
  - apply windows_ok_model.
  - destruct (N.ltb_spec (instant_max c) (t0 + interval c)) as [H|H]; [|reflexivity].
    apply N.leb_le. rewrite total_adm_model. apply bucket_no_deadline.
    apply new_deadline_none. exact H.
Qed.
