(* Model of ractor/src/factory/ratelim.rs: LeakyBucketRateLimiter (new / refresh /
   check / bump) and the admission logic of RateLimitedRouter::route_message.
   Time is an absolute instant in nanoseconds (N); durations are nanoseconds (N).
   The machine bounds that the code's saturating / checked operations refer to are
   parameters of the configuration (usize::MAX and the largest representable Instant);
   the u128 / u64 / u32 bounds of the intermediate conversions are fixed constants.
   Definitions only; proofs are in Ratelim/Proofs.v. *)
From Coq Require Import List NArith Bool.
Import ListNotations.
Local Open Scope N_scope.

Record cfg := mkCfg {
  refill : N;        (* tokens added per interval                     (usize)    *)
  interval : N;      (* Duration::as_nanos of `interval`              (u128)     *)
  maxb : N;          (* `max`                                         (usize)    *)
  usize_max : N;     (* usize::MAX                                               *)
  instant_max : N    (* largest instant for which checked_add returns Some       *)
}.

Record bucket := mkB { balance : N; deadline : option N }.

Definition u128_max : N := 340282366920938463463374607431768211455.
Definition u64_max : N := 18446744073709551615.
Definition u32_max : N := 4294967295.
Definition ns_per_s : N := 1000000000.
(* Duration::MAX in nanoseconds: u64::MAX seconds + 999_999_999 ns *)
Definition dur_max : N := u64_max * ns_per_s + 999999999.

(* MAX_LB_BALANCE = isize::MAX as usize *)
Definition max_lb (c : cfg) : N := usize_max c / 2.

(* x.saturating_add(y) / x.saturating_mul(y) on an unsigned type with maximum m *)
Definition sat_add (m x y : N) : N := if x + y <=? m then x + y else m.
Definition sat_mul (m x y : N) : N := if x * y <=? m then x * y else m.
(* T::try_from(x).unwrap_or(T::MAX) *)
Definition clamp (m x : N) : N := if x <=? m then x else m.

(* Instant::checked_add *)
Definition checked_add (c : cfg) (t d : N) : option N :=
  if t + d <=? instant_max c then Some (t + d) else None.

(* LeakyBucketRateLimiter::new, at instant `now` *)
Definition new (c : cfg) (initial : option N) (now : N) : bucket :=
  mkB (N.min (match initial with Some i => i | None => maxb c end) (maxb c))
      (checked_add c now (interval c)).

(* LeakyBucketRateLimiter::refresh *)
Definition refresh (c : cfg) (b : bucket) (now : N) : bucket :=
  match deadline b with
  | None => b
  | Some d =>
    if now <? d then b
    else if interval c =? 0 then
      mkB (N.min (sat_add (usize_max c) (balance b) (refill c)) (maxb c)) (Some now)
    else
      let since := now - d in                       (* saturating_duration_since, now >= d *)
      let periods := clamp (usize_max c) (sat_add u128_max (since / interval c) 1) in
      let tokens := N.min (sat_mul (usize_max c) periods (refill c)) (max_lb c) in
      let rem := since mod interval c in
      let seconds := clamp u64_max (rem / ns_per_s) in
      let subsec := clamp u32_max (rem mod ns_per_s) in
      (* interval.saturating_sub(Duration::new(seconds, subsec)): N subtraction truncates *)
      mkB (N.min (sat_add (usize_max c) (balance b) tokens) (maxb c))
          (checked_add c now (interval c - (seconds * ns_per_s + subsec)))
  end.

(* RateLimiter::check (at instant now) and RateLimiter::bump *)
Definition check (c : cfg) (b : bucket) (now : N) : bucket * bool :=
  let b' := refresh c b now in (b', 0 <? balance b').

Definition bump (b : bucket) : bucket :=
  if 0 <? balance b then mkB (balance b - 1) (deadline b) else b.

(* ---- arbitrary operation sequences ---- *)
Inductive op := Check (now : N) | Bump.

Definition step (c : cfg) (b : bucket) (o : op) : bucket :=
  match o with Check t => refresh c b t | Bump => bump b end.

Definition run (c : cfg) (b : bucket) (ops : list op) : bucket := fold_left (step c) ops b.

(* number of tokens actually taken (bumps that found a positive balance) *)
Fixpoint granted (c : cfg) (b : bucket) (ops : list op) : N :=
  match ops with
  | [] => 0
  | Check t :: r => granted c (refresh c b t) r
  | Bump :: r => (if 0 <? balance b then 1 else 0) + granted c (bump b) r
  end.

Fixpoint count_checks (ops : list op) : N :=
  match ops with
  | [] => 0
  | Check _ :: r => 1 + count_checks r
  | Bump :: r => count_checks r
  end.

Definition op_time_le (t1 : N) (o : op) : Prop :=
  match o with Check t => t <= t1 | Bump => True end.

(* nothing can be credited at or before t: no deadline, or the deadline lies after t *)
Definition fresh (b : bucket) (t : N) : Prop :=
  match deadline b with None => True | Some d => t < d end.

(* ---- RateLimitedRouter::route_message ----
   `would_handle` is the inner router's answer (Handled vs Backlog) had it been asked. *)
Inductive rres := RHandled | RBacklog | RRateLimited.

Definition route (c : cfg) (b : bucket) (now : N) (would_handle : bool) : bucket * rres :=
  let (b', ok) := check c b now in
  if ok then (if would_handle then (bump b', RHandled) else (b', RBacklog))
  else (b', RRateLimited).

Fixpoint route_all (c : cfg) (b : bucket) (rs : list (N * bool)) : bucket * list rres :=
  match rs with
  | [] => (b, [])
  | (t, h) :: r => let (b', x) := route c b t h in
                   let (b'', xs) := route_all c b' r in (b'', x :: xs)
  end.

Definition is_handled (x : rres) : bool := match x with RHandled => true | _ => false end.
Definition count_handled (l : list rres) : N := N.of_nat (length (filter is_handled l)).

(* ---- correspondence runs (engine E3): ops on a clock that only advances ---- *)
Inductive top := TAdv (dt : N) | TCheck | TBump.

(* what the harness observes after each op: the public `balance`, and for a check its answer *)
Inductive tout := OAdv (bal : N) | OCheck (ok : bool) (bal : N) | OBump (bal : N).

Fixpoint trace (c : cfg) (b : bucket) (now : N) (ops : list top) : list tout :=
  match ops with
  | [] => []
  | TAdv dt :: r => OAdv (balance b) :: trace c b (now + dt) r
  | TCheck :: r => let (b', ok) := check c b now in OCheck ok (balance b') :: trace c b' now r
  | TBump :: r => let b' := bump b in OBump (balance b') :: trace c b' now r
  end.

(* the harness prints: balance right after `new`, then one tout per op *)
Definition bucket_run (c : cfg) (initial : option N) (t0 : N) (ops : list top) : N * list tout :=
  let b := new c initial t0 in (balance b, trace c b t0 ops).

(* timed form of a correspondence run, for the theorems *)
Fixpoint timed (now : N) (ops : list top) : list op :=
  match ops with
  | [] => []
  | TAdv dt :: r => timed (now + dt) r
  | TCheck :: r => Check now :: timed now r
  | TBump :: r => Bump :: timed now r
  end.

Fixpoint end_time (now : N) (ops : list top) : N :=
  match ops with
  | [] => now
  | TAdv dt :: r => end_time (now + dt) r
  | _ :: r => end_time now r
  end.

(* ---- the executable oracle, evaluated on an observed trace ----
   An observation = the configuration, the creation instant, the balance seen after
   `new`, the ops and what was observed after each of them.  From it we recompute
   instants and admissions and check, for every window that starts at an observation
   point where nothing more can be credited (creation, or just after a check):
     interval > 0 :  granted <= balance_at_start + refill * ((t_end - t_start)/interval + 1)
     interval = 0 :  granted <= balance_at_start + refill * (number of checks in the window)
   for every end point, plus balance <= max at every observation, plus, when the first
   deadline is not representable, granted <= initial balance over the whole run. *)

Definition out_bal (o : tout) : N :=
  match o with OAdv b => b | OCheck _ b => b | OBump b => b end.

(* scan one window: start balance b0 at instant t0; running instant now, previous balance
   prev, granted so far adm, checks so far nchk *)
Fixpoint window_ok (c : cfg) (b0 t0 now prev adm nchk : N) (ops : list top) (outs : list tout) : bool :=
  match ops, outs with
  | [], _ => true
  | _, [] => true
  | o :: r, x :: xs =>
    let now' := match o with TAdv dt => now + dt | _ => now end in
    let adm' := match o with TBump => if 0 <? prev then adm + 1 else adm | _ => adm end in
    let nchk' := match o with TCheck => nchk + 1 | _ => nchk end in
    let bound := if interval c =? 0 then b0 + refill c * nchk'
                 else b0 + refill c * ((now' - t0) / interval c + 1) in
    (adm' <=? bound) && window_ok c b0 t0 now' (out_bal x) adm' nchk' r xs
  end.

(* all windows starting just after a check *)
Fixpoint windows_ok (c : cfg) (now : N) (ops : list top) (outs : list tout) : bool :=
  match ops, outs with
  | [], _ => true
  | _, [] => true
  | o :: r, x :: xs =>
    let now' := match o with TAdv dt => now + dt | _ => now end in
    (match o with
     | TCheck => window_ok c (out_bal x) now' now' (out_bal x) 0 0 r xs
     | _ => true
     end) && windows_ok c now' r xs
  end.

(* total admissions observed, for the unrepresentable-first-deadline clause *)
Fixpoint total_adm (prev : N) (ops : list top) (outs : list tout) : N :=
  match ops, outs with
  | o :: r, x :: xs =>
    (match o with TBump => if 0 <? prev then 1 else 0 | _ => 0 end) + total_adm (out_bal x) r xs
  | _, _ => 0
  end.

(* a check's answer must be `balance > 0` (the router acts on it) *)
Fixpoint answers_ok (outs : list tout) : bool :=
  match outs with
  | [] => true
  | OCheck ok b :: r => Bool.eqb ok (0 <? b) && answers_ok r
  | _ :: r => answers_ok r
  end.

Definition check_C15_bucket (c : cfg) (t0 : N) (obs : N * list top * list tout) : bool :=
  let '(b0, ops, outs) := obs in
  (b0 <=? maxb c) && forallb (fun x => out_bal x <=? maxb c) outs
  && answers_ok outs
  && window_ok c b0 t0 t0 b0 0 0 ops outs
  && windows_ok c t0 ops outs
  && (if instant_max c <? t0 + interval c then total_adm b0 ops outs <=? b0 else true).
