(* Model of ractor_cluster/src/node/node_session.rs: what a NodeSession does with
   a message received from the network (Actor::handle, arm MessageReceived, with
   handle_auth / handle_node / handle_control / after_authenticated /
   authorized_local_actor / get_or_spawn_remote_actor), as a pure function
       handle : config -> sstate -> netmsg -> env -> sstate * list effect.
   Everything the handler obtains from its environment while processing one
   message (random challenge, the node server's replies, the pid registry, the
   process groups) is the explicit argument [env]; theorems quantify over all of
   it.  Definitions only; proofs are in GateProofs.v. *)
From Coq Require Import List NArith Bool.
From RV Require Import Cluster.Auth.
Import ListNotations.
Local Open Scope N_scope.

(* ---------- wire messages ---------- *)

Definition actor := (N * option N)%type.        (* control::Actor: pid, optional name *)

Inductive cmsg :=                               (* control::ControlMessage *)
| KEmpty
| KReady
| KSpawn (actors : list actor)
| KTerminate (ids : list N)
| KPing (ts : N)
| KPong (ts : N)
| KPgJoin (scope group : N) (actors : list actor)
| KPgLeave (scope group : N) (actors : list actor)
| KEnumerate (name cs : N)
| KNodeSessions (l : list (N * N)).             (* (name, connection string) *)

Inductive nmsg :=                               (* node::NodeMessage *)
| MEmpty
| MCast (to : N)
| MCall (to tag : N) (timeout : option N)
| MReply (to tag : N).

Inductive netmsg :=                             (* meta::NetworkMessage *)
| NEmpty
| NAuth (a : amsg)
| NNode (m : nmsg)
| NControl (k : cmsg).

(* ---------- effects ---------- *)

Inductive stop_reason := RAuthFail | RSelfConnection | RElectionLost.

Inductive effect :=
| ESendAuth (a : amsg)                  (* frame written to the peer *)
| ESendControl (k : cmsg)
| EStopSelf (r : stop_reason)           (* myself.stop(..) *)
| EStopTcp                              (* tcp.stop(..) *)
| EToServerUpdate (name cs cid : N)     (* NodeServerMessage::UpdateSession *)
| EToServerCheck (name cs cid : N)      (* NodeServerMessage::CheckSession (call) *)
| EToServerAuthenticated                (* NodeServerMessage::ConnectionAuthenticated *)
| EToServerReady                        (* NodeServerMessage::ConnectionReady *)
| EStartPing
| EMonitor                              (* pid registry + pg monitors installed *)
| EListSessions                         (* NodeServerMessage::GetSessions (call) *)
| EConnect (cs : N)                     (* transitive connection attempt *)
| EDeliverCast (pid : N)                (* send_serialized(Cast) to a local actor *)
| EDeliverCall (pid tag : N)            (* send_serialized(Call) to a local actor *)
| EDeliverReply (pid tag : N)           (* send_serialized(CallReply) to a remote-actor proxy *)
| EProxySpawn (pid : N) (name : option N)   (* RemoteActor spawned as child of the session *)
| EProxyStop (pid : N)
| EPgJoin (scope group : N) (pids : list N)
| EPgLeave (scope group : N) (pids : list N).

(* the effects the property protects *)
Definition protected (x : effect) : bool :=
  match x with
  | EListSessions | EConnect _ | EDeliverCast _ | EDeliverCall _ _ | EDeliverReply _ _
  | EProxySpawn _ _ | EProxyStop _ | EPgJoin _ _ _ | EPgLeave _ _ _ => true
  | _ => false
  end.

(* ---------- state ---------- *)

Inductive astate := AsClient (c : cauth) | AsServer (s : sauth).

Definition a_is_ok (a : astate) : bool :=
  match a with AsClient c => c_is_ok c | AsServer s => s_is_ok s end.
Definition a_is_close (a : astate) : bool :=
  match a with AsClient c => c_is_close c | AsServer s => s_is_close s end.

Inductive rstate := ROpen | RSyncSent | RSyncReceived | RReady.
Definition r_is_ok (r : rstate) : bool := match r with RReady => true | _ => false end.

(* SessionCheckReply *)
Inductive reply := RNoOther | ROtherContinues | RThisContinues | RDuplicate.

(* From<SessionCheckReply> for server_status::Status *)
Definition status_of_reply (r : reply) : N :=
  match r with RNoOther => 0 | RThisContinues => 1 | ROtherContinues => 2 | RDuplicate => 4 end.

Record config := mkConfig {
  c_server : bool;          (* is_server *)
  c_cookie : cookie;
  c_name : N;               (* this_node_name.name *)
  c_cs : N;                 (* this_node_name.connection_string *)
  c_transitive : bool;      (* connection_mode *)
  c_connid : N              (* connection_id chosen by a client session *)
}.

Record sstate := mkS {
  s_auth : astate;
  s_peer : option (N * N);  (* state.name: peer name, peer connection string *)
  s_connid : N;             (* state.connection_id *)
  s_ready : rstate;
  s_remote : list N;        (* keys of remote_actors *)
  s_adv : list N;           (* advertised_local_pids *)
  s_tcp : bool              (* state.tcp.is_some() *)
}.

Definition init_state (cfg : config) : sstate :=
  mkS (if c_server cfg then AsServer SWaitName else AsClient CWaitStatus)
      None (c_connid cfg) ROpen [] [] true.

(* what the environment answers while one message is handled *)
Record env := mkEnv {
  e_rnd : challenge;                 (* rand::rng().next_u32() if drawn *)
  e_check1 : option reply;           (* CheckSession during HavePeerName; None = error/timeout *)
  e_check2 : option reply;           (* CheckSession right after authentication *)
  e_sessions : option (list (N * N));(* GetSessions: (name, cs) of listed sessions with a name *)
  e_live : list N;                   (* local pids registered whose actor supports remoting *)
  e_spawn_fail : list N;             (* remote pids whose proxy cannot be spawned *)
  e_groups : list (N * N * list N)   (* scope, group, remotable local members *)
}.

Definition mem (x : N) (l : list N) : bool := existsb (N.eqb x) l.
Definition remove (x : N) (l : list N) : list N := filter (fun y => negb (N.eqb x y)) l.
Definition add (x : N) (l : list N) : list N := if mem x l then l else l ++ [x].
Definition add_all (xs l : list N) : list N := fold_left (fun acc x => add x acc) xs l.

Definition set_auth (st : sstate) (a : astate) : sstate :=
  mkS a (s_peer st) (s_connid st) (s_ready st) (s_remote st) (s_adv st) (s_tcp st).
Definition set_peer (st : sstate) (p : option (N * N)) (cid : N) : sstate :=
  mkS (s_auth st) p cid (s_ready st) (s_remote st) (s_adv st) (s_tcp st).
Definition set_ready (st : sstate) (r : rstate) : sstate :=
  mkS (s_auth st) (s_peer st) (s_connid st) r (s_remote st) (s_adv st) (s_tcp st).
Definition set_remote (st : sstate) (l : list N) : sstate :=
  mkS (s_auth st) (s_peer st) (s_connid st) (s_ready st) l (s_adv st) (s_tcp st).
Definition set_adv (st : sstate) (l : list N) : sstate :=
  mkS (s_auth st) (s_peer st) (s_connid st) (s_ready st) (s_remote st) l (s_tcp st).

(* tcp_send_*: only when the tcp actor is present *)
Definition send (st : sstate) (x : effect) : list effect := if s_tcp st then [x] else [].

Section Gate.
Variable dg : cookie -> challenge -> digest.

(* server_status.status(): unknown values decode as the default (Ok) *)
Definition status_norm (s : N) : N := if N.leb s 4 then s else 0.

(* ---------- handle_auth ---------- *)

Definition handle_auth_client (cfg : config) (st : sstate) (c : cauth) (a : amsg) (e : env)
  : sstate * list effect :=
  let next := c_next dg c a (c_cookie cfg) (e_rnd e) in
  let '(next, st1, eff) :=
    match next with
    | CWaitChallenge s =>
        let s' := status_norm s in
        if N.eqb s' 2 || N.eqb s' 3 then (CClose, st, [])       (* NotOk, NotAllowed *)
        else if N.eqb s' 4 then (next, st, send st (ESendAuth (AClientStatus true)))  (* Alive *)
        else (next, st, [])
    | CWaitAck n cs sch reply_d mych expect =>
        (next, set_peer st (Some (n, cs)) (s_connid st),
         [EToServerUpdate n cs (c_connid cfg)]
         ++ send st (ESendAuth (AClientChallenge mych reply_d)))
    | _ => (next, st, [])
    end in
  let eff := eff ++ (if c_is_close next then [EStopSelf RAuthFail] else []) in
  (set_auth st1 (AsClient next), eff).

Definition handle_auth_server (cfg : config) (st : sstate) (s : sauth) (a : amsg) (e : env)
  : sstate * list effect :=
  let ck := c_cookie cfg in
  let next := s_next dg s a ck (e_rnd e) in
  let '(next, st1, eff) :=
    match next with
    | SHaveName n cs cid =>
        let st1 := set_peer st (Some (n, cs)) cid in
        let eff0 := [EToServerUpdate n cs cid; EToServerCheck n cs cid] in
        match e_check1 e with
        | None => (SClose, st1, eff0)
        | Some r =>
            let eff1 := eff0 ++ send st (ESendAuth (AServerStatus (status_of_reply r))) in
            match r with
            | RNoOther | RThisContinues =>
                let next' := s_start_challenge dg next ck (e_rnd e) in
                (next', st1,
                 eff1 ++ match next' with
                         | SWaitReply ch _ =>
                             send st (ESendAuth (AServerChallenge (c_name cfg) (c_cs cfg) ch))
                         | _ => []
                         end)
            | ROtherContinues => (SClose, st1, eff1)
            | RDuplicate => (SWaitClientStatus, st1, eff1)
            end
        end
    | SOk d => (next, st, send st (ESendAuth (AServerAck d)))
    | _ => (next, st, [])
    end in
  let eff := eff ++ (if s_is_close next then [EStopSelf RAuthFail] else []) in
  (set_auth st1 (AsServer next), eff).

Definition handle_auth (cfg : config) (st : sstate) (a : amsg) (e : env) : sstate * list effect :=
  if a_is_ok (s_auth st) then (st, [])
  else
    let pre := if a_is_close (s_auth st)
               then EStopSelf RAuthFail :: (if s_tcp st then [EStopTcp] else [])
               else [] in
    let '(st', eff) :=
      match s_auth st with
      | AsClient c => handle_auth_client cfg st c a e
      | AsServer s => handle_auth_server cfg st s a e
      end in
    (st', pre ++ eff).

(* ---------- after_authenticated ---------- *)

Definition after_authenticated (cfg : config) (st : sstate) (e : env) : sstate * list effect :=
  let pids := e_live e in
  let eff :=
    (if s_tcp st then [EStartPing] else [])
    ++ (if c_transitive cfg then send st (ESendControl (KEnumerate (c_name cfg) (c_cs cfg))) else [])
    ++ [EMonitor]
    ++ (match pids with
        | [] => []
        | _ => send st (ESendControl (KSpawn (map (fun p => (p, None)) pids)))
        end)
    ++ flat_map (fun g : N * N * list N =>
                   let '(scope, group, members) := g in
                   match members with
                   | [] => []
                   | _ => send st (ESendControl (KPgJoin scope group (map (fun p => (p, None)) members)))
                   end) (e_groups e)
    ++ send st (ESendControl KReady) in
  let ready := match s_ready st with
               | ROpen => RSyncSent
               | RSyncReceived => RReady
               | r => r          (* unreachable!() in the code; see after_auth_once *)
               end in
  (set_ready (set_adv st (add_all pids (s_adv st))) ready, eff).

(* ---------- handle_node ---------- *)

(* authorized_local_actor: allow-list, then registry lookup + supports_remoting *)
Definition authorized (st : sstate) (pid : N) (e : env) : bool * sstate :=
  if negb (mem pid (s_adv st)) then (false, st)
  else if mem pid (e_live e) then (true, st)
  else (false, set_adv st (remove pid (s_adv st))).

Definition handle_node (st : sstate) (m : nmsg) (e : env) : sstate * list effect :=
  if negb (a_is_ok (s_auth st)) then (st, [])
  else
    match m with
    | MEmpty => (st, [])
    | MCast to =>
        let '(ok, st') := authorized st to e in
        (st', if ok then [EDeliverCast to] else [])
    | MCall to tag _ =>
        let '(ok, st') := authorized st to e in
        (st', if ok then [EDeliverCall to tag] else [])
    | MReply to tag =>
        (st, if mem to (s_remote st) then [EDeliverReply to tag] else [])
    end.

(* ---------- handle_control ---------- *)

(* get_or_spawn_remote_actor: (state, effects, Ok?) *)
Definition get_or_spawn (st : sstate) (a : actor) (e : env) : sstate * list effect * bool :=
  let '(pid, name) := a in
  if mem pid (s_remote st) then (st, [], true)
  else if mem pid (e_spawn_fail e) then (st, [], false)
  else (set_remote st (s_remote st ++ [pid]), [EProxySpawn pid name], true).

Fixpoint spawn_all (st : sstate) (l : list actor) (e : env) : sstate * list effect * list N :=
  match l with
  | [] => (st, [], [])
  | a :: r =>
      let '(st1, eff1, ok) := get_or_spawn st a e in
      let '(st2, eff2, cells) := spawn_all st1 r e in
      (st2, eff1 ++ eff2, if ok then fst a :: cells else cells)
  end.

Fixpoint terminate_all (st : sstate) (ids : list N) : sstate * list effect :=
  match ids with
  | [] => (st, [])
  | pid :: r =>
      if mem pid (s_remote st)
      then let '(st2, eff2) := terminate_all (set_remote st (remove pid (s_remote st))) r in
           (st2, EProxyStop pid :: eff2)
      else terminate_all st r
  end.

Definition flat_names (l : list (N * N)) : list N := flat_map (fun p => [fst p; snd p]) l.

Definition handle_control (cfg : config) (st : sstate) (k : cmsg) (e : env) : sstate * list effect :=
  if negb (a_is_ok (s_auth st)) then (st, [])
  else
    match k with
    | KEmpty => (st, [])
    | KReady =>
        match s_ready st with
        | ROpen => (set_ready st RSyncReceived, [])
        | RSyncSent => (set_ready st RReady, [EToServerReady])
        | _ => (st, [])
        end
    | KSpawn actors =>
        let '(st', eff, _) := spawn_all st actors e in (st', eff)
    | KTerminate ids => terminate_all st ids
    | KPing ts => (st, send st (ESendControl (KPong ts)))
    | KPong _ => (st, [])
    | KPgJoin scope group actors =>
        let '(st', eff, cells) := spawn_all st actors e in
        (st', eff ++ match cells with [] => [] | _ => [EPgJoin scope group cells] end)
    | KPgLeave scope group actors =>
        let cells := filter (fun p => mem p (s_remote st)) (map fst actors) in
        (st, match cells with [] => [] | _ => [EPgLeave scope group cells] end)
    | KEnumerate n cs =>
        (st, EListSessions ::
             match e_sessions e with
             | Some l =>
                 send st (ESendControl (KNodeSessions
                   (filter (fun p => negb (N.eqb n (fst p)) && negb (N.eqb cs (snd p))) l)))
             | None => []
             end)
    | KNodeSessions l =>
        if c_transitive cfg then
          let existing := match e_sessions e with Some s => flat_names s | None => [] end in
          (st, EListSessions ::
               flat_map (fun p : N * N =>
                           if mem (fst p) existing || mem (snd p) existing
                              || N.eqb (fst p) (c_name cfg) || N.eqb (snd p) (c_cs cfg)
                           then [] else [EConnect (snd p)]) l)
        else (st, [])
    end.

(* ---------- Actor::handle, arm MessageReceived ---------- *)

Definition self_connection (cfg : config) (st : sstate) : bool :=
  match s_peer st with
  | Some (n, cs) => N.eqb (c_cs cfg) cs || N.eqb (c_name cfg) n
  | None => false
  end.

Definition elected (r : option reply) : bool :=
  match r with Some RNoOther | Some RThisContinues => true | _ => false end.

Definition handle (cfg : config) (st : sstate) (m : netmsg) (e : env) : sstate * list effect :=
  if self_connection cfg st then (st, [EStopSelf RSelfConnection])
  else if negb (s_tcp st) then (st, [])
  else
    match m with
    | NEmpty => (st, [])
    | NAuth a =>
        let p := a_is_ok (s_auth st) in
        let '(st1, eff1) := handle_auth cfg st a e in
        if negb p && a_is_ok (s_auth st1) then
          match s_peer st1 with
          | Some (n, cs) =>
              let eff2 := [EToServerAuthenticated; EToServerCheck n cs (s_connid st1)] in
              if elected (e_check2 e) then
                let '(st2, eff3) := after_authenticated cfg st1 e in
                (st2, eff1 ++ eff2 ++ eff3
                      ++ (if r_is_ok (s_ready st2) then [EToServerReady] else []))
              else (st1, eff1 ++ eff2 ++ [EStopSelf RElectionLost])
          | None => (st1, eff1 ++ [EToServerAuthenticated; EStopSelf RElectionLost])
          end
        else (st1, eff1)
    | NNode nm => handle_node st nm e
    | NControl k => handle_control cfg st k e
    end.

(* ---------- runs ---------- *)

(* every message is handled, whether or not a stop was requested before *)
Fixpoint run_log (cfg : config) (st : sstate) (l : list (netmsg * env))
  : list (sstate * netmsg * env * list effect) :=
  match l with
  | [] => []
  | (m, e) :: r =>
      let '(st', eff) := handle cfg st m e in
      (st, m, e, eff) :: run_log cfg st' r
  end.

Fixpoint run_state (cfg : config) (st : sstate) (l : list (netmsg * env)) : sstate :=
  match l with
  | [] => st
  | (m, e) :: r => run_state cfg (fst (handle cfg st m e)) r
  end.

Definition is_stop (x : effect) : bool := match x with EStopSelf _ => true | _ => false end.

(* the actor: a requested stop is processed before the next mailbox message *)
Fixpoint run_actor (cfg : config) (st : sstate) (l : list (netmsg * env))
  : list (sstate * netmsg * env * list effect) :=
  match l with
  | [] => []
  | (m, e) :: r =>
      let '(st', eff) := handle cfg st m e in
      (st, m, e, eff) :: (if existsb is_stop eff then [] else run_actor cfg st' r)
  end.

(* what the harness can see of the actor's run: after each handled message,
   is the session authenticated, would it stop at its next message because it
   talks to itself, and the effects *)
Fixpoint run_view (cfg : config) (st : sstate) (l : list (netmsg * env))
  : list (bool * bool * list effect) :=
  match l with
  | [] => []
  | (m, e) :: r =>
      let '(st', eff) := handle cfg st m e in
      (a_is_ok (s_auth st'), self_connection cfg st', eff)
        :: (if existsb is_stop eff then [] else run_view cfg st' r)
  end.

(* handler-level view (state components after each handled message) *)
Fixpoint run_unit (cfg : config) (st : sstate) (l : list (netmsg * env))
  : list (bool * bool * list N * list N * list effect) :=
  match l with
  | [] => []
  | (m, e) :: r =>
      let '(st', eff) := handle cfg st m e in
      (a_is_ok (s_auth st'), a_is_close (s_auth st'), s_adv st', s_remote st', eff)
        :: (if existsb is_stop eff then [] else run_unit cfg st' r)
  end.

(* ---------- local (not peer-caused) events: handle_supervisor_evt, PidLifecycleEvent ----------
   after_authenticated installs the pid-registry monitor; from then on the spawn / exit of
   a local actor that supports remoting changes the advertised set and is announced. *)
Definition local_spawn (st : sstate) (pid : N) (remotable : bool) : sstate * list effect :=
  if a_is_ok (s_auth st) && remotable
  then (set_adv st (add pid (s_adv st)), send st (ESendControl (KSpawn [(pid, None)])))
  else (st, []).

Definition local_terminate (st : sstate) (pid : N) (remotable : bool) : sstate * list effect :=
  if a_is_ok (s_auth st) && remotable
  then (set_adv st (remove pid (s_adv st)), send st (ESendControl (KTerminate [pid])))
  else (st, []).

Inductive input :=
| IPeer (m : netmsg) (e : env)
| ISpawn (pid : N) (remotable : bool)
| ITerminate (pid : N) (remotable : bool).

Definition step_in (cfg : config) (st : sstate) (i : input) : sstate * list effect :=
  match i with
  | IPeer m e => handle cfg st m e
  | ISpawn pid r => local_spawn st pid r
  | ITerminate pid r => local_terminate st pid r
  end.

Fixpoint run_in_log (cfg : config) (st : sstate) (l : list input)
  : list (sstate * input * list effect) :=
  match l with
  | [] => []
  | i :: r => let '(st', eff) := step_in cfg st i in (st, i, eff) :: run_in_log cfg st' r
  end.

Fixpoint run_in_view (cfg : config) (st : sstate) (l : list input)
  : list (bool * bool * list effect) :=
  match l with
  | [] => []
  | i :: r =>
      let '(st', eff) := step_in cfg st i in
      (a_is_ok (s_auth st'), self_connection cfg st', eff)
        :: (if existsb is_stop eff then [] else run_in_view cfg st' r)
  end.

End Gate.

(* ---------- the property as an executable oracle ---------- *)

(* One observed step: was the session authenticated when the message arrived,
   which pids were advertised and remotable at that moment, the effects. *)
Definition delivered_pid (x : effect) : option N :=
  match x with EDeliverCast p => Some p | EDeliverCall p _ => Some p | _ => None end.

Definition step_ok (ok_before : bool) (adv live : list N) (eff : list effect) : bool :=
  (ok_before || negb (existsb protected eff))
  && forallb (fun x => match delivered_pid x with
                       | Some p => mem p adv && mem p live
                       | None => true
                       end) eff.

Definition check_C17 (obs : list (bool * list N * list N * list effect)) : bool :=
  forallb (fun o => let '(ok, adv, live, eff) := o in step_ok ok adv live eff) obs.

(* once closed (or stopped) nothing protected happens and Ok is never reported *)
Fixpoint check_C17_closed (obs : list (bool * bool * list effect)) (closed : bool) : bool :=
  match obs with
  | [] => true
  | (ok, close, eff) :: r =>
      (if closed then negb ok && close && negb (existsb protected eff) else true)
      && check_C17_closed r (closed || close)
  end.

Definition obs_of_log (log : list (sstate * netmsg * env * list effect))
  : list (bool * list N * list N * list effect) :=
  map (fun x => let '(st, _, e, eff) := x in (a_is_ok (s_auth st), s_adv st, e_live e, eff)) log.

Definition obs_closed_of_log (log : list (sstate * netmsg * env * list effect))
  : list (bool * bool * list effect) :=
  map (fun x => let '(st, _, _, eff) := x in (a_is_ok (s_auth st), a_is_close (s_auth st), eff)) log.
