(* Model of the byte-level codecs of ractor / ractor_cluster (property C19):
     - big-endian fixed-width integers                (ractor/src/serialization.rs, to_be_bytes/from_be_bytes)
     - the library's BytesConvertable impls            (ractor/src/serialization.rs)
     - the derive macro's positional argument packing  (ractor_cluster_derive/src/codegen.rs: pack_args / unpack_arg)
     - the generated deserialize of a cluster enum     (codegen.rs: expand_cluster_message)
     - job metadata                                    (ractor/src/factory/job.rs: JobOptions, serialize_meta, deserialize_meta)
   Bytes are N (all inputs are < 256, see bytesb). Definitions only; proofs in CodecProofs.v.
   `option` results: for a BytesConvertable::from_bytes [None] means "the conversion panics";
   for the generated decoders [None] means "returns Err(BoxedDowncastErr)". *)
From Coq Require Import List NArith ZArith Bool.
Import ListNotations.
Local Open Scope N_scope.

(* ---------- bytes and big-endian integers ---------- *)

Definition byteb (b : N) : bool := b <? 256.
Definition bytesb (l : list N) : bool := forallb byteb l.

Definition len (l : list N) : N := N.of_nat (length l).

Fixpoint be (w : nat) (n : N) : list N :=
  match w with O => [] | S w' => be w' (n / 256) ++ [n mod 256] end.
Definition de (l : list N) : N := fold_left (fun acc b => acc * 256 + b) l 0.

Definition pow256 (w : nat) : N := 256 ^ N.of_nat w.
Definition U64 : N := 2 ^ 64.

(* [args.get(a..b)]: the only way the generated decoders read their input *)
Definition get (bs : list N) (a b : N) : option (list N) :=
  if (a <=? b) && (b <=? len bs)
  then Some (firstn (N.to_nat (b - a)) (skipn (N.to_nat a) bs))
  else None.

(* [&bytes[..w]] of the hand-written conversions: panics when too short *)
Definition take (w : nat) (bs : list N) : option (list N) :=
  if Nat.leb w (length bs) then Some (firstn w bs) else None.

(* ---------- UTF-8 well-formedness (Unicode table 3-7; what String::from_utf8 accepts) ---------- *)

Definition inr (lo hi b : N) : bool := (lo <=? b) && (b <=? hi).

Fixpoint utf8_ok (bs : list N) : bool :=
  match bs with
  | [] => true
  | b0 :: t =>
    if b0 <? 128 then utf8_ok t else
    match t with
    | [] => false
    | b1 :: t1 =>
      if inr 194 223 b0 then inr 128 191 b1 && utf8_ok t1 else
      match t1 with
      | [] => false
      | b2 :: t2 =>
        if inr 224 239 b0 then
          (if b0 =? 224 then inr 160 191 b1
           else if b0 =? 237 then inr 128 159 b1
           else inr 128 191 b1)
          && inr 128 191 b2 && utf8_ok t2
        else
        match t2 with
        | [] => false
        | b3 :: t3 =>
          if inr 240 244 b0 then
            (if b0 =? 240 then inr 144 191 b1
             else if b0 =? 244 then inr 128 143 b1
             else inr 128 191 b1)
            && inr 128 191 b2 && inr 128 191 b3 && utf8_ok t3
          else false
        end
      end
    end
  end.

(* ---------- the supported types and their values ---------- *)

(* element types: unsigned w bytes (also the bit patterns of f32/f64), signed w bytes, bool, char *)
Inductive ety := EU (w : nat) | EI (w : nat) | EBool | EChar.
Inductive ty := TE (e : ety) | TVec (e : ety) | TStr | TUnit.

Inductive ev := VN (n : N) | VZ (z : Z) | VB (b : bool).
Inductive val := VE (x : ev) | VVec (l : list ev) | VStr (l : list N) | VUnit.

Definition ewidth (e : ety) : nat :=
  match e with EU w => w | EI w => w | EBool => 1 | EChar => 4 end.

Definition char_ok (n : N) : bool := (n <? 55296) || ((57343 <? n) && (n <? 1114112)).

Definition half (w : nat) : Z := Z.of_N (pow256 w) / 2.

(* two's complement *)
Definition of_signed (w : nat) (z : Z) : N := Z.to_N (z mod Z.of_N (pow256 w)).
Definition to_signed (w : nat) (n : N) : Z :=
  if (Z.of_N n <? half w)%Z then Z.of_N n else (Z.of_N n - Z.of_N (pow256 w))%Z.

Definition enc_e (e : ety) (x : ev) : list N :=
  match e, x with
  | EU w, VN n => be w n
  | EI w, VZ z => be w (of_signed w z)
  | EBool, VB b => [if b then 1 else 0]
  | EChar, VN n => be 4 n
  | _, _ => []
  end.

(* decoding one element from exactly [ewidth e] bytes; None = panic (char::from_u32(..).unwrap()) *)
Definition dec_e (e : ety) (bs : list N) : option ev :=
  match e with
  | EU _ => Some (VN (de bs))
  | EI w => Some (VZ (to_signed w (de bs)))
  | EBool => Some (VB (hd 0 bs =? 1))
  | EChar => let n := de bs in if char_ok n then Some (VN n) else None
  end.

Fixpoint chunks (w : nat) (n : nat) (bs : list N) : list (list N) :=
  match n with O => [] | S n' => firstn w bs :: chunks w n' (skipn w bs) end.

Fixpoint sequence {A} (l : list (option A)) : option (list A) :=
  match l with
  | [] => Some []
  | None :: _ => None
  | Some x :: t => match sequence t with Some r => Some (x :: r) | None => None end
  end.

Definition encode (t : ty) (v : val) : list N :=
  match t, v with
  | TE e, VE x => enc_e e x
  | TVec e, VVec l => concat (map (enc_e e) l)
  | TStr, VStr l => l
  | _, _ => []
  end.

(* BytesConvertable::from_bytes; None = the conversion panics *)
Definition decode (t : ty) (bs : list N) : option val :=
  match t with
  | TE e => match take (ewidth e) bs with
            | None => None
            | Some h => match dec_e e h with Some x => Some (VE x) | None => None end
            end
  | TVec e => let w := ewidth e in
              match sequence (map (dec_e e) (chunks w (Nat.div (length bs) w) bs)) with
              | Some l => Some (VVec l)
              | None => None
              end
  | TStr => if utf8_ok bs then Some (VStr bs) else None
  | TUnit => Some VUnit
  end.

Definition wf_ev (e : ety) (x : ev) : bool :=
  match e, x with
  | EU w, VN n => negb (Nat.eqb w 0) && (n <? pow256 w)
  | EI w, VZ z => negb (Nat.eqb w 0) && (- half w <=? z)%Z && (z <? half w)%Z
  | EBool, VB _ => true
  | EChar, VN n => char_ok n
  | _, _ => false
  end.

Definition wf_val (t : ty) (v : val) : bool :=
  match t, v with
  | TE e, VE x => wf_ev e x
  | TVec e, VVec l => forallb (wf_ev e) l
  | TStr, VStr l => bytesb l && utf8_ok l
  | TUnit, VUnit => true
  | _, _ => false
  end.

(* ---------- derive macro: positional argument packing ---------- *)

Definition pack1 (f : list N) : list N := be 8 (len f) ++ f.
Definition pack (fs : list (list N)) : list N := concat (map pack1 fs).

Definition checked_add (a b : N) : option N :=
  if a + b <? U64 then Some (a + b) else None.

(* one expansion of unpack_arg, up to (not including) the user conversion:
   the field's bytes and the new value of __ptr *)
Definition unpack_arg (args : list N) (ptr : N) : option (list N * N) :=
  match checked_add ptr 8 with
  | None => None
  | Some len_end =>
    match get args ptr len_end with
    | None => None
    | Some lb =>
      match checked_add len_end (de lb) with
      | None => None
      | Some data_end =>
        match get args len_end data_end with
        | None => None
        | Some d => Some (d, data_end)
        end
      end
    end
  end.

(* the same with a log of the ranges actually read (for the safety theorem) *)
Definition unpack_arg_log (args : list N) (ptr : N) : option (list N * N) * list (N * N) :=
  match checked_add ptr 8 with
  | None => (None, [])
  | Some len_end =>
    match get args ptr len_end with
    | None => (None, [])
    | Some lb =>
      match checked_add len_end (de lb) with
      | None => (None, [(ptr, len_end)])
      | Some data_end =>
        match get args len_end data_end with
        | None => (None, [(ptr, len_end)])
        | Some d => (Some (d, data_end), [(ptr, len_end); (len_end, data_end)])
        end
      end
    end
  end.

Fixpoint unpack_raw (k : nat) (args : list N) (ptr : N) : option (list (list N) * N) :=
  match k with
  | O => Some ([], ptr)
  | S k' =>
    match unpack_arg args ptr with
    | None => None
    | Some (d, p) =>
      match unpack_raw k' args p with
      | None => None
      | Some (ds, q) => Some (d :: ds, q)
      end
    end
  end.

Fixpoint unpack_log (k : nat) (args : list N) (ptr : N) : list (N * N) :=
  match k with
  | O => []
  | S k' =>
    match unpack_arg_log args ptr with
    | (None, lg) => lg
    | (Some (_, p), lg) => lg ++ unpack_log k' args p
    end
  end.

(* k fields, exact consumption ([__ptr == __args.len()]; for k = 0: [__args.is_empty()]) *)
Definition unpack (k : nat) (args : list N) : option (list (list N)) :=
  match unpack_raw k args 0 with
  | Some (fs, p) => if p =? len args then Some fs else None
  | None => None
  end.

(* the generated code interleaves the user conversions (under catch_unwind) with the framing *)
Fixpoint unpack_fields (tys : list ty) (args : list N) (ptr : N) : option (list val * N) :=
  match tys with
  | [] => Some ([], ptr)
  | t :: r =>
    match unpack_arg args ptr with
    | None => None
    | Some (d, p) =>
      match decode t d with
      | None => None
      | Some v =>
        match unpack_fields r args p with
        | None => None
        | Some (vs, q) => Some (v :: vs, q)
        end
      end
    end
  end.

Definition deser_fields (tys : list ty) (args : list N) : option (list val) :=
  match unpack_fields tys args 0 with
  | Some (vs, p) => if p =? len args then Some vs else None
  | None => None
  end.

Fixpoint decode_all (tys : list ty) (fs : list (list N)) : option (list val) :=
  match tys, fs with
  | [], [] => Some []
  | t :: r, f :: fr =>
    match decode t f with
    | None => None
    | Some v => match decode_all r fr with Some vs => Some (v :: vs) | None => None end
    end
  | _, _ => None
  end.

Fixpoint encode_all (tys : list ty) (vs : list val) : list (list N) :=
  match tys, vs with
  | t :: r, v :: vr => encode t v :: encode_all r vr
  | _, _ => []
  end.

Fixpoint wf_all (tys : list ty) (vs : list val) : bool :=
  match tys, vs with
  | [], [] => true
  | t :: r, v :: vr => wf_val t v && wf_all r vr
  | _, _ => false
  end.

(* ---------- derived enum ---------- *)

Fixpoint list_eqb (a b : list N) : bool :=
  match a, b with
  | [], [] => true
  | x :: a', y :: b' => (x =? y) && list_eqb a' b'
  | _, _ => false
  end.

(* a variant: its tag (the variant's name, as bytes), whether it is #[rpc], its data field types
   (the reply port is not part of the argument bytes, whatever its position) *)
Record variant := mkVar { v_tag : list N; v_call : bool; v_tys : list ty }.

Inductive smsg :=
| SCast (tag args : list N) (meta : option (list N))
| SCall (tag args : list N) (meta : option (list N))
| SReply.

Fixpoint find_variant (tbl : list variant) (call : bool) (tag : list N) (i : N) : option (N * variant) :=
  match tbl with
  | [] => None
  | v :: r => if Bool.eqb (v_call v) call && list_eqb (v_tag v) tag then Some (i, v)
              else find_variant r call tag (i + 1)
  end.

(* generated Message::deserialize: None = Err(BoxedDowncastErr); Some (index of the variant, fields) *)
Definition deserialize (tbl : list variant) (m : smsg) : option (N * list val) :=
  match m with
  | SReply => None
  | SCast tag args _ =>
    match find_variant tbl false tag 0 with
    | None => None
    | Some (i, v) => match deser_fields (v_tys v) args with Some vs => Some (i, vs) | None => None end
    end
  | SCall tag args _ =>
    match find_variant tbl true tag 0 with
    | None => None
    | Some (i, v) => match deser_fields (v_tys v) args with Some vs => Some (i, vs) | None => None end
    end
  end.

(* generated Message::serialize of variant number i with the given field values *)
Definition serialize (tbl : list variant) (i : N) (vs : list val) : option smsg :=
  match nth_error tbl (N.to_nat i) with
  | None => None
  | Some v =>
    let args := pack (encode_all (v_tys v) vs) in
    Some (if v_call v then SCall (v_tag v) args None else SCast (v_tag v) args None)
  end.

Fixpoint tags_distinct (tbl : list variant) : bool :=
  match tbl with
  | [] => true
  | v :: r => negb (existsb (fun v' => Bool.eqb (v_call v') (v_call v) && list_eqb (v_tag v') (v_tag v)) r)
              && tags_distinct r
  end.

(* ---------- job metadata ---------- *)

(* the transmitted part of JobOptions: submit time (ns since the epoch) and ttl (ns) *)
Record jopts := mkJo { jo_submit : N; jo_ttl : option N }.

Definition enc_opts (o : jopts) : list N :=
  be 8 (jo_submit o mod U64)
  ++ be 8 ((match jo_ttl o with Some t => t | None => 0 end) mod U64).

(* JobOptions::from_bytes: a default (submit time = now) when the length is not 16 *)
Inductive jdec := JDefault | JOpts (o : jopts).

Definition dec_opts (bs : list N) : jdec :=
  if Nat.eqb (length bs) 16 then
    let t := de (skipn 8 bs) in
    JOpts (mkJo (de (firstn 8 bs)) (if 0 <? t then Some t else None))
  else JDefault.

Definition opts_wf (o : jopts) : bool :=
  (jo_submit o <? U64)
  && match jo_ttl o with None => true | Some t => (0 <? t) && (t <? U64) end.

Definition ser_meta (kt : ty) (k : val) (o : jopts) : list N := enc_opts o ++ encode kt k.

Inductive mres := MErr | MPanic | MOk (k : val) (o : jdec).

(* Job::deserialize_meta; MPanic = the key's from_bytes panics (contained by the actor's catch_unwind) *)
Definition deser_meta (kt : ty) (m : option (list N)) : mres :=
  match m with
  | None => MErr
  | Some bs =>
    if Nat.ltb (length bs) 16 then MErr else
    match decode kt (skipn 16 bs) with
    | None => MPanic
    | Some k => MOk k (dec_opts (firstn 16 bs))
    end
  end.

Inductive jres := JErr | JPanic | JOk (k : val) (o : jdec) (i : N) (vs : list val).

Definition smsg_meta (m : smsg) : option (list N) :=
  match m with SCast _ _ x => x | SCall _ _ x => x | SReply => None end.

(* Message::deserialize of Job<K, derived enum> *)
Definition job_deserialize (kt : ty) (tbl : list variant) (m : smsg) : jres :=
  match m with
  | SReply => JErr
  | _ =>
    match deser_meta kt (smsg_meta m) with
    | MErr => JErr
    | MPanic => JPanic
    | MOk k o => match deserialize tbl m with Some (i, vs) => JOk k o i vs | None => JErr end
    end
  end.

Definition job_serialize (kt : ty) (tbl : list variant) (k : val) (o : jopts) (i : N) (vs : list val)
  : option smsg :=
  match serialize tbl i vs with
  | Some (SCast tag args _) => Some (SCast tag args (Some (ser_meta kt k o)))
  | Some (SCall tag args _) => Some (SCall tag args (Some (ser_meta kt k o)))
  | _ => None
  end.

(* what an actor whose message type is the enum does with a serialized message
   (ractor/src/actor.rs: from_boxed under catch_unwind): handles it, or drops it *)
Definition actor_accepts (tbl : list variant) (m : smsg) : bool :=
  match deserialize tbl m with Some _ => true | None => false end.
Definition job_actor_accepts (kt : ty) (tbl : list variant) (m : smsg) : bool :=
  match job_deserialize kt tbl m with JOk _ _ _ _ => true | _ => false end.

(* ---------- primitive message types (ractor/src/message.rs: the blanket impl of Message for
   every BytesConvertable type: a cast with an empty variant name; anything but a cast is an
   error; the conversion may panic) and message types that are not serializable at all ---------- *)

Inductive pres := PErr | PPanic | POk (v : val).

Definition prim_serialize (t : ty) (v : val) : smsg := SCast [] (encode t v) None.

Definition prim_deserialize (t : ty) (m : smsg) : pres :=
  match m with
  | SCast _ args _ => match decode t args with Some v => POk v | None => PPanic end
  | _ => PErr
  end.

(* an actor of a primitive message type handles exactly the casts whose bytes convert *)
Definition prim_actor_accepts (t : ty) (m : smsg) : bool :=
  match prim_deserialize t m with POk _ => true | _ => false end.

(* Message::deserialize's default (types that are not network serializable): always an error *)
Definition plain_deserialize (m : smsg) : option unit := None.

(* Job<K, primitive> *)
Inductive jpres := JPErr | JPPanic | JPOk (k : val) (o : jdec) (v : val).

Definition job_prim_deserialize (kt t : ty) (m : smsg) : jpres :=
  match m with
  | SReply => JPErr
  | _ =>
    match deser_meta kt (smsg_meta m) with
    | MErr => JPErr
    | MPanic => JPPanic
    | MOk k o => match prim_deserialize t m with
                 | POk v => JPOk k o v
                 | PPanic => JPPanic
                 | PErr => JPErr
                 end
    end
  end.

(* ---------- framing-level acceptability (what the property names: unknown variant,
   short or trailing bytes, bad job metadata), independent of the user conversions ---------- *)

Definition framing_ok_C19 (tbl : list variant) (m : smsg) : bool :=
  let chk call tag args :=
    match find_variant tbl call tag 0 with
    | None => false
    | Some (_, v) => match unpack (length (v_tys v)) args with Some _ => true | None => false end
    end in
  match m with
  | SReply => false
  | SCast tag args _ => chk false tag args
  | SCall tag args _ => chk true tag args
  end.

Definition meta_ok_C19 (kt : ty) (m : smsg) : bool :=
  match m with
  | SReply => false
  | _ => match smsg_meta m with None => false | Some bs => negb (Nat.ltb (length bs) 16) end
  end.

(* ---------- the round-trip clause as an executable oracle ---------- *)

Definition ev_eqb (a b : ev) : bool :=
  match a, b with
  | VN x, VN y => x =? y
  | VZ x, VZ y => (x =? y)%Z
  | VB x, VB y => Bool.eqb x y
  | _, _ => false
  end.

Fixpoint evs_eqb (a b : list ev) : bool :=
  match a, b with
  | [], [] => true
  | x :: a', y :: b' => ev_eqb x y && evs_eqb a' b'
  | _, _ => false
  end.

Definition val_eqb (a b : val) : bool :=
  match a, b with
  | VE x, VE y => ev_eqb x y
  | VVec x, VVec y => evs_eqb x y
  | VStr x, VStr y => list_eqb x y
  | VUnit, VUnit => true
  | _, _ => false
  end.

Fixpoint vals_eqb (a b : list val) : bool :=
  match a, b with
  | [], [] => true
  | x :: a', y :: b' => val_eqb x y && vals_eqb a' b'
  | _, _ => false
  end.

(* [back] is what the implementation's from_bytes returned for the implementation's
   into_bytes of v (None = it panicked) *)
Definition check_C19_roundtrip (v : val) (back : option val) : bool :=
  match back with Some v' => val_eqb v v' | None => false end.

Definition jopts_eqb (a b : jopts) : bool :=
  (jo_submit a =? jo_submit b)
  && match jo_ttl a, jo_ttl b with
     | None, None => true
     | Some x, Some y => x =? y
     | _, _ => false
     end.

Definition check_C19_opts_roundtrip (o : jopts) (back : jdec) : bool :=
  match back with JOpts o' => jopts_eqb o o' | JDefault => false end.

(* enum round trip: the implementation's deserialize (serialize value) *)
Definition check_C19_enum_roundtrip (i : N) (vs : list val) (back : option (N * list val)) : bool :=
  match back with Some (j, vs') => (i =? j) && vals_eqb vs vs' | None => false end.
