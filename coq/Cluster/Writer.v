(* C20 — the session's write task (ractor_cluster/src/net/session.rs, run_write_task):
     while let Some(first) = rx.recv().await {
         buf.clear(); encode(first, buf);
         while let Ok(m) = rx.try_recv() { encode(m, buf) }      // coalescing
         stream.write_all(buf)  (an error ends the task and stops the session)
         stream.flush()
     }
   as a transition system over the unbounded writer channel, for ANY encoding `enc` of a frame
   and ANY number of frames the drain loop happens to find (sends race with the drain on a
   multi-threaded runtime, so every k <= pending is possible).  Theorems: coalescing is
   transparent — at every moment  bytes on the wire ++ encodings of what is still queued =
   encodings of everything handed to the writer, in order; after a failed write the wire holds
   a byte prefix of that stream (nothing reordered, nothing dropped in the middle). *)
From Coq Require Import List NArith Arith Lia.
Import ListNotations.

Section W.
  Variable frame : Type.
  Variable enc : frame -> list N.          (* encode_network_message: 8-byte length ++ payload *)

  Record state := mkW {
    queue : list frame;                    (* writer_tx / writer_rx, FIFO *)
    wire : list N;                         (* bytes accepted by the stream so far *)
    dead : bool }.                         (* the task returned after a write / flush error *)

  Inductive label :=
  | WSend (f : frame)                      (* SessionMessage::Send: writer_tx.send(f) *)
  | WBatch (k : nat)                       (* recv() + k successful try_recv()s, write_all ok *)
  | WFail (k j : nat).                     (* same batch, write_all fails after j bytes *)

  Definition encs (l : list frame) : list N := flat_map enc l.

  Definition step (s : state) (l : label) : option state :=
    match l with
    | WSend f => Some (mkW (queue s ++ [f]) (wire s) (dead s))   (* an unbounded send never fails here;
                                                                    after the task's end it is inert *)
    | WBatch k =>
        if dead s then None else
        match queue s with
        | [] => None                                             (* recv() stays parked *)
        | f :: rest =>
            if Nat.leb k (length rest)
            then Some (mkW (skipn k rest) (wire s ++ enc f ++ encs (firstn k rest)) false)
            else None
        end
    | WFail k j =>
        if dead s then None else
        match queue s with
        | [] => None
        | f :: rest =>
            if Nat.leb k (length rest)
            then Some (mkW (skipn k rest) (wire s ++ firstn j (enc f ++ encs (firstn k rest))) true)
            else None
        end
    end.

  Fixpoint run (s : state) (ls : list label) : option state :=
    match ls with
    | [] => Some s
    | l :: t => match step s l with Some s' => run s' t | None => None end
    end.

  Definition init : state := mkW [] [] false.

  Fixpoint sent (ls : list label) : list frame :=
    match ls with
    | [] => []
    | WSend f :: t => f :: sent t
    | _ :: t => sent t
    end.

  Lemma encs_app : forall a b, encs (a ++ b) = encs a ++ encs b.
  Proof. intros. unfold encs. apply flat_map_app. Qed.

  (* the accounting invariant, from any state *)
  Definition Acc (s : state) (total : list N) : Prop :=
    if dead s then exists more, wire s ++ more = total
    else wire s ++ encs (queue s) = total.

  Lemma acc_step : forall s s' l total, Acc s total -> step s l = Some s' ->
    Acc s' (total ++ match l with WSend f => enc f | _ => [] end).
  Proof.
    intros s s' l total HA H. unfold Acc in *. destruct l as [f|k|k j]; cbn in H.
    - injection H as <-; cbn. destruct (dead s).
      + destruct HA as [more HA]. exists (more ++ enc f). rewrite app_assoc, HA. reflexivity.
      + rewrite encs_app. cbn. rewrite app_nil_r, app_assoc, HA. reflexivity.
    - destruct (dead s) eqn:D; [discriminate|].
      destruct (queue s) as [|f rest] eqn:Q; [discriminate|].
      destruct (Nat.leb k (length rest)); [|discriminate]. injection H as <-; cbn.
      rewrite app_nil_r. rewrite <- HA. cbn. rewrite <- !app_assoc. f_equal. f_equal.
      rewrite <- encs_app, firstn_skipn. reflexivity.
    - destruct (dead s) eqn:D; [discriminate|].
      destruct (queue s) as [|f rest] eqn:Q; [discriminate|].
      destruct (Nat.leb k (length rest)); [|discriminate]. injection H as <-; cbn.
      rewrite app_nil_r.
      exists (skipn j (enc f ++ encs (firstn k rest)) ++ encs (skipn k rest)).
      rewrite <- HA. cbn. rewrite <- !app_assoc. f_equal.
      rewrite (app_assoc (firstn j _)), firstn_skipn. rewrite <- app_assoc. f_equal.
      rewrite <- encs_app, firstn_skipn. reflexivity.
  Qed.

  Lemma acc_run : forall ls s s' total, Acc s total -> run s ls = Some s' ->
    Acc s' (total ++ encs (sent ls)).
  Proof.
    induction ls as [|l t IH]; intros s s' total HA H; cbn in H.
    - inversion H; subst. cbn. rewrite app_nil_r. exact HA.
    - destruct (step s l) as [s1|] eqn:S; [|discriminate].
      pose proof (IH _ _ _ (acc_step _ _ _ _ HA S) H) as R.
      destruct l; cbn in *; rewrite <- ?app_assoc, ?app_nil_r in R; exact R.
  Qed.

  (* coalescing is transparent while the task lives *)
  Theorem writer_transparent : forall ls s, run init ls = Some s -> dead s = false ->
    wire s ++ encs (queue s) = encs (sent ls).
  Proof.
    intros ls s H D. pose proof (acc_run ls init s [] eq_refl H) as R.
    unfold Acc in R. rewrite D in R. exact R.
  Qed.

  (* everything handed over has reached the wire once the channel is empty *)
  Corollary writer_drained_complete : forall ls s, run init ls = Some s -> dead s = false ->
    queue s = [] -> wire s = encs (sent ls).
  Proof.
    intros ls s H D Q. pose proof (writer_transparent ls s H D) as R.
    rewrite Q in R. cbn in R. rewrite app_nil_r in R. exact R.
  Qed.

  (* a failed write truncates the byte stream; it never reorders or loses a middle part *)
  Theorem writer_failure_truncates : forall ls s, run init ls = Some s ->
    exists more, wire s ++ more = encs (sent ls).
  Proof.
    intros ls s H. pose proof (acc_run ls init s [] eq_refl H) as R.
    unfold Acc in R. cbn in R. destruct (dead s); [exact R|].
    exists (encs (queue s)). exact R.
  Qed.
End W.

(* the 64 KiB-cap variant that pops a frame and then breaks (seed C20-11) is NOT this machine:
   frames [a;b;c] with b dropped at the batch boundary give a wire that is no prefix of the
   sent stream — so the theorem above is not vacuous as a discriminator *)
Example dropped_middle_frame_is_not_a_prefix :
  let enc := fun n : N => [n; n] in
  forall more, ([1; 1] ++ [3; 3] ++ more)%N <> encs N enc [1; 2; 3]%N.
Proof. intros enc more H. vm_compute in H. discriminate. Qed.

Example writer_example :
  option_map (fun s => (wire N s, queue N s))
    (run N (fun n => [n; n]) (init N) [WSend N 1; WSend N 2; WSend N 3; WBatch N 1; WSend N 4; WBatch N 0]%N)
  = Some ([1; 1; 2; 2; 3; 3], [4])%N.
Proof. vm_compute. reflexivity. Qed.
