(* Proofs about the handshake state machines of Cluster/Auth.v. *)
From Coq Require Import List NArith Bool Lia.
From RV Require Import Cluster.Auth.
Import ListNotations.
Local Open Scope N_scope.

Section AuthProofs.
Variable dg : cookie -> challenge -> digest.

Notation s_next := (s_next dg).
Notation s_start_challenge := (s_start_challenge dg).
Notation s_step := (s_step dg).
Notation s_run := (s_run dg).
Notation s_trace := (s_trace dg).
Notation c_next := (c_next dg).
Notation c_step := (c_step dg).
Notation c_run := (c_run dg).
Notation c_trace := (c_trace dg).

(* ---------- Close is absorbing ---------- *)

Lemma s_next_close : forall m ck rnd, s_next SClose m ck rnd = SClose.
Proof. intros m ck rnd; destruct m; reflexivity. Qed.

Lemma s_step_close : forall ck o, s_step ck SClose o = SClose.
Proof. intros ck o; destruct o; simpl; auto using s_next_close. Qed.

Lemma s_run_close : forall ck ops, s_run ck SClose ops = SClose.
Proof.
  intros ck ops; unfold Auth.s_run; induction ops as [|o r IH]; simpl; auto.
  rewrite s_step_close; exact IH.
Qed.

Lemma c_next_close : forall m ck rnd, c_next CClose m ck rnd = CClose.
Proof. intros m ck rnd; destruct m; reflexivity. Qed.

Lemma c_run_close : forall ck ops, c_run ck CClose ops = CClose.
Proof.
  intros ck ops; unfold Auth.c_run; induction ops as [|o r IH]; simpl; auto.
  unfold Auth.c_step at 2; rewrite c_next_close; exact IH.
Qed.

(* once a run has reached Close, every extension of it is in Close *)
Lemma s_run_app : forall ck st a b, s_run ck st (a ++ b) = s_run ck (s_run ck st a) b.
Proof. intros; unfold Auth.s_run; apply fold_left_app. Qed.

Lemma c_run_app : forall ck st a b, c_run ck st (a ++ b) = c_run ck (c_run ck st a) b.
Proof. intros; unfold Auth.c_run; apply fold_left_app. Qed.

Lemma s_close_forever : forall ck st pre post,
  s_run ck st pre = SClose -> s_run ck st (pre ++ post) = SClose.
Proof. intros ck st pre post H; rewrite s_run_app, H; apply s_run_close. Qed.

Lemma c_close_forever : forall ck st pre post,
  c_run ck st pre = CClose -> c_run ck st (pre ++ post) = CClose.
Proof. intros ck st pre post H; rewrite c_run_app, H; apply c_run_close. Qed.

(* ---------- anything but the expected message closes ---------- *)

Lemma s_unexpected_closes : forall st m ck rnd,
  s_expects st m = false -> s_next st m ck rnd = SClose.
Proof.
  intros st m ck rnd H; destruct st, m; simpl in *; try reflexivity; try discriminate.
  - destruct b; [discriminate|reflexivity].
  - rewrite H; reflexivity.
Qed.

Lemma s_expected_advances : forall st m ck rnd,
  s_expects st m = true ->
  match st with
  | SWaitName => exists n cs cid, m = AName n cs cid /\ s_next st m ck rnd = SHaveName n cs cid
  | SWaitClientStatus => m = AClientStatus true /\ s_next st m ck rnd = SWaitReply rnd (dg ck rnd)
  | SWaitReply ch e => exists c2, m = AClientChallenge c2 e /\ s_next st m ck rnd = SOk (dg ck c2)
  | _ => False
  end.
Proof.
  intros st m ck rnd H; destruct st, m; simpl in *; try discriminate; eauto.
  - destruct b; [auto|discriminate].
  - apply N.eqb_eq in H; subst d0; exists ch0; rewrite N.eqb_refl; auto.
Qed.

Lemma c_unexpected_closes : forall st m ck rnd,
  c_expects st m = false -> c_next st m ck rnd = CClose.
Proof.
  intros st m ck rnd H; destruct st, m; simpl in *; try reflexivity; try discriminate.
  rewrite H; reflexivity.
Qed.

Lemma c_expected_advances : forall st m ck rnd,
  c_expects st m = true ->
  match st with
  | CWaitStatus => exists s, m = AServerStatus s /\ c_next st m ck rnd = CWaitChallenge s
  | CWaitChallenge _ => exists n cs ch, m = AServerChallenge n cs ch
        /\ c_next st m ck rnd = CWaitAck n cs ch (dg ck ch) rnd (dg ck rnd)
  | CWaitAck _ _ _ _ _ e => m = AServerAck e /\ c_next st m ck rnd = COk
  | _ => False
  end.
Proof.
  intros st m ck rnd H; destruct st, m; simpl in *; try discriminate; eauto.
  apply N.eqb_eq in H; subst d; rewrite N.eqb_refl; auto.
Qed.

(* ---------- Ok needs the digest of the challenge this side issued ---------- *)

(* one step into Ok *)
Lemma s_next_ok_inv : forall st m ck rnd d,
  s_next st m ck rnd = SOk d ->
  exists ch e c2, st = SWaitReply ch e /\ m = AClientChallenge c2 e /\ d = dg ck c2.
Proof.
  intros st m ck rnd d H; destruct m; simpl in H; try discriminate;
    destruct st; simpl in H; try discriminate.
  - destruct b; discriminate.
  - destruct (N.eqb d1 d0) eqn:E; [|discriminate].
    apply N.eqb_eq in E; subst d0. inversion H; subst. do 3 eexists; repeat split.
Qed.

Lemma c_next_ok_inv : forall st m ck rnd,
  c_next st m ck rnd = COk ->
  exists n cs sch r mych e, st = CWaitAck n cs sch r mych e /\ m = AServerAck e.
Proof.
  intros st m ck rnd H; destruct m; simpl in H; try discriminate;
    destruct st; simpl in H; try discriminate.
  destruct (N.eqb expect d) eqn:E; [|discriminate].
  apply N.eqb_eq in E; subst d; repeat eexists.
Qed.


(* invariant: a stored expected digest is the digest of a challenge drawn here *)
Definition s_wf (ck : cookie) (drawn : list challenge) (st : sauth) : Prop :=
  match st with
  | SWaitReply ch e => e = dg ck ch /\ In ch drawn
  | _ => True
  end.

Lemma s_wf_mono : forall ck d d' st, incl d d' -> s_wf ck d st -> s_wf ck d' st.
Proof. intros ck d d' st Hi; destruct st; simpl; intuition. Qed.

Lemma s_step_wf : forall ck drawn st o,
  s_wf ck drawn st -> s_wf ck (drawn ++ sop_rnd o) (s_step ck st o).
Proof.
  intros ck drawn st o Hwf.
  destruct o as [m rnd|rnd|]; simpl.
  - destruct m; simpl; try exact I; destruct st; simpl; try exact I.
    + destruct b; simpl; [|exact I]. split; [reflexivity|apply in_or_app; right; left; reflexivity].
    + destruct (N.eqb d0 d); exact I.
  - destruct st; simpl; try exact I;
      (split; [reflexivity|apply in_or_app; right; left; reflexivity]).
  - rewrite app_nil_r. destruct st; simpl in *; auto.
Qed.

Lemma s_drawn_app : forall a b, s_drawn (a ++ b) = s_drawn a ++ s_drawn b.
Proof. intros; unfold s_drawn; apply flat_map_app. Qed.

Lemma s_run_wf : forall ck ops st drawn,
  s_wf ck drawn st -> s_wf ck (drawn ++ s_drawn ops) (s_run ck st ops).
Proof.
  intros ck ops; induction ops as [|o r IH]; intros st drawn Hwf; simpl.
  - rewrite app_nil_r; exact Hwf.
  - unfold Auth.s_run; simpl. fold (s_run ck (s_step ck st o) r).
    unfold s_drawn; simpl. fold (s_drawn r). rewrite app_assoc.
    apply IH. apply s_step_wf; exact Hwf.
Qed.

Lemma s_run_snoc : forall ck st ops o, s_run ck st (ops ++ [o]) = s_step ck (s_run ck st ops) o.
Proof. intros; rewrite s_run_app; reflexivity. Qed.

(* Headline (server role): a run of the session's operations on the server FSM
   from its initial state ends in Ok only if the peer sent a ClientChallenge
   whose digest is dg cookie ch, where ch is the challenge stored in the state
   at that moment, and ch is one of the random challenges this side drew
   (start_challenge).  After that message only the no-op SForceWaitStatus may
   follow (any other operation leaves Ok). *)
Theorem s_ok_needs_digest : forall ck ops d,
  s_run ck SWaitName ops = SOk d ->
  exists pre ch c2 rnd post,
    ops = pre ++ SMsg (AClientChallenge c2 (dg ck ch)) rnd :: post
    /\ s_run ck SWaitName pre = SWaitReply ch (dg ck ch)
    /\ In ch (s_drawn pre)
    /\ d = dg ck c2
    /\ Forall (fun o => o = SForceWaitStatus) post.
Proof.
  intros ck ops; induction ops as [|o l IH] using rev_ind; intros d H.
  - discriminate.
  - rewrite s_run_snoc in H.
    destruct o as [m rnd|rnd|].
    + simpl in H. apply s_next_ok_inv in H.
      destruct H as (ch & e & c2 & Hst & Hm & Hd).
      pose proof (s_run_wf ck l SWaitName [] I) as Hwf. rewrite Hst in Hwf.
      simpl in Hwf. destruct Hwf as [He Hin]. subst e m.
      exists l, ch, c2, rnd, []. repeat split; auto.
    + simpl in H. destruct (s_run ck SWaitName l); discriminate.
    + simpl in H. destruct (s_run ck SWaitName l) eqn:E; try discriminate.
      inversion H; subst d0. destruct (IH d eq_refl) as (pre & ch & c2 & rnd & post & A & B & C & D & F).
      exists pre, ch, c2, rnd, (post ++ [SForceWaitStatus]). repeat split; auto.
      * rewrite A. rewrite <- app_assoc. reflexivity.
      * apply Forall_app; split; auto.
Qed.

(* the reduction, stated as its contrapositive: a digest other than dg cookie ch
   never opens the session *)
Corollary s_wrong_digest_closes : forall ck ch c2 d rnd,
  d <> dg ck ch ->
  s_next (SWaitReply ch (dg ck ch)) (AClientChallenge c2 d) ck rnd = SClose.
Proof.
  intros ck ch c2 d rnd Hne; simpl.
  destruct (N.eqb (dg ck ch) d) eqn:E; [apply N.eqb_eq in E; congruence|reflexivity].
Qed.

(* client role *)

Definition c_wf (ck : cookie) (drawn : list challenge) (st : cauth) : Prop :=
  match st with
  | CWaitAck _ _ sch r mych e => e = dg ck mych /\ r = dg ck sch /\ In mych drawn
  | _ => True
  end.

Lemma c_step_wf : forall ck drawn st o,
  c_wf ck drawn st -> c_wf ck (drawn ++ [snd o]) (c_step ck st o).
Proof.
  intros ck drawn st [m rnd] Hwf; unfold Auth.c_step; simpl.
  destruct m; simpl; try exact I; destruct st; simpl; try exact I.
  - repeat split; apply in_or_app; right; left; reflexivity.
  - destruct (N.eqb expect d); exact I.
Qed.

Lemma c_run_wf : forall ck ops st drawn,
  c_wf ck drawn st -> c_wf ck (drawn ++ c_drawn ops) (c_run ck st ops).
Proof.
  intros ck ops; induction ops as [|o r IH]; intros st drawn Hwf; simpl.
  - rewrite app_nil_r; exact Hwf.
  - unfold Auth.c_run; simpl. fold (c_run ck (c_step ck st o) r).
    change (drawn ++ snd o :: c_drawn r) with (drawn ++ [snd o] ++ c_drawn r).
    rewrite app_assoc. apply IH. apply c_step_wf; exact Hwf.
Qed.

Lemma c_run_snoc : forall ck st ops o, c_run ck st (ops ++ [o]) = c_step ck (c_run ck st ops) o.
Proof. intros; rewrite c_run_app; reflexivity. Qed.

(* Headline (client role): Ok is the state right after a ServerAck carrying
   dg cookie mych for the challenge mych this client drew and sent. *)
Theorem c_ok_needs_digest : forall ck ops,
  c_run ck CWaitStatus ops = COk ->
  exists pre n cs sch mych rnd,
    ops = pre ++ [(AServerAck (dg ck mych), rnd)]
    /\ c_run ck CWaitStatus pre = CWaitAck n cs sch (dg ck sch) mych (dg ck mych)
    /\ In mych (c_drawn pre).
Proof.
  intros ck ops; induction ops as [|o l IH] using rev_ind; intros H.
  - discriminate.
  - rewrite c_run_snoc in H. destruct o as [m rnd]. unfold Auth.c_step in H; simpl in H.
    apply c_next_ok_inv in H.
    destruct H as (n & cs & sch & r & mych & e & Hst & Hm).
    pose proof (c_run_wf ck l CWaitStatus [] I) as Hwf. rewrite Hst in Hwf.
    simpl in Hwf. destruct Hwf as (He & Hr & Hin). subst e r m.
    exists l, n, cs, sch, mych, rnd. repeat split; auto.
Qed.

Corollary c_wrong_digest_closes : forall ck n cs sch r mych d rnd,
  d <> dg ck mych ->
  c_next (CWaitAck n cs sch r mych (dg ck mych)) (AServerAck d) ck rnd = CClose.
Proof.
  intros; simpl.
  destruct (N.eqb (dg ck mych) d) eqn:E; [apply N.eqb_eq in E; congruence|reflexivity].
Qed.

(* ---------- the executable oracle accepts every model run ---------- *)

Lemma s_step_ok_model : forall ck st o,
  (match st with SWaitReply ch e => e = dg ck ch | _ => True end) ->
  s_step_ok dg ck st o (s_step ck st o) = true.
Proof.
  intros ck st o Hwf. unfold s_step_ok.
  destruct o as [m rnd|rnd|].
  - destruct st, m; simpl; try reflexivity;
      try (destruct b; simpl; rewrite ?N.eqb_refl; reflexivity).
    subst d. destruct (N.eqb (dg ck ch) d0) eqn:E; simpl; rewrite ?E; simpl; auto.
    apply N.eqb_eq in E. rewrite <- E, !N.eqb_refl. reflexivity.
  - destruct st; simpl; rewrite ?N.eqb_refl; try reflexivity.
  - destruct st; simpl; try reflexivity. subst d. rewrite N.eqb_refl; reflexivity.
Qed.

Lemma s_step_keeps_wf : forall ck st o,
  (match st with SWaitReply ch e => e = dg ck ch | _ => True end) ->
  (match s_step ck st o with SWaitReply ch e => e = dg ck ch | _ => True end).
Proof.
  intros ck st o Hwf.
  pose proof (s_step_wf ck (match st with SWaitReply ch _ => [ch] | _ => [] end) st o) as H.
  assert (Hs : s_wf ck (match st with SWaitReply ch _ => [ch] | _ => [] end) st).
  { destruct st; simpl; auto. }
  specialize (H Hs). destruct (s_step ck st o); simpl in *; tauto.
Qed.

Theorem check_server_sound : forall ck ops st,
  (match st with SWaitReply ch e => e = dg ck ch | _ => True end) ->
  check_C17_server dg ck st ops (s_trace ck st ops) = true.
Proof.
  intros ck ops; induction ops as [|o r IH]; intros st Hwf; simpl; auto.
  rewrite s_step_ok_model by exact Hwf. simpl.
  apply IH. apply s_step_keeps_wf; exact Hwf.
Qed.

Lemma c_step_ok_model : forall ck st o,
  (match st with CWaitAck _ _ _ _ mych e => e = dg ck mych | _ => True end) ->
  c_step_ok dg ck st o (c_step ck st o) = true.
Proof.
  intros ck st [m rnd] Hwf. unfold c_step_ok, Auth.c_step; simpl.
  destruct st, m; simpl; rewrite ?N.eqb_refl; try reflexivity.
  subst expect. destruct (N.eqb (dg ck mych) d) eqn:E; simpl; rewrite ?E; simpl; auto.
  apply N.eqb_eq in E. rewrite <- E, !N.eqb_refl. reflexivity.
Qed.

Lemma c_step_keeps_wf : forall ck st o,
  (match st with CWaitAck _ _ _ _ mych e => e = dg ck mych | _ => True end) ->
  (match c_step ck st o with CWaitAck _ _ _ _ mych e => e = dg ck mych | _ => True end).
Proof.
  intros ck st [m rnd] Hwf. unfold Auth.c_step; simpl.
  destruct m; simpl; auto; destruct st; simpl; auto.
  destruct (N.eqb expect d); auto.
Qed.

Theorem check_client_sound : forall ck ops st,
  (match st with CWaitAck _ _ _ _ mych e => e = dg ck mych | _ => True end) ->
  check_C17_client dg ck st ops (c_trace ck st ops) = true.
Proof.
  intros ck ops; induction ops as [|o r IH]; intros st Hwf; simpl; auto.
  rewrite c_step_ok_model by exact Hwf. simpl.
  apply IH. apply c_step_keeps_wf; exact Hwf.
Qed.

(* a cookie-less acceptor can only replay what the client put on the wire, i.e. the
   digest of the SERVER's challenge; unless that coincides with the digest of the
   client's own fresh challenge, the replay closes *)
Corollary c_replay_closes : forall ck n cs sch mych rnd,
  dg ck sch <> dg ck mych ->
  c_next (CWaitAck n cs sch (dg ck sch) mych (dg ck mych)) (AServerAck (dg ck sch)) ck rnd = CClose.
Proof. intros; apply c_wrong_digest_closes; assumption. Qed.

Corollary check_server_sound_init : forall ck ops,
  check_C17_server dg ck SWaitName ops (s_trace ck SWaitName ops) = true.
Proof. intros; apply check_server_sound; exact I. Qed.

Corollary check_client_sound_init : forall ck ops,
  check_C17_client dg ck CWaitStatus ops (c_trace ck CWaitStatus ops) = true.
Proof. intros; apply check_client_sound; exact I. Qed.

End AuthProofs.

(* the symbolic digest used for evaluation is injective on 32-bit challenges *)
Lemma dg_sym_injective : forall k ch k' ch',
  ch < 4294967296 -> ch' < 4294967296 ->
  dg_sym k ch = dg_sym k' ch' -> k = k' /\ ch = ch'.
Proof. unfold dg_sym; intros; lia. Qed.
