(* Model for C20 — remote actors behave like the actors they stand for.
   Part 1: the proxy actor of ractor_cluster/src/remote_actor.rs (request tags, pending reply
           ports, incremental reclamation of abandoned requests) — an exact functional model,
           compared with the real handler on every run (E3).
   Part 2: a chain of FIFO stages (mailboxes, writer channel, byte pipe, reader) and the fact
           that it behaves like one FIFO queue.
   Part 3: the two-node system as a labelled transition system: node X holds the proxies,
           node Y the real actors; forward chain X->Y (casts, calls), backward chain Y->X
           (replies, Spawn/Terminate/PgJoin/PgLeave), reply tasks, lifecycle events on Y,
           callers abandoning calls, connection loss. One label = one component taking one step;
           theorems quantify over all label sequences.
   Part 4: the executable oracle check_C20 applied to what the two real nodes did (E4).
   Definitions only; proofs are in RemoteProofs.v / RemoteNetProofs.v. *)
From Coq Require Import List NArith Bool.
Import ListNotations.
Local Open Scope N_scope.

(* ====================================================================== *)
(* Part 1: the proxy                                                       *)

(* a serialized message: cast or call, the variant name (as a number) and the argument bytes *)
Record msg := mkMsg { m_call : bool; m_v : N; m_a : list N }.

(* PENDING_REQUEST_CLEANUP_BUDGET *)
Definition budget : nat := 16.

(* RemoteActorState: message_tag, pending_requests (BTreeMap: ascending tags; the value is the
   identity of the reply port), pending_request_cleanup_cursor.
   message_tag is a u64 in the code; the model uses unbounded N. The two agree as long as fewer
   than 2^64 calls went through one proxy (see ProxyProofs: p_tag counts the calls). *)
Record pst := mkP { p_tag : N; p_pend : list (N * N); p_cur : option N }.
Definition pst0 : pst := mkP 0 [] None.

Inductive pin :=
| PSend (m : msg) (port : N)          (* SerializedMessage::Cast / ::Call (port only for calls) *)
| PReply (t : N) (d : list N).        (* SerializedMessage::CallReply(tag, data) *)

Inductive pout :=
| OSend (t : N) (m : msg)             (* NodeMessage::Cast (t = 0) / ::Call with tag t, to the session *)
| OResolve (port : N) (d : list N).   (* port.send(data) *)

Fixpoint last_opt {A} (l : list A) : option A :=
  match l with [] => None | [x] => Some x | _ :: t => last_opt t end.

Definition memN (x : N) (l : list N) : bool := existsb (N.eqb x) l.

Definition tags_after (c : N) (pend : list (N * N)) : list N :=
  map fst (filter (fun e => N.ltb c (fst e)) pend).

(* cleanup_closed_pending_requests: inspect at most [budget] entries, continuing after the
   cursor and wrapping around; drop the inspected entries whose port is closed *)
Definition cleanup (closed : N -> bool) (st : pst) : pst :=
  let pend := p_pend st in
  let n := Nat.min (length pend) budget in
  match n with
  | O => mkP (p_tag st) pend None
  | _ =>
    let t1 := match p_cur st with
              | Some c => firstn n (tags_after c pend)
              | None => [] end in
    let t2 := firstn (n - length t1) (map fst pend) in
    let tags := t1 ++ t2 in
    let pend' := filter (fun e => negb (memN (fst e) tags && closed (snd e))) pend in
    mkP (p_tag st) pend' (match pend' with [] => None | _ => last_opt tags end)
  end.

Definition find_tag (t : N) (pend : list (N * N)) : option (N * N) :=
  find (fun e => N.eqb (fst e) t) pend.
Definition remove_tag (t : N) (pend : list (N * N)) : list (N * N) :=
  filter (fun e => negb (N.eqb (fst e) t)) pend.

(* handle_serialized. [closed p] = the receiver of port p is gone (call abandoned / timed out);
   [sess_ok] = the cast to the owning session succeeds *)
Definition pstep (closed : N -> bool) (sess_ok : bool) (st0 : pst) (i : pin) : pst * list pout :=
  let st := cleanup closed st0 in
  match i with
  | PSend m port =>
    if m_call m then
      let t := p_tag st + 1 in
      if sess_ok then (mkP t (p_pend st ++ [(t, port)]) (p_cur st), [OSend t m])
      else (mkP t (p_pend st) (p_cur st), [])
    else (st, if sess_ok then [OSend 0 m] else [])
  | PReply t d =>
    match find_tag t (p_pend st) with
    | Some (_, port) =>
      let pend' := remove_tag t (p_pend st) in
      (mkP (p_tag st) pend' (match pend' with [] => None | _ => p_cur st end), [OResolve port d])
    | None => (st, [])
    end
  end.

(* a history of the proxy: at each step the environment says which ports are closed by now and
   whether the session is still there *)
Definition pev := ((list N * bool) * pin)%type.

Fixpoint prun (st : pst) (evs : list pev) : pst * list (list pout) :=
  match evs with
  | [] => (st, [])
  | (ab, ok, i) :: r =>
    let '(st1, o) := pstep (fun p => memN p ab) ok st i in
    let '(st2, os) := prun st1 r in (st2, o :: os)
  end.

(* the E3 view: outputs and the state after each step; a resolution of a port whose receiver is
   gone is not observable *)
Definition visible (ab : list N) (o : pout) : bool :=
  match o with OResolve p _ => negb (memN p ab) | _ => true end.

Fixpoint prun_view (st : pst) (evs : list pev) : list (list pout * (N * list (N * N) * option N)) :=
  match evs with
  | [] => []
  | (ab, ok, i) :: r =>
    let '(st1, o) := pstep (fun p => memN p ab) ok st i in
    (filter (visible ab) o, (p_tag st1, p_pend st1, p_cur st1)) :: prun_view st1 r
  end.

(* ghost bookkeeping over a history: the (tag, port) pairs inserted and the resolutions *)
Definition inserted_of (i : pin) (o : list pout) : list (N * N) :=
  match i, o with
  | PSend m port, [OSend t _] => if m_call m then [(t, port)] else []
  | _, _ => []
  end.
Definition resolved_of (i : pin) (o : list pout) : list (N * N) :=
  match i, o with
  | PReply t _, [OResolve port _] => [(t, port)]
  | _, _ => []
  end.
Fixpoint inserted (evs : list pev) (outs : list (list pout)) : list (N * N) :=
  match evs, outs with
  | (_, i) :: r, o :: os => inserted_of i o ++ inserted r os
  | _, _ => []
  end.
Fixpoint resolved (evs : list pev) (outs : list (list pout)) : list (N * N) :=
  match evs, outs with
  | (_, i) :: r, o :: os => resolved_of i o ++ resolved r os
  | _, _ => []
  end.
Fixpoint ncalls (evs : list pev) : N :=
  match evs with
  | [] => 0
  | (_, PSend m _) :: r => (if m_call m then 1 else 0) + ncalls r
  | _ :: r => ncalls r
  end.

(* ====================================================================== *)
(* Part 2: chains of FIFO stages                                           *)

Section Chain.
  Context {A : Type}.
  (* stage 0 is where items enter; the last stage is where they leave *)
  Fixpoint flat (l : list (list A)) : list A :=
    match l with [] => [] | q :: r => flat r ++ q end.

  Definition push (x : A) (l : list (list A)) : list (list A) :=
    match l with [] => [[x]] | q :: r => (q ++ [x]) :: r end.

  (* the head of stage i moves to the tail of stage i+1 *)
  Fixpoint hop (i : nat) (l : list (list A)) : list (list A) :=
    match i, l with
    | O, (x :: q) :: q' :: r => q :: (q' ++ [x]) :: r
    | S i', q :: r => q :: hop i' r
    | _, _ => l
    end.

  Fixpoint pop_last (l : list (list A)) : option (A * list (list A)) :=
    match l with
    | [] => None
    | q :: r =>
      match r with
      | [] => match q with [] => None | x :: q' => Some (x, [q']) end
      | _ => match pop_last r with Some (x, r') => Some (x, q :: r') | None => None end
      end
    end.

  (* everything in the k stages nearest to the entry is lost *)
  Fixpoint cut (k : nat) (l : list (list A)) : list (list A) :=
    match k, l with
    | S k', _ :: r => [] :: cut k' r
    | _, _ => l
    end.
End Chain.

(* one stage may be a byte pipe: frames are written with a self-delimiting encoding and read back
   one by one; [read_all] is what a reader gets out of a byte string (a truncated frame is
   dropped, as read_network_message fails at EOF) *)
Section BytePipe.
  Context {F : Type}.
  Variable enc : F -> list N.
  Variable dec : list N -> option (F * list N).
  Fixpoint read_all (fuel : nat) (bs : list N) : list F :=
    match fuel with
    | O => []
    | S k => match dec bs with Some (f, rest) => f :: read_all k rest | None => [] end
    end.
End BytePipe.

(* ====================================================================== *)
(* Part 3: the two-node system                                             *)

(* items in a proxy's mailbox; [port] of a reply is ghost: the port of the call it answers *)
Inductive pitem :=
| ISend (m : msg) (port : N)
| IReply (t : N) (d : list N) (port : N).

(* frames on the wire; ports are ghost annotations (not transmitted) *)
Inductive frame :=
| FMsg (to : N) (tag : N) (m : msg) (port : N)       (* node.proto Cast / Call *)
| FReply (to : N) (tag : N) (d : list N) (port : N)  (* node.proto CallReply *)
| FSpawn (pid : N)                                   (* control.proto Spawn *)
| FTerm (pid : N)                                    (* Terminate *)
| FJoin (g : N) (pid : N)                            (* PgJoin *)
| FLeave (g : N) (pid : N).                          (* PgLeave *)

Inductive titem := TMsg (tag : N) (m : msg) (port : N).

(* a proxy on X; [x_was] is ghost: it has been alive at some point *)
Record pxy := mkPx { x_alive : bool; x_was : bool; x_mbox : list pitem; x_st : pst; x_groups : list N }.
Definition px_none : pxy := mkPx false false [] pst0 [].
Definition px_dead : pxy := mkPx false true [] pst0 [].
Definition px_fresh : pxy := mkPx true true [] pst0 [].

(* an actor on Y; pids are never reused ([t_used]) *)
Record tgt := mkT { t_alive : bool; t_used : bool; t_mbox : list titem; t_groups : list N }.
Definition tg_none : tgt := mkT false false [] [].

Definition upd {A} (f : N -> A) (k : N) (v : A) : N -> A :=
  fun x => if N.eqb x k then v else f x.

Definition addg (g : N) (l : list N) : list N := if memN g l then l else l ++ [g].
Definition remg (g : N) (l : list N) : list N := filter (fun x => negb (N.eqb x g)) l.

Record sys := mkSys {
  px : N -> pxy;               (* X: proxy for the peer's pid *)
  fwd : list (list frame);     (* X -> Y: session mailbox, tcp actor, writer channel, pipe, reader, ... *)
  bwd : list (list frame);     (* Y -> X *)
  ctl : list frame;            (* Y: lifecycle events waiting at the session's supervision port *)
  pool : list frame;           (* Y: reply tasks (unordered) *)
  tg : N -> tgt;               (* Y: the real actors *)
  up : bool;                   (* the session is open *)
  aband : list N;              (* ports whose caller has gone away *)
  (* ---- ghost history ---- *)
  sent : N -> list msg;        (* accepted by the proxy's mailbox, per target, in order *)
  dlv : N -> list msg;         (* handled by the real actor, per target, in order *)
  ins : N -> list (N * N);     (* (tag, port) pairs inserted by the proxy for pid *)
  calls : list (N * msg * N);  (* calls accepted: (target, message, port) *)
  res : list (N * list N);     (* ports resolved with data *)
  lossy : N -> bool            (* a fault (target exit, proxy termination, close) hit this target *)
}.

Definition init (nf nb : nat) : sys :=
  mkSys (fun _ => px_none) (repeat [] (S nf)) (repeat [] (S nb)) [] [] (fun _ => tg_none) true []
        (fun _ => []) (fun _ => []) (fun _ => []) [] [] (fun _ => false).

Inductive label :=
| LSend (pid : N) (m : msg) (port : N)   (* somebody sends m to the remote reference of pid *)
| LAbandon (port : N)                    (* a caller drops its call / times out *)
| LProxy (pid : N)                       (* the proxy handles its next message *)
| LHopF (i : nat)                        (* an inner stage of X -> Y moves one item *)
| LDeliverF                              (* Y's session handles the next node message *)
| LTarget (pid : N)                      (* the real actor handles its next message *)
| LReplyTask (i : nat)                   (* a reply task hands its reply to Y's session *)
| LCtl                                   (* Y's session handles the next lifecycle event *)
| LHopB (i : nat)
| LDeliverB                              (* X's session handles the next frame *)
| LSpawn (pid : N) | LExit (pid : N) | LJoin (pid g : N) | LLeave (pid g : N)   (* on Y *)
| LClose (k : nat).                      (* connection loss; all but the k oldest frames X -> Y are lost *)

Definition port_used (st : sys) (port : N) : bool :=
  existsb (fun c => N.eqb (snd c) port) (calls st).

Fixpoint remove_nth {A} (i : nat) (l : list A) : list A :=
  match i, l with
  | O, _ :: r => r
  | S i', x :: r => x :: remove_nth i' r
  | _, [] => []
  end.

Section Sys.
  (* user code of the real actors: what a call is answered with (None: never answers) *)
  Variable resp : N -> msg -> option (list N).

  Definition do_send (st : sys) (pid : N) (m : msg) (port : N) : sys :=
    let p := px st pid in
    if x_alive p && negb (m_call m && port_used st port) then
      mkSys (upd (px st) pid (mkPx true (x_was p) (x_mbox p ++ [ISend m port]) (x_st p) (x_groups p)))
            (fwd st) (bwd st) (ctl st) (pool st) (tg st) (up st) (aband st)
            (upd (sent st) pid (sent st pid ++ [m])) (dlv st) (ins st)
            (if m_call m then calls st ++ [(pid, m, port)] else calls st) (res st) (lossy st)
    else st.

  Definition do_abandon (st : sys) (port : N) : sys :=
    mkSys (px st) (fwd st) (bwd st) (ctl st) (pool st) (tg st) (up st) (port :: aband st)
          (sent st) (dlv st) (ins st) (calls st) (res st) (lossy st).

  Definition pin_of (it : pitem) : pin :=
    match it with ISend m port => PSend m port | IReply t d _ => PReply t d end.
  Definition port_of (it : pitem) : N :=
    match it with ISend _ port => port | IReply _ _ port => port end.

  Definition do_proxy (st : sys) (pid : N) : sys :=
    let p := px st pid in
    if x_alive p then
      match x_mbox p with
      | [] => st
      | it :: rest =>
        let '(ps, outs) := pstep (fun q => memN q (aband st)) (up st) (x_st p) (pin_of it) in
        let p' := mkPx true (x_was p) rest ps (x_groups p) in
        let fwd' := match outs with
                    | [OSend t m] => push (FMsg pid t m (port_of it)) (fwd st)
                    | _ => fwd st end in
        let ins' := upd (ins st) pid (ins st pid ++ inserted_of (pin_of it) outs) in
        let res' := match outs with
                    | [OResolve port d] => if memN port (aband st) then res st else res st ++ [(port, d)]
                    | _ => res st end in
        let lossy' := match it, outs with
                      | ISend _ _, [] => upd (lossy st) pid true
                      | _, _ => lossy st end in
        mkSys (upd (px st) pid p') fwd' (bwd st) (ctl st) (pool st) (tg st) (up st) (aband st)
              (sent st) (dlv st) ins' (calls st) res' lossy'
      end
    else st.

  Definition do_hopf (st : sys) (i : nat) : sys :=
    mkSys (px st) (hop i (fwd st)) (bwd st) (ctl st) (pool st) (tg st) (up st) (aband st)
          (sent st) (dlv st) (ins st) (calls st) (res st) (lossy st).

  (* handle_node, Cast / Call: forward to the advertised live local actor, else drop *)
  Definition do_deliverf (st : sys) : sys :=
    match pop_last (fwd st) with
    | None => st
    | Some (f, fwd') =>
      match f with
      | FMsg to tag m port =>
        let t := tg st to in
        if t_alive t then
          mkSys (px st) fwd' (bwd st) (ctl st) (pool st)
                (upd (tg st) to (mkT true (t_used t) (t_mbox t ++ [TMsg tag m port]) (t_groups t)))
                (up st) (aband st) (sent st) (dlv st) (ins st) (calls st) (res st) (lossy st)
        else
          mkSys (px st) fwd' (bwd st) (ctl st) (pool st) (tg st) (up st) (aband st)
                (sent st) (dlv st) (ins st) (calls st) (res st) (upd (lossy st) to true)
      | _ =>
        mkSys (px st) fwd' (bwd st) (ctl st) (pool st) (tg st) (up st) (aband st)
              (sent st) (dlv st) (ins st) (calls st) (res st) (lossy st)
      end
    end.

  Definition do_target (st : sys) (pid : N) : sys :=
    let t := tg st pid in
    if t_alive t then
      match t_mbox t with
      | [] => st
      | TMsg tag m port :: rest =>
        let pool' := if m_call m then
                       match resp pid m with
                       | Some d => pool st ++ [FReply pid tag d port]
                       | None => pool st end
                     else pool st in
        mkSys (px st) (fwd st) (bwd st) (ctl st) pool'
              (upd (tg st) pid (mkT true (t_used t) rest (t_groups t)))
              (up st) (aband st) (sent st) (upd (dlv st) pid (dlv st pid ++ [m]))
              (ins st) (calls st) (res st) (lossy st)
      end
    else st.

  Definition do_replytask (st : sys) (i : nat) : sys :=
    match nth_error (pool st) i with
    | None => st
    | Some f =>
      mkSys (px st) (fwd st) (push f (bwd st)) (ctl st) (remove_nth i (pool st)) (tg st) (up st)
            (aband st) (sent st) (dlv st) (ins st) (calls st) (res st) (lossy st)
    end.

  Definition do_ctl (st : sys) : sys :=
    match ctl st with
    | [] => st
    | f :: rest =>
      mkSys (px st) (fwd st) (push f (bwd st)) rest (pool st) (tg st) (up st)
            (aband st) (sent st) (dlv st) (ins st) (calls st) (res st) (lossy st)
    end.

  Definition do_hopb (st : sys) (i : nat) : sys :=
    mkSys (px st) (fwd st) (hop i (bwd st)) (ctl st) (pool st) (tg st) (up st) (aband st)
          (sent st) (dlv st) (ins st) (calls st) (res st) (lossy st).

  (* get_or_spawn_remote_actor *)
  Definition get_or_spawn (p : pxy) : pxy := if x_alive p then p else px_fresh.

  (* X's session: handle_node Reply and handle_control Spawn / Terminate / PgJoin / PgLeave *)
  Definition handle_b (f : frame) (pxm : N -> pxy) : N -> pxy :=
    match f with
    | FReply to tag d port =>
      let p := pxm to in
      if x_alive p then
        upd pxm to (mkPx true (x_was p) (x_mbox p ++ [IReply tag d port]) (x_st p) (x_groups p))
      else pxm
    | FSpawn pid => upd pxm pid (get_or_spawn (pxm pid))
    | FTerm pid => if x_alive (pxm pid) then upd pxm pid px_dead else pxm
    | FJoin g pid =>
      let p := get_or_spawn (pxm pid) in
      upd pxm pid (mkPx true true (x_mbox p) (x_st p) (addg g (x_groups p)))
    | FLeave g pid =>
      let p := pxm pid in
      if x_alive p then
        upd pxm pid (mkPx true (x_was p) (x_mbox p) (x_st p) (remg g (x_groups p)))
      else pxm
    | FMsg _ _ _ _ => pxm
    end.

  Definition kills (f : frame) (pxm : N -> pxy) : option N :=
    match f with FTerm pid => if x_alive (pxm pid) then Some pid else None | _ => None end.

  Definition do_deliverb (st : sys) : sys :=
    if up st then
      match pop_last (bwd st) with
      | None => st
      | Some (f, bwd') =>
        mkSys (handle_b f (px st)) (fwd st) bwd' (ctl st) (pool st) (tg st) (up st) (aband st)
              (sent st) (dlv st) (ins st) (calls st) (res st)
              (match kills f (px st) with Some pid => upd (lossy st) pid true | None => lossy st end)
      end
    else st.

  Definition set_y (st : sys) (pid : N) (t : tgt) (fs : list frame) (lossy' : N -> bool) : sys :=
    mkSys (px st) (fwd st) (bwd st) (ctl st ++ fs) (pool st) (upd (tg st) pid t) (up st) (aband st)
          (sent st) (dlv st) (ins st) (calls st) (res st) lossy'.

  Definition do_spawn (st : sys) (pid : N) : sys :=
    if t_used (tg st pid) then st
    else set_y st pid (mkT true true [] []) [FSpawn pid] (lossy st).

  Definition do_exit (st : sys) (pid : N) : sys :=
    let t := tg st pid in
    if t_alive t then
      set_y st pid (mkT false true [] [])
            (FTerm pid :: map (fun g => FLeave g pid) (t_groups t)) (upd (lossy st) pid true)
    else st.

  Definition do_join (st : sys) (pid g : N) : sys :=
    let t := tg st pid in
    if t_alive t then
      set_y st pid (mkT true (t_used t) (t_mbox t) (addg g (t_groups t))) [FJoin g pid] (lossy st)
    else st.

  Definition do_leave (st : sys) (pid g : N) : sys :=
    let t := tg st pid in
    if t_alive t then
      set_y st pid (mkT true (t_used t) (t_mbox t) (remg g (t_groups t))) [FLeave g pid] (lossy st)
    else st.

  (* the session on X stops: every proxy (its children) stops and leaves its groups, nothing
     is read or written any more; of the frames on their way to Y the k oldest may still be
     delivered (any k: a cut at any byte offset of the pipe, frames already read but discarded
     by a stopping session, ... — always a suffix of what is in flight is lost); what remains
     is kept as one stage, nothing new can enter *)
  Definition do_close (st : sys) (k : nat) : sys :=
    mkSys (fun pid => if x_was (px st pid) then px_dead else px_none)
          [firstn k (flat (fwd st))] (map (fun _ => []) (bwd st)) [] (pool st) (tg st) false (aband st)
          (sent st) (dlv st) (ins st) (calls st) (res st) (fun _ => true).

  Definition step (st : sys) (l : label) : sys :=
    match l with
    | LSend pid m port => do_send st pid m port
    | LAbandon port => do_abandon st port
    | LProxy pid => do_proxy st pid
    | LHopF i => do_hopf st i
    | LDeliverF => do_deliverf st
    | LTarget pid => do_target st pid
    | LReplyTask i => do_replytask st i
    | LCtl => do_ctl st
    | LHopB i => do_hopb st i
    | LDeliverB => do_deliverb st
    | LSpawn pid => do_spawn st pid
    | LExit pid => do_exit st pid
    | LJoin pid g => do_join st pid g
    | LLeave pid g => do_leave st pid g
    | LClose k => do_close st k
    end.

  Definition run (st : sys) (ls : list label) : sys := fold_left step ls st.

  (* does a send to the remote reference of pid succeed *)
  Definition send_ok (st : sys) (pid : N) : bool := x_alive (px st pid).
End Sys.

(* ---- projections used in the statements ---- *)

Definition tmsgs (l : list titem) : list msg := map (fun it => match it with TMsg _ m _ => m end) l.

Fixpoint fmsgs (pid : N) (l : list frame) : list msg :=
  match l with
  | [] => []
  | FMsg to _ m _ :: r => if N.eqb to pid then m :: fmsgs pid r else fmsgs pid r
  | _ :: r => fmsgs pid r
  end.

Fixpoint pmsgs (l : list pitem) : list msg :=
  match l with
  | [] => []
  | ISend m _ :: r => m :: pmsgs r
  | IReply _ _ _ :: r => pmsgs r
  end.

(* accepted, not yet handled, not lost: oldest first *)
Definition inflight (st : sys) (pid : N) : list msg :=
  tmsgs (t_mbox (tg st pid)) ++ fmsgs pid (flat (fwd st)) ++ pmsgs (x_mbox (px st pid)).

Inductive subseq {A} : list A -> list A -> Prop :=
| sub_nil : forall l, subseq [] l
| sub_cons : forall x l l', subseq l l' -> subseq (x :: l) (x :: l')
| sub_skip : forall x l l', subseq l l' -> subseq l (x :: l').

(* the lifecycle of one pid as seen by X (never / alive / dead) with its groups *)
Inductive phase := PhN | PhA | PhD.
Definition mst := (phase * list N)%type.

Definition xview (p : pxy) : mst :=
  (if x_alive p then PhA else if x_was p then PhD else PhN, x_groups p).
Definition yview (t : tgt) : mst :=
  (if t_alive t then PhA else if t_used t then PhD else PhN, t_groups t).

(* one control frame applied to the view of pid; None = a dead proxy would be revived *)
Definition kstep (pid : N) (s : mst) (f : frame) : option mst :=
  match f with
  | FSpawn q => if N.eqb q pid then
                  match fst s with PhD => None | PhA => Some s | PhN => Some (PhA, []) end
                else Some s
  | FJoin g q => if N.eqb q pid then
                   match fst s with PhD => None | PhA => Some (PhA, addg g (snd s)) | PhN => Some (PhA, addg g []) end
                 else Some s
  | FLeave g q => if N.eqb q pid then
                    match fst s with PhA => Some (PhA, remg g (snd s)) | _ => Some s end
                  else Some s
  | FTerm q => if N.eqb q pid then
                 match fst s with PhA => Some (PhD, []) | _ => Some s end
               else Some s
  | _ => Some s
  end.

Fixpoint ksim (pid : N) (s : mst) (l : list frame) : option mst :=
  match l with
  | [] => Some s
  | f :: r => match kstep pid s f with Some s' => ksim pid s' r | None => None end
  end.

Definition is_ctl_for (pid : N) (f : frame) : bool :=
  match f with
  | FSpawn q | FTerm q | FJoin _ q | FLeave _ q => N.eqb q pid
  | _ => false
  end.

(* ====================================================================== *)
(* Part 4: the property as an executable oracle on observations of the two real nodes *)

(* what the harness reports (see harness/src/bin/eng_remote_net.rs) *)
Record srec := mkS { s_via : N; s_tgt : N; s_snd : N; s_seq : N; s_var : N; s_len : N; s_hash : N; s_ok : bool }.
Record rrec := mkR { r_tgt : N; r_var : N; r_snd : N; r_seq : N; r_via : N; r_len : N; r_hash : N }.
Record crec := mkC { c_rid : N; c_via : N; c_tgt : N; c_caller : N; c_out : N; c_a : N; c_b : N }.
Record snap := mkSnap {
  n_up : bool;
  n_actors : list (N * N * bool * list N);        (* probe index, pid, alive, groups *)
  n_proxies : list (N * N * bool);                (* via, pid, alive *)
  n_groups : list (N * list (N * N)) }.           (* group, members (kind, pid) *)
Record obs := mkObs {
  o_sent : list srec; o_recv : list rrec; o_calls : list crec; o_snaps : list snap;
  o_stale : list (N * N * bool * bool * N) }.

Definition skey (s : srec) : N * N * N * N := (s_seq s, s_var s, s_len s, s_hash s).
Definition rkey (r : rrec) : N * N * N * N := (r_seq r, r_var r, r_len r, r_hash r).
Definition key_eqb (a b : N * N * N * N) : bool :=
  let '(a1, a2, a3, a4) := a in let '(b1, b2, b3, b4) := b in
  N.eqb a1 b1 && N.eqb a2 b2 && N.eqb a3 b3 && N.eqb a4 b4.

Fixpoint subseqb {A} (eqb : A -> A -> bool) (l l' : list A) : bool :=
  match l, l' with
  | [], _ => true
  | _ :: _, [] => false
  | x :: t, y :: t' => if eqb x y then subseqb eqb t t' else subseqb eqb l t'
  end.

Fixpoint list_eqb {A} (eqb : A -> A -> bool) (l l' : list A) : bool :=
  match l, l' with
  | [], [] => true
  | x :: t, y :: t' => eqb x y && list_eqb eqb t t'
  | _, _ => false
  end.

(* the stream (via, target, sender): what was accepted, what arrived *)
Definition stream_sent (o : obs) (via tgt snd : N) : list (N * N * N * N) :=
  map skey (filter (fun s => N.eqb (s_via s) via && N.eqb (s_tgt s) tgt && N.eqb (s_snd s) snd && s_ok s)
                   (o_sent o)).
Definition stream_recv (o : obs) (via tgt snd : N) : list (N * N * N * N) :=
  map rkey (filter (fun r => N.eqb (r_via r) via && N.eqb (r_tgt r) tgt && N.eqb (r_snd r) snd)
                   (o_recv o)).

Fixpoint nodup3 (l : list (N * N * N)) : list (N * N * N) :=
  match l with
  | [] => []
  | x :: t => if existsb (fun y => let '(a, b, c) := x in let '(a', b', c') := y in
                                   N.eqb a a' && N.eqb b b' && N.eqb c c') t
              then nodup3 t else x :: nodup3 t
  end.

Definition streams (o : obs) : list (N * N * N) :=
  nodup3 (map (fun s => (s_via s, s_tgt s, s_snd s)) (o_sent o)
          ++ map (fun r => (r_via r, r_tgt r, r_snd r)) (o_recv o)).

(* (1) order, variant and bytes per sender; [strict]: the scenario had no fault and was run to
   quiescence, so everything accepted must have arrived *)
Definition check_fifo (strict : bool) (o : obs) : bool :=
  forallb (fun k => let '(via, tgt, snd) := k in
                    let a := stream_sent o via tgt snd in
                    let b := stream_recv o via tgt snd in
                    if strict then list_eqb key_eqb b a else subseqb key_eqb b a)
          (streams o).

(* (2) a call gets the answer to itself or none: out = 1 carries the request id the replier saw
   and the replier's pid; [pid_of i] from the snapshots *)
Definition pid_of (o : obs) (i : N) : option N :=
  match o_snaps o with
  | [] => None
  | s :: _ => match find (fun a => N.eqb (fst (fst (fst a))) i) (n_actors s) with
              | Some (_, pid, _, _) => Some pid
              | None => None end
  end.

Definition check_calls (strict : bool) (expect_reply : N -> bool) (o : obs) : bool :=
  forallb (fun c =>
    match c_out c with
    | 1 => N.eqb (c_a c) (c_rid c)
           && match pid_of o (c_tgt c) with Some pid => N.eqb (c_b c) pid | None => true end
    | 6 => false
    | _ => negb (strict && expect_reply (c_rid c))
    end) (o_calls o).

(* (3) mirrors: in a quiescent snapshot with the session up, the live proxies of each side are
   exactly the live remotable actors, and each group's remote members (per side) are exactly
   the pids of its live local members *)
Fixpoint insert_sorted (x : N) (l : list N) : list N :=
  match l with
  | [] => [x]
  | y :: t => if N.leb x y then x :: l else y :: insert_sorted x t
  end.
Definition sortN (l : list N) : list N := fold_right insert_sorted [] l.
Definition setN_eqb (a b : list N) : bool := list_eqb N.eqb (sortN a) (sortN b).
Fixpoint nodupN (l : list N) : bool :=
  match l with [] => true | x :: t => negb (memN x t) && nodupN t end.

Definition live_pids (s : snap) : list N :=
  map (fun a => snd (fst (fst a))) (filter (fun a => snd (fst a)) (n_actors s)).
Definition proxies_of (s : snap) (via : N) : list N :=
  map (fun p => snd (fst p)) (filter (fun p => N.eqb (fst (fst p)) via && snd p) (n_proxies s)).
Definition members_kind (ms : list (N * N)) (kind : N) : list N :=
  map snd (filter (fun m => N.eqb (fst m) kind) ms).

Definition check_snap (s : snap) : bool :=
  if n_up s then
    forallb (fun via => setN_eqb (proxies_of s via) (live_pids s) && nodupN (proxies_of s via)) [0; 1]
    && forallb (fun g => let ms := snd g in
                         let locals := members_kind ms 0 in
                         setN_eqb (members_kind ms 1) locals && setN_eqb (members_kind ms 2) locals
                         && nodupN (members_kind ms 1) && nodupN (members_kind ms 2))
               (n_groups s)
    (* the local members are what the driver made them *)
    && forallb (fun g => setN_eqb (members_kind (snd g) 0)
                           (map (fun a => snd (fst (fst a)))
                                (filter (fun a => snd (fst a) && memN (fst g) (snd a)) (n_actors s))))
               (n_groups s)
  else
    (* (4) after the close: no proxy is alive, no group has a remote member *)
    forallb (fun p => negb (snd p)) (n_proxies s)
    && forallb (fun g => forallb (fun m => N.eqb (fst m) 0) (snd g)) (n_groups s).

(* (4') sends through handles kept from before the close fail; the handles are dead and in no group *)
Definition check_stale (closed : bool) (o : obs) : bool :=
  if closed then
    forallb (fun x => let '(_, _, ok, alive, ng) := x in negb ok && negb alive && N.eqb ng 0) (o_stale o)
  else true.

(* [snap_ok k]: the k-th snapshot was taken at quiescence (the generator knows); [closed]: the
   scenario cut the connection before the stale probe *)
(* [expect_up k]: up to the k-th snapshot the scenario connected the nodes and did not cut the
   link: the transport delivered every byte, so the session must be there (a session torn down
   on a valid stream stops every remote reference although no original stopped) *)
Definition check_up (expect_up : list bool) (o : obs) : bool :=
  forallb (fun su : snap * bool => implb (snd su) (n_up (fst su))) (combine (o_snaps o) expect_up).

Definition check_C20 (strict closed : bool) (expect_reply : list N) (quiescent expect_up : list bool) (o : obs) : bool :=
  check_fifo strict o
  && check_calls strict (fun rid => memN rid expect_reply) o
  && forallb (fun sq : snap * bool => if snd sq then check_snap (fst sq) else true) (combine (o_snaps o) quiescent)
  && check_up expect_up o
  && check_stale closed o.

(* ---- the oracle for the unit-level runs of the real proxy handler (E3): tags handed out are
   strictly increasing; a reply resolves the port inserted under its tag; at most once ---- *)
Fixpoint sorted_ltb (l : list N) : bool :=
  match l with
  | [] => true
  | x :: t => match t with [] => true | y :: _ => N.ltb x y && sorted_ltb t end
  end.

Definition check_C20_proxy (evs : list pev) (outs : list (list pout)) : bool :=
  let ins := inserted evs outs in
  let rs := resolved evs outs in
  sorted_ltb (map fst ins)
  && forallb (fun r => existsb (fun e => N.eqb (fst e) (fst r) && N.eqb (snd e) (snd r)) ins) rs
  && nodupN (map fst rs).

(* ====================================================================== *)
(* Part 5: executable unit driver for the components of the transition system, used to compare
   the session-side handlers with the real NodeSession handlers (E3b): the same functions
   do_spawn/do_exit/do_join/do_leave/do_deliverf/do_target/do_deliverb/do_send/do_proxy that
   [step] is made of, applied to frames handed in directly (chains of one stage, emptied after
   each operation). *)

Definition with_chains (st : sys) (f b : list (list frame)) (c p : list frame) : sys :=
  mkSys (px st) f b c p (tg st) (up st) (aband st) (sent st) (dlv st) (ins st) (calls st) (res st)
        (lossy st).

Fixpoint iter {A} (n : nat) (f : A -> A) (x : A) : A :=
  match n with O => x | S k => iter k f (f x) end.

Inductive uop :=
| USpawn (pid : N) | UJoin (pid g : N) | ULeave (pid g : N) | UExit (pid : N)   (* local actors *)
| URecvF (f : frame)            (* a Cast / Call frame arrives *)
| URecvB (f : frame)            (* a Reply / Spawn / Terminate / PgJoin / PgLeave frame arrives *)
| USend (pid : N) (m : msg) (port : N)   (* somebody sends through the remote reference *)
| UAbandon (port : N).

(* what is visible on the wire (no ghost fields) *)
Inductive wf :=
| WMsg (to tag : N) (m : msg) | WReply (to tag : N) (d : list N)
| WSpawn (pid : N) | WTerm (pid : N) | WJoin (g pid : N) | WLeave (g pid : N)
| WOther.                                (* never produced by the model (ping, ready, ...) *)

Definition wire_of (f : frame) : wf :=
  match f with
  | FMsg to tag m _ => WMsg to tag m
  | FReply to tag d _ => WReply to tag d
  | FSpawn p => WSpawn p | FTerm p => WTerm p | FJoin g p => WJoin g p | FLeave g p => WLeave g p
  end.

Record uout := mkU {
  u_ok : bool;                         (* the send was accepted *)
  u_wire : list wf;                    (* frames written by the session *)
  u_dlv : list (N * msg);              (* messages handled by local actors *)
  u_res : list (N * list N);           (* reply ports resolved *)
  u_px : list (N * bool * list N);     (* the proxies of interest: alive, groups *)
  u_adv : list N }.                    (* local actors the session will accept messages for
                                          (advertised_local_pids): the live announced ones *)

Definition uresp (pid : N) (m : msg) : option (list N) :=
  if N.even (m_v m) then Some (pid :: m_a m) else None.

Section Unit.
  Variable fuel : nat.
  Variables xs ys : list N.   (* remote pids / local pids of interest *)

  Definition usettle (st : sys) : sys :=
    iter fuel (fun s => fold_left (fun s q => do_target uresp s q) ys
                          (fold_left (fun s q => do_proxy s q) xs s)) st.

  Definition uapply (st : sys) (o : uop) : sys * bool :=
    match o with
    | USpawn pid => (do_spawn st pid, true)
    | UJoin pid g => (do_join st pid g, true)
    | ULeave pid g => (do_leave st pid g, true)
    | UExit pid => (do_exit st pid, true)
    | URecvF f => (do_deliverf (with_chains st [[f]] (bwd st) (ctl st) (pool st)), true)
    | URecvB f => (do_deliverb (with_chains st (fwd st) [[f]] (ctl st) (pool st)), true)
    | USend pid m port => (do_send st pid m port,
                           x_alive (px st pid) && negb (m_call m && port_used st port))
    | UAbandon port => (do_abandon st port, true)
    end.

  Definition ustep (st : sys) (o : uop) : sys * uout :=
    let '(s1, ok) := uapply st o in
    let s2 := usettle s1 in
    let out := mkU ok
                 (map wire_of (ctl s2 ++ pool s2 ++ flat (fwd s2)))
                 (flat_map (fun y => map (pair y) (skipn (length (dlv st y)) (dlv s2 y))) ys)
                 (skipn (length (res st)) (res s2))
                 (map (fun q => (q, x_alive (px s2 q), sortN (x_groups (px s2 q)))) xs)
                 (filter (fun y => t_alive (tg s2 y)) ys) in
    (with_chains s2 [[]] [[]] [] [], out).

  Fixpoint urun (st : sys) (ops : list uop) : list uout :=
    match ops with
    | [] => []
    | o :: r => let '(s1, out) := ustep st o in out :: urun s1 r
    end.
End Unit.

(* the mirror clause at the level of one session (E3b): every local actor that was announced to
   the peer (Spawn on the wire) and has exited must have been reported (Terminate on the wire) by
   the time the session has processed its lifecycle events — otherwise the peer's remote
   reference never stops *)
Definition is_wspawn (i : N) (w : wf) : bool := match w with WSpawn p => N.eqb p i | _ => false end.
Definition is_wterm (i : N) (w : wf) : bool := match w with WTerm p => N.eqb p i | _ => false end.
Definition check_C20_sess (exited : list N) (outs : list uout) : bool :=
  let w := flat_map u_wire outs in
  forallb (fun i => implb (existsb (is_wspawn i) w) (existsb (is_wterm i) w)) exited.

(* the order clause at the level of one session (E3b): what each local actor handled, per sender
   (the first argument byte names the sender in these histories), is a subsequence of the frames
   that arrived for it, in arrival order — inbound Calls included: a Call is handed to the actor
   in frame order like a Cast *)
Definition meqb (a b : msg) : bool :=
  Bool.eqb (m_call a) (m_call b) && N.eqb (m_v a) (m_v b) && list_eqb N.eqb (m_a a) (m_a b).
Definition sender_of (m : msg) : N := hd 0 (m_a m).
Definition stream_of (t s : N) (l : list (N * msg)) : list msg :=
  map snd (filter (fun x => N.eqb (fst x) t && N.eqb (sender_of (snd x)) s) l).
Definition check_C20_sess_order (inbound : list (N * msg)) (outs : list uout) : bool :=
  let d := flat_map u_dlv outs in
  forallb (fun x => subseqb meqb (stream_of (fst x) (sender_of (snd x)) d)
                                  (stream_of (fst x) (sender_of (snd x)) inbound)) d.

(* completeness at the level of one session: every frame that arrives for a local actor while that
   actor is alive — still in pre_start or running — is handled by it, once, in order *)
Definition check_C20_sess_complete (must : list (N * msg)) (outs : list uout) : bool :=
  let d := flat_map u_dlv outs in
  forallb (fun x => list_eqb meqb (stream_of (fst x) (sender_of (snd x)) d)
                                  (stream_of (fst x) (sender_of (snd x)) must)) must.

(* a Terminate frame about pid q stops the remote reference of q only: every other remote reference
   that was alive before the frame is alive after it ([terms]: per operation, the pid a Terminate frame
   was about, if the operation was one) — whatever the pid NUMBERS are, in particular when q equals
   the local pid of one of the session's own children *)
Definition alive_of (o : uout) (q : N) : bool :=
  existsb (fun x => N.eqb (fst (fst x)) q && snd (fst x)) (u_px o).
Fixpoint check_term_local (prev : option uout) (terms : list (option N)) (outs : list uout) : bool :=
  match terms, outs with
  | t :: tr, o :: orest =>
    (match t, prev with
     | Some q, Some p =>
       forallb (fun x => let q' := fst (fst x) in N.eqb q' q || negb (snd (fst x)) || alive_of o q') (u_px p)
     | _, _ => true
     end) && check_term_local (Some o) tr orest
  | _, _ => true
  end.
Definition check_C20_sess_term (terms : list (option N)) (outs : list uout) : bool :=
  check_term_local None terms outs.
