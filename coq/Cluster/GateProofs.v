(* Proofs about the session handler model Cluster/Gate.v. *)
From Coq Require Import List NArith Bool Lia.
From RV Require Import Cluster.Auth Cluster.AuthProofs Cluster.Gate.
Import ListNotations.
Local Open Scope N_scope.

Section GateProofs.
Variable dg : cookie -> challenge -> digest.

Notation handle := (handle dg).
Notation handle_auth := (handle_auth dg).
Notation handle_auth_client := (handle_auth_client dg).
Notation handle_auth_server := (handle_auth_server dg).
Notation run_log := (run_log dg).
Notation run_state := (run_state dg).
Notation run_actor := (run_actor dg).

(* ---------- lists of effects without protected ones ---------- *)

Definition noprot (l : list effect) : Prop := existsb protected l = false.

Lemma noprot_nil : noprot []. Proof. reflexivity. Qed.

Lemma noprot_app : forall a b, noprot a -> noprot b -> noprot (a ++ b).
Proof. unfold noprot; intros a b Ha Hb; rewrite existsb_app, Ha, Hb; reflexivity. Qed.

Lemma noprot_cons : forall x l, protected x = false -> noprot l -> noprot (x :: l).
Proof. unfold noprot; intros x l Hx Hl; simpl; rewrite Hx, Hl; reflexivity. Qed.

Lemma noprot_send : forall st x, protected x = false -> noprot (send st x).
Proof. intros st x Hx; unfold send; destruct (s_tcp st); [apply noprot_cons; auto|]; apply noprot_nil. Qed.

Lemma noprot_if : forall (b : bool) l1 l2, noprot l1 -> noprot l2 -> noprot (if b then l1 else l2).
Proof. intros b l1 l2 H1 H2; destruct b; auto. Qed.

Lemma noprot_flat_map : forall A (f : A -> list effect) l,
  (forall x, noprot (f x)) -> noprot (flat_map f l).
Proof.
  intros A f l Hf; induction l as [|x r IH]; simpl; [apply noprot_nil|].
  apply noprot_app; auto.
Qed.

Hint Resolve noprot_nil noprot_app noprot_cons noprot_send noprot_if : np.

Ltac np_tac := repeat first
  [ apply noprot_nil | apply noprot_app | apply noprot_cons; [reflexivity|]
  | apply noprot_send; reflexivity | apply noprot_if
  | apply noprot_flat_map; intros [[? ?] [|? ?]]
  | match goal with |- noprot (match ?x with _ => _ end) => destruct x end ].

(* ---------- handle_auth never produces a protected effect ---------- *)

Lemma handle_auth_client_noprot : forall cfg st c a e,
  noprot (snd (handle_auth_client cfg st c a e)).
Proof.
  intros cfg st c a e; unfold Gate.handle_auth_client.
  destruct (c_next dg c a (c_cookie cfg) (e_rnd e)) as [|s|n cs sch r my ex| |]; simpl;
    auto 10 with np.
  destruct (N.eqb (status_norm s) 2 || N.eqb (status_norm s) 3); simpl; auto with np.
  destruct (N.eqb (status_norm s) 4); simpl; auto 10 with np.
Qed.

Lemma handle_auth_server_noprot : forall cfg st s a e,
  noprot (snd (handle_auth_server cfg st s a e)).
Proof.
  intros cfg st s a e; unfold Gate.handle_auth_server.
  destruct (s_next dg s a (c_cookie cfg) (e_rnd e)) as [|n cs cid| |ch d|d|]; simpl;
    auto 10 with np.
  destruct (e_check1 e) as [[| | |]|]; simpl;
      repeat (first [apply noprot_app | apply noprot_cons | apply noprot_send | apply noprot_nil
                    | reflexivity]).
Qed.

Lemma handle_auth_noprot : forall cfg st a e, noprot (snd (handle_auth cfg st a e)).
Proof.
  intros cfg st a e; unfold Gate.handle_auth.
  destruct (a_is_ok (s_auth st)); [apply noprot_nil|].
  assert (P : noprot (if a_is_close (s_auth st)
                      then EStopSelf RAuthFail :: (if s_tcp st then [EStopTcp] else [])
                      else [])).
  { destruct (a_is_close (s_auth st)); [|apply noprot_nil].
    apply noprot_cons; [reflexivity|]. destruct (s_tcp st); auto with np. }
  destruct (s_auth st) as [c|s].
  - pose proof (handle_auth_client_noprot cfg st c a e) as H.
    destruct (handle_auth_client cfg st c a e) as [st' eff]; simpl in *.
    apply noprot_app; auto.
  - pose proof (handle_auth_server_noprot cfg st s a e) as H.
    destruct (handle_auth_server cfg st s a e) as [st' eff]; simpl in *.
    apply noprot_app; auto.
Qed.

Lemma after_authenticated_noprot : forall cfg st e, noprot (snd (after_authenticated cfg st e)).
Proof.
  intros cfg st e; unfold after_authenticated; simpl.
  np_tac.
Qed.

Lemma after_authenticated_auth : forall cfg st e,
  s_auth (fst (after_authenticated cfg st e)) = s_auth st.
Proof. reflexivity. Qed.

Opaque after_authenticated.

(* ---------- (G1) the gate, one message ---------- *)

Theorem handle_gate : forall cfg st m e,
  a_is_ok (s_auth st) = false -> noprot (snd (handle cfg st m e)).
Proof.
  intros cfg st m e Hno; unfold Gate.handle.
  destruct (self_connection cfg st); [reflexivity|].
  destruct (s_tcp st) eqn:T; simpl; [|reflexivity].
  destruct m as [|a|nm|k]; simpl.
  - reflexivity.
  - pose proof (handle_auth_noprot cfg st a e) as H1.
    destruct (handle_auth cfg st a e) as [st1 eff1]; simpl in *.
    destruct (negb (a_is_ok (s_auth st)) && a_is_ok (s_auth st1)); auto.
    destruct (s_peer st1) as [[n cs]|].
    + destruct (elected (e_check2 e)).
      * pose proof (after_authenticated_noprot cfg st1 e) as H3.
        destruct (after_authenticated cfg st1 e) as [st2 eff3]; simpl in *.
        repeat apply noprot_app; auto with np.
      * simpl. repeat apply noprot_app; auto with np.
    + simpl. repeat apply noprot_app; auto with np.
  - unfold handle_node. rewrite Hno. reflexivity.
  - unfold handle_control. rewrite Hno. reflexivity.
Qed.

(* a protected effect implies the session was authenticated when the message arrived *)
Corollary handle_gate' : forall cfg st m e,
  existsb protected (snd (handle cfg st m e)) = true -> a_is_ok (s_auth st) = true.
Proof.
  intros cfg st m e H. destruct (a_is_ok (s_auth st)) eqn:E; auto.
  rewrite (handle_gate cfg st m e E) in H; discriminate.
Qed.

(* ---------- (G2) the gate, every run from every state ---------- *)

Definition log_gate (x : sstate * netmsg * env * list effect) : Prop :=
  let '(st, _, _, eff) := x in existsb protected eff = true -> a_is_ok (s_auth st) = true.

Theorem run_gate : forall cfg l st, Forall log_gate (run_log cfg st l).
Proof.
  intros cfg l; induction l as [|[m e] r IH]; intros st; simpl; [constructor|].
  pose proof (handle_gate' cfg st m e) as H.
  destruct (handle cfg st m e) as [st' eff]; simpl in *.
  constructor; [exact H|apply IH].
Qed.

(* the actor's run (which stops at the first requested stop) is a prefix of run_log *)
Lemma run_actor_prefix : forall cfg l st,
  exists rest, run_log cfg st l = run_actor cfg st l ++ rest.
Proof.
  intros cfg l; induction l as [|[m e] r IH]; intros st; simpl; [exists []; reflexivity|].
  destruct (handle cfg st m e) as [st' eff].
  destruct (existsb is_stop eff).
  - exists (run_log cfg st' r). reflexivity.
  - destruct (IH st') as [rest Hr]. exists rest. simpl. rewrite Hr. reflexivity.
Qed.

Corollary run_actor_gate : forall cfg l st, Forall log_gate (run_actor cfg st l).
Proof.
  intros cfg l st. destruct (run_actor_prefix cfg l st) as [rest H].
  pose proof (run_gate cfg l st) as G. rewrite H in G.
  apply Forall_app in G. tauto.
Qed.

(* ---------- (G3) casts and calls: advertised and remotable only ---------- *)

Definition nodeliver (l : list effect) : Prop := forall x, In x l -> delivered_pid x = None.

Lemma delivered_protected : forall x p, delivered_pid x = Some p -> protected x = true.
Proof. intros x p H; destruct x; simpl in *; try discriminate; reflexivity. Qed.

Lemma noprot_nodeliver : forall l, noprot l -> nodeliver l.
Proof.
  intros l H x Hin. destruct (delivered_pid x) eqn:E; auto.
  apply delivered_protected in E. unfold noprot in H.
  assert (existsb protected l = true) by (apply existsb_exists; eauto). congruence.
Qed.

Lemma nodeliver_app : forall a b, nodeliver a -> nodeliver b -> nodeliver (a ++ b).
Proof. intros a b Ha Hb x Hin; apply in_app_or in Hin; destruct Hin; auto. Qed.

Lemma spawn_all_nodeliver : forall e l st, nodeliver (snd (fst (spawn_all st l e))).
Proof.
  intros e l; induction l as [|[pid name] r IH]; intros st; simpl; [intros x []|].
  unfold get_or_spawn.
  destruct (mem pid (s_remote st)).
  - specialize (IH st). destruct (spawn_all st r e) as [[st2 eff2] cells]; simpl in *. exact IH.
  - destruct (mem pid (e_spawn_fail e)).
    + specialize (IH st). destruct (spawn_all st r e) as [[st2 eff2] cells]; simpl in *. exact IH.
    + specialize (IH (set_remote st (s_remote st ++ [pid]))).
      destruct (spawn_all _ r e) as [[st2 eff2] cells]; simpl in *.
      intros x [Hx|Hx]; [subst x; reflexivity|auto].
Qed.

Lemma terminate_all_nodeliver : forall ids st, nodeliver (snd (terminate_all st ids)).
Proof.
  intros ids; induction ids as [|pid r IH]; intros st; simpl; [intros x []|].
  destruct (mem pid (s_remote st)); [|apply IH].
  specialize (IH (set_remote st (remove pid (s_remote st)))).
  destruct (terminate_all _ r) as [st2 eff2]; simpl in *.
  intros x [Hx|Hx]; [subst x; reflexivity|auto].
Qed.

Lemma handle_control_nodeliver : forall cfg st k e, nodeliver (snd (handle_control cfg st k e)).
Proof.
  intros cfg st k e; unfold handle_control.
  destruct (negb (a_is_ok (s_auth st))); [intros x []|].
  destruct k; simpl.
  - intros x [].
  - destruct (s_ready st); simpl; intros x Hx; simpl in Hx; intuition (subst; reflexivity).
  - pose proof (spawn_all_nodeliver e actors st) as H.
    destruct (spawn_all st actors e) as [[st' eff] cells]; simpl in *; exact H.
  - apply terminate_all_nodeliver.
  - unfold send; destruct (s_tcp st); intros x Hx; simpl in Hx; intuition (subst; reflexivity).
  - intros x [].
  - pose proof (spawn_all_nodeliver e actors st) as H.
    destruct (spawn_all st actors e) as [[st' eff] cells]; simpl in *.
    apply nodeliver_app; auto. destruct cells; intros x Hx; simpl in Hx; intuition (subst; reflexivity).
  - destruct (filter _ _); intros x Hx; simpl in Hx; intuition (subst; reflexivity).
  - intros x [Hx|Hx]; [subst; reflexivity|].
    destruct (e_sessions e); [|destruct Hx].
    unfold send in Hx; destruct (s_tcp st); simpl in Hx; intuition (subst; reflexivity).
  - destruct (c_transitive cfg); [|intros x []].
    intros x [Hx|Hx]; [subst; reflexivity|].
    apply in_flat_map in Hx. destruct Hx as [p [_ Hp]].
    destruct (_ || _) in Hp; simpl in Hp; intuition (subst; reflexivity).
Qed.

Lemma authorized_true : forall st pid e st',
  authorized st pid e = (true, st') ->
  mem pid (s_adv st) = true /\ mem pid (e_live e) = true /\ st' = st.
Proof.
  intros st pid e st' H; unfold authorized in H.
  destruct (mem pid (s_adv st)); simpl in H; [|discriminate].
  destruct (mem pid (e_live e)); inversion H; auto.
Qed.

Theorem handle_advertised_only : forall cfg st m e x pid,
  In x (snd (handle cfg st m e)) -> delivered_pid x = Some pid ->
  a_is_ok (s_auth st) = true /\ mem pid (s_adv st) = true /\ mem pid (e_live e) = true.
Proof.
  intros cfg st m e x pid Hin Hd.
  assert (Hok : a_is_ok (s_auth st) = true).
  { apply (handle_gate' cfg st m e). apply existsb_exists. exists x; split; auto.
    eapply delivered_protected; eauto. }
  split; [exact Hok|].
  unfold Gate.handle in Hin.
  destruct (self_connection cfg st).
  { simpl in Hin. destruct Hin as [<-|[]]. discriminate. }
  destruct (s_tcp st) eqn:T; simpl in Hin; [|destruct Hin].
  destruct m as [|a|nm|k].
  - destruct Hin.
  - (* an auth message: handle_auth returns at once when already Ok *)
    unfold Gate.handle_auth in Hin. rewrite Hok in Hin. simpl in Hin. destruct Hin.
  - unfold handle_node in Hin. rewrite Hok in Hin. simpl in Hin.
    destruct nm as [|to|to tag tmo|to tag]; simpl in Hin.
    + destruct Hin.
    + destruct (authorized st to e) as [[|] st'] eqn:A; simpl in Hin; [|destruct Hin].
      destruct Hin as [<-|[]]. simpl in Hd. inversion Hd; subst.
      apply authorized_true in A. tauto.
    + destruct (authorized st to e) as [[|] st'] eqn:A; simpl in Hin; [|destruct Hin].
      destruct Hin as [<-|[]]. simpl in Hd. inversion Hd; subst.
      apply authorized_true in A. tauto.
    + destruct (mem to (s_remote st)); simpl in Hin; [|destruct Hin].
      destruct Hin as [<-|[]]. discriminate.
  - pose proof (handle_control_nodeliver cfg st k e x Hin). congruence.
Qed.

(* ---------- (G4) a closed session stays closed and does nothing protected ---------- *)

Lemma close_not_ok : forall a, a_is_close a = true -> a_is_ok a = false.
Proof. intros [c|s]; [destruct c|destruct s]; simpl; congruence. Qed.

Lemma handle_auth_closed : forall cfg st a e,
  a_is_close (s_auth st) = true -> a_is_close (s_auth (fst (handle_auth cfg st a e))) = true.
Proof.
  intros cfg st a e Hc; unfold Gate.handle_auth.
  rewrite (close_not_ok _ Hc).
  destruct (s_auth st) as [c|s] eqn:A.
  - destruct c; try discriminate. unfold Gate.handle_auth_client.
    rewrite c_next_close. reflexivity.
  - destruct s; try discriminate. unfold Gate.handle_auth_server.
    rewrite s_next_close. reflexivity.
Qed.

Theorem handle_closed : forall cfg st m e,
  a_is_close (s_auth st) = true ->
  a_is_close (s_auth (fst (handle cfg st m e))) = true
  /\ noprot (snd (handle cfg st m e)).
Proof.
  intros cfg st m e Hc. split; [|apply handle_gate, close_not_ok, Hc].
  unfold Gate.handle.
  destruct (self_connection cfg st); [exact Hc|].
  destruct (s_tcp st) eqn:T; simpl; [|exact Hc].
  destruct m as [|a|nm|k]; simpl; [exact Hc| | |].
  - pose proof (handle_auth_closed cfg st a e Hc) as H1.
    destruct (handle_auth cfg st a e) as [st1 eff1]; simpl in *.
    rewrite (close_not_ok _ H1). rewrite andb_false_r. exact H1.
  - unfold handle_node. rewrite (close_not_ok _ Hc). exact Hc.
  - unfold handle_control. rewrite (close_not_ok _ Hc). exact Hc.
Qed.

Definition log_closed (x : sstate * netmsg * env * list effect) : Prop :=
  let '(st, _, _, eff) := x in
  a_is_close (s_auth st) = true /\ a_is_ok (s_auth st) = false /\ existsb protected eff = false.

Theorem run_closed : forall cfg l st,
  a_is_close (s_auth st) = true ->
  Forall log_closed (run_log cfg st l) /\ a_is_close (s_auth (run_state cfg st l)) = true.
Proof.
  intros cfg l; induction l as [|[m e] r IH]; intros st Hc; simpl; [split; [constructor|exact Hc]|].
  destruct (handle_closed cfg st m e Hc) as [H1 H2].
  destruct (handle cfg st m e) as [st' eff]; simpl in *.
  destruct (IH st' H1) as [IH1 IH2].
  split; [|exact IH2].
  constructor; [|exact IH1].
  repeat split; auto using close_not_ok.
Qed.

(* run_state / run_log over a concatenation *)
Lemma run_state_app : forall cfg a b st,
  run_state cfg st (a ++ b) = run_state cfg (run_state cfg st a) b.
Proof.
  intros cfg a; induction a as [|[m e] r IH]; intros b st; simpl; auto.
Qed.

Lemma run_log_app : forall cfg a b st,
  run_log cfg st (a ++ b) = run_log cfg st a ++ run_log cfg (run_state cfg st a) b.
Proof.
  intros cfg a; induction a as [|[m e] r IH]; intros b st; simpl; auto.
  destruct (handle cfg st m e) as [st' eff]; simpl. rewrite IH. reflexivity.
Qed.

(* once a run has closed the session, whatever follows is handled in Close,
   never authenticates and has no protected effect *)
Corollary run_closed_forever : forall cfg st pre post,
  a_is_close (s_auth (run_state cfg st pre)) = true ->
  Forall log_closed (run_log cfg (run_state cfg st pre) post)
  /\ a_is_ok (s_auth (run_state cfg st (pre ++ post))) = false.
Proof.
  intros cfg st pre post Hc.
  destruct (run_closed cfg post _ Hc) as [H1 H2].
  split; auto. rewrite run_state_app. apply close_not_ok; exact H2.
Qed.

(* ---------- (G6) once authenticated the auth state no longer changes ---------- *)

Lemma spawn_all_auth : forall e l st, s_auth (fst (fst (spawn_all st l e))) = s_auth st.
Proof.
  intros e l; induction l as [|[pid name] r IH]; intros st; simpl; auto.
  unfold get_or_spawn.
  destruct (mem pid (s_remote st)).
  - specialize (IH st). destruct (spawn_all st r e) as [[st2 eff2] cells]; simpl in *. exact IH.
  - destruct (mem pid (e_spawn_fail e)).
    + specialize (IH st). destruct (spawn_all st r e) as [[st2 eff2] cells]; simpl in *. exact IH.
    + specialize (IH (set_remote st (s_remote st ++ [pid]))).
      destruct (spawn_all _ r e) as [[st2 eff2] cells]; simpl in *. exact IH.
Qed.

Lemma terminate_all_auth : forall ids st, s_auth (fst (terminate_all st ids)) = s_auth st.
Proof.
  intros ids; induction ids as [|pid r IH]; intros st; simpl; auto.
  destruct (mem pid (s_remote st)); [|apply IH].
  specialize (IH (set_remote st (remove pid (s_remote st)))).
  destruct (terminate_all _ r) as [st2 eff2]; simpl in *. exact IH.
Qed.

Lemma handle_control_auth : forall cfg st k e,
  s_auth (fst (handle_control cfg st k e)) = s_auth st.
Proof.
  intros cfg st k e; unfold handle_control.
  destruct (negb (a_is_ok (s_auth st))); [reflexivity|].
  destruct k; simpl; auto.
  - destruct (s_ready st); reflexivity.
  - pose proof (spawn_all_auth e actors st) as H.
    destruct (spawn_all st actors e) as [[st' eff] cells]; simpl in *; exact H.
  - apply terminate_all_auth.
  - pose proof (spawn_all_auth e actors st) as H.
    destruct (spawn_all st actors e) as [[st' eff] cells]; simpl in *; exact H.
  - destruct (c_transitive cfg); reflexivity.
Qed.

Lemma handle_node_auth : forall st nm e, s_auth (fst (handle_node st nm e)) = s_auth st.
Proof.
  intros st nm e; unfold handle_node.
  destruct (negb (a_is_ok (s_auth st))); [reflexivity|].
  destruct nm as [|to|to tag tmo|to tag]; simpl; auto;
    unfold authorized; destruct (mem to (s_adv st)); simpl; auto;
    destruct (mem to (e_live e)); reflexivity.
Qed.

Theorem handle_ok_stable : forall cfg st m e,
  a_is_ok (s_auth st) = true -> s_auth (fst (handle cfg st m e)) = s_auth st.
Proof.
  intros cfg st m e Hok; unfold Gate.handle.
  destruct (self_connection cfg st); [reflexivity|].
  destruct (s_tcp st); simpl; [|reflexivity].
  destruct m as [|a|nm|k]; simpl; auto.
  - unfold Gate.handle_auth. rewrite Hok. reflexivity.
  - apply handle_node_auth.
  - apply handle_control_auth.
Qed.

(* ---------- (G5) authentication needs the digest of the issued challenge ---------- *)

(* only an auth message changes the auth state *)
Lemma handle_auth_only : forall cfg st m e,
  (forall a, m <> NAuth a) -> s_auth (fst (handle cfg st m e)) = s_auth st.
Proof.
  intros cfg st m e Hm; unfold Gate.handle.
  destruct (self_connection cfg st); [reflexivity|].
  destruct (s_tcp st); simpl; [|reflexivity].
  destruct m as [|a|nm|k]; simpl; auto.
  - exfalso; eapply Hm; reflexivity.
  - apply handle_node_auth.
  - apply handle_control_auth.
Qed.

(* the auth component after an auth message, computed from the FSM step *)
Lemma s_auth_set_auth : forall st a, s_auth (set_auth st a) = a.
Proof. reflexivity. Qed.

(* the stored expected digests are digests of challenges drawn here *)
Definition g_wf (ck : cookie) (drawn : list challenge) (a : astate) : Prop :=
  match a with
  | AsServer (SWaitReply ch ex) => ex = dg ck ch /\ In ch drawn
  | AsClient (CWaitAck _ _ _ _ mych ex) => ex = dg ck mych /\ In mych drawn
  | _ => True
  end.

Lemma g_wf_mono : forall ck d d' a, incl d d' -> g_wf ck d a -> g_wf ck d' a.
Proof.
  intros ck d d' a Hi; destruct a as [c|s]; [destruct c|destruct s]; simpl; intuition.
Qed.

Lemma handle_auth_client_wf : forall cfg st c a e drawn,
  g_wf (c_cookie cfg) drawn (AsClient c) ->
  g_wf (c_cookie cfg) (drawn ++ [e_rnd e]) (s_auth (fst (handle_auth_client cfg st c a e))).
Proof.
  intros cfg st c a e drawn Hwf; unfold Gate.handle_auth_client.
  destruct (c_next dg c a (c_cookie cfg) (e_rnd e)) as [|s|n cs sch r my ex| |] eqn:N; simpl; auto.
  - destruct (N.eqb (status_norm s) 2 || N.eqb (status_norm s) 3); simpl; auto.
    destruct (N.eqb (status_norm s) 4); simpl; auto.
  - (* entering CWaitAck: by the FSM transition the digest is dg ck rnd *)
    destruct a; simpl in N; try discriminate; destruct c; simpl in N; try discriminate.
    + inversion N; subst. split; auto. apply in_or_app; right; left; reflexivity.
    + match type of N with context [if ?c then _ else _] => destruct c end; discriminate.
Qed.

Lemma handle_auth_server_wf : forall cfg st s a e drawn,
  g_wf (c_cookie cfg) drawn (AsServer s) ->
  g_wf (c_cookie cfg) (drawn ++ [e_rnd e]) (s_auth (fst (handle_auth_server cfg st s a e))).
Proof.
  intros cfg st s a e drawn Hwf; unfold Gate.handle_auth_server.
  destruct (s_next dg s a (c_cookie cfg) (e_rnd e)) as [|n cs cid| |ch d|d|] eqn:N; simpl; auto.
  - destruct (e_check1 e) as [[| | |]|]; simpl; auto;
      (split; [reflexivity|apply in_or_app; right; left; reflexivity]).
  - (* SWaitReply produced by next: only ClientStatus(true) from WaitingOnClientStatus *)
    destruct a; simpl in N; try discriminate; destruct s; simpl in N; try discriminate.
    + destruct b; simpl in N; [|discriminate]. inversion N; subst.
      split; auto. apply in_or_app; right; left; reflexivity.
    + match type of N with context [if ?c then _ else _] => destruct c end; discriminate.
Qed.

Lemma handle_wf : forall cfg st m e drawn,
  g_wf (c_cookie cfg) drawn (s_auth st) ->
  g_wf (c_cookie cfg) (drawn ++ [e_rnd e]) (s_auth (fst (handle cfg st m e))).
Proof.
  intros cfg st m e drawn Hwf.
  assert (Hm : g_wf (c_cookie cfg) (drawn ++ [e_rnd e]) (s_auth st)).
  { eapply g_wf_mono; [|exact Hwf]. apply incl_appl, incl_refl. }
  unfold Gate.handle.
  destruct (self_connection cfg st); [exact Hm|].
  destruct (s_tcp st); simpl; [|exact Hm].
  destruct m as [|a|nm|k]; simpl; auto.
  - assert (H1 : g_wf (c_cookie cfg) (drawn ++ [e_rnd e]) (s_auth (fst (handle_auth cfg st a e)))).
    { unfold Gate.handle_auth. destruct (a_is_ok (s_auth st)); [exact Hm|].
      destruct (s_auth st) as [c|s] eqn:A.
      - pose proof (handle_auth_client_wf cfg st c a e drawn Hwf) as W.
        destruct (handle_auth_client cfg st c a e); exact W.
      - pose proof (handle_auth_server_wf cfg st s a e drawn Hwf) as W.
        destruct (handle_auth_server cfg st s a e); exact W. }
    destruct (handle_auth cfg st a e) as [st1 eff1]; simpl in *.
    destruct (negb (a_is_ok (s_auth st)) && a_is_ok (s_auth st1)); auto.
    destruct (s_peer st1) as [[n cs]|]; auto.
    destruct (elected (e_check2 e)); auto.
  - rewrite handle_node_auth; exact Hm.
  - rewrite handle_control_auth; exact Hm.
Qed.

(* one step into Ok: which message did it *)
Theorem handle_enters_ok : forall cfg st m e,
  a_is_ok (s_auth st) = false ->
  a_is_ok (s_auth (fst (handle cfg st m e))) = true ->
  (exists ch ex c2, s_auth st = AsServer (SWaitReply ch ex)
                    /\ m = NAuth (AClientChallenge c2 ex))
  \/ (exists n cs sch r mych ex, s_auth st = AsClient (CWaitAck n cs sch r mych ex)
                    /\ m = NAuth (AServerAck ex)).
Proof.
  intros cfg st m e Hno Hok.
  destruct m as [|a|nm|k];
    try (rewrite handle_auth_only in Hok by (intros a Ha; discriminate); congruence).
  unfold Gate.handle in Hok.
  destruct (self_connection cfg st); [simpl in Hok; congruence|].
  destruct (s_tcp st); simpl in Hok; [|congruence].
  assert (H1 : a_is_ok (s_auth (fst (handle_auth cfg st a e))) = true).
  { destruct (handle_auth cfg st a e) as [st1 eff1]; simpl in *.
    destruct (a_is_ok (s_auth st1)) eqn:E1; auto.
    rewrite andb_false_r in Hok. simpl in Hok. congruence. }
  clear Hok. unfold Gate.handle_auth in H1. rewrite Hno in H1.
  destruct (s_auth st) as [c|s] eqn:A.
  - right. assert (H2 : a_is_ok (s_auth (fst (handle_auth_client cfg st c a e))) = true).
    { destruct (handle_auth_client cfg st c a e); exact H1. }
    clear H1. unfold Gate.handle_auth_client in H2.
    destruct (c_next dg c a (c_cookie cfg) (e_rnd e)) as [|s|n cs sch r my ex| |] eqn:N;
      simpl in H2; try discriminate.
    + destruct (N.eqb (status_norm s) 2 || N.eqb (status_norm s) 3); simpl in H2; try discriminate.
      destruct (N.eqb (status_norm s) 4); simpl in H2; discriminate.
    + apply c_next_ok_inv in N. destruct N as (n & cs & sch & r & mych & ex & -> & ->).
      repeat eexists.
  - left. assert (H2 : a_is_ok (s_auth (fst (handle_auth_server cfg st s a e))) = true).
    { destruct (handle_auth_server cfg st s a e); exact H1. }
    clear H1. unfold Gate.handle_auth_server in H2.
    destruct (s_next dg s a (c_cookie cfg) (e_rnd e)) as [|n cs cid| |ch d|d|] eqn:N;
      simpl in H2; try discriminate.
    + destruct (e_check1 e) as [[| | |]|]; simpl in H2; discriminate.
    + apply s_next_ok_inv in N. destruct N as (ch & ex & c2 & -> & -> & _).
      repeat eexists.
Qed.

(* the role (client-side / server-side) of a session never changes *)
Definition is_server_state (a : astate) : bool :=
  match a with AsServer _ => true | AsClient _ => false end.

Lemma handle_auth_role : forall cfg st a e,
  is_server_state (s_auth (fst (handle_auth cfg st a e))) = is_server_state (s_auth st).
Proof.
  intros cfg st a e; unfold Gate.handle_auth.
  destruct (a_is_ok (s_auth st)); [reflexivity|].
  destruct (s_auth st) as [c|s] eqn:A.
  - assert (H : is_server_state (s_auth (fst (handle_auth_client cfg st c a e))) = false).
    { unfold Gate.handle_auth_client.
      destruct (c_next dg c a (c_cookie cfg) (e_rnd e)) as [|s0|n cs sch r my ex| |]; simpl; auto.
      destruct (N.eqb (status_norm s0) 2 || N.eqb (status_norm s0) 3); simpl; auto.
      destruct (N.eqb (status_norm s0) 4); simpl; auto. }
    destruct (handle_auth_client cfg st c a e); exact H.
  - assert (H : is_server_state (s_auth (fst (handle_auth_server cfg st s a e))) = true).
    { unfold Gate.handle_auth_server.
      destruct (s_next dg s a (c_cookie cfg) (e_rnd e)) as [|n cs cid| |ch d|d|]; simpl; auto.
      destruct (e_check1 e) as [[| | |]|]; simpl; auto. }
    destruct (handle_auth_server cfg st s a e); exact H.
Qed.

Lemma handle_role : forall cfg st m e,
  is_server_state (s_auth (fst (handle cfg st m e))) = is_server_state (s_auth st).
Proof.
  intros cfg st m e; unfold Gate.handle.
  destruct (self_connection cfg st); [reflexivity|].
  destruct (s_tcp st); simpl; [|reflexivity].
  destruct m as [|a|nm|k]; simpl; auto.
  - pose proof (handle_auth_role cfg st a e) as H1.
    destruct (handle_auth cfg st a e) as [st1 eff1]; simpl in *.
    destruct (negb (a_is_ok (s_auth st)) && a_is_ok (s_auth st1)); auto.
    destruct (s_peer st1) as [[n cs]|]; auto.
    destruct (elected (e_check2 e)); auto.
  - rewrite handle_node_auth; reflexivity.
  - rewrite handle_control_auth; reflexivity.
Qed.

Lemma run_role : forall cfg l st,
  is_server_state (s_auth (run_state cfg st l)) = is_server_state (s_auth st).
Proof.
  intros cfg l; induction l as [|[m e] r IH]; intros st; simpl; auto.
  rewrite IH. apply handle_role.
Qed.

Definition rnds (l : list (netmsg * env)) : list challenge := map (fun p => e_rnd (snd p)) l.

Lemma run_needs_digest_gen : forall cfg l st drawn,
  g_wf (c_cookie cfg) drawn (s_auth st) ->
  a_is_ok (s_auth st) = false ->
  a_is_ok (s_auth (run_state cfg st l)) = true ->
  exists pre m e post ch,
    l = pre ++ (m, e) :: post
    /\ a_is_ok (s_auth (run_state cfg st pre)) = false
    /\ a_is_ok (s_auth (run_state cfg st (pre ++ [(m, e)]))) = true
    /\ In ch (drawn ++ rnds pre)
    /\ ((exists c2, s_auth (run_state cfg st pre) = AsServer (SWaitReply ch (dg (c_cookie cfg) ch))
                    /\ m = NAuth (AClientChallenge c2 (dg (c_cookie cfg) ch)))
        \/ (exists n cs sch r, s_auth (run_state cfg st pre)
                               = AsClient (CWaitAck n cs sch r ch (dg (c_cookie cfg) ch))
                    /\ m = NAuth (AServerAck (dg (c_cookie cfg) ch)))).
Proof.
  intros cfg l; induction l as [|[m e] r IH]; intros st drawn Hwf Hno Hok; simpl in *.
  - congruence.
  - destruct (a_is_ok (s_auth (fst (handle cfg st m e)))) eqn:E1.
    + exists [], m, e, r. simpl.
      destruct (handle_enters_ok cfg st m e Hno E1) as
          [(ch & ex & c2 & A & M)|(n & cs & sch & rr & mych & ex & A & M)].
      * rewrite A in Hwf. simpl in Hwf. destruct Hwf as [-> Hin].
        exists ch. rewrite app_nil_r. repeat split; auto. left. exists c2. subst m. auto.
      * rewrite A in Hwf. simpl in Hwf. destruct Hwf as [-> Hin].
        exists mych. rewrite app_nil_r. repeat split; auto. right. exists n, cs, sch, rr. subst m. auto.
    + pose proof (handle_wf cfg st m e drawn Hwf) as W.
      destruct (IH _ _ W E1 Hok) as (pre & m' & e' & post & ch & L & P1 & P2 & Hin & Hd).
      exists ((m, e) :: pre), m', e', post, ch. simpl.
      repeat split; auto.
      * rewrite L; reflexivity.
      * rewrite <- app_assoc in Hin. exact Hin.
Qed.

(* Headline: a session started in its initial state is authenticated after a run
   only if at some point, while it held the challenge ch that it had drawn itself
   at an earlier step, the peer sent the digest dg cookie ch in the message the
   role expects (ClientChallenge for a server-side session, ServerAck for a
   client-side session). *)
Theorem run_ok_needs_digest : forall cfg l,
  a_is_ok (s_auth (run_state cfg (init_state cfg) l)) = true ->
  exists pre m e post ch,
    l = pre ++ (m, e) :: post
    /\ a_is_ok (s_auth (run_state cfg (init_state cfg) pre)) = false
    /\ In ch (rnds pre)
    /\ ((c_server cfg = true /\ exists c2,
           s_auth (run_state cfg (init_state cfg) pre) = AsServer (SWaitReply ch (dg (c_cookie cfg) ch))
           /\ m = NAuth (AClientChallenge c2 (dg (c_cookie cfg) ch)))
        \/ (c_server cfg = false /\ exists n cs sch r,
           s_auth (run_state cfg (init_state cfg) pre)
             = AsClient (CWaitAck n cs sch r ch (dg (c_cookie cfg) ch))
           /\ m = NAuth (AServerAck (dg (c_cookie cfg) ch)))).
Proof.
  intros cfg l Hok.
  assert (Hwf : g_wf (c_cookie cfg) [] (s_auth (init_state cfg))).
  { unfold init_state; destruct (c_server cfg); exact I. }
  assert (Hno : a_is_ok (s_auth (init_state cfg)) = false).
  { unfold init_state; destruct (c_server cfg); reflexivity. }
  destruct (run_needs_digest_gen cfg l _ [] Hwf Hno Hok)
    as (pre & m & e & post & ch & L & P1 & P2 & Hin & Hd).
  exists pre, m, e, post, ch. repeat split; auto.
  assert (Hrole : is_server_state (s_auth (run_state cfg (init_state cfg) pre)) = c_server cfg).
  { rewrite run_role. unfold init_state. destruct (c_server cfg); reflexivity. }
  destruct Hd as [(c2 & A & M)|(n & cs & sch & r & A & M)].
  - left. rewrite A in Hrole. simpl in Hrole. split; auto. exists c2; auto.
  - right. rewrite A in Hrole. simpl in Hrole. split; auto. exists n, cs, sch, r; auto.
Qed.

(* ---------- (G7) the executable oracles accept every model run ---------- *)

Lemma forallb_true_intro : forall A (f : A -> bool) l, (forall x, In x l -> f x = true) -> forallb f l = true.
Proof. intros; apply forallb_forall; auto. Qed.

Theorem check_C17_sound : forall cfg l st, check_C17 (obs_of_log (run_log cfg st l)) = true.
Proof.
  intros cfg l; induction l as [|[m e] r IH]; intros st; simpl; [reflexivity|].
  pose proof (handle_gate' cfg st m e) as G.
  pose proof (handle_advertised_only cfg st m e) as A.
  destruct (handle cfg st m e) as [st' eff]; simpl in *.
  unfold check_C17 in *. simpl. rewrite IH. rewrite andb_true_r.
  unfold step_ok. apply andb_true_iff; split.
  - destruct (existsb protected eff) eqn:P; [rewrite G by reflexivity; reflexivity|].
    rewrite orb_true_r; reflexivity.
  - apply forallb_true_intro. intros x Hx.
    destruct (delivered_pid x) eqn:D; auto.
    destruct (A x n Hx D) as (_ & H1 & H2). rewrite H1, H2; reflexivity.
Qed.

Theorem check_C17_closed_sound : forall cfg l st closed,
  (closed = true -> a_is_close (s_auth st) = true) ->
  check_C17_closed (obs_closed_of_log (run_log cfg st l)) closed = true.
Proof.
  intros cfg l; induction l as [|[m e] r IH]; intros st closed Hc; simpl; [reflexivity|].
  pose proof (handle_closed cfg st m e) as HC.
  destruct (handle cfg st m e) as [st' eff]; simpl in *.
  apply andb_true_iff; split.
  - destruct closed; [|reflexivity].
    specialize (Hc eq_refl). destruct (HC Hc) as [_ H2].
    rewrite (close_not_ok _ Hc), Hc. unfold noprot in H2. rewrite H2. reflexivity.
  - apply IH. intros H. apply orb_true_iff in H. destruct H as [H|H].
    + apply HC; auto.
    + apply HC; auto.
Qed.

(* ---------- local events never produce a protected effect and never touch the auth state ---------- *)

Lemma local_spawn_noprot : forall st pid r, noprot (snd (local_spawn st pid r)).
Proof.
  intros; unfold local_spawn. destruct (a_is_ok (s_auth st) && r); simpl; auto with np.
Qed.

Lemma local_terminate_noprot : forall st pid r, noprot (snd (local_terminate st pid r)).
Proof.
  intros; unfold local_terminate. destruct (a_is_ok (s_auth st) && r); simpl; auto with np.
Qed.

Lemma local_spawn_auth : forall st pid r, s_auth (fst (local_spawn st pid r)) = s_auth st.
Proof. intros; unfold local_spawn; destruct (a_is_ok (s_auth st) && r); reflexivity. Qed.

Lemma local_terminate_auth : forall st pid r, s_auth (fst (local_terminate st pid r)) = s_auth st.
Proof. intros; unfold local_terminate; destruct (a_is_ok (s_auth st) && r); reflexivity. Qed.

(* before authentication a local event does not change the advertised set either *)
Lemma local_spawn_unauth : forall st pid r,
  a_is_ok (s_auth st) = false -> local_spawn st pid r = (st, []).
Proof. intros st pid r H; unfold local_spawn; rewrite H; reflexivity. Qed.

Definition in_log_gate (x : sstate * input * list effect) : Prop :=
  let '(st, _, eff) := x in existsb protected eff = true -> a_is_ok (s_auth st) = true.

Theorem run_in_gate : forall cfg l st, Forall in_log_gate (run_in_log dg cfg st l).
Proof.
  intros cfg l; induction l as [|i r IH]; intros st; simpl; [constructor|].
  assert (G : existsb protected (snd (step_in dg cfg st i)) = true -> a_is_ok (s_auth st) = true).
  { destruct i as [m e|pid rr|pid rr]; simpl.
    - apply handle_gate'.
    - intros H. rewrite (local_spawn_noprot st pid rr) in H. discriminate.
    - intros H. rewrite (local_terminate_noprot st pid rr) in H. discriminate. }
  destruct (step_in dg cfg st i) as [st' eff]; simpl in *.
  constructor; [exact G|apply IH].
Qed.

End GateProofs.
