(* Model of the length-prefixed frame reader of ractor_cluster/src/net/session.rs
   (read_network_message = read_u64 + checked_frame_length + read_n_bytes + prost decode,
   called in a loop by SessionReader::handle until the first error), as an incremental
   machine fed with the chunks in which the byte stream happens to arrive.
   The protobuf decoder is not modelled: [valid] says whether a payload decodes.
   Definitions only; proofs in FrameProofs.v. *)
From Coq Require Import List NArith Bool.
From RV Require Import Cluster.Codec.
Import ListNotations.
Local Open Scope N_scope.

Inductive ferr := ETooLarge | EUnalloc | EDecode | EEof.
Inductive fout := FMsg (payload : list N) | FErr (e : ferr).

Definition ISIZE_MAX : N := 2 ^ 63 - 1.

(* checked_frame_length: None = accepted *)
Definition checked_frame_length (n max : N) : option ferr :=
  if max <? n then Some ETooLarge
  else if ISIZE_MAX <? n then Some EUnalloc
  else None.

Definition enc_frame (p : list N) : list N := be 8 (len p) ++ p.

(* reader state: collecting the 8 header bytes (read_u64's internal buffer); collecting
   a payload of [need] bytes of which [buf] have arrived (read_n_bytes' Vec); stopped *)
Inductive rstate := RHdr (acc : list N) | RBody (need : N) (buf : list N) | RDead.
Record reader := mkR { r_st : rstate; r_consumed : N }.

Definition takeN (k : N) (l : list N) : list N := firstn (N.to_nat (N.min k (len l))) l.
Definition dropN (k : N) (l : list N) : list N := skipn (N.to_nat (N.min k (len l))) l.

Section Reader.
Variable max : N.
Variable valid : list N -> bool.

(* one read from a non-empty chunk: at most the bytes still missing for the current
   header / payload are taken, so nothing beyond the current frame is ever consumed.
   [Done]: the chunk is used up or the reader stopped; [More]: continue with the rest. *)
Inductive step_res :=
| Done (r : reader) (o : list fout)
| More (r : reader) (o : list fout) (rest : list N).

Definition iter (r : reader) (chunk : list N) : step_res :=
  match r_st r with
  | RDead => Done r []
  | RHdr acc =>
    let h := takeN (8 - len acc) chunk in
    let rest := dropN (8 - len acc) chunk in
    let acc' := acc ++ h in
    let c' := r_consumed r + len h in
    if len acc' <? 8 then Done (mkR (RHdr acc') c') [] else
    let n := de acc' in
    match checked_frame_length n max with
    | Some e => Done (mkR RDead c') [FErr e]
    | None =>
      if n =? 0 then
        (* read_n_bytes(0) returns at once; the empty payload goes to the decoder *)
        if valid [] then More (mkR (RHdr []) c') [FMsg []] rest
        else Done (mkR RDead c') [FErr EDecode]
      else More (mkR (RBody n []) c') [] rest
    end
  | RBody need buf =>
    let h := takeN (need - len buf) chunk in
    let rest := dropN (need - len buf) chunk in
    let buf' := buf ++ h in
    let c' := r_consumed r + len h in
    if len buf' <? need then Done (mkR (RBody need buf') c') [] else
    if valid buf' then More (mkR (RHdr []) c') [FMsg buf'] rest
    else Done (mkR RDead c') [FErr EDecode]
  end.

(* one chunk arrives *)
Fixpoint feed_f (fuel : nat) (r : reader) (chunk : list N) : reader * list fout :=
  match chunk with
  | [] => (r, [])
  | _ :: _ =>
    match fuel with
    | O => (r, [])
    | S f =>
      match iter r chunk with
      | Done r' o => (r', o)
      | More r' o rest => let '(r2, o2) := feed_f f r' rest in (r2, o ++ o2)
      end
    end
  end.

Definition feed (r : reader) (chunk : list N) : reader * list fout :=
  feed_f (length chunk) r chunk.

Fixpoint feed_all (r : reader) (chunks : list (list N)) : reader * list fout :=
  match chunks with
  | [] => (r, [])
  | c :: cs => let '(r1, o1) := feed r c in
               let '(r2, o2) := feed_all r1 cs in (r2, o1 ++ o2)
  end.

Definition init : reader := mkR (RHdr []) 0.

(* end of stream: a reader that is still running fails with UnexpectedEof *)
Definition eof (r : reader) : list fout :=
  match r_st r with RDead => [] | _ => [FErr EEof] end.

(* a whole session: (everything the reader produced, bytes it took from the stream) *)
Definition run (chunks : list (list N)) : list fout * N :=
  let '(r, o) := feed_all init chunks in (o ++ eof r, r_consumed r).

(* payload bytes held in memory *)
Definition buffered (r : reader) : N :=
  match r_st r with RBody _ buf => len buf | _ => 0 end.

(* ---------- declarative specification: one-shot parse of the whole stream ---------- *)

Fixpoint parse_f (fuel : nat) (bytes : list N) : list fout :=
  match fuel with
  | O => []
  | S f =>
    if len bytes <? 8 then [FErr EEof] else
    let n := de (firstn 8 bytes) in
    let rest := skipn 8 bytes in
    match checked_frame_length n max with
    | Some e => [FErr e]
    | None =>
      if len rest <? n then [FErr EEof] else
      let p := takeN n rest in
      if valid p then FMsg p :: parse_f f (dropN n rest) else [FErr EDecode]
    end
  end.

Definition parse (bytes : list N) : list fout := parse_f (S (length bytes)) bytes.

End Reader.

(* ---------- executable oracle on implementation answers ---------- *)

Definition ferr_eqb (a b : ferr) : bool :=
  match a, b with
  | ETooLarge, ETooLarge | EUnalloc, EUnalloc | EDecode, EDecode | EEof, EEof => true
  | _, _ => false
  end.

Definition fout_eqb (a b : fout) : bool :=
  match a, b with
  | FMsg x, FMsg y => list_eqb x y
  | FErr x, FErr y => ferr_eqb x y
  | _, _ => false
  end.

Fixpoint fouts_eqb (a b : list fout) : bool :=
  match a, b with
  | [], [] => true
  | x :: a', y :: b' => fout_eqb x y && fouts_eqb a' b'
  | _, _ => false
  end.

Definition is_err (o : fout) : bool := match o with FErr _ => true | _ => false end.

(* no output after the first error *)
Fixpoint stops_at_error (o : list fout) : bool :=
  match o with
  | [] => true
  | FErr _ :: t => match t with [] => true | _ => false end
  | FMsg _ :: t => stops_at_error t
  end.

Definition oversized_header (max : N) (bytes : list N) : bool :=
  (8 <=? len bytes) && (max <? de (firstn 8 bytes)).

(* The implementation's answers for ONE byte stream delivered under several
   fragmentations: [answers] = per fragmentation (outputs, bytes taken from the transport,
   largest single read request). The property:
   - all fragmentations give the same outputs, and they are the outputs of the one-shot
     parse of the stream (valid frames decoded, the first bad frame ends the session);
   - nothing is delivered after an error;
   - if the first header declares more than [max]: the only output is the rejection and
     exactly the 8 header bytes were taken from the transport. *)
Definition check_C19_stream (max : N) (valid : list N -> bool) (bytes : list N)
           (answers : list (list fout * N)) : bool :=
  let spec := parse max valid bytes in
  forallb (fun a => fouts_eqb (fst a) spec && stops_at_error (fst a)
                    && (if oversized_header max bytes
                        then fouts_eqb (fst a) [FErr ETooLarge] && (snd a =? 8)
                        else true)) answers.

(* a finite table for [valid] in the correspondence runs: the payloads the real
   protobuf decoder accepted *)
Definition valid_tbl (ok : list (list N)) (p : list N) : bool := existsb (list_eqb p) ok.
