(* Proofs about Cluster/Codec.v (property C19). *)
From Coq Require Import List NArith ZArith Bool Lia ZifyN ZifyBool.
From RV Require Import Cluster.Codec.
Import ListNotations.
Local Open Scope N_scope.
Ltac Zify.zify_post_hook ::= Z.div_mod_to_equations.

(* ---------- big-endian integers ---------- *)

Definition bytes_ok (l : list N) := Forall (fun b => b < 256) l.

Lemma bytesb_ok l : bytesb l = true <-> bytes_ok l.
Proof.
  unfold bytesb, bytes_ok. rewrite forallb_forall, Forall_forall.
  split; intros H x Hx; specialize (H x Hx); unfold byteb in *; lia.
Qed.

Lemma be_length w n : length (be w n) = w.
Proof. revert n; induction w as [|w IH]; intros n; simpl; auto. rewrite app_length, IH; simpl; lia. Qed.

Lemma len_app (a b : list N) : len (a ++ b) = len a + len b.
Proof. unfold len. rewrite app_length. lia. Qed.

Lemma len_be w n : len (be w n) = N.of_nat w.
Proof. unfold len. now rewrite be_length. Qed.

Lemma be_bytes w n : bytes_ok (be w n).
Proof.
  revert n; induction w as [|w IH]; intros n; simpl. constructor.
  apply Forall_app; split; [apply IH|]. constructor; [|constructor]. apply N.mod_lt; lia.
Qed.

Lemma pow256_S w : pow256 (S w) = 256 * pow256 w.
Proof. unfold pow256. rewrite Nat2N.inj_succ, N.pow_succ_r'. reflexivity. Qed.

Lemma pow256_pos w : 0 < pow256 w.
Proof. unfold pow256. apply N.neq_0_lt_0, N.pow_nonzero. lia. Qed.

Lemma de_be w n : n < pow256 w -> de (be w n) = n.
Proof.
  revert n; induction w as [|w IH]; intros n H.
  - unfold pow256 in H. simpl in *. unfold de; simpl. lia.
  - simpl. unfold de in *. rewrite fold_left_app. simpl. rewrite IH.
    + pose proof (N.div_mod n 256). lia.
    + rewrite pow256_S in H. apply N.div_lt_upper_bound; lia.
Qed.

Lemma fold_de_bound l acc : bytes_ok l ->
  fold_left (fun acc b => acc * 256 + b) l acc < (acc + 1) * pow256 (length l).
Proof.
  revert acc; induction l as [|b t IH]; intros acc H; simpl length.
  - unfold pow256. simpl. lia.
  - inversion H; subst. cbn [fold_left]. specialize (IH (acc*256+b) H3).
    rewrite pow256_S. nia.
Qed.

Lemma de_bound l : bytes_ok l -> de l < pow256 (length l).
Proof. intros H. pose proof (fold_de_bound l 0 H). unfold de. lia. Qed.

(* canonicity of the integer encoding: decoding then re-encoding gives the same bytes *)
Lemma be_de l : bytes_ok l -> be (length l) (de l) = l.
Proof.
  induction l as [|b t IH] using rev_ind; intros H; [reflexivity|].
  apply Forall_app in H as [Ht Hb]. inversion Hb; subst.
  rewrite app_length. simpl length. rewrite Nat.add_1_r. simpl.
  unfold de in *. rewrite fold_left_app. simpl.
  set (x := fold_left (fun acc b0 => acc * 256 + b0) t 0) in *.
  replace ((x * 256 + b) / 256) with x by (apply N.div_unique with b; lia).
  replace ((x * 256 + b) mod 256) with b by (apply N.mod_unique with x; lia).
  rewrite IH; auto.
Qed.

Lemma be_inj w a b : a < pow256 w -> b < pow256 w -> be w a = be w b -> a = b.
Proof. intros Ha Hb E. rewrite <- (de_be w a Ha), <- (de_be w b Hb), E. reflexivity. Qed.

(* ---------- list helpers ---------- *)

Lemma firstn_app_exact {A} (a b : list A) n : length a = n -> firstn n (a ++ b) = a.
Proof. intros <-. rewrite firstn_app, Nat.sub_diag, firstn_all. simpl. apply app_nil_r. Qed.

Lemma skipn_app_exact {A} (a b : list A) n : length a = n -> skipn n (a ++ b) = b.
Proof. intros <-. rewrite skipn_app, Nat.sub_diag, skipn_all. reflexivity. Qed.

Lemma app_eq_len {A} (a1 b1 a2 b2 : list A) :
  a1 ++ b1 = a2 ++ b2 -> length a1 = length a2 -> a1 = a2 /\ b1 = b2.
Proof.
  revert a2; induction a1 as [|x a1 IH]; intros [|y a2] E L; simpl in *; try discriminate; auto.
  injection E as -> E. destruct (IH a2 E) as [-> ->]; auto.
Qed.

Lemma list_eqb_eq a b : list_eqb a b = true <-> a = b.
Proof.
  revert b; induction a as [|x a IH]; intros [|y b]; simpl; split; intros H; try discriminate; auto.
  - apply andb_true_iff in H as [H1 H2]. apply N.eqb_eq in H1. apply IH in H2. congruence.
  - injection H as -> ->. rewrite N.eqb_refl. simpl. apply IH. reflexivity.
Qed.

Lemma list_eqb_refl a : list_eqb a a = true.
Proof. apply list_eqb_eq. reflexivity. Qed.

(* ---------- round trip of the BytesConvertable conversions ---------- *)

Lemma enc_e_length e x : wf_ev e x = true -> length (enc_e e x) = ewidth e.
Proof.
  destruct e, x; simpl; intros H; try discriminate; try apply be_length; reflexivity.
Qed.

Lemma char_ok_bound n : char_ok n = true -> n < pow256 4.
Proof. unfold char_ok, pow256. simpl. lia. Qed.

Lemma pow256_even w : w <> O -> Z.of_N (pow256 w) = (2 * half w)%Z.
Proof.
  intros Hw. destruct w as [|w]; [congruence|]. unfold half. rewrite pow256_S.
  pose proof (pow256_pos w). lia.
Qed.

Lemma signed_roundtrip w z : w <> O -> (- half w <= z < half w)%Z ->
  to_signed w (of_signed w z) = z /\ of_signed w z < pow256 w.
Proof.
  intros Hw Hz. pose proof (pow256_even w Hw) as HM. pose proof (pow256_pos w) as Hp.
  unfold to_signed, of_signed.
  set (M := Z.of_N (pow256 w)) in *.
  assert (HMpos : (0 < M)%Z) by lia.
  pose proof (Z.mod_pos_bound z M HMpos) as Hb.
  rewrite Z2N.id by lia.
  split.
  - destruct (Z_lt_dec z 0) as [Hn|Hn].
    + assert (E : (z mod M = z + M)%Z).
      { symmetry. apply Z.mod_unique with (q := (-1)%Z); lia. }
      rewrite E. destruct (Z.ltb_spec (z + M) (half w)); lia.
    + rewrite Z.mod_small by lia. destruct (Z.ltb_spec z (half w)); lia.
  - lia.
Qed.

Lemma roundtrip_e e x : wf_ev e x = true -> dec_e e (enc_e e x) = Some x.
Proof.
  destruct e as [w|w| |], x as [n|z|b]; cbn [wf_ev enc_e dec_e]; intros H; try discriminate.
  - apply andb_true_iff in H as [_ H]. rewrite de_be by lia. reflexivity.
  - apply andb_true_iff in H as [H H2]. apply andb_true_iff in H as [Hw H1].
    destruct (signed_roundtrip w z) as [E B]; [destruct w; simpl in Hw; congruence|lia|].
    rewrite de_be by exact B. rewrite E. reflexivity.
  - destruct b; reflexivity.
  - pose proof (char_ok_bound n H). rewrite de_be by assumption. rewrite H. reflexivity.
Qed.

Lemma sequence_map_roundtrip e l : forallb (wf_ev e) l = true ->
  sequence (map (dec_e e) (map (enc_e e) l)) = Some l.
Proof.
  induction l as [|x l IH]; simpl; intros H; auto.
  apply andb_true_iff in H as [H1 H2]. rewrite roundtrip_e by assumption. rewrite IH by assumption. reflexivity.
Qed.

Lemma chunks_concat e l : forallb (wf_ev e) l = true ->
  chunks (ewidth e) (length l) (concat (map (enc_e e) l)) = map (enc_e e) l.
Proof.
  induction l as [|x l IH]; simpl; intros H; auto.
  apply andb_true_iff in H as [H1 H2].
  rewrite firstn_app_exact, skipn_app_exact by (apply enc_e_length; assumption).
  rewrite IH by assumption. reflexivity.
Qed.

Lemma concat_enc_length e l : forallb (wf_ev e) l = true ->
  length (concat (map (enc_e e) l)) = (length l * ewidth e)%nat.
Proof.
  induction l as [|x l IH]; simpl; intros H; auto.
  apply andb_true_iff in H as [H1 H2]. rewrite app_length, IH, enc_e_length by assumption. lia.
Qed.

Lemma wf_ev_width e x : wf_ev e x = true -> ewidth e <> O.
Proof.
  destruct e as [w|w| |], x; simpl; intros H; try discriminate; try lia;
    destruct w; simpl in H; try discriminate; lia.
Qed.

(* for every value of every supported type: from_bytes (into_bytes v) = v *)
Theorem roundtrip t v : wf_val t v = true -> decode t (encode t v) = Some v.
Proof.
  destruct t as [e|e| |], v as [x|l|s|]; simpl; intros H; try discriminate; auto.
  - unfold take. rewrite (enc_e_length e x H), Nat.leb_refl.
    rewrite <- (enc_e_length e x H) at 1. rewrite firstn_all. rewrite roundtrip_e by assumption. reflexivity.
  - rewrite concat_enc_length by assumption.
    destruct l as [|x l'] eqn:El.
    + simpl. destruct (ewidth e); reflexivity.
    + rewrite <- El in *. assert (Hw : ewidth e <> O).
      { subst l. simpl in H. apply andb_true_iff in H as [H _]. eapply wf_ev_width; eauto. }
      rewrite Nat.div_mul by assumption.
      rewrite chunks_concat by assumption. rewrite sequence_map_roundtrip by assumption. reflexivity.
  - apply andb_true_iff in H as [_ H]. rewrite H. reflexivity.
Qed.

Lemma encode_bytes t v : wf_val t v = true -> bytes_ok (encode t v).
Proof.
  assert (He : forall e x, bytes_ok (enc_e e x)).
  { intros e x. destruct e, x; cbn [enc_e]; try apply be_bytes; try constructor.
    - destruct b; lia.
    - constructor. }
  destruct t as [e|e| |], v as [x|l|s|]; simpl; intros H; try discriminate; try constructor.
  - apply He.
  - clear H. induction l; simpl; [constructor|]. apply Forall_app; split; auto. apply He.
  - apply andb_true_iff in H as [H _]. apply bytesb_ok. assumption.
Qed.

(* vectors of non-char elements, and the unit type, decode every byte string *)
Lemma sequence_total {A} (f : list N -> option A) l :
  (forall x, f x <> None) -> sequence (map f l) <> None.
Proof.
  intros Hf. induction l as [|x l IH]; simpl; [discriminate|].
  destruct (f x) eqn:E; [|exfalso; eapply Hf; eauto].
  destruct (sequence (map f l)); [discriminate|congruence].
Qed.

Theorem decode_vec_total e bs : e <> EChar -> decode (TVec e) bs <> None.
Proof.
  intros He. simpl.
  destruct (sequence (map (dec_e e) (chunks (ewidth e) (length bs / ewidth e) bs))) eqn:E; [discriminate|].
  exfalso. revert E. apply sequence_total. intros x. destruct e; simpl; try discriminate. congruence.
Qed.

(* a fixed-width conversion looks only at its first [ewidth] bytes *)
Theorem decode_fixed_prefix e bs extra :
  (ewidth e <= length bs)%nat -> decode (TE e) (bs ++ extra) = decode (TE e) bs.
Proof.
  intros H. simpl. unfold take.
  rewrite app_length.
  destruct (Nat.leb_spec (ewidth e) (length bs)); [|lia].
  destruct (Nat.leb_spec (ewidth e) (length bs + length extra)); [|lia].
  rewrite firstn_app. replace (ewidth e - length bs)%nat with O by lia. simpl. rewrite app_nil_r. reflexivity.
Qed.

(* ---------- get ---------- *)

Lemma get_spec bs a b x : get bs a b = Some x ->
  exists pre post, bs = pre ++ x ++ post /\ len pre = a /\ len pre + len x = b.
Proof.
  unfold get. destruct ((a <=? b) && (b <=? len bs)) eqn:E; [|discriminate].
  intros H. injection H as <-. apply andb_true_iff in E as [E1 E2].
  apply N.leb_le in E1, E2. unfold len in *.
  exists (firstn (N.to_nat a) bs), (skipn (N.to_nat (b - a)) (skipn (N.to_nat a) bs)).
  split; [|split].
  - rewrite (firstn_skipn (N.to_nat (b - a))). rewrite firstn_skipn. reflexivity.
  - rewrite firstn_length. lia.
  - rewrite !firstn_length, skipn_length. lia.
Qed.

Lemma get_intro pre x post : get (pre ++ x ++ post) (len pre) (len pre + len x) = Some x.
Proof.
  unfold get. unfold len. rewrite !app_length.
  destruct ((N.of_nat (length pre) <=? N.of_nat (length pre) + N.of_nat (length x)) &&
            (N.of_nat (length pre) + N.of_nat (length x) <=? N.of_nat (length pre + (length x + length post)))) eqn:E.
  - f_equal. rewrite skipn_app_exact by lia.
    apply firstn_app_exact. lia.
  - apply andb_false_iff in E as [E|E]; apply N.leb_gt in E; lia.
Qed.

Lemma get_bounds bs a b x : get bs a b = Some x -> a <= b /\ b <= len bs.
Proof.
  unfold get. destruct ((a <=? b) && (b <=? len bs)) eqn:E; [|discriminate].
  intros _. apply andb_true_iff in E as [E1 E2]. apply N.leb_le in E1, E2. auto.
Qed.

(* ---------- packing: round trip ---------- *)

Lemma len_pack1 f : len (pack1 f) = 8 + len f.
Proof. unfold pack1. rewrite len_app, len_be. reflexivity. Qed.

Lemma U64_pow : U64 = pow256 8.
Proof. reflexivity. Qed.

Lemma checked_add_some a b : a + b < U64 -> checked_add a b = Some (a + b).
Proof. unfold checked_add. intros H. destruct (N.ltb_spec (a + b) U64); [reflexivity|lia]. Qed.

Lemma unpack_arg_pack1 pre f post :
  len pre + 8 + len f < U64 ->
  unpack_arg (pre ++ pack1 f ++ post) (len pre) = Some (f, len pre + 8 + len f).
Proof.
  intros H. unfold unpack_arg.
  rewrite checked_add_some by lia.
  unfold pack1. rewrite <- app_assoc.
  replace (len pre + 8) with (len pre + len (be 8 (len f))) by (rewrite len_be; reflexivity).
  rewrite get_intro. rewrite de_be by (rewrite <- U64_pow; lia).
  rewrite len_be. change (N.of_nat 8) with 8.
  rewrite checked_add_some by lia.
  replace (pre ++ be 8 (len f) ++ f ++ post) with ((pre ++ be 8 (len f)) ++ f ++ post)
    by (rewrite <- app_assoc; reflexivity).
  replace (len pre + 8) with (len (pre ++ be 8 (len f))) by (rewrite len_app, len_be; reflexivity).
  rewrite get_intro. rewrite len_app, len_be. reflexivity.
Qed.

Lemma len_pack_cons f fs : len (pack (f :: fs)) = 8 + len f + len (pack fs).
Proof. unfold pack. cbn [map concat]. rewrite len_app, len_pack1. reflexivity. Qed.

Lemma unpack_raw_pack fs : forall pre post,
  len pre + len (pack fs) < U64 ->
  unpack_raw (length fs) (pre ++ pack fs ++ post) (len pre) = Some (fs, len pre + len (pack fs)).
Proof.
  induction fs as [|f fs IH]; intros pre post H.
  - simpl. unfold pack. simpl. f_equal. f_equal. unfold len. simpl. lia.
  - rewrite len_pack_cons in H. cbn [length unpack_raw].
    replace (pack (f :: fs)) with (pack1 f ++ pack fs) by reflexivity.
    rewrite <- app_assoc.
    rewrite unpack_arg_pack1 by lia.
    replace (pre ++ pack1 f ++ pack fs ++ post) with ((pre ++ pack1 f) ++ pack fs ++ post)
      by (rewrite <- app_assoc; reflexivity).
    replace (len pre + 8 + len f) with (len (pre ++ pack1 f)) by (rewrite len_app, len_pack1; lia).
    rewrite IH by (rewrite len_app, len_pack1; lia).
    f_equal. f_equal. rewrite len_app, len_pack1.
    replace (pack1 f ++ pack fs) with (pack (f :: fs)) by reflexivity.
    rewrite len_pack_cons. lia.
Qed.

(* unpack k (pack fs) = Some fs when length fs = k *)
Theorem unpack_pack fs : len (pack fs) < U64 -> unpack (length fs) (pack fs) = Some fs.
Proof.
  intros H. unfold unpack.
  pose proof (unpack_raw_pack fs [] [] ) as E. simpl in E. rewrite app_nil_r in E.
  change (len []) with 0 in E. rewrite E by (simpl; lia).
  simpl. rewrite N.eqb_refl. reflexivity.
Qed.

(* ---------- packing: canonicity ---------- *)

Lemma unpack_arg_spec args p d q : bytes_ok args -> unpack_arg args p = Some (d, q) ->
  exists pre post, args = pre ++ pack1 d ++ post /\ len pre = p /\ len pre + len (pack1 d) = q.
Proof.
  intros Hb. unfold unpack_arg, checked_add.
  destruct (p + 8 <? U64) eqn:E1; [|discriminate].
  destruct (get args p (p + 8)) as [lb|] eqn:G1; [|discriminate].
  destruct (p + 8 + de lb <? U64) eqn:E2; [|discriminate].
  destruct (get args (p + 8) (p + 8 + de lb)) as [d'|] eqn:G2; [|discriminate].
  intros H. injection H as -> <-.
  apply get_spec in G1 as (pre1 & post1 & A1 & L1 & L1').
  apply get_spec in G2 as (pre2 & post2 & A2 & L2 & L2').
  assert (Hlb : len lb = 8) by lia.
  assert (Hd : len d = de lb) by lia.
  assert (P : pre2 = pre1 ++ lb /\ d ++ post2 = post1).
  { rewrite A1 in A2. rewrite app_assoc in A2. symmetry in A2.
    apply app_eq_len in A2 as [X Y]; auto. rewrite app_length. unfold len in *. lia. }
  destruct P as [-> <-].
  exists pre1, post2. split; [|split; [assumption|]].
  - rewrite A1. f_equal. unfold pack1. rewrite <- app_assoc. f_equal.
    rewrite Hd. assert (Hl8 : length lb = 8%nat) by (unfold len in Hlb; lia).
    rewrite <- Hl8. symmetry. apply be_de.
    rewrite A1 in Hb. apply Forall_app in Hb as [_ Hb]. apply Forall_app in Hb as [Hb _]. exact Hb.
  - rewrite len_pack1. lia.
Qed.

(* with zero fields nothing is read, so the decomposition is stated from the pointer on *)
Lemma unpack_raw_spec k : forall args p fs q, bytes_ok args -> p <= len args ->
  unpack_raw k args p = Some (fs, q) ->
  length fs = k /\
  exists pre post, args = pre ++ pack fs ++ post /\ len pre = p /\ len pre + len (pack fs) = q.
Proof.
  induction k as [|k IH]; intros args p fs q Hb Hp H; simpl in H.
  - injection H as <- <-. split; auto. exists (firstn (N.to_nat p) args), (skipn (N.to_nat p) args).
    unfold pack; simpl. rewrite firstn_skipn. split; auto. unfold len in *. simpl length. rewrite firstn_length. split; lia.
  - destruct (unpack_arg args p) as [[d p']|] eqn:E; [|discriminate].
    destruct (unpack_raw k args p') as [[ds q']|] eqn:E2; [|discriminate].
    injection H as <- <-.
    apply unpack_arg_spec in E as (pre & post & A & L & L'); auto.
    assert (Hp' : p' <= len args).
    { rewrite A. rewrite !len_app. lia. }
    apply IH in E2 as (Hl & pre2 & post2 & A2 & L2 & L2'); auto.
    split; [simpl; lia|].
    assert (P : pre2 = pre ++ pack1 d /\ pack ds ++ post2 = post).
    { rewrite A in A2. rewrite app_assoc in A2. symmetry in A2.
      apply app_eq_len in A2 as [X Y]; auto. rewrite app_length. unfold len in *. lia. }
    destruct P as [-> <-].
    exists pre, post2. split; [|split; auto].
    + rewrite A. unfold pack. simpl. rewrite <- app_assoc. reflexivity.
    + rewrite len_pack_cons. rewrite len_app, len_pack1 in L2'. rewrite len_pack1 in L'. lia.
Qed.

(* no two byte strings unpack to the same fields: short or trailing bytes are errors *)
Theorem unpack_canonical k args fs : bytes_ok args -> unpack k args = Some fs ->
  pack fs = args /\ length fs = k.
Proof.
  intros Hb. unfold unpack.
  destruct (unpack_raw k args 0) as [[fs' p]|] eqn:E; [|discriminate].
  destruct (p =? len args) eqn:Ep; [|discriminate].
  intros H. injection H as ->. apply N.eqb_eq in Ep.
  apply unpack_raw_spec in E as (Hl & pre & post & A & L & L'); auto; [|lia].
  split; auto.
  assert (pre = []) by (destruct pre; auto; unfold len in L; simpl in L; lia). subst pre.
  simpl in *. assert (len post = 0) by (rewrite A, len_app in Ep; change (len []) with 0 in L'; lia).
  destruct post; [|unfold len in H; simpl in H; lia]. rewrite app_nil_r in A. auto.
Qed.

Corollary unpack_injective k a b fs : bytes_ok a -> bytes_ok b ->
  unpack k a = Some fs -> unpack k b = Some fs -> a = b.
Proof.
  intros Ha Hb Ea Eb. apply unpack_canonical in Ea as [<- _]; auto.
  apply unpack_canonical in Eb as [<- _]; auto.
Qed.

(* ---------- packing: every read is inside the argument bytes ---------- *)

Lemma unpack_arg_log_fst args p : fst (unpack_arg_log args p) = unpack_arg args p.
Proof.
  unfold unpack_arg_log, unpack_arg.
  destruct (checked_add p 8); auto. destruct (get args p n); auto.
  destruct (checked_add n (de l)); auto. destruct (get args n n0); auto.
Qed.

Lemma unpack_arg_log_safe args p a b :
  In (a, b) (snd (unpack_arg_log args p)) -> a <= b /\ b <= len args.
Proof.
  unfold unpack_arg_log.
  destruct (checked_add p 8) as [le|]; simpl; [|tauto].
  destruct (get args p le) as [lb|] eqn:G1; simpl; [|tauto].
  apply get_bounds in G1.
  destruct (checked_add le (de lb)) as [dend|]; simpl.
  - destruct (get args le dend) as [d|] eqn:G2; simpl.
    + apply get_bounds in G2. intros [H|[H|[]]]; injection H as <- <-; lia.
    + intros [H|[]]; injection H as <- <-; lia.
  - intros [H|[]]; injection H as <- <-; lia.
Qed.

Theorem unpack_safe k : forall args p a b, In (a, b) (unpack_log k args p) -> a <= b /\ b <= len args.
Proof.
  induction k as [|k IH]; intros args p a b H; simpl in H; [tauto|].
  destruct (unpack_arg_log args p) as [[[d p']|] lg] eqn:E.
  - apply in_app_or in H as [H|H].
    + apply (unpack_arg_log_safe args p). rewrite E. exact H.
    + eapply IH; eauto.
  - apply (unpack_arg_log_safe args p). rewrite E. exact H.
Qed.

(* ---------- generated field decoding = framing, then the conversions ---------- *)

Lemma unpack_fields_spec tys : forall args p,
  unpack_fields tys args p =
  match unpack_raw (length tys) args p with
  | None => None
  | Some (fs, q) => match decode_all tys fs with Some vs => Some (vs, q) | None => None end
  end.
Proof.
  induction tys as [|t r IH]; intros args p; cbn [unpack_fields length unpack_raw]; auto.
  destruct (unpack_arg args p) as [[d p']|]; auto.
  rewrite IH.
  destruct (unpack_raw (length r) args p') as [[ds q]|]; cbn [decode_all].
  - destruct (decode t d); auto. destruct (decode_all r ds); auto.
  - destruct (decode t d); auto.
Qed.

Theorem deser_fields_spec tys args :
  deser_fields tys args =
  match unpack (length tys) args with None => None | Some fs => decode_all tys fs end.
Proof.
  unfold deser_fields, unpack. rewrite unpack_fields_spec.
  destruct (unpack_raw (length tys) args 0) as [[fs q]|]; auto.
  destruct (q =? len args) eqn:Q; destruct (decode_all tys fs) eqn:D; cbn; rewrite ?Q; auto.
Qed.

Lemma decode_encode_all tys : forall vs, wf_all tys vs = true ->
  decode_all tys (encode_all tys vs) = Some vs /\ length (encode_all tys vs) = length tys.
Proof.
  induction tys as [|t r IH]; intros [|v vs] H; simpl in *; try discriminate; auto.
  apply andb_true_iff in H as [H1 H2]. rewrite roundtrip by assumption.
  destruct (IH vs H2) as [E L]. rewrite E, L. auto.
Qed.

Theorem deser_fields_roundtrip tys vs :
  wf_all tys vs = true -> len (pack (encode_all tys vs)) < U64 ->
  deser_fields tys (pack (encode_all tys vs)) = Some vs.
Proof.
  intros Hwf Hlen. rewrite deser_fields_spec.
  destruct (decode_encode_all tys vs Hwf) as [E L].
  rewrite <- L. rewrite unpack_pack by assumption. exact E.
Qed.

(* ---------- derived enum ---------- *)

Lemma find_variant_nth tbl : forall n v k, tags_distinct tbl = true ->
  nth_error tbl n = Some v ->
  find_variant tbl (v_call v) (v_tag v) k = Some (k + N.of_nat n, v).
Proof.
  induction tbl as [|h r IH]; intros n v k Hd Hn; [destruct n; discriminate|].
  simpl in Hd. apply andb_true_iff in Hd as [Hh Hr]. apply negb_true_iff in Hh.
  destruct n as [|n]; simpl in Hn.
  - injection Hn as ->. simpl. rewrite eqb_reflx, list_eqb_refl. simpl. f_equal. f_equal. lia.
  - simpl.
    destruct (Bool.eqb (v_call h) (v_call v) && list_eqb (v_tag h) (v_tag v)) eqn:E.
    + exfalso. apply andb_true_iff in E as [E1 E2]. apply eqb_prop in E1. apply list_eqb_eq in E2.
      assert (X : existsb (fun v' => Bool.eqb (v_call v') (v_call h) && list_eqb (v_tag v') (v_tag h)) r = true).
      { apply existsb_exists. exists v. split; [eapply nth_error_In; eauto|].
        rewrite E1, E2, eqb_reflx, list_eqb_refl. reflexivity. }
      congruence.
    + rewrite (IH n v (k + 1) Hr Hn). f_equal. f_equal. lia.
Qed.

(* deserialize (serialize value) = value, for every variant of every table with distinct names *)
Theorem enum_roundtrip tbl i vs v m :
  tags_distinct tbl = true ->
  nth_error tbl (N.to_nat i) = Some v ->
  wf_all (v_tys v) vs = true ->
  len (pack (encode_all (v_tys v) vs)) < U64 ->
  serialize tbl i vs = Some m ->
  deserialize tbl m = Some (i, vs).
Proof.
  intros Hd Hn Hwf Hlen. unfold serialize. rewrite Hn. intros H. injection H as <-.
  pose proof (find_variant_nth tbl (N.to_nat i) v 0 Hd Hn) as F.
  rewrite N2Nat.id in F. simpl in F.
  destruct (v_call v) eqn:Ec; simpl; rewrite F, deser_fields_roundtrip by assumption; reflexivity.
Qed.

(* a message that is not a cast/call of a known variant with exactly the declared fields is an error *)
Theorem deserialize_ok_inv tbl m i vs : deserialize tbl m = Some (i, vs) ->
  exists v tag args meta, (m = SCast tag args meta \/ m = SCall tag args meta)
    /\ deser_fields (v_tys v) args = Some vs.
Proof.
  destruct m as [tag args meta|tag args meta|]; simpl; [| |discriminate].
  - destruct (find_variant tbl false tag 0) as [[j v]|]; [|discriminate].
    destruct (deser_fields (v_tys v) args) eqn:E; [|discriminate].
    intros H. injection H as <- <-. exists v, tag, args, meta. auto.
  - destruct (find_variant tbl true tag 0) as [[j v]|]; [|discriminate].
    destruct (deser_fields (v_tys v) args) eqn:E; [|discriminate].
    intros H. injection H as <- <-. exists v, tag, args, meta. auto.
Qed.

(* ---------- job metadata ---------- *)

Lemma enc_opts_length o : length (enc_opts o) = 16%nat.
Proof. unfold enc_opts. rewrite app_length, !be_length. reflexivity. Qed.

Theorem opts_roundtrip o : opts_wf o = true -> dec_opts (enc_opts o) = JOpts o.
Proof.
  destruct o as [s ttl]. unfold opts_wf. simpl. intros H.
  unfold dec_opts. rewrite enc_opts_length. simpl Nat.eqb. cbv iota.
  unfold enc_opts. simpl jo_submit. simpl jo_ttl.
  rewrite firstn_app_exact, skipn_app_exact by apply be_length.
  assert (U : U64 = pow256 8) by reflexivity.
  apply andb_true_iff in H as [Hs Ht].
  rewrite !N.mod_small.
  - rewrite !de_be.
    + destruct ttl as [t|]; [|reflexivity].
      destruct (0 <? t) eqn:E; [reflexivity|lia].
    + destruct ttl; rewrite <- U; lia.
    + rewrite <- U; lia.
  - destruct ttl; lia.
  - lia.
Qed.

(* F5: a zero time-to-live does not survive the wire; it comes back as "no ttl" *)
Theorem opts_zero_ttl_refuted s :
  dec_opts (enc_opts (mkJo s (Some 0))) = JOpts (mkJo (s mod U64) None).
Proof.
  unfold dec_opts. rewrite enc_opts_length. simpl Nat.eqb. cbv iota.
  unfold enc_opts. simpl jo_submit. simpl jo_ttl.
  rewrite firstn_app_exact, skipn_app_exact by apply be_length.
  rewrite de_be by (apply N.mod_upper_bound; discriminate).
  reflexivity.
Qed.

Theorem meta_roundtrip kt k o : opts_wf o = true -> wf_val kt k = true ->
  deser_meta kt (Some (ser_meta kt k o)) = MOk k (JOpts o).
Proof.
  intros Ho Hk. unfold deser_meta, ser_meta.
  rewrite app_length, enc_opts_length.
  destruct (Nat.ltb_spec (16 + length (encode kt k)) 16); [lia|].
  rewrite skipn_app_exact, firstn_app_exact by apply enc_opts_length.
  rewrite roundtrip by assumption. rewrite opts_roundtrip by assumption. reflexivity.
Qed.

(* metadata shorter than the 16 option bytes, or none at all, is an error, never a panic;
   with a key type whose conversion cannot panic no metadata panics *)
Theorem deser_meta_short kt bs : (length bs < 16)%nat -> deser_meta kt (Some bs) = MErr.
Proof. intros H. unfold deser_meta. destruct (Nat.ltb_spec (length bs) 16); [reflexivity|lia]. Qed.

Theorem deser_meta_total kt m :
  (forall bs, decode kt bs <> None) -> deser_meta kt m <> MPanic.
Proof.
  intros Hk. unfold deser_meta. destruct m as [bs|]; [|discriminate].
  destruct (Nat.ltb (length bs) 16); [discriminate|].
  destruct (decode kt (skipn 16 bs)) eqn:E; [discriminate|]. exfalso. eapply Hk; eauto.
Qed.

Theorem job_roundtrip kt tbl k o i vs v m :
  opts_wf o = true -> wf_val kt k = true ->
  tags_distinct tbl = true ->
  nth_error tbl (N.to_nat i) = Some v ->
  wf_all (v_tys v) vs = true ->
  len (pack (encode_all (v_tys v) vs)) < U64 ->
  job_serialize kt tbl k o i vs = Some m ->
  job_deserialize kt tbl m = JOk k (JOpts o) i vs.
Proof.
  intros Ho Hk Hd Hn Hwf Hlen. unfold job_serialize.
  destruct (serialize tbl i vs) as [m0|] eqn:S; [|discriminate].
  pose proof (enum_roundtrip tbl i vs v m0 Hd Hn Hwf Hlen S) as R.
  unfold serialize in S. rewrite Hn in S. injection S as <-.
  destruct (v_call v); intros H; injection H as <-; unfold job_deserialize; simpl smsg_meta;
    rewrite meta_roundtrip by assumption; simpl in R |- *;
    destruct (find_variant tbl _ (v_tag v) 0) as [[j v']|]; try discriminate;
    destruct (deser_fields (v_tys v') _); try discriminate; injection R as -> ->; reflexivity.
Qed.

(* an actor never handles a message its decoder rejects, and handles every well-formed one *)
Theorem actor_accepts_wellformed tbl i vs v m :
  tags_distinct tbl = true -> nth_error tbl (N.to_nat i) = Some v ->
  wf_all (v_tys v) vs = true -> len (pack (encode_all (v_tys v) vs)) < U64 ->
  serialize tbl i vs = Some m -> actor_accepts tbl m = true.
Proof.
  intros. unfold actor_accepts. erewrite enum_roundtrip; eauto.
Qed.

(* primitive message types: Message::deserialize (Message::serialize v) = v *)
Theorem prim_roundtrip t v : wf_val t v = true ->
  prim_deserialize t (prim_serialize t v) = POk v.
Proof. intros H. unfold prim_deserialize, prim_serialize. rewrite roundtrip by assumption. reflexivity. Qed.

Theorem prim_not_cast t m : (forall tag args meta, m <> SCast tag args meta) -> prim_deserialize t m = PErr.
Proof. destruct m; simpl; auto. intros H. exfalso. eapply H. reflexivity. Qed.

(* ---------- the oracles accept the model ---------- *)

Lemma ev_eqb_refl x : ev_eqb x x = true.
Proof. destruct x; simpl; [apply N.eqb_refl|apply Z.eqb_refl|apply eqb_reflx]. Qed.

Lemma val_eqb_refl v : val_eqb v v = true.
Proof.
  destruct v; simpl; auto; [apply ev_eqb_refl| |apply list_eqb_refl].
  induction l; simpl; auto. rewrite ev_eqb_refl. auto.
Qed.

Lemma vals_eqb_refl vs : vals_eqb vs vs = true.
Proof. induction vs; simpl; auto. rewrite val_eqb_refl. auto. Qed.

Theorem roundtrip_oracle_sound t v : wf_val t v = true ->
  check_C19_roundtrip v (decode t (encode t v)) = true.
Proof. intros H. rewrite roundtrip by assumption. simpl. apply val_eqb_refl. Qed.

Theorem opts_oracle_sound o : opts_wf o = true ->
  check_C19_opts_roundtrip o (dec_opts (enc_opts o)) = true.
Proof.
  intros H. rewrite opts_roundtrip by assumption. simpl. unfold jopts_eqb.
  rewrite N.eqb_refl. destruct (jo_ttl o); auto. simpl. apply N.eqb_refl.
Qed.

Theorem enum_oracle_sound tbl i vs v m :
  tags_distinct tbl = true -> nth_error tbl (N.to_nat i) = Some v ->
  wf_all (v_tys v) vs = true -> len (pack (encode_all (v_tys v) vs)) < U64 ->
  serialize tbl i vs = Some m ->
  check_C19_enum_roundtrip i vs (deserialize tbl m) = true.
Proof.
  intros. erewrite enum_roundtrip; eauto. simpl. rewrite N.eqb_refl, vals_eqb_refl. reflexivity.
Qed.
