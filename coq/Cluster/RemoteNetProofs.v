(* Proofs about the two-node transition system (Part 3 of Remote.v): invariants over all label
   sequences — lifecycle mirroring (no revival of a terminated proxy), FIFO per target,
   reply correlation end to end. *)
From Coq Require Import List NArith Bool Lia Sorted.
From RV Require Import Cluster.Remote Cluster.RemoteProofs.
Import ListNotations.
Local Open Scope N_scope.

(* ------------------------------------------------------------------ *)
Lemma upd_same {A} (f : N -> A) k v : upd f k v k = v.
Proof. unfold upd. now rewrite N.eqb_refl. Qed.

Lemma upd_other {A} (f : N -> A) k v k' : k' <> k -> upd f k v k' = f k'.
Proof. unfold upd. intros H. apply N.eqb_neq in H. now rewrite H. Qed.

Ltac upd_cases k k' :=
  destruct (N.eq_dec k' k) as [->|?]; [rewrite ?upd_same|rewrite ?upd_other by assumption].

Ltac upd_cases' k k' :=
  destruct (N.eq_dec k k') as [->|?]; [rewrite ?upd_same in *|rewrite ?upd_other in * by congruence].

(* ------------------------------------------------------------------ *)
(* lifecycle                                                           *)

Definition wfp (p : pxy) : Prop :=
  (x_alive p = false -> x_groups p = [] /\ x_mbox p = [] /\ x_st p = pst0)
  /\ (x_alive p = true -> x_was p = true).

Definition wft (t : tgt) : Prop :=
  (t_alive t = false -> t_groups t = [] /\ t_mbox t = [])
  /\ (t_alive t = true -> t_used t = true).

Definition invJ (st : sys) : Prop :=
  (forall pid, wfp (px st pid))
  /\ (forall pid, wft (tg st pid))
  /\ (up st = true ->
      forall pid, ksim pid (xview (px st pid)) (flat (bwd st) ++ ctl st) = Some (yview (tg st pid))).

Lemma ksim_app pid s l1 l2 :
  ksim pid s (l1 ++ l2) = match ksim pid s l1 with Some s' => ksim pid s' l2 | None => None end.
Proof.
  revert s. induction l1 as [|f r IH]; intros s; simpl; [reflexivity|].
  destruct (kstep pid s f); [apply IH|reflexivity].
Qed.

Lemma kstep_noctl pid s f : is_ctl_for pid f = false -> kstep pid s f = Some s.
Proof.
  destruct f; simpl; try reflexivity; intros H; rewrite H; reflexivity.
Qed.

Lemma ksim_insert pid s l1 f l2 :
  is_ctl_for pid f = false -> ksim pid s (l1 ++ f :: l2) = ksim pid s (l1 ++ l2).
Proof.
  intros H. rewrite !ksim_app. destruct (ksim pid s l1); [|reflexivity].
  simpl. now rewrite kstep_noctl.
Qed.

Lemma xview_mbox a w m m' s s' g : xview (mkPx a w m s g) = xview (mkPx a w m' s' g).
Proof. reflexivity. Qed.

(* what X's session does to the view of pid when it handles frame f *)
Lemma handle_b_view f pxm pid s' :
  (forall q, wfp (pxm q)) ->
  kstep pid (xview (pxm pid)) f = Some s' -> xview (handle_b f pxm pid) = s'.
Proof.
  intros Hwf H. pose proof (Hwf pid) as [Wd Wa].
  destruct f as [to tag m port|to tag d port|q|q|g q|g q]; simpl in *.
  - now inversion H.
  - inversion H; subst. destruct (x_alive (pxm to)) eqn:Ea; [|reflexivity].
    upd_cases to pid; [|reflexivity]. unfold xview. simpl. now rewrite Ea.
  - destruct (N.eqb_spec q pid) as [->|Hne].
    + rewrite upd_same. unfold get_or_spawn, xview in *.
      destruct (x_alive (pxm pid)) eqn:Ea; simpl in *.
      * inversion H; subst. now rewrite Ea.
      * destruct (x_was (pxm pid)); simpl in H; [discriminate|]. now inversion H.
    + inversion H; subst. rewrite upd_other by congruence. reflexivity.
  - destruct (N.eqb_spec q pid) as [->|Hne].
    + unfold xview in *. destruct (x_alive (pxm pid)) eqn:Ea; simpl in *.
      * inversion H; subst. rewrite upd_same. reflexivity.
      * rewrite Ea. destruct (x_was (pxm pid)); now inversion H.
    + inversion H; subst. destruct (x_alive (pxm q)); [|reflexivity].
      rewrite upd_other by congruence. reflexivity.
  - destruct (N.eqb_spec q pid) as [->|Hne].
    + rewrite upd_same. unfold get_or_spawn, xview in *.
      destruct (x_alive (pxm pid)) eqn:Ea; simpl in *.
      * now inversion H.
      * destruct (x_was (pxm pid)); simpl in H; [discriminate|]. now inversion H.
    + inversion H; subst. rewrite upd_other by congruence. reflexivity.
  - destruct (N.eqb_spec q pid) as [->|Hne].
    + unfold xview in *. destruct (x_alive (pxm pid)) eqn:Ea; simpl in *.
      * inversion H; subst. rewrite upd_same. reflexivity.
      * rewrite Ea. destruct (x_was (pxm pid)); now inversion H.
    + inversion H; subst. destruct (x_alive (pxm q)); [|reflexivity].
      rewrite upd_other by congruence. reflexivity.
Qed.

Lemma handle_b_wf f pxm : (forall q, wfp (pxm q)) -> forall q, wfp (handle_b f pxm q).
Proof.
  intros Hwf q. pose proof (Hwf q) as Wq.
  assert (Wfresh : wfp px_fresh) by (split; simpl; [discriminate|reflexivity]).
  assert (Wdead : wfp px_dead) by (split; simpl; [auto|discriminate]).
  destruct f as [to tag m port|to tag d port|p|p|g p|g p]; simpl; auto.
  - destruct (x_alive (pxm to)) eqn:Ea; auto. upd_cases to q; auto.
    destruct (Hwf to) as [_ Wa]. split; simpl; [discriminate|auto].
  - upd_cases p q; auto. unfold get_or_spawn. destruct (x_alive (pxm p)); auto.
  - destruct (x_alive (pxm p)); auto. upd_cases p q; auto.
  - upd_cases p q; auto. split; simpl; [discriminate|reflexivity].
  - destruct (x_alive (pxm p)) eqn:Ea; auto. upd_cases p q; auto.
    destruct (Hwf p) as [_ Wa]. split; simpl; [discriminate|auto].
Qed.

Lemma ksim_noctl pid s l :
  (forall f, In f l -> is_ctl_for pid f = false) -> ksim pid s l = Some s.
Proof.
  revert s. induction l as [|f r IH]; intros s H; simpl; [reflexivity|].
  rewrite kstep_noctl by (apply H; now left). apply IH. intros g Hg. apply H. now right.
Qed.

Lemma ksim_leaves_dead pid gs : ksim pid (PhD, []) (map (fun g => FLeave g pid) gs) = Some (PhD, []).
Proof. induction gs as [|g r IH]; simpl; [reflexivity|]. now rewrite N.eqb_refl. Qed.

Definition pool_ok (st : sys) : Prop :=
  forall f, In f (pool st) -> exists to tag d port, f = FReply to tag d port.

Lemma in_remove_nth {A} i (l : list A) x : In x (remove_nth i l) -> In x l.
Proof.
  revert l. induction i as [|i IH]; intros [|y r]; simpl; auto.
  intros [->|H]; auto.
Qed.

Section Net.
  Variable resp : N -> msg -> option (list N).

  Definition invL (st : sys) : Prop := invJ st /\ pool_ok st.

  Lemma invL_init nf nb : invL (init nf nb).
  Proof.
    split; [split; [|split]|].
    - intros pid. split; simpl; intros; [repeat split|discriminate].
    - intros pid. split; simpl; intros; [repeat split|discriminate].
    - intros _ pid. unfold init; cbn [px tg bwd ctl]. rewrite flat_repeat. reflexivity.
    - intros f [].
  Qed.

  Lemma invL_step st l : invL st -> invL (step resp st l).
  Proof.
    intros H. pose proof H as [(Wp & Wt & J) Po]. destruct l; simpl.
    - (* send *)
      unfold do_send. destruct (x_alive (px st pid) && _) eqn:E; [|exact H].
      apply andb_true_iff in E as [Ea _].
      split; [split; [|split]|]; cbn [px tg up bwd ctl pool]; auto.
      + intros q. upd_cases pid q; auto. destruct (Wp pid) as [_ Wa]. split; simpl; [discriminate|auto].
      + intros Hu q. rewrite <- (J Hu q). upd_cases pid q; auto. unfold xview; simpl. now rewrite Ea.
    - (* abandon *) exact H.
    - (* proxy *)
      unfold do_proxy. destruct (x_alive (px st pid)) eqn:Ea; [|exact H].
      destruct (x_mbox (px st pid)) as [|it rest] eqn:Em; [exact H|].
      destruct (pstep _ _ _ _) as [ps outs].
      split; [split; [|split]|]; cbn [px tg up bwd ctl pool]; auto.
      + intros q. upd_cases pid q; auto. destruct (Wp pid) as [_ Wa]. split; simpl; [discriminate|auto].
      + intros Hu q. rewrite <- (J Hu q). upd_cases pid q; auto. unfold xview; simpl. now rewrite Ea.
    - (* hopf *) exact H.
    - (* deliverf *)
      unfold do_deliverf. destruct (pop_last (fwd st)) as [[f fwd']|]; [|exact H].
      destruct f; try (exact H).
      destruct (t_alive (tg st to)) eqn:Ea; [|exact H].
      split; [split; [|split]|]; cbn [px tg up bwd ctl pool]; auto.
      + intros q. upd_cases to q; auto. destruct (Wt to) as [_ Wa]. split; simpl; [discriminate|auto].
      + intros Hu q. rewrite (J Hu q). upd_cases to q; auto. unfold yview; simpl. now rewrite Ea.
    - (* target *)
      unfold do_target. destruct (t_alive (tg st pid)) eqn:Ea; [|exact H].
      destruct (t_mbox (tg st pid)) as [|[tag m port] rest] eqn:Em; [exact H|].
      split; [split; [|split]|]; cbn [px tg up bwd ctl pool]; auto.
      + intros q. upd_cases pid q; auto. destruct (Wt pid) as [_ Wa]. split; simpl; [discriminate|auto].
      + intros Hu q. rewrite (J Hu q). upd_cases pid q; auto. unfold yview; simpl. now rewrite Ea.
      + intros f Hf. destruct (m_call m); [|auto]. destruct (resp pid m); [|auto].
        apply in_app_or in Hf. destruct Hf as [Hf|[<-|[]]]; eauto.
    - (* replytask *)
      unfold do_replytask. destruct (nth_error (pool st) i) as [f|] eqn:En; [|exact H].
      apply nth_error_In in En. destruct (Po f En) as (to & tag & d & port & ->).
      split; [split; [|split]|]; cbn [px tg up bwd ctl pool]; auto.
      + intros Hu q. rewrite flat_push, <- app_assoc. simpl.
        rewrite ksim_insert by reflexivity. auto.
      + intros f Hf. apply in_remove_nth in Hf. auto.
    - (* ctl *)
      unfold do_ctl. destruct (ctl st) as [|f rest] eqn:Ec; [exact H|].
      split; [split; [|split]|]; cbn [px tg up bwd ctl pool]; auto.
      intros Hu q. rewrite flat_push, <- app_assoc. simpl. auto.
    - (* hopb *)
      unfold do_hopb. split; [split; [|split]|]; cbn [px tg up bwd ctl pool]; auto.
      intros Hu q. rewrite flat_hop. auto.
    - (* deliverb *)
      unfold do_deliverb. destruct (up st) eqn:Eu; [|exact H].
      destruct (pop_last (bwd st)) as [[f bwd']|] eqn:Ep; [|exact H].
      apply flat_pop in Ep.
      split; [split; [|split]|]; cbn [px tg up bwd ctl pool]; auto.
      + now apply handle_b_wf.
      + intros _ q. specialize (J eq_refl q). rewrite Ep in J. simpl in J.
        destruct (kstep q (xview (px st q)) f) as [s'|] eqn:Ek; [|discriminate].
        rewrite (handle_b_view _ _ _ _ Wp Ek). exact J.
    - (* spawn *)
      unfold do_spawn. destruct (t_used (tg st pid)) eqn:Eu; [exact H|].
      split; [split; [|split]|]; cbn [px tg up bwd ctl pool set_y]; auto.
      + intros q. upd_cases pid q; auto. split; simpl; [discriminate|reflexivity].
      + intros Hu q. rewrite app_assoc, ksim_app, (J Hu q). upd_cases pid q.
        * destruct (Wt pid) as [Wd Wa]. unfold yview. rewrite Eu.
          destruct (t_alive (tg st pid)) eqn:Ea; [rewrite Wa in Eu by reflexivity; discriminate|].
          destruct (Wd eq_refl) as [-> _]. simpl. now rewrite N.eqb_refl.
        * apply ksim_noctl. intros f [<-|[]]. simpl. apply N.eqb_neq; congruence.
    - (* exit *)
      unfold do_exit. destruct (t_alive (tg st pid)) eqn:Ea; [|exact H].
      split; [split; [|split]|]; cbn [px tg up bwd ctl pool set_y]; auto.
      + intros q. upd_cases pid q; auto. split; simpl; [auto|discriminate].
      + intros Hu q. rewrite app_assoc, ksim_app, (J Hu q). upd_cases pid q.
        * unfold yview at 1. rewrite Ea. simpl. rewrite N.eqb_refl. simpl.
          apply ksim_leaves_dead.
        * apply ksim_noctl. intros f [<-|Hf]; simpl; [apply N.eqb_neq; congruence|].
          apply in_map_iff in Hf. destruct Hf as [g [<- _]]. simpl. apply N.eqb_neq; congruence.
    - (* join *)
      unfold do_join. destruct (t_alive (tg st pid)) eqn:Ea; [|exact H].
      split; [split; [|split]|]; cbn [px tg up bwd ctl pool set_y]; auto.
      + intros q. upd_cases pid q; auto. destruct (Wt pid) as [_ Wa]. split; simpl; [discriminate|auto].
      + intros Hu q. rewrite app_assoc, ksim_app, (J Hu q). upd_cases pid q.
        * unfold yview. simpl. rewrite Ea. simpl. now rewrite N.eqb_refl.
        * apply ksim_noctl. intros f [<-|[]]. simpl. apply N.eqb_neq; congruence.
    - (* leave *)
      unfold do_leave. destruct (t_alive (tg st pid)) eqn:Ea; [|exact H].
      split; [split; [|split]|]; cbn [px tg up bwd ctl pool set_y]; auto.
      + intros q. upd_cases pid q; auto. destruct (Wt pid) as [_ Wa]. split; simpl; [discriminate|auto].
      + intros Hu q. rewrite app_assoc, ksim_app, (J Hu q). upd_cases pid q.
        * unfold yview. simpl. rewrite Ea. simpl. now rewrite N.eqb_refl.
        * apply ksim_noctl. intros f [<-|[]]. simpl. apply N.eqb_neq; congruence.
    - (* close *)
      unfold do_close. split; [split; [|split]|]; cbn [px tg up bwd ctl pool do_close]; auto.
      + intros q. destruct (x_was (px st q)); split; simpl; auto; discriminate.
      + discriminate.
  Qed.

  Lemma invL_run ls st : invL st -> invL (run resp st ls).
  Proof.
    revert st. induction ls as [|l r IH]; intros st H; simpl; [exact H|].
    apply IH. now apply invL_step.
  Qed.
End Net.

(* ------------------------------------------------------------------ *)
(* FIFO per target                                                      *)

Lemma pstep_send_shape c ok st m port st' o :
  pstep c ok st (PSend m port) = (st', o) -> o = [] \/ exists t, o = [OSend t m].
Proof.
  unfold pstep. destruct (m_call m); destruct ok; intros H; inversion H; eauto.
Qed.

Lemma pstep_reply_shape c ok st t d st' o :
  pstep c ok st (PReply t d) = (st', o) -> o = [] \/ exists p, o = [OResolve p d].
Proof.
  unfold pstep. destruct (find_tag _ _) as [[t' p]|]; intros H; inversion H; eauto.
Qed.

Lemma pmsgs_app a b : pmsgs (a ++ b) = pmsgs a ++ pmsgs b.
Proof. induction a as [|[m p|t d p] r IH]; simpl; [reflexivity| |]; now rewrite IH. Qed.

Lemma fmsgs_app pid a b : fmsgs pid (a ++ b) = fmsgs pid a ++ fmsgs pid b.
Proof.
  induction a as [|f r IH]; simpl; [reflexivity|].
  destruct f; auto. destruct (N.eqb to pid); simpl; now rewrite IH.
Qed.

Lemma tmsgs_app a b : tmsgs (a ++ b) = tmsgs a ++ tmsgs b.
Proof. unfold tmsgs. apply map_app. Qed.

Definition Fd (s d i : list msg) (lz : bool) : Prop :=
  subseq (d ++ i) s /\ (lz = false -> s = d ++ i).

Lemma Fd_keep s d i lz d' i' : Fd s d i lz -> d' ++ i' = d ++ i -> Fd s d' i' lz.
Proof. intros [H1 H2] E. split; rewrite E; auto. Qed.

Lemma Fd_drop s d i lz d' i' : Fd s d i lz -> subseq (d' ++ i') (d ++ i) -> Fd s d' i' true.
Proof. intros [H1 _] E. split; [eapply subseq_trans; eauto|discriminate]. Qed.

Lemma Fd_lossy s d i lz : Fd s d i lz -> Fd s d i true.
Proof. intros H. eapply Fd_drop; eauto. apply subseq_refl. Qed.

Lemma Fd_snoc s d i lz d' i' m : Fd s d i lz -> d' ++ i' = (d ++ i) ++ [m] -> Fd (s ++ [m]) d' i' lz.
Proof.
  intros [H1 H2] E. split; rewrite E.
  - now apply subseq_snoc.
  - intros Hl. now rewrite (H2 Hl).
Qed.

Definition invF (st : sys) : Prop :=
  forall pid, Fd (sent st pid) (dlv st pid) (inflight st pid) (lossy st pid).

Lemma subseq_mid {A} (a b b' c : list A) : subseq b' b -> subseq (a ++ b' ++ c) (a ++ b ++ c).
Proof. intros H. apply subseq_app; [apply subseq_refl|]. apply subseq_app; [exact H|apply subseq_refl]. Qed.

Section NetF.
  Variable resp : N -> msg -> option (list N).

  Lemma invF_init nf nb : invF (init nf nb).
  Proof.
    intros pid. unfold inflight, init; simpl. rewrite app_nil_r, flat_repeat. simpl.
    split; [constructor|reflexivity].
  Qed.

  Lemma invF_step st l : invL st -> invF st -> invF (step resp st l).
  Proof.
    intros [(Wp & Wt & _) _] F. destruct l; simpl.
    - (* send *)
      unfold do_send. destruct (x_alive (px st pid) && _) eqn:E; [|exact F].
      intros q. unfold inflight; cbn [px tg fwd sent dlv lossy]. specialize (F q). unfold inflight in F.
      upd_cases' pid q; [|exact F]. cbn [x_mbox].
      eapply Fd_snoc; [exact F|]. rewrite pmsgs_app. simpl. now rewrite !app_assoc.
    - exact F.
    - (* proxy *)
      unfold do_proxy. destruct (x_alive (px st pid)) eqn:Ea; [|exact F].
      destruct (x_mbox (px st pid)) as [|it rest] eqn:Em; [exact F|].
      destruct (pstep _ _ _ _) as [ps outs] eqn:Ep.
      intros q. specialize (F q). unfold inflight in *; cbn [px tg fwd sent dlv lossy].
      destruct it as [m port|t d port]; cbn [pin_of port_of] in *.
      + destruct (pstep_send_shape _ _ _ _ _ _ _ Ep) as [->|[t ->]].
        * (* dropped: the session is gone *)
          upd_cases' pid q; [|exact F]. cbn [x_mbox]. rewrite Em in F. simpl in F.
          eapply Fd_drop; [exact F|].
          apply subseq_app; [apply subseq_refl|]. apply subseq_app; [apply subseq_refl|].
          apply subseq_app; [apply subseq_refl|]. constructor. apply subseq_refl.
        * rewrite flat_push, fmsgs_app. simpl.
          upd_cases' pid q.
          -- cbn [x_mbox]. rewrite N.eqb_refl. rewrite Em in F. simpl in F.
             eapply Fd_keep; [exact F|]. rewrite <- !app_assoc. reflexivity.
          -- replace (N.eqb pid q) with false by (symmetry; apply N.eqb_neq; congruence).
             rewrite app_nil_r. exact F.
      + assert (Ef : match outs with [OSend t0 m] => push (FMsg pid t0 m port) (fwd st) | _ => fwd st end = fwd st).
        { destruct (pstep_reply_shape _ _ _ _ _ _ _ Ep) as [->|[p ->]]; reflexivity. }
        rewrite Ef.
        assert (El : match outs with [] => lossy st | _ => lossy st end = lossy st) by (destruct outs; reflexivity).
        upd_cases' pid q; [|exact F]. cbn [x_mbox]. rewrite Em in F. simpl in F. exact F.
    - (* hopf *)
      intros q. specialize (F q). unfold inflight in *; cbn [px tg fwd sent dlv lossy do_hopf].
      now rewrite flat_hop.
    - (* deliverf *)
      unfold do_deliverf. destruct (pop_last (fwd st)) as [[f fwd']|] eqn:Ep; [|exact F].
      apply flat_pop in Ep.
      intros q. specialize (F q). unfold inflight in *. rewrite Ep in F.
      destruct f as [to tag m port| | | | |]; try (cbn [px tg fwd sent dlv lossy]; exact F).
      destruct (t_alive (tg st to)) eqn:Ea; cbn [px tg fwd sent dlv lossy]; simpl in F.
      + upd_cases' to q.
        * cbn [t_mbox]. rewrite N.eqb_refl in F. rewrite tmsgs_app. simpl.
          eapply Fd_keep; [exact F|]. rewrite <- !app_assoc. reflexivity.
        * replace (N.eqb to q) with false in F by (symmetry; apply N.eqb_neq; congruence). exact F.
      + upd_cases' to q.
        * rewrite N.eqb_refl in F. eapply Fd_drop; [exact F|].
          apply subseq_app; [apply subseq_refl|]. apply subseq_app; [apply subseq_refl|].
          simpl. constructor. apply subseq_refl.
        * replace (N.eqb to q) with false in F by (symmetry; apply N.eqb_neq; congruence). exact F.
    - (* target *)
      unfold do_target. destruct (t_alive (tg st pid)) eqn:Ea; [|exact F].
      destruct (t_mbox (tg st pid)) as [|[tag m port] rest] eqn:Em; [exact F|].
      intros q. specialize (F q). unfold inflight in *; cbn [px tg fwd sent dlv lossy].
      upd_cases' pid q; [|exact F]. cbn [t_mbox]. rewrite Em in F. simpl in F.
      eapply Fd_keep; [exact F|]. rewrite <- !app_assoc. reflexivity.
    - (* replytask *)
      unfold do_replytask. destruct (nth_error (pool st) i); exact F.
    - (* ctl *)
      unfold do_ctl. destruct (ctl st); exact F.
    - exact F.
    - (* deliverb *)
      unfold do_deliverb. destruct (up st); [|exact F].
      destruct (pop_last (bwd st)) as [[f bwd']|]; [|exact F].
      intros q. specialize (F q). unfold inflight in *; cbn [px tg fwd sent dlv lossy].
      pose proof (Wp q) as [Wd _].
      destruct f as [to tag m port|to tag d port|p|p|g p|g p]; simpl.
      + exact F.
      + destruct (x_alive (px st to)) eqn:Ea; [|exact F].
        upd_cases' to q; [|exact F]. cbn [x_mbox]. rewrite pmsgs_app. simpl. now rewrite app_nil_r.
      + upd_cases' p q; [|exact F]. unfold get_or_spawn.
        destruct (x_alive (px st q)) eqn:Ea; [exact F|].
        destruct (Wd eq_refl) as (_ & Hm & _). rewrite Hm in F. exact F.
      + destruct (x_alive (px st p)) eqn:Ea; [|exact F].
        upd_cases' p q; [|exact F]. simpl.
        eapply Fd_drop; [exact F|].
        apply subseq_app; [apply subseq_refl|]. apply subseq_app; [apply subseq_refl|].
        rewrite app_nil_r. apply subseq_app_l.
      + upd_cases' p q; [|exact F]. unfold get_or_spawn. cbn [x_mbox].
        destruct (x_alive (px st q)) eqn:Ea; [exact F|].
        destruct (Wd eq_refl) as (_ & Hm & _). rewrite Hm in F. exact F.
      + destruct (x_alive (px st p)) eqn:Ea; [|exact F].
        upd_cases' p q; [|exact F]. exact F.
    - (* spawn *)
      unfold do_spawn. destruct (t_used (tg st pid)) eqn:Eu; [exact F|].
      intros q. specialize (F q). unfold inflight in *; cbn [px tg fwd sent dlv lossy set_y].
      upd_cases' pid q; [|exact F]. cbn [t_mbox].
      destruct (Wt q) as [Wd Wa]. destruct (t_alive (tg st q)) eqn:Ea.
      * rewrite Wa in Eu by reflexivity. discriminate.
      * destruct (Wd eq_refl) as [_ Hm]. rewrite Hm in F. exact F.
    - (* exit *)
      unfold do_exit. destruct (t_alive (tg st pid)) eqn:Ea; [|exact F].
      intros q. specialize (F q). unfold inflight in *; cbn [px tg fwd sent dlv lossy set_y].
      upd_cases' pid q; [|exact F]. cbn [t_mbox].
      eapply Fd_drop; [exact F|]. apply subseq_app; [apply subseq_refl|]. simpl. apply subseq_app_r.
    - (* join *)
      unfold do_join. destruct (t_alive (tg st pid)) eqn:Ea; [|exact F].
      intros q. specialize (F q). unfold inflight in *; cbn [px tg fwd sent dlv lossy set_y].
      upd_cases' pid q; exact F.
    - (* leave *)
      unfold do_leave. destruct (t_alive (tg st pid)) eqn:Ea; [|exact F].
      intros q. specialize (F q). unfold inflight in *; cbn [px tg fwd sent dlv lossy set_y].
      upd_cases' pid q; exact F.
    - (* close *)
      intros q. specialize (F q). unfold inflight in *; cbn [px tg fwd sent dlv lossy do_close].
      assert (Er : flat (fwd st) = flat [firstn k (flat (fwd st))] ++ skipn k (flat (fwd st))).
      { simpl. symmetry. apply firstn_skipn. }
      rewrite Er, fmsgs_app in F. set (rest := skipn k (flat (fwd st))) in *.
      eapply Fd_drop; [exact F|].
      apply subseq_app; [apply subseq_refl|]. apply subseq_app; [apply subseq_refl|].
      replace (pmsgs (x_mbox (if x_was (px st q) then px_dead else px_none))) with (@nil msg)
        by (destruct (x_was (px st q)); reflexivity).
      rewrite app_nil_r, <- app_assoc. apply subseq_app_l.
  Qed.
End NetF.

(* ------------------------------------------------------------------ *)
(* reply correlation end to end                                         *)

Lemma nodup_fst_inj (l : list (N * N)) t p p' :
  NoDup (map fst l) -> In (t, p) l -> In (t, p') l -> p = p'.
Proof.
  induction l as [|[t0 p0] r IH]; simpl; [tauto|].
  intros Hn. inversion Hn as [|? ? Hnot Hd]; subst.
  intros [E1|H1] [E2|H2].
  - congruence.
  - inversion E1; subst. exfalso. apply Hnot. apply in_map_iff. exists (t, p'). auto.
  - inversion E2; subst. exfalso. apply Hnot. apply in_map_iff. exists (t, p). auto.
  - auto.
Qed.

Lemma ssorted_snoc l t :
  StronglySorted N.lt l -> (forall x, In x l -> x < t) -> StronglySorted N.lt (l ++ [t]).
Proof.
  induction 1 as [|a l Hs IH Hf]; intros Hb; simpl.
  - repeat constructor.
  - constructor.
    + apply IH. intros x Hx. apply Hb. now right.
    + apply Forall_forall. intros x Hx. apply in_app_or in Hx. destruct Hx as [Hx|[<-|[]]].
      * rewrite Forall_forall in Hf. auto.
      * apply Hb. now left.
Qed.

Lemma in_flat_push {A} (x y : A) l : In y (flat (push x l)) <-> In y (flat l) \/ y = x.
Proof.
  rewrite flat_push. split.
  - intros H. apply in_app_or in H. destruct H as [H|[H|[]]]; auto.
  - intros [H| ->]; apply in_or_app; [left|right; left]; auto.
Qed.

Section NetG.
  Variable resp : N -> msg -> option (list N).

  Definition okcall (cl : list (N * msg * N)) pid m port : Prop :=
    m_call m = true -> In (pid, m, port) cl.
  Definition oktag (ins : N -> list (N * N)) pid tag (m : msg) port : Prop :=
    m_call m = true -> In (tag, port) (ins pid).
  Definition okreply cl (ins : N -> list (N * N)) pid tag d port : Prop :=
    In (tag, port) (ins pid)
    /\ exists m, In (pid, m, port) cl /\ m_call m = true /\ resp pid m = Some d.
  Definition okitem cl ins pid (it : pitem) : Prop :=
    match it with
    | ISend m port => okcall cl pid m port
    | IReply t d port => okreply cl ins pid t d port
    end.
  Definition okframe cl ins (f : frame) : Prop :=
    match f with
    | FMsg to tag m port => okcall cl to m port /\ oktag ins to tag m port
    | FReply to tag d port => okreply cl ins to tag d port
    | _ => True
    end.
  Definition oktitem cl ins pid (it : titem) : Prop :=
    match it with TMsg tag m port => okcall cl pid m port /\ oktag ins pid tag m port end.

  Definition is_control (f : frame) : Prop :=
    match f with FMsg _ _ _ _ | FReply _ _ _ _ => False | _ => True end.

  Definition invG (st : sys) : Prop :=
    (forall pid it, In it (x_mbox (px st pid)) -> okitem (calls st) (ins st) pid it)
    /\ (forall f, In f (flat (fwd st)) -> okframe (calls st) (ins st) f)
    /\ (forall pid it, In it (t_mbox (tg st pid)) -> oktitem (calls st) (ins st) pid it)
    /\ (forall f, In f (pool st ++ flat (bwd st)) -> okframe (calls st) (ins st) f)
    /\ (forall f, In f (ctl st) -> is_control f)
    /\ (forall pid, x_alive (px st pid) = true ->
          pinv (x_st (px st pid)) /\ incl (p_pend (x_st (px st pid))) (ins st pid)
          /\ (forall e, In e (ins st pid) -> fst e <= p_tag (x_st (px st pid)))
          /\ StronglySorted N.lt (map fst (ins st pid)))
    /\ (forall pid, x_was (px st pid) = false -> ins st pid = [])
    /\ (forall p d, In (p, d) (res st) ->
          exists pid m, In (pid, m, p) (calls st) /\ m_call m = true /\ resp pid m = Some d)
    /\ NoDup (map snd (calls st)).

  Section Mono.
    Variables (cl cl' : list (N * msg * N)) (ins ins' : N -> list (N * N)).
    Hypothesis Hc : incl cl cl'.
    Hypothesis Hi : forall pid, incl (ins pid) (ins' pid).

    Lemma okcall_mono pid m port : okcall cl pid m port -> okcall cl' pid m port.
    Proof. unfold okcall. auto. Qed.
    Lemma oktag_mono pid tag m port : oktag ins pid tag m port -> oktag ins' pid tag m port.
    Proof. unfold oktag. intros H E. apply Hi. auto. Qed.
    Lemma okreply_mono pid tag d port : okreply cl ins pid tag d port -> okreply cl' ins' pid tag d port.
    Proof.
      intros [H1 (m & H2 & H3 & H4)]. split; [now apply Hi|]. exists m. auto.
    Qed.
    Lemma okitem_mono pid it : okitem cl ins pid it -> okitem cl' ins' pid it.
    Proof. destruct it; simpl; [apply okcall_mono|apply okreply_mono]. Qed.
    Lemma okframe_mono f : okframe cl ins f -> okframe cl' ins' f.
    Proof.
      destruct f; simpl; auto.
      - intros [H1 H2]. split; [now apply okcall_mono|now apply oktag_mono].
      - apply okreply_mono.
    Qed.
    Lemma oktitem_mono pid it : oktitem cl ins pid it -> oktitem cl' ins' pid it.
    Proof. destruct it; simpl. intros [H1 H2]. split; [now apply okcall_mono|now apply oktag_mono]. Qed.
  End Mono.

  Lemma is_control_ok cl ins f : is_control f -> okframe cl ins f.
  Proof. destruct f; simpl; tauto. Qed.

  Lemma invG_init nf nb : invG (init nf nb).
  Proof.
    unfold invG, init; cbn [px fwd bwd ctl pool tg up calls ins res].
    rewrite !flat_repeat. simpl.
    repeat split; try tauto; try discriminate; constructor.
  Qed.
End NetG.

Ltac nine := split; [|split; [|split; [|split; [|split; [|split; [|split; [|split]]]]]]].

Section NetG2.
  Variable resp : N -> msg -> option (list N).

  Lemma invG_send st pid m port : invG resp st -> invG resp (do_send st pid m port).
  Proof.
    intros HG. pose proof HG as (G1 & G2 & G3 & G4 & G4c & G5 & G6 & G7 & G8).
    unfold do_send. destruct (x_alive (px st pid) && negb (m_call m && port_used st port)) eqn:E; [|exact HG].
    apply andb_true_iff in E as [Ea Eg].
    set (cl' := if m_call m then calls st ++ [(pid, m, port)] else calls st).
    assert (Hc : incl (calls st) cl').
    { unfold cl'; destruct (m_call m); [apply incl_appl|]; apply incl_refl. }
    assert (Hi : forall q, incl (ins st q) (ins st q)) by (intros; apply incl_refl).
    unfold invG; cbn [px fwd bwd ctl pool tg up calls ins res]. fold cl'.
    nine.
    - intros q it Hit. upd_cases' pid q.
      + cbn [x_mbox] in Hit. apply in_app_or in Hit. destruct Hit as [Hit|[<-|[]]].
        * eapply okitem_mono; eauto.
        * simpl. unfold okcall, cl'. intros Em. rewrite Em. apply in_or_app. right. now left.
      + eapply okitem_mono; eauto.
    - intros f Hf. eapply okframe_mono; eauto.
    - intros q it Hit. eapply oktitem_mono; eauto.
    - intros f Hf. eapply okframe_mono; eauto.
    - exact G4c.
    - intros q Hq. upd_cases' pid q; [cbn [x_st]|]; apply G5; auto.
    - intros q Hq. upd_cases' pid q; [cbn [x_was] in Hq|]; apply G6; auto.
    - intros p d Hp. destruct (G7 p d Hp) as (q & m' & H1 & H2 & H3). exists q, m'. auto.
    - unfold cl'. destruct (m_call m) eqn:Em; [|exact G8]. rewrite map_app. simpl.
      apply NoDup_snoc; [exact G8|].
      intros Hin. simpl in Eg. apply negb_true_iff in Eg. unfold port_used in Eg.
      apply in_map_iff in Hin. destruct Hin as [c [Hc1 Hc2]].
      assert (existsb (fun c => N.eqb (snd c) port) (calls st) = true).
      { apply existsb_exists. exists c. split; auto. rewrite Hc1. apply N.eqb_refl. }
      congruence.
  Qed.

  Lemma invG_proxy st pid : invL st -> invG resp st -> invG resp (do_proxy st pid).
  Proof.
    intros [(Wp & _ & _) _] HG. pose proof HG as (G1 & G2 & G3 & G4 & G4c & G5 & G6 & G7 & G8).
    unfold do_proxy. destruct (x_alive (px st pid)) eqn:Ea; [|exact HG].
    destruct (x_mbox (px st pid)) as [|it rest] eqn:Em; [exact HG|].
    destruct (pstep _ _ _ _) as [ps outs] eqn:Ep.
    destruct (G5 pid Ea) as (P1 & P2 & P3 & P4).
    destruct (pstep_spec _ _ _ _ _ _ P1 Ep) as (S1 & S2 & S3 & S4 & S5 & _).
    assert (Hi : forall q, incl (ins st q) (upd (ins st) pid (ins st pid ++ inserted_of (pin_of it) outs) q)).
    { intros q. upd_cases' pid q; [apply incl_appl|]; apply incl_refl. }
    assert (Hc : incl (calls st) (calls st)) by apply incl_refl.
    assert (Hit : okitem resp (calls st) (ins st) pid it) by (apply G1; rewrite Em; now left).
    unfold invG; cbn [px fwd bwd ctl pool tg up calls ins res].
    nine.
    - intros q it' Hit'. upd_cases' pid q.
      + cbn [x_mbox] in Hit'. eapply okitem_mono; eauto. apply G1. rewrite Em. now right.
      + eapply okitem_mono; eauto.
    - intros f Hf.
      assert (Hold : forall f, In f (flat (fwd st)) ->
                okframe resp (calls st) (upd (ins st) pid (ins st pid ++ inserted_of (pin_of it) outs)) f).
      { intros; eapply okframe_mono; eauto. }
      destruct outs as [|[t m'|p' d'] [|]]; auto.
      apply in_flat_push in Hf. destruct Hf as [Hf| ->]; auto.
      destruct it as [m port|t0 d port]; cbn [pin_of port_of] in *.
      + destruct (pstep_send_shape _ _ _ _ _ _ _ Ep) as [E|[t1 E]]; inversion E; subst.
        simpl. split.
        * eapply okcall_mono; eauto.
        * unfold oktag. intros Emc. rewrite upd_same. apply in_or_app. right. rewrite Emc. now left.
      + destruct (pstep_reply_shape _ _ _ _ _ _ _ Ep) as [E|[p1 E]]; inversion E.
    - intros q it' H. eapply oktitem_mono; eauto.
    - intros f H. eapply okframe_mono; eauto.
    - exact G4c.
    - intros q Hq. destruct (N.eq_dec pid q) as [<-|Hne].
      + rewrite !upd_same. cbn [x_st]. split; [exact S1|]. split; [|split].
        * intros e He. apply S3 in He. apply in_app_or in He. apply in_or_app.
          destruct He; [left; apply P2|right]; auto.
        * intros e He. apply in_app_or in He. destruct He as [He|He].
          -- apply P3 in He. rewrite S2. lia.
          -- rewrite (S4 e He). lia.
        * rewrite map_app. destruct (inserted_of_shape (pin_of it) outs) as [E|[e Ee]].
          { rewrite E. simpl. rewrite app_nil_r. exact P4. }
          rewrite Ee. simpl. apply ssorted_snoc; [exact P4|].
          intros x Hin. apply in_map_iff in Hin. destruct Hin as [e' [Hf He']]. apply P3 in He'.
          assert (He : In e (inserted_of (pin_of it) outs)) by (rewrite Ee; now left).
          pose proof (S4 e He) as Ht. destruct (inserted_of_call _ _ _ He) as (m0 & port0 & Epi & Emc).
          rewrite Epi, Emc in S2. lia.
      + rewrite !upd_other in * by congruence. apply G5; auto.
    - intros q Hq. destruct (N.eq_dec pid q) as [<-|Hne].
      + rewrite upd_same in Hq. cbn [x_was] in Hq. destruct (Wp pid) as [_ Wa].
        rewrite Wa in Hq by exact Ea. discriminate.
      + rewrite !upd_other in * by congruence. apply G6; auto.
    - intros p d Hp.
      destruct outs as [|[t m'|p' d'] [|]]; auto.
      destruct (memN p' (aband st)); auto.
      apply in_app_or in Hp. destruct Hp as [Hp|[E|[]]]; auto. inversion E; subst.
      destruct it as [m port|t0 d0 port]; cbn [pin_of] in *.
      + destruct (pstep_send_shape _ _ _ _ _ _ _ Ep) as [E1|[t1 E1]]; inversion E1.
      + destruct (pstep_reply_shape _ _ _ _ _ _ _ Ep) as [E1|[p1 E1]]; inversion E1; subst.
        assert (Hr : In (t0, p1) (p_pend (x_st (px st pid)))).
        { apply (S5 (t0, p1)). simpl. now left. }
        apply P2 in Hr. simpl in Hit. destruct Hit as [Hin (m & C1 & C2 & C3)].
        pose proof (ssorted_nodup _ P4) as P4n.
        assert (p1 = port) by (eapply nodup_fst_inj; eauto). subst. exists pid, m. auto.
    - exact G8.
  Qed.

  Lemma invG_deliverf st : invG resp st -> invG resp (do_deliverf st).
  Proof.
    intros HG. pose proof HG as (G1 & G2 & G3 & G4 & G4c & G5 & G6 & G7 & G8).
    unfold do_deliverf. destruct (pop_last (fwd st)) as [[f fwd']|] eqn:Ep; [|exact HG].
    apply flat_pop in Ep.
    assert (G2' : forall f0, In f0 (flat fwd') -> okframe resp (calls st) (ins st) f0).
    { intros f0 H. apply G2. rewrite Ep. now right. }
    assert (Hf : okframe resp (calls st) (ins st) f) by (apply G2; rewrite Ep; now left).
    destruct f as [to tag m port| | | | |];
      try (unfold invG; cbn [px fwd bwd ctl pool tg up calls ins res]; nine; assumption).
    destruct (t_alive (tg st to)) eqn:Ea;
      unfold invG; cbn [px fwd bwd ctl pool tg up calls ins res]; nine; try assumption.
    intros q it Hit. upd_cases' to q; [|now apply G3].
    cbn [t_mbox] in Hit. apply in_app_or in Hit. destruct Hit as [Hit|[<-|[]]]; [now apply G3|exact Hf].
  Qed.

  Lemma invG_target st pid : invG resp st -> invG resp (do_target resp st pid).
  Proof.
    intros HG. pose proof HG as (G1 & G2 & G3 & G4 & G4c & G5 & G6 & G7 & G8).
    unfold do_target. destruct (t_alive (tg st pid)) eqn:Ea; [|exact HG].
    destruct (t_mbox (tg st pid)) as [|[tag m port] rest] eqn:Em; [exact HG|].
    assert (Hit : oktitem (calls st) (ins st) pid (TMsg tag m port)) by (apply G3; rewrite Em; now left).
    unfold invG; cbn [px fwd bwd ctl pool tg up calls ins res]; nine; try assumption.
    - intros q it H. upd_cases' pid q; [|now apply G3]. cbn [t_mbox] in H. apply G3. rewrite Em. now right.
    - intros f H. destruct (m_call m) eqn:Emc; [|now apply G4]. destruct (resp pid m) as [d|] eqn:Er; [|now apply G4].
      rewrite <- app_assoc in H. apply in_app_or in H. destruct H as [H|H]; [apply G4; apply in_or_app; now left|].
      simpl in H. destruct H as [<-|H]; [|apply G4; apply in_or_app; now right].
      simpl. destruct Hit as [Hc Ht]. split; [now apply Ht|]. exists m. auto.
  Qed.

  Lemma invG_deliverb st : invL st -> invG resp st -> invG resp (do_deliverb st).
  Proof.
    intros [(Wp & _ & J) _] HG. pose proof HG as (G1 & G2 & G3 & G4 & G4c & G5 & G6 & G7 & G8).
    unfold do_deliverb. destruct (up st) eqn:Eu; [|exact HG].
    destruct (pop_last (bwd st)) as [[f bwd']|] eqn:Ep; [|exact HG].
    apply flat_pop in Ep.
    assert (G4' : forall f0, In f0 (pool st ++ flat bwd') -> okframe resp (calls st) (ins st) f0).
    { intros f0 H. apply G4. rewrite Ep. apply in_app_or in H. apply in_or_app.
      destruct H; [now left|right; now right]. }
    assert (Hf : okframe resp (calls st) (ins st) f).
    { apply G4. rewrite Ep. apply in_or_app. right. now left. }
    (* a dead proxy is not revived: the frame stream for pid never has Spawn/Join after Terminate *)
    assert (Hnr : forall q, kstep q (xview (px st q)) f <> None).
    { intros q Hk. specialize (J eq_refl q). rewrite Ep in J. simpl in J. rewrite Hk in J. discriminate. }
    assert (Hfresh : forall q, (f = FSpawn q \/ exists g, f = FJoin g q) -> x_alive (px st q) = false ->
                               x_was (px st q) = false).
    { intros q Hq Ha. specialize (Hnr q). destruct (x_was (px st q)) eqn:Ew; [|reflexivity].
      exfalso. apply Hnr. unfold xview. rewrite Ha, Ew.
      destruct Hq as [->|[g ->]]; simpl; now rewrite N.eqb_refl. }
    unfold invG; cbn [px fwd bwd ctl pool tg up calls ins res]; nine; try assumption.
    - (* mailboxes *)
      intros q it Hit. pose proof (Wp q) as [Wd _].
      destruct f as [to tag m port|to tag d port|p|p|g p|g p]; simpl in Hit.
      + now apply G1.
      + destruct (x_alive (px st to)) eqn:Ea; [|now apply G1].
        upd_cases' to q; [|now apply G1]. cbn [x_mbox] in Hit.
        apply in_app_or in Hit. destruct Hit as [Hit|[<-|[]]]; [now apply G1|exact Hf].
      + upd_cases' p q; [|now apply G1]. unfold get_or_spawn in Hit.
        destruct (x_alive (px st q)); [now apply G1|destruct Hit].
      + destruct (x_alive (px st p)); [|now apply G1]. upd_cases' p q; [destruct Hit|now apply G1].
      + upd_cases' p q; [|now apply G1]. unfold get_or_spawn in Hit. cbn [x_mbox] in Hit.
        destruct (x_alive (px st q)); [now apply G1|destruct Hit].
      + destruct (x_alive (px st p)); [|now apply G1]. upd_cases' p q; now apply G1.
    - (* proxy states *)
      intros q Hq.
      assert (Hnew : x_alive (px st q) = false -> x_was (px st q) = false ->
                     pinv pst0 /\ incl (p_pend pst0) (ins st q)
                     /\ (forall e, In e (ins st q) -> fst e <= p_tag pst0)
                     /\ StronglySorted N.lt (map fst (ins st q))).
      { intros _ Hw. rewrite (G6 q Hw). simpl.
        split; [apply pinv0|]. split; [intros e []|]. split; [intros e []|constructor]. }
      destruct f as [to tag m port|to tag d port|p|p|g p|g p]; simpl in Hq |- *.
      + now apply G5.
      + destruct (x_alive (px st to)) eqn:Ea; [|now apply G5].
        upd_cases' to q; [cbn [x_st]|]; now apply G5.
      + upd_cases' p q; [|now apply G5]. unfold get_or_spawn in *.
        destruct (x_alive (px st q)) eqn:Ea; [now apply G5|]. apply Hnew; auto.
      + destruct (x_alive (px st p)) eqn:Ea; [|now apply G5].
        upd_cases' p q; [discriminate|now apply G5].
      + upd_cases' p q; [|now apply G5]. unfold get_or_spawn in *. cbn [x_st].
        destruct (x_alive (px st q)) eqn:Ea; [now apply G5|]. apply Hnew; eauto.
      + destruct (x_alive (px st p)) eqn:Ea; [|now apply G5].
        upd_cases' p q; [cbn [x_st]|]; now apply G5.
    - (* never-alive proxies *)
      intros q Hq. pose proof (Wp q) as [_ Wa].
      destruct f as [to tag m port|to tag d port|p|p|g p|g p]; simpl in Hq.
      + now apply G6.
      + destruct (x_alive (px st to)) eqn:Ea; [|now apply G6].
        upd_cases' to q; [cbn [x_was] in Hq|]; now apply G6.
      + upd_cases' p q; [|now apply G6]. unfold get_or_spawn in Hq.
        destruct (x_alive (px st q)) eqn:Ea; [now apply G6|discriminate].
      + destruct (x_alive (px st p)) eqn:Ea; [|now apply G6].
        upd_cases' p q; [discriminate|now apply G6].
      + upd_cases' p q; [discriminate|now apply G6].
      + destruct (x_alive (px st p)) eqn:Ea; [|now apply G6].
        upd_cases' p q; [cbn [x_was] in Hq|]; now apply G6.
  Qed.

  Lemma in_flat_cut {A} k (l : list (list A)) x : In x (flat [firstn k (flat l)]) -> In x (flat l).
  Proof. simpl. intros H. rewrite <- (firstn_skipn k (flat l)). apply in_or_app. now left. Qed.

  Lemma invG_sety st pid t fs lz :
    invG resp st -> (forall f, In f fs -> is_control f) ->
    (forall it, In it (t_mbox t) -> In it (t_mbox (tg st pid))) ->
    invG resp (set_y st pid t fs lz).
  Proof.
    intros (G1 & G2 & G3 & G4 & G4c & G5 & G6 & G7 & G8) Hfs Hm.
    unfold invG, set_y; cbn [px fwd bwd ctl pool tg up calls ins res]; nine; try assumption.
    - intros q it Hit. upd_cases' pid q; [|now apply G3]. apply G3. auto.
    - intros f Hf. apply in_app_or in Hf. destruct Hf; auto.
  Qed.

  Lemma invG_step st l : invL st -> invG resp st -> invG resp (step resp st l).
  Proof.
    intros HL HG. pose proof HG as (G1 & G2 & G3 & G4 & G4c & G5 & G6 & G7 & G8).
    destruct l; simpl.
    - now apply invG_send.
    - exact HG.
    - now apply invG_proxy.
    - unfold invG, do_hopf; cbn [px fwd bwd ctl pool tg up calls ins res]; nine; try assumption.
      intros f Hf. rewrite flat_hop in Hf. auto.
    - now apply invG_deliverf.
    - now apply invG_target.
    - unfold do_replytask. destruct (nth_error (pool st) i) as [f|] eqn:En; [|exact HG].
      apply nth_error_In in En.
      unfold invG; cbn [px fwd bwd ctl pool tg up calls ins res]; nine; try assumption.
      intros f0 Hf. apply in_app_or in Hf. destruct Hf as [Hf|Hf].
      + apply in_remove_nth in Hf. apply G4. apply in_or_app. now left.
      + apply in_flat_push in Hf. destruct Hf as [Hf| ->]; apply G4; apply in_or_app; [now right|now left].
    - unfold do_ctl. destruct (ctl st) as [|f rest] eqn:Ec; [exact HG|].
      unfold invG; cbn [px fwd bwd ctl pool tg up calls ins res]; nine; try assumption.
      + intros f0 Hf. apply in_app_or in Hf. destruct Hf as [Hf|Hf]; [apply G4; apply in_or_app; now left|].
        apply in_flat_push in Hf. destruct Hf as [Hf| ->]; [apply G4; apply in_or_app; now right|].
        apply is_control_ok. apply G4c. now left.
      + intros f0 Hf. apply G4c. now right.
    - unfold invG, do_hopb; cbn [px fwd bwd ctl pool tg up calls ins res]; nine; try assumption.
      intros f Hf. rewrite flat_hop in Hf. auto.
    - now apply invG_deliverb.
    - unfold do_spawn. destruct (t_used (tg st pid)); [exact HG|].
      apply invG_sety; auto; [intros f [<-|[]]; exact I|intros it []].
    - unfold do_exit. destruct (t_alive (tg st pid)); [|exact HG].
      apply invG_sety; auto; [|intros it []].
      intros f [<-|Hf]; [exact I|]. apply in_map_iff in Hf. destruct Hf as [g [<- _]]. exact I.
    - unfold do_join. destruct (t_alive (tg st pid)); [|exact HG].
      apply invG_sety; auto. intros f [<-|[]]; exact I.
    - unfold do_leave. destruct (t_alive (tg st pid)); [|exact HG].
      apply invG_sety; auto. intros f [<-|[]]; exact I.
    - unfold invG, do_close; cbn [px fwd bwd ctl pool tg up calls ins res]; nine; try assumption.
      + intros q it Hit. destruct (x_was (px st q)); destruct Hit.
      + intros f Hf. apply in_flat_cut in Hf. auto.
      + intros f Hf. rewrite flat_empty, app_nil_r in Hf. apply G4. apply in_or_app. now left.
      + intros f [].
      + intros q Hq. destruct (x_was (px st q)); discriminate.
      + intros q Hq. apply G6. destruct (x_was (px st q)); [discriminate|reflexivity].
  Qed.
End NetG2.

(* ------------------------------------------------------------------ *)
(* all invariants over all label sequences                              *)

Section Runs.
  Variable resp : N -> msg -> option (list N).

  Definition invAll (st : sys) : Prop := invL st /\ invF st /\ invG resp st.

  Lemma invAll_init nf nb : invAll (init nf nb).
  Proof. split; [apply invL_init|split; [apply invF_init|apply invG_init]]. Qed.

  Lemma invAll_step st l : invAll st -> invAll (step resp st l).
  Proof.
    intros (L & F & G). split; [now apply invL_step|split; [now apply invF_step|now apply invG_step]].
  Qed.

  Lemma invAll_run ls st : invAll st -> invAll (run resp st ls).
  Proof.
    revert st. induction ls as [|l r IH]; intros st H; simpl; [exact H|].
    apply IH. now apply invAll_step.
  Qed.

  Lemma reach nf nb ls : invAll (run resp (init nf nb) ls).
  Proof. apply invAll_run, invAll_init. Qed.
End Runs.

(* ------------------------------------------------------------------ *)
(* the session closes: every proxy is dead for good                     *)

Section Closed.
  Variable resp : N -> msg -> option (list N).

  Definition invC (st : sys) : Prop := up st = false -> forall pid, x_alive (px st pid) = false.

  Lemma invC_step st l : invC st -> invC (step resp st l).
  Proof.
    intros C. destruct l; simpl; try exact C.
    - unfold do_send. destruct (x_alive (px st pid) && _) eqn:E; [|exact C].
      apply andb_true_iff in E as [Ea _]. intros Hu q. cbn [up] in Hu. rewrite (C Hu pid) in Ea. discriminate.
    - unfold do_proxy. destruct (x_alive (px st pid)) eqn:Ea; [|exact C].
      destruct (x_mbox (px st pid)); [exact C|]. destruct (pstep _ _ _ _) as [ps outs].
      intros Hu q. cbn [up] in Hu. rewrite (C Hu pid) in Ea. discriminate.
    - unfold do_deliverf. destruct (pop_last (fwd st)) as [[f fwd']|]; [|exact C].
      destruct f; try exact C. destruct (t_alive (tg st to)); exact C.
    - unfold do_target. destruct (t_alive (tg st pid)); [|exact C].
      destruct (t_mbox (tg st pid)) as [|[tag m port] rest]; exact C.
    - unfold do_replytask. destruct (nth_error (pool st) i); exact C.
    - unfold do_ctl. destruct (ctl st); exact C.
    - unfold do_deliverb. destruct (up st) eqn:Eu; [|exact C].
      destruct (pop_last (bwd st)) as [[f bwd']|]; [|exact C].
      intros Hu. cbn [up] in Hu. congruence.
    - unfold do_spawn. destruct (t_used (tg st pid)); exact C.
    - unfold do_exit. destruct (t_alive (tg st pid)); exact C.
    - unfold do_join. destruct (t_alive (tg st pid)); exact C.
    - unfold do_leave. destruct (t_alive (tg st pid)); exact C.
    - intros _ q. unfold do_close; cbn [px]. destruct (x_was (px st q)); reflexivity.
  Qed.

  Lemma invC_run ls st : invC st -> invC (run resp st ls).
  Proof.
    revert st. induction ls as [|l r IH]; intros st H; simpl; [exact H|].
    apply IH. now apply invC_step.
  Qed.

  Lemma up_stays_down ls st : up st = false -> up (run resp st ls) = false.
  Proof.
    revert st. induction ls as [|l r IH]; intros st H; simpl; [exact H|]. apply IH.
    destruct l; simpl; auto.
    - unfold do_send. destruct (_ && _); auto.
    - unfold do_proxy. destruct (x_alive _); auto. destruct (x_mbox _); auto. destruct (pstep _ _ _ _); auto.
    - unfold do_deliverf. destruct (pop_last _) as [[f ?]|]; auto. destruct f; auto. destruct (t_alive _); auto.
    - unfold do_target. destruct (t_alive _); auto. destruct (t_mbox _) as [|[? ? ?] ?]; auto.
    - unfold do_replytask. destruct (nth_error _ _); auto.
    - unfold do_ctl. destruct (ctl st); auto.
    - unfold do_deliverb. rewrite H. auto.
    - unfold do_spawn. destruct (t_used _); auto.
    - unfold do_exit. destruct (t_alive _); auto.
    - unfold do_join. destruct (t_alive _); auto.
    - unfold do_leave. destruct (t_alive _); auto.
  Qed.
End Closed.

(* ------------------------------------------------------------------ *)
(* the theorems                                                         *)

Lemma nodup_snd_inj {A} (l : list (A * N)) a b p :
  NoDup (map snd l) -> In (a, p) l -> In (b, p) l -> a = b.
Proof.
  induction l as [|[a0 p0] r IH]; simpl; [tauto|].
  intros Hn. inversion Hn as [|? ? Hnot Hd]; subst.
  intros [E1|H1] [E2|H2].
  - congruence.
  - inversion E1; subst. exfalso. apply Hnot. apply in_map_iff. exists (b, p). auto.
  - inversion E2; subst. exfalso. apply Hnot. apply in_map_iff. exists (a, p). auto.
  - auto.
Qed.

Section Theorems.
  Variable resp : N -> msg -> option (list N).
  Variables nf nb : nat.
  Notation reachable st := (exists ls, st = run resp (init nf nb) ls).

  (* tags: per proxy, the inserted tags are strictly increasing and bounded by the counter *)
  Theorem net_tags_fresh : forall ls pid, let st := run resp (init nf nb) ls in
    x_alive (px st pid) = true ->
    StronglySorted N.lt (map fst (ins st pid))
    /\ NoDup (map fst (ins st pid))
    /\ (forall e, In e (ins st pid) -> fst e <= p_tag (x_st (px st pid)))
    /\ incl (p_pend (x_st (px st pid))) (ins st pid).
  Proof.
    intros ls pid st Ha. destruct (reach resp nf nb ls) as (_ & _ & G).
    destruct G as (_ & _ & _ & _ & _ & G5 & _). destruct (G5 pid Ha) as (_ & P2 & P3 & P4).
    repeat split; auto. now apply ssorted_nodup.
  Qed.

  (* a port is only ever resolved with the answer of the real actor to the very call that was
     made with this port; the call made with a port is unique *)
  Theorem net_reply_correlation : forall ls p d, let st := run resp (init nf nb) ls in
    In (p, d) (res st) ->
    exists pid m, In (pid, m, p) (calls st) /\ m_call m = true /\ resp pid m = Some d
                  /\ forall pid' m', In (pid', m', p) (calls st) -> pid' = pid /\ m' = m.
  Proof.
    intros ls p d st Hr. destruct (reach resp nf nb ls) as (_ & _ & G).
    destruct G as (_ & _ & _ & _ & _ & _ & _ & G7 & G8).
    destruct (G7 p d Hr) as (pid & m & H1 & H2 & H3). exists pid, m.
    split; [exact H1|]. split; [exact H2|]. split; [exact H3|].
    intros pid' m' H'. pose proof (nodup_snd_inj _ _ _ _ G8 H1 H') as E. now inversion E.
  Qed.

  (* what the real actor handled is a subsequence of what the remote reference accepted — same
     messages (variant, bytes), same order — for every way of classifying messages by sender *)
  Theorem net_fifo_per_sender : forall ls pid (f : msg -> bool), let st := run resp (init nf nb) ls in
    subseq (filter f (dlv st pid)) (filter f (sent st pid)).
  Proof.
    intros ls pid f st. destruct (reach resp nf nb ls) as (_ & F & _).
    destruct (F pid) as [H _]. apply subseq_filter.
    eapply subseq_trans; [apply subseq_app_l|exact H].
  Qed.

  (* absent faults for this target nothing is lost or overtaken: accepted = handled ++ in flight *)
  Theorem net_fifo_no_gaps : forall ls pid, let st := run resp (init nf nb) ls in
    lossy st pid = false -> sent st pid = dlv st pid ++ inflight st pid.
  Proof.
    intros ls pid st Hl. destruct (reach resp nf nb ls) as (_ & F & _). destruct (F pid) as [_ H]. auto.
  Qed.

  (* mirror: replaying the control frames still in flight on X's view of pid gives exactly the
     state of the original on Y — and never revives a terminated proxy *)
  Theorem net_mirror : forall ls pid, let st := run resp (init nf nb) ls in
    up st = true ->
    ksim pid (xview (px st pid)) (flat (bwd st) ++ ctl st) = Some (yview (tg st pid)).
  Proof.
    intros ls pid st Hu. destruct (reach resp nf nb ls) as ((J & _) & _). destruct J as (_ & _ & J). auto.
  Qed.

  Theorem net_mirror_settled : forall ls pid, let st := run resp (init nf nb) ls in
    up st = true ->
    (forall f, In f (flat (bwd st) ++ ctl st) -> is_ctl_for pid f = false) ->
    x_alive (px st pid) = t_alive (tg st pid) /\ x_groups (px st pid) = t_groups (tg st pid).
  Proof.
    intros ls pid st Hu Hq. pose proof (net_mirror ls pid Hu) as H. fold st in H.
    rewrite ksim_noctl in H by exact Hq. unfold xview, yview in H. injection H as H1 H2. split; [|exact H2].
    destruct (x_alive (px st pid)), (t_alive (tg st pid)); auto;
      destruct (x_was (px st pid)), (t_used (tg st pid)); discriminate.
  Qed.

  (* after the session closed: every proxy is stopped, in no group, stays so, and sends fail *)
  Theorem net_closed : forall ls pid, let st := run resp (init nf nb) ls in
    up st = false ->
    x_alive (px st pid) = false /\ x_groups (px st pid) = []
    /\ (forall m port, step resp st (LSend pid m port) = st)
    /\ forall ls', let st' := run resp st ls' in up st' = false /\ x_alive (px st' pid) = false.
  Proof.
    intros ls pid st Hu.
    assert (C : invC st) by (apply invC_run; intros H; discriminate).
    destruct (reach resp nf nb ls) as (((Wp & _) & _) & _).
    pose proof (C Hu pid) as Ha. destruct (Wp pid) as [Wd _]. destruct (Wd Ha) as (Hg & _).
    repeat split; auto.
    - intros m port. simpl. unfold do_send. fold st. now rewrite Ha.
    - now apply up_stays_down.
    - apply invC_run; auto. now apply up_stays_down.
  Qed.
End Theorems.

(* ------------------------------------------------------------------ *)
(* the oracle's order check is implied by the theorem: on model runs it never raises an alarm *)

Lemma subseqb_complete {A} (eqb : A -> A -> bool) :
  (forall x y, eqb x y = true <-> x = y) ->
  forall l l', subseq l l' -> subseqb eqb l l' = true.
Proof.
  intros Heq l l' H. induction H as [l|x l l' _ IH|x l l' Hs IH].
  - destruct l; reflexivity.
  - simpl. replace (eqb x x) with true by (symmetry; now apply Heq). exact IH.
  - destruct l as [|y t]; [reflexivity|]. simpl. destruct (eqb y x) eqn:E; [|exact IH].
    apply Heq in E. subst y.
    (* greedy matching: a match found later can be found now *)
    clear IH. revert Hs. generalize l' as l2. clear l'.
    intros l2 Hs. 
    assert (G : forall (a : list A) b, subseq a b -> forall z t', a = z :: t' -> subseq t' b).
    { clear. intros a b H. induction H as [l|x l l' H IH|x l l' H IH]; intros z t' E.
      - discriminate.
      - inversion E; subst. constructor. exact H.
      - constructor. eapply IH; eauto. }
    pose proof (G _ _ Hs x t eq_refl) as Ht.
    clear G Hs. revert Ht. revert t. induction l2 as [|w r IHr]; intros t Ht.
    + inversion Ht; subst. reflexivity.
    + destruct t as [|u t2]; [reflexivity|]. simpl. destruct (eqb u w) eqn:E2.
      * apply Heq in E2. subst. apply IHr. inversion Ht; subst; [assumption|].
        clear -H1. 
        assert (G : forall (a : list A) b, subseq a b -> forall z t', a = z :: t' -> subseq t' b).
        { clear. intros a b H. induction H as [l|x l l' H IH|x l l' H IH]; intros z t' E.
          - discriminate.
          - inversion E; subst. constructor. exact H.
          - constructor. eapply IH; eauto. }
        eapply G; eauto.
      * apply IHr. inversion Ht; subst; [|assumption]. rewrite (proj2 (Heq w w) eq_refl) in E2. discriminate.
Qed.

Definition msg_eqb (a b : msg) : bool :=
  Bool.eqb (m_call a) (m_call b) && N.eqb (m_v a) (m_v b) && list_eqb N.eqb (m_a a) (m_a b).

Lemma list_eqb_N l l' : list_eqb N.eqb l l' = true <-> l = l'.
Proof.
  revert l'. induction l as [|x t IH]; intros [|y t']; simpl; split; try congruence; try discriminate.
  - intros H. apply andb_true_iff in H as [H1 H2]. apply N.eqb_eq in H1. apply IH in H2. congruence.
  - intros H. inversion H; subst. rewrite N.eqb_refl. simpl. now apply IH.
Qed.

Lemma msg_eqb_spec a b : msg_eqb a b = true <-> a = b.
Proof.
  destruct a as [c v a], b as [c' v' a']. unfold msg_eqb. simpl. split.
  - intros H. apply andb_true_iff in H as [H H3]. apply andb_true_iff in H as [H1 H2].
    apply Bool.eqb_prop in H1. apply N.eqb_eq in H2. apply list_eqb_N in H3. congruence.
  - intros H. inversion H; subst. rewrite Bool.eqb_reflx, N.eqb_refl. simpl. now apply list_eqb_N.
Qed.

Theorem oracle_fifo_sound : forall resp nf nb ls pid (f : msg -> bool),
  let st := run resp (init nf nb) ls in
  subseqb msg_eqb (filter f (dlv st pid)) (filter f (sent st pid)) = true.
Proof.
  intros. apply subseqb_complete; [apply msg_eqb_spec|]. apply net_fifo_per_sender.
Qed.

(* the exit of a live actor is always announced: the Terminate frame does not depend on any
   bookkeeping of what was advertised (which inbound messages may prune in the code) *)
Theorem exit_announced : forall st pid,
  t_alive (tg st pid) = true ->
  In (FTerm pid) (ctl (do_exit st pid)) /\ t_alive (tg (do_exit st pid) pid) = false.
Proof.
  intros st pid Ha. unfold do_exit. rewrite Ha. cbn [ctl tg set_y]. split.
  - apply in_or_app. right. now left.
  - rewrite upd_same. reflexivity.
Qed.
