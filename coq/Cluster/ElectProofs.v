From Coq Require Import List NArith Bool Lia Permutation Arith.
From RV Require Import Cluster.Elect.
Import ListNotations.
Local Open Scope N_scope.

(* ------------------------------------------------------------------ *)
(* generic list facts                                                  *)

Lemma filter_map_comm {A B} (f : B -> bool) (g : A -> B) l :
  filter f (map g l) = map g (filter (fun x => f (g x)) l).
Proof. induction l as [|x t IH]; simpl; [reflexivity|]. destruct (f (g x)); simpl; now rewrite IH. Qed.

Lemma existsb_map {A B} (f : B -> bool) (g : A -> B) l :
  existsb f (map g l) = existsb (fun x => f (g x)) l.
Proof. induction l as [|x t IH]; simpl; [reflexivity|]. now rewrite IH. Qed.

Lemma existsb_ext' {A} (f g : A -> bool) l :
  (forall x, f x = g x) -> existsb f l = existsb g l.
Proof. intros H. induction l as [|x t IH]; simpl; [reflexivity|]. now rewrite H, IH. Qed.

Lemma forallb_map {A B} (f : B -> bool) (g : A -> B) l :
  forallb f (map g l) = forallb (fun x => f (g x)) l.
Proof. induction l as [|x t IH]; simpl; [reflexivity|]. now rewrite IH. Qed.

Lemma perm_filter {A} (f : A -> bool) l l' :
  Permutation l l' -> Permutation (filter f l) (filter f l').
Proof.
  induction 1 as [|x l l' _ IH|x y l|l l' l'' _ IH1 _ IH2]; simpl.
  - constructor.
  - destruct (f x); [constructor|]; assumption.
  - destruct (f x), (f y); try constructor; apply Permutation_refl.
  - eapply Permutation_trans; eassumption.
Qed.

Lemma perm_existsb {A} (f : A -> bool) l l' :
  Permutation l l' -> existsb f l = existsb f l'.
Proof.
  induction 1 as [|x l l' _ IH|x y l|l l' l'' _ IH1 _ IH2]; simpl.
  - reflexivity.
  - now rewrite IH.
  - destruct (f x), (f y); reflexivity.
  - congruence.
Qed.

Lemma perm_forallb {A} (f : A -> bool) l l' :
  Permutation l l' -> forallb f l = forallb f l'.
Proof.
  induction 1 as [|x l l' _ IH|x y l|l l' l'' _ IH1 _ IH2]; simpl.
  - reflexivity.
  - now rewrite IH.
  - destruct (f x), (f y); reflexivity.
  - congruence.
Qed.

Lemma perm_somes l l' : Permutation l l' -> Permutation (somes l) (somes l').
Proof.
  induction 1 as [|x l l' _ IH|x y l|l l' l'' _ IH1 _ IH2]; simpl.
  - constructor.
  - destruct x; [constructor|]; assumption.
  - destruct x, y; try constructor; apply Permutation_refl.
  - eapply Permutation_trans; eassumption.
Qed.

(* min_list characterisation *)
Lemma min_list_none l : min_list l = None <-> l = [].
Proof.
  destruct l as [|x t]; simpl; [tauto|].
  destruct (min_list t); split; discriminate.
Qed.

Lemma min_list_spec l m :
  min_list l = Some m <-> (In m l /\ forall x, In x l -> m <= x).
Proof.
  revert m; induction l as [|a t IH]; intros m; simpl.
  - split; [discriminate|intros [[] _]].
  - destruct (min_list t) as [mt|] eqn:E.
    + pose proof (proj1 (IH mt) eq_refl) as [Hin Hle].
      split.
      * intros H; injection H as <-. split.
        -- destruct (N.min_spec a mt) as [[_ ->]|[_ ->]]; auto.
        -- intros x [<-|Hx]; [lia|]. specialize (Hle _ Hx). lia.
      * intros [[<-|Hm] Hall].
        -- f_equal. specialize (Hall mt (or_intror Hin)). lia.
        -- f_equal. pose proof (Hall a (or_introl eq_refl)). specialize (Hle _ Hm).
           pose proof (Hall mt (or_intror Hin)). lia.
    + apply min_list_none in E; subst t. split.
      * intros H; injection H as <-. split; [auto|]. intros x [<-|[]]; lia.
      * intros [[<-|[]] _]; reflexivity.
Qed.

Lemma perm_min_list l l' : Permutation l l' -> min_list l = min_list l'.
Proof.
  intros P. destruct (min_list l) as [m|] eqn:E.
  - symmetry. apply min_list_spec. apply min_list_spec in E as [Hin Hle]. split.
    + eapply Permutation_in; eassumption.
    + intros x Hx. apply Hle. eapply Permutation_in; [apply Permutation_sym|]; eassumption.
  - apply min_list_none in E; subst l. apply Permutation_nil in P; subst l'. reflexivity.
Qed.

(* ------------------------------------------------------------------ *)
(* C18 (1): the election does not depend on the order of examination   *)

Lemma step_dir_perm this peer cs cs' :
  Permutation cs cs' -> Permutation (step_dir this peer cs) (step_dir this peer cs').
Proof.
  intros P. unfold step_dir.
  rewrite (perm_existsb srv _ _ P), (perm_existsb (fun c => negb (srv c)) _ _ P).
  destruct (_ && _); [|assumption].
  destruct (peer ?= this); auto using perm_filter.
Qed.

Lemma step_nonce_perm cs cs' :
  Permutation cs cs' -> Permutation (step_nonce cs) (step_nonce cs').
Proof.
  intros P. unfold step_nonce.
  rewrite (perm_min_list _ _ (perm_somes _ _ (Permutation_map nonce P))).
  destruct (min_list _); auto using perm_filter.
Qed.

Lemma step_tie_perm cs cs' :
  Permutation cs cs' -> Permutation (step_tie cs) (step_tie cs').
Proof.
  intros P. unfold step_tie.
  rewrite (Permutation_length P), (perm_forallb srv _ _ P).
  destruct (_ && _); [|assumption].
  rewrite (perm_min_list _ _ (Permutation_map cid P)).
  destruct (min_list _); auto using perm_filter.
Qed.

Lemma elect_c_perm this peer cs cs' :
  Permutation cs cs' -> Permutation (elect_c this peer cs) (elect_c this peer cs').
Proof.
  intros P. unfold elect_c. rewrite (Permutation_length P).
  destruct (Nat.leb _ 1); [assumption|].
  auto using step_tie_perm, step_nonce_perm, step_dir_perm.
Qed.

Theorem elect_perm this peer cs cs' :
  Permutation cs cs' -> Permutation (elect this peer cs) (elect this peer cs').
Proof. intros P. unfold elect. apply Permutation_map, elect_c_perm, P. Qed.

(* ------------------------------------------------------------------ *)
(* the three steps on short lists; elect_c is always the pipeline       *)

Lemma step_dir_incl this peer cs c : In c (step_dir this peer cs) -> In c cs.
Proof.
  unfold step_dir. destruct (_ && _); [|auto].
  destruct (peer ?= this); auto; intros H; apply filter_In in H; tauto.
Qed.

Lemma step_nonce_incl cs c : In c (step_nonce cs) -> In c cs.
Proof.
  unfold step_nonce. destruct (min_list _); auto. intros H; apply filter_In in H; tauto.
Qed.

Lemma step_tie_incl cs c : In c (step_tie cs) -> In c cs.
Proof.
  unfold step_tie. destruct (_ && _); auto. destruct (min_list _); auto.
  intros H; apply filter_In in H; tauto.
Qed.

Lemma elect_c_incl this peer cs c : In c (elect_c this peer cs) -> In c cs.
Proof.
  unfold elect_c. destruct (Nat.leb _ 1); auto.
  intros H. eauto using step_dir_incl, step_nonce_incl, step_tie_incl.
Qed.

Lemma elect_c_pipeline this peer cs :
  elect_c this peer cs = step_tie (step_nonce (step_dir this peer cs)).
Proof.
  unfold elect_c. destruct cs as [|a [|b t]]; try reflexivity.
  cbn [length Nat.leb].
  assert (Hd : step_dir this peer [a] = [a]).
  { unfold step_dir. cbn [existsb]. destruct (srv a); reflexivity. }
  rewrite Hd. unfold step_nonce. cbn [map somes].
  destruct (nonce a) as [n|] eqn:E; cbn [somes min_list filter].
  - rewrite E. cbn [onat_eqb]. rewrite N.eqb_refl. reflexivity.
  - reflexivity.
Qed.

(* ------------------------------------------------------------------ *)
(* connection-level selection functions mirrored by both endpoints     *)

Definition dirsel (na nb : N) (cs : list conn) : list conn :=
  if existsb by_a cs && existsb (fun c => negb (by_a c)) cs then
    match N.compare na nb with
    | Lt => filter (fun c => negb (by_a c)) cs
    | Gt => filter by_a cs
    | Eq => cs
    end
  else cs.

Definition noncesel (cs : list conn) : list conn :=
  match min_list (somes (map (fun c => nz (cnonce c)) cs)) with
  | Some m => filter (fun c => onat_eqb (nz (cnonce c)) (Some m)) cs
  | None => cs
  end.

Lemma step_dir_a na nb cs :
  step_dir na nb (map view_a cs) = map view_a (dirsel na nb cs).
Proof.
  unfold step_dir, dirsel. rewrite !existsb_map. simpl.
  replace (existsb (fun x => negb (negb (by_a x))) cs) with (existsb by_a cs)
    by (apply existsb_ext'; intros; now rewrite negb_involutive).
  rewrite andb_comm.
  destruct (_ && _); [|reflexivity].
  rewrite (N.compare_antisym na nb).
  destruct (na ?= nb); simpl; [reflexivity| |]; rewrite filter_map_comm; simpl; f_equal;
    apply filter_ext; intros c; destruct (by_a c); reflexivity.
Qed.

Lemma step_dir_b na nb cs :
  step_dir nb na (map view_b cs) = map view_b (dirsel na nb cs).
Proof.
  unfold step_dir, dirsel. rewrite !existsb_map. simpl.
  destruct (_ && _); [|reflexivity].
  destruct (na ?= nb); simpl; [reflexivity| |]; rewrite filter_map_comm; simpl; f_equal;
    apply filter_ext; intros c; destruct (by_a c); reflexivity.
Qed.

Lemma step_nonce_view (g : conn -> cand) cs :
  (forall c, nonce (g c) = nz (cnonce c)) ->
  step_nonce (map g cs) = map g (noncesel cs).
Proof.
  intros Hg. unfold step_nonce, noncesel. rewrite map_map.
  rewrite (map_ext (fun x => nonce (g x)) (fun c => nz (cnonce c)) Hg).
  destruct (min_list _); [|reflexivity].
  rewrite filter_map_comm. f_equal. apply filter_ext. intros c. now rewrite Hg.
Qed.

Lemma dirsel_incl na nb cs c : In c (dirsel na nb cs) -> In c cs.
Proof.
  unfold dirsel. destruct (_ && _); auto.
  destruct (na ?= nb); auto; intros H; apply filter_In in H; tauto.
Qed.

Lemma noncesel_incl cs c : In c (noncesel cs) -> In c cs.
Proof.
  unfold noncesel. destruct (min_list _); auto. intros H; apply filter_In in H; tauto.
Qed.

Lemma existsb_filter_nonempty {A} (f : A -> bool) l :
  existsb f l = true -> filter f l <> [].
Proof.
  intros H. apply existsb_exists in H as [x [Hin Hf]].
  intros E. assert (In x (filter f l)) by (apply filter_In; auto). rewrite E in H. destruct H.
Qed.

Lemma dirsel_nonempty na nb cs : cs <> [] -> dirsel na nb cs <> [].
Proof.
  intros H. unfold dirsel.
  destruct (existsb by_a cs) eqn:Ea, (existsb (fun c => negb (by_a c)) cs) eqn:Eb; simpl; auto.
  destruct (na ?= nb); auto using existsb_filter_nonempty.
Qed.

(* with distinct names, what remains after the direction step was dialled by one side *)
Lemma dirsel_one_direction na nb cs :
  na <> nb -> exists d, forall c, In c (dirsel na nb cs) -> by_a c = d.
Proof.
  intros Hne. unfold dirsel.
  destruct (existsb by_a cs) eqn:Ea, (existsb (fun c => negb (by_a c)) cs) eqn:Eb; simpl.
  - destruct (na ?= nb) eqn:Ec.
    + apply N.compare_eq in Ec. contradiction.
    + exists false. intros c H. apply filter_In in H as [_ H]. now destruct (by_a c).
    + exists true. intros c H. apply filter_In in H as [_ H]. exact H.
  - exists true. intros c H. destruct (by_a c) eqn:E; auto.
    assert (existsb (fun c => negb (by_a c)) cs = true)
      by (apply existsb_exists; exists c; rewrite E; auto). congruence.
  - exists false. intros c H. destruct (by_a c) eqn:E; auto.
    assert (existsb by_a cs = true) by (apply existsb_exists; exists c; auto). congruence.
  - exists false. intros c H. destruct (by_a c) eqn:E; auto.
    assert (existsb by_a cs = true) by (apply existsb_exists; exists c; auto). congruence.
Qed.

Lemma noncesel_nonempty cs : cs <> [] -> noncesel cs <> [].
Proof.
  intros H. unfold noncesel.
  destruct (min_list _) as [m|] eqn:E; auto.
  apply min_list_spec in E as [Hin _].
  assert (exists c, In c cs /\ nz (cnonce c) = Some m) as [c [Hc Hn]].
  { clear H. induction cs as [|a t IH]; simpl in Hin; [destruct Hin|].
    destruct (nz (cnonce a)) eqn:Ea.
    - destruct Hin as [<-|Hin].
      + exists a; split; [left; reflexivity|assumption].
      + destruct (IH Hin) as [c [? ?]]. exists c; split; [right|]; assumption.
    - destruct (IH Hin) as [c [? ?]]. exists c; split; [right|]; assumption. }
  intros E0. assert (In c (filter (fun c => onat_eqb (nz (cnonce c)) (Some m)) cs)).
  { apply filter_In; split; auto. rewrite Hn. simpl. apply N.eqb_refl. }
  rewrite E0 in H0. destruct H0.
Qed.

(* ------------------------------------------------------------------ *)
(* C18 (2): distinct non-zero nonces: both ends keep the same single one *)

Definition nonces_ok (cs : list conn) : Prop :=
  (forall c, In c cs -> cnonce c <> 0) /\ NoDup (map cnonce cs).

Lemma nz_some n : n <> 0 -> nz n = Some n.
Proof. intros H. unfold nz. destruct (N.eqb_spec n 0); congruence. Qed.

Lemma NoDup_map_filter {A B} (g : A -> B) (f : A -> bool) l :
  NoDup (map g l) -> NoDup (map g (filter f l)).
Proof.
  induction l as [|x t IH]; simpl; intros H; [constructor|].
  inversion H as [|? ? Hn Hd]; subst. destruct (f x); simpl; auto.
  constructor; auto. intros Hin. apply Hn.
  apply in_map_iff in Hin as [y [Hy Hin]]. apply filter_In in Hin as [Hin _].
  rewrite <- Hy. apply in_map. exact Hin.
Qed.

Lemma nonces_ok_dirsel na nb cs : nonces_ok cs -> nonces_ok (dirsel na nb cs).
Proof.
  intros [Hz Hd]. split.
  - intros c H. apply Hz. eapply dirsel_incl; eauto.
  - unfold dirsel. destruct (_ && _); auto. destruct (na ?= nb); auto using NoDup_map_filter.
Qed.

Lemma somes_nz_all cs :
  (forall c, In c cs -> cnonce c <> 0) ->
  somes (map (fun c => nz (cnonce c)) cs) = map cnonce cs.
Proof.
  induction cs as [|a t IH]; simpl; intros H; [reflexivity|].
  rewrite nz_some by (apply H; auto). f_equal. apply IH. intros c Hc. apply H; auto.
Qed.

Lemma filter_unique_key {A} (key : A -> N) (l : list A) (x : A) :
  NoDup (map key l) -> In x l ->
  filter (fun y => N.eqb (key y) (key x)) l = [x].
Proof.
  induction l as [|a t IH]; simpl; intros Hd Hin; [destruct Hin|].
  inversion Hd as [|? ? Hn Hd']; subst.
  destruct Hin as [->|Hin].
  - rewrite N.eqb_refl. f_equal.
    clear IH Hd. induction t as [|b t IHt]; simpl; [reflexivity|].
    simpl in Hn. destruct (N.eqb_spec (key b) (key x)) as [E|E].
    + exfalso. apply Hn. left. exact E.
    + apply IHt. intros H. apply Hn. right. exact H. now inversion Hd'.
  - destruct (N.eqb_spec (key a) (key x)) as [E|E].
    + exfalso. apply Hn. rewrite E. apply in_map. exact Hin.
    + apply IH; assumption.
Qed.

Lemma noncesel_singleton cs :
  cs <> [] -> nonces_ok cs -> exists c, In c cs /\ noncesel cs = [c].
Proof.
  intros Hne [Hz Hd]. unfold noncesel. rewrite somes_nz_all by assumption.
  destruct (min_list (map cnonce cs)) as [m|] eqn:E.
  - apply min_list_spec in E as [Hin _]. apply in_map_iff in Hin as [c [Hc Hin]].
    exists c. split; [assumption|]. subst m.
    rewrite <- (filter_unique_key cnonce cs c Hd Hin).
    apply filter_ext_in. intros y Hy. rewrite (nz_some _ (Hz _ Hy)). reflexivity.
  - apply min_list_none in E. destruct cs; [contradiction|discriminate].
Qed.

Lemma step_tie_singleton c : step_tie [c] = [c].
Proof. reflexivity. Qed.

Theorem mirror_agree na nb cs :
  cs <> [] -> nonces_ok cs ->
  exists c, In c cs
    /\ elect na nb (map view_a cs) = [id_a c]
    /\ elect nb na (map view_b cs) = [id_b c].
Proof.
  intros Hne Hok.
  destruct (noncesel_singleton (dirsel na nb cs)) as [c [Hc Hs]];
    [apply dirsel_nonempty; assumption|apply nonces_ok_dirsel; assumption|].
  exists c. split; [eapply dirsel_incl; eauto|].
  unfold elect. rewrite !elect_c_pipeline, step_dir_a, step_dir_b.
  rewrite (step_nonce_view view_a), (step_nonce_view view_b) by reflexivity.
  rewrite Hs. simpl. auto.
Qed.

(* ------------------------------------------------------------------ *)
(* C18 (3): arbitrary (legacy / repeated) nonces, distinct names:       *)
(* the accepting endpoint keeps exactly one connection and the          *)
(* initiating endpoint still holds it.                                  *)

Lemma min_list_map_in {A} (key : A -> N) (l : list A) :
  l <> [] -> exists x, In x l /\ min_list (map key l) = Some (key x).
Proof.
  intros H. destruct (min_list (map key l)) as [m|] eqn:E.
  - pose proof E as E'. apply min_list_spec in E as [Hin _].
    apply in_map_iff in Hin as [x [Hx Hin]]. exists x. subst m. auto.
  - apply min_list_none in E. destruct l; [contradiction|discriminate].
Qed.

Lemma step_tie_all_srv (g : conn -> cand) (key : conn -> N) cs :
  (forall c, cid (g c) = key c) ->
  (forall c, In c cs -> srv (g c) = true) ->
  NoDup (map key cs) -> cs <> [] ->
  exists c, In c cs /\ step_tie (map g cs) = [g c].
Proof.
  intros Hk Hs Hd Hne.
  destruct cs as [|a [|b t]]; [contradiction|exists a; simpl; auto|].
  destruct (min_list_map_in key (a :: b :: t) Hne) as [x [Hx Hm]].
  exists x. split; [assumption|].
  unfold step_tie. rewrite map_length. cbn [length Nat.ltb Nat.leb andb].
  rewrite forallb_map.
  replace (forallb (fun c => srv (g c)) (a :: b :: t)) with true
    by (symmetry; apply forallb_forall; intros c Hc; apply Hs; exact Hc).
  rewrite map_map. rewrite (map_ext (fun c => cid (g c)) key Hk). rewrite Hm.
  rewrite filter_map_comm.
  replace (filter (fun x0 => cid (g x0) =? key x) (a :: b :: t)) with [x]; [reflexivity|].
  rewrite <- (filter_unique_key key _ x Hd Hx).
  apply filter_ext. intros c. now rewrite Hk.
Qed.

Lemma step_tie_no_srv (g : conn -> cand) cs :
  (forall c, In c cs -> srv (g c) = false) -> step_tie (map g cs) = map g cs.
Proof.
  intros Hs. unfold step_tie. destruct cs as [|a [|b t]]; try reflexivity.
  rewrite map_length. cbn [length Nat.ltb Nat.leb andb].
  simpl forallb. rewrite (Hs a) by (left; reflexivity). reflexivity.
Qed.

Definition ids_ok (cs : list conn) : Prop := NoDup (map id_a cs) /\ NoDup (map id_b cs).

Theorem tie_resolution na nb cs :
  na <> nb -> cs <> [] -> ids_ok cs ->
  exists c, In c cs /\
    ((elect na nb (map view_a cs) = [id_a c] /\ In (id_b c) (elect nb na (map view_b cs)))
     \/ (elect nb na (map view_b cs) = [id_b c] /\ In (id_a c) (elect na nb (map view_a cs)))).
Proof.
  intros Hn Hne [Hda Hdb].
  set (R := noncesel (dirsel na nb cs)).
  assert (HR : R <> []) by (apply noncesel_nonempty, dirsel_nonempty, Hne).
  assert (HRin : forall c, In c R -> In c cs)
    by (intros c H; eapply dirsel_incl, noncesel_incl, H).
  destruct (dirsel_one_direction na nb cs Hn) as [d Hd].
  assert (HRd : forall c, In c R -> by_a c = d) by (intros c H; apply Hd, noncesel_incl, H).
  assert (HdaR : NoDup (map id_a R)).
  { unfold R, noncesel. destruct (min_list _); unfold dirsel;
      destruct (_ && _); try destruct (na ?= nb); auto using NoDup_map_filter. }
  assert (HdbR : NoDup (map id_b R)).
  { unfold R, noncesel. destruct (min_list _); unfold dirsel;
      destruct (_ && _); try destruct (na ?= nb); auto using NoDup_map_filter. }
  unfold elect. rewrite !elect_c_pipeline, step_dir_a, step_dir_b.
  rewrite (step_nonce_view view_a), (step_nonce_view view_b) by reflexivity.
  fold R. destruct d.
  - (* all dialled by A: B accepts, B breaks the tie *)
    destruct (step_tie_all_srv view_b id_b R) as [c [Hc Hs]];
      [reflexivity|intros c1 H1; simpl; apply HRd, H1|assumption|assumption|].
    exists c. split; [auto|]. right. rewrite Hs. split; [reflexivity|].
    rewrite step_tie_no_srv.
    + rewrite map_map. apply in_map_iff. exists c. auto.
    + intros c' H. simpl. rewrite (HRd _ H). reflexivity.
  - destruct (step_tie_all_srv view_a id_a R) as [c [Hc Hs]];
      [reflexivity|intros c1 H1; simpl; rewrite (HRd _ H1); reflexivity|assumption|assumption|].
    exists c. split; [auto|]. left. rewrite Hs. split; [reflexivity|].
    rewrite step_tie_no_srv.
    + rewrite map_map. apply in_map_iff. exists c. auto.
    + intros c' H. simpl. apply HRd, H.
Qed.

(* an accepted (server-side) survivor is always alone *)
Theorem elect_srv_alone this peer cs c :
  this <> peer -> In c (elect_c this peer cs) -> srv c = true ->
  NoDup (map cid cs) -> elect_c this peer cs = [c].
Proof.
  intros Hn Hin Hsrv Hd. rewrite elect_c_pipeline in *.
  set (R := step_nonce (step_dir this peer cs)) in *.
  assert (Hall : forall x, In x R -> srv x = true).
  { (* after step_dir with distinct names all remaining share one direction *)
    assert (Hdir : forall x y, In x (step_dir this peer cs) -> In y (step_dir this peer cs) -> srv x = srv y).
    { unfold step_dir.
      destruct (existsb srv cs) eqn:Ea, (existsb (fun c => negb (srv c)) cs) eqn:Eb; simpl.
      - destruct (peer ?= this) eqn:Ec.
        + apply N.compare_eq in Ec. congruence.
        + intros x y Hx Hy. apply filter_In in Hx as [_ Hx], Hy as [_ Hy].
          apply eqb_prop in Hx, Hy. congruence.
        + intros x y Hx Hy. apply filter_In in Hx as [_ Hx], Hy as [_ Hy].
          apply eqb_prop in Hx, Hy. congruence.
      - intros x y Hx Hy.
        assert (forall z, In z cs -> srv z = true).
        { intros z Hz. destruct (srv z) eqn:E; auto.
          assert (existsb (fun c => negb (srv c)) cs = true)
            by (apply existsb_exists; exists z; rewrite E; auto). congruence. }
        rewrite !H; auto.
      - intros x y Hx Hy.
        assert (forall z, In z cs -> srv z = false).
        { intros z Hz. destruct (srv z) eqn:E; auto.
          assert (existsb srv cs = true) by (apply existsb_exists; exists z; auto). congruence. }
        rewrite !H; auto.
      - intros x y Hx Hy.
        assert (forall z, In z cs -> srv z = false).
        { intros z Hz. destruct (srv z) eqn:E; auto.
          assert (existsb srv cs = true) by (apply existsb_exists; exists z; auto). congruence. }
        rewrite !H; auto. }
    intros x Hx. rewrite <- Hsrv. apply Hdir.
    - apply step_nonce_incl, Hx.
    - apply step_nonce_incl. apply step_tie_incl. exact Hin. }
  assert (HdR : NoDup (map cid R)).
  { unfold R, step_nonce. destruct (min_list _); unfold step_dir;
      destruct (_ && _); try destruct (peer ?= this); auto using NoDup_map_filter. }
  unfold step_tie in *.
  destruct R as [|a [|b t]] eqn:ER; [destruct Hin|simpl in *; destruct Hin as [->|[]]; reflexivity|].
  cbn [length Nat.ltb Nat.leb andb] in *.
  replace (forallb srv (a :: b :: t)) with true in *
    by (symmetry; apply forallb_forall; intros x Hx; apply Hall; exact Hx).
  destruct (min_list (map cid (a :: b :: t))) as [w|] eqn:Em.
  - apply filter_In in Hin as [Hin Hw]. apply N.eqb_eq in Hw. subst w.
    apply (filter_unique_key cid (a :: b :: t) c HdR Hin).
  - apply min_list_none in Em. discriminate.
Qed.

(* ------------------------------------------------------------------ *)
(* C18 (4): unauthenticated sessions have no influence                 *)

Definition auth_part (t : table) : table :=
  mkTable (t_this t) (filter s_auth (t_sess t)).

Lemma filter_filter {A} (f g : A -> bool) l :
  filter f (filter g l) = filter (fun x => g x && f x) l.
Proof.
  induction l as [|x t IH]; simpl; [reflexivity|].
  destruct (g x); simpl; [destruct (f x)|]; now rewrite IH.
Qed.

Lemma candidates_auth_part t peer :
  candidates_for_peer (auth_part t) peer true = candidates_for_peer t peer true.
Proof.
  unfold candidates_for_peer, auth_part. simpl. f_equal.
  rewrite filter_filter. apply filter_ext. intros s.
  destruct (s_auth s), (onat_eqb (s_peer s) (Some peer)); reflexivity.
Qed.

Lemma find_filter_true {A} (f g : A -> bool) l x :
  find f l = Some x -> g x = true -> find f (filter g l) = Some x.
Proof.
  induction l as [|a t IH]; simpl; [discriminate|].
  destruct (f a) eqn:Ef.
  - intros H Hg; injection H as ->. rewrite Hg. simpl. now rewrite Ef.
  - intros H Hg. destruct (g a); simpl; [rewrite Ef|]; auto.
Qed.

Lemma find_filter_none {A} (f g : A -> bool) l :
  find f l = None -> find f (filter g l) = None.
Proof.
  induction l as [|a t IH]; simpl; [reflexivity|].
  destruct (f a) eqn:Ef; [discriminate|]. intros H. destruct (g a); simpl; [rewrite Ef|]; auto.
Qed.

Definition ids_unique (t : table) : Prop := NoDup (map s_id (t_sess t)).

Lemma find_sess_unique t id s s' :
  ids_unique t -> find_sess t id = Some s -> In s' (t_sess t) -> s_id s' = id -> s' = s.
Proof.
  unfold ids_unique, find_sess. induction (t_sess t) as [|a l IH]; simpl; intros Hd Hf Hin Hid.
  - destruct Hin.
  - inversion Hd as [|? ? Hn Hd']; subst.
    destruct (N.eqb_spec (s_id a) (s_id s')) as [E|E].
    + injection Hf as <-. destruct Hin as [->|Hin]; [reflexivity|].
      exfalso. apply Hn. rewrite E. apply in_map. exact Hin.
    + destruct Hin as [->|Hin]; [congruence|]. apply IH; auto.
Qed.

(* the verdict on an authenticated session depends only on the authenticated part *)
Theorem is_elected_auth_only t id :
  ids_unique t -> is_elected t id = is_elected (auth_part t) id.
Proof.
  intros Hu. unfold is_elected.
  destruct (find_sess t id) as [s|] eqn:Ef.
  - destruct (s_auth s) eqn:Ea; simpl.
    + unfold find_sess, auth_part in *. simpl.
      rewrite (find_filter_true _ s_auth _ s Ef Ea). rewrite Ea. simpl.
      destruct (s_peer s); [|reflexivity].
      now rewrite (candidates_auth_part t).
    + (* id is not authenticated: not found in the authenticated part *)
      destruct (find_sess (auth_part t) id) as [s'|] eqn:Ef'; [|reflexivity].
      exfalso. unfold find_sess, auth_part in Ef'. simpl in Ef'.
      apply find_some in Ef' as [Hin Hid]. apply filter_In in Hin as [Hin Ha].
      apply N.eqb_eq in Hid.
      assert (s' = s) by (eapply find_sess_unique; eauto). congruence.
  - unfold find_sess, auth_part in *. simpl. now rewrite (find_filter_none _ s_auth _ Ef).
Qed.

(* adding an unauthenticated session (any claimed name, nonce, direction)
   or removing one never changes who is elected among authenticated ones *)
Corollary unauth_powerless t t' id :
  ids_unique t -> ids_unique t' ->
  auth_part t = auth_part t' -> is_elected t id = is_elected t' id.
Proof.
  intros Hu Hu' E. rewrite (is_elected_auth_only t), (is_elected_auth_only t') by assumption.
  now rewrite E.
Qed.

(* commit_authenticated: the losers are computed from authenticated sessions
   and the committing session only *)
Definition commit_part (t : table) (id : N) : table :=
  mkTable (t_this t) (filter (fun s => s_auth s || N.eqb (s_id s) id) (t_sess t)).

Lemma map_filter_comm_pred {A} (f : A -> A) (p : A -> bool) l :
  (forall x, p (f x) = p x) -> map f (filter p l) = filter p (map f l).
Proof.
  intros H. induction l as [|x t IH]; simpl; [reflexivity|].
  rewrite H. destruct (p x); simpl; now rewrite IH.
Qed.

Theorem commit_unauth_powerless t id :
  snd (commit_authenticated t id) = snd (commit_authenticated (commit_part t id) id).
Proof.
  unfold commit_authenticated.
  destruct (find_sess t id) as [s|] eqn:Ef.
  - assert (Hid : N.eqb (s_id s) id = true).
    { unfold find_sess in Ef. apply find_some in Ef. tauto. }
    assert (Ef' : find_sess (commit_part t id) id = Some s).
    { unfold find_sess, commit_part in *. simpl. apply find_filter_true; auto.
      rewrite Hid. apply orb_true_r. }
    rewrite Ef'. destruct (s_peer s) as [peer|]; [|reflexivity]. simpl.
    set (l1 := map (set_auth id true) (t_sess t)).
    set (l1' := map (set_auth id true) (t_sess (commit_part t id))).
    assert (Hl1 : filter s_auth l1' = filter s_auth l1).
    { unfold l1, l1', commit_part. simpl.
      induction (t_sess t) as [|a l IH]; simpl; [reflexivity|].
      unfold set_auth at 2 4. destruct (N.eqb (s_id a) id) eqn:Ea; simpl.
      - rewrite orb_true_r. simpl. unfold set_auth at 1. rewrite Ea. simpl. now rewrite IH.
      - rewrite orb_false_r. destruct (s_auth a) eqn:Eau; simpl.
        + unfold set_auth at 1. rewrite Ea, Eau. now rewrite IH.
        + exact IH. }
    assert (Hc : candidates_for_peer (mkTable (t_this t) l1') peer true
                 = candidates_for_peer (mkTable (t_this t) l1) peer true).
    { rewrite <- (candidates_auth_part (mkTable (t_this t) l1')),
              <- (candidates_auth_part (mkTable (t_this t) l1)).
      unfold auth_part. simpl. now rewrite Hl1. }
    change (map (set_auth id true) (filter (fun s0 => s_auth s0 || (s_id s0 =? id)) (t_sess t))) with l1'.
    rewrite Hc.
    f_equal. f_equal. f_equal.
    set (el := elect (t_this t) peer (candidates_for_peer (mkTable (t_this t) l1) peer true)).
    transitivity (filter (fun s' => onat_eqb (s_peer s') (Some peer)
                                     && negb (existsb (N.eqb (s_id s')) el)) (filter s_auth l1)).
    + rewrite filter_filter. apply filter_ext. intros x. now rewrite andb_assoc.
    + rewrite <- Hl1. rewrite filter_filter. apply filter_ext. intros x. now rewrite andb_assoc.
  - assert (Ef' : find_sess (commit_part t id) id = None).
    { unfold find_sess, commit_part in *. simpl. now apply find_filter_none. }
    rewrite Ef'. reflexivity.
Qed.

(* check_candidate: the verdict a connection gets before it authenticates depends on the
   authenticated sessions and on that connection itself only *)
Theorem check_candidate_unauth_powerless t id :
  check_candidate t id = check_candidate (commit_part t id) id.
Proof.
  unfold check_candidate.
  destruct (find_sess t id) as [s|] eqn:Ef.
  - assert (Hid : N.eqb (s_id s) id = true).
    { unfold find_sess in Ef. apply find_some in Ef. tauto. }
    assert (Ef' : find_sess (commit_part t id) id = Some s).
    { unfold find_sess, commit_part in *. simpl. apply find_filter_true; auto.
      rewrite Hid. apply orb_true_r. }
    rewrite Ef'. destruct (s_peer s) as [peer|]; [|reflexivity].
    assert (Hc : candidates_for_peer (commit_part t id) peer true = candidates_for_peer t peer true).
    { rewrite <- (candidates_auth_part (commit_part t id)), <- (candidates_auth_part t).
      unfold auth_part, commit_part. simpl. f_equal. f_equal.
      rewrite filter_filter. apply filter_ext. intros x. destruct (s_auth x); simpl; [reflexivity|apply andb_false_r]. }
    rewrite Hc. reflexivity.
  - assert (Ef' : find_sess (commit_part t id) id = None).
    { unfold find_sess, commit_part in *. simpl. now apply find_filter_none. }
    rewrite Ef'. reflexivity.
Qed.

(* ------------------------------------------------------------------ *)
(* C18 (5): at most one elected accepted session per peer              *)

Lemma candidates_NoDup t peer b :
  ids_unique t -> NoDup (map cid (candidates_for_peer t peer b)).
Proof.
  unfold ids_unique, candidates_for_peer. intros H. rewrite map_map. simpl.
  apply NoDup_map_filter. exact H.
Qed.

Theorem one_elected_acceptor t id id' s s' peer :
  ids_unique t -> t_this t <> peer ->
  find_sess t id = Some s -> find_sess t id' = Some s' ->
  s_peer s = Some peer -> s_peer s' = Some peer ->
  s_srv s = true ->
  is_elected t id = true -> is_elected t id' = true -> id = id'.
Proof.
  intros Hu Hn Hf Hf' Hp Hp' Hsrv He He'.
  unfold is_elected in He, He'. rewrite Hf in He. rewrite Hf' in He'.
  destruct (s_auth s) eqn:Ea; [|discriminate]. destruct (s_auth s') eqn:Ea'; [|discriminate].
  simpl in He, He'. rewrite Hp in He. rewrite Hp' in He'.
  set (cs := candidates_for_peer t peer true) in *.
  unfold elect in He, He'. rewrite existsb_map in He, He'.
  apply existsb_exists in He as [c [Hc Hce]], He' as [c' [Hc' Hce']].
  apply N.eqb_eq in Hce, Hce'.
  assert (Hcs : In c cs) by (eapply elect_c_incl; eauto).
  assert (Hsc : srv c = true).
  { unfold cs, candidates_for_peer in Hcs. apply in_map_iff in Hcs as [x [Hx Hin]].
    apply filter_In in Hin as [Hin _].
    assert (x = s).
    { eapply find_sess_unique; eauto. subst c. simpl in Hce. congruence. }
    subst x c. simpl. exact Hsrv. }
  pose proof (elect_srv_alone (t_this t) peer cs c Hn Hc Hsc (candidates_NoDup t peer true Hu)) as E.
  rewrite E in Hc'. destruct Hc' as [<-|[]]. congruence.
Qed.

(* ------------------------------------------------------------------ *)
(* the executable oracle is implied by the theorem (so running it on   *)
(* the model's own outputs can never raise an alarm)                   *)

Lemma existsb_eqb_in x l : existsb (N.eqb x) l = true <-> In x l.
Proof.
  rewrite existsb_exists. split.
  - intros [y [H E]]. apply N.eqb_eq in E. now subst.
  - intros H. exists x. split; [assumption|apply N.eqb_refl].
Qed.

Theorem check_C18_mirror_model na nb cs :
  na <> nb -> ids_ok cs ->
  check_C18_mirror (elect na nb (map view_a cs)) (elect nb na (map view_b cs)) cs = true.
Proof.
  intros Hn Hids. unfold check_C18_mirror. destruct cs as [|c0 cs0] eqn:Ecs; [reflexivity|].
  rewrite <- Ecs in *.
  assert (Hne : cs <> []) by (rewrite Ecs; discriminate).
  destruct Hids as [Hda Hdb].
  destruct (tie_resolution na nb cs Hn Hne (conj Hda Hdb)) as [c [Hc [[Ea Hb]|[Eb Ha]]]].
  - apply orb_true_iff. left. rewrite Ea.
    assert (Hpa : phys_a [id_a c] cs = [c]).
    { unfold phys_a. rewrite <- (filter_unique_key id_a cs c Hda Hc).
      apply filter_ext. intros x. simpl. rewrite orb_false_r. reflexivity. }
    rewrite Hpa. unfold subset_keys. cbn [length Nat.eqb andb forallb]. rewrite andb_true_r.
    apply existsb_eqb_in. unfold conn_key. apply in_map. unfold phys_b.
    apply filter_In. split; [assumption|]. apply existsb_eqb_in. exact Hb.
  - apply orb_true_iff. right. rewrite Eb.
    assert (Hpb : phys_b [id_b c] cs = [c]).
    { unfold phys_b. rewrite <- (filter_unique_key id_b cs c Hdb Hc).
      apply filter_ext. intros x. simpl. rewrite orb_false_r. reflexivity. }
    rewrite Hpb. unfold subset_keys. cbn [length Nat.eqb andb forallb]. rewrite andb_true_r.
    apply existsb_eqb_in. unfold conn_key. apply in_map. unfold phys_a.
    apply filter_In. split; [assumption|]. apply existsb_eqb_in. exact Ha.
Qed.
