(* C20/C19 — the byte pipe end to end: whatever batches the write task formed and however the
   transport fragments them, the session reader produces what it would produce on the plain
   concatenation of the frames' encodings, in the order they were handed to the writer. *)
From Coq Require Import List NArith.
From RV Require Import Cluster.Frame Cluster.FrameProofs Cluster.Writer.
Import ListNotations.

Theorem writer_reader_end_to_end :
  forall (max : N) (valid : list N -> bool) (frame : Type) (enc : frame -> list N) ls s chunks,
    Writer.run frame enc (Writer.init frame) ls = Some s -> Writer.dead frame s = false ->
    Writer.queue frame s = [] ->
    concat chunks = Writer.wire frame s ->
    Frame.run max valid chunks = Frame.run max valid [Writer.encs frame enc (Writer.sent frame ls)].
Proof.
  intros max valid frame enc ls s chunks H D Q Hc.
  apply fragmentation_run. rewrite Hc.
  eapply writer_drained_complete; eauto.
Qed.
