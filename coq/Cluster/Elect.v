(* Model of ractor_cluster/src/node.rs: elect_sessions and the NodeServerState
   candidate table (register_session, candidates_for_peer, check_candidate,
   check_session, commit_authenticated, is_elected, session removal).
   Definitions only; proofs are in ElectProofs.v. *)
From Coq Require Import List NArith Bool.
Import ListNotations.
Local Open Scope N_scope.

(* A candidate as seen by one node: the session actor's local pid, whether this
   node accepted the connection, and the non-zero connection nonce (None = the
   legacy zero nonce). Node names are modelled by their rank in the total order
   Rust's str::cmp induces (bytewise lexicographic). *)
Record cand := mkCand { cid : N; srv : bool; nonce : option N }.

Definition onat_eqb (a b : option N) : bool :=
  match a, b with
  | Some x, Some y => N.eqb x y
  | None, None => true
  | _, _ => false
  end.

Fixpoint min_list (l : list N) : option N :=
  match l with
  | [] => None
  | x :: t => match min_list t with None => Some x | Some m => Some (N.min x m) end
  end.

Fixpoint somes (l : list (option N)) : list N :=
  match l with
  | [] => []
  | Some x :: t => x :: somes t
  | None :: t => somes t
  end.

Definition step_dir (this peer : N) (cs : list cand) : list cand :=
  if existsb srv cs && existsb (fun c => negb (srv c)) cs then
    match N.compare peer this with
    | Lt => filter (fun c => Bool.eqb (srv c) false) cs
    | Gt => filter (fun c => Bool.eqb (srv c) true) cs
    | Eq => cs
    end
  else cs.

Definition step_nonce (cs : list cand) : list cand :=
  match min_list (somes (map nonce cs)) with
  | Some m => filter (fun c => onat_eqb (nonce c) (Some m)) cs
  | None => cs
  end.

Definition step_tie (cs : list cand) : list cand :=
  if (Nat.ltb 1 (length cs)) && forallb srv cs then
    match min_list (map cid cs) with
    | Some w => filter (fun c => N.eqb (cid c) w) cs
    | None => cs
    end
  else cs.

Definition elect_c (this peer : N) (cs : list cand) : list cand :=
  if Nat.leb (length cs) 1 then cs
  else step_tie (step_nonce (step_dir this peer cs)).

Definition elect (this peer : N) (cs : list cand) : list N :=
  map cid (elect_c this peer cs).

(* ---------- physical connections and the two endpoints' views ---------- *)

(* A physical connection between nodes A and B: who dialled, the nonce the
   initiator chose (0 = legacy), and the pid of the session actor at each end. *)
Record conn := mkConn { by_a : bool; cnonce : N; id_a : N; id_b : N }.

Definition nz (n : N) : option N := if N.eqb n 0 then None else Some n.

Definition view_a (c : conn) : cand := mkCand (id_a c) (negb (by_a c)) (nz (cnonce c)).
Definition view_b (c : conn) : cand := mkCand (id_b c) (by_a c) (nz (cnonce c)).

Definition elected_a (na nb : N) (cs : list conn) : list conn :=
  filter (fun c => existsb (N.eqb (id_a c)) (elect na nb (map view_a cs))) cs.
Definition elected_b (na nb : N) (cs : list conn) : list conn :=
  filter (fun c => existsb (N.eqb (id_b c)) (elect nb na (map view_b cs))) cs.

(* ---------- the node server's candidate table ---------- *)

Record sess := mkSess {
  s_id : N;              (* actor id of the session *)
  s_srv : bool;
  s_peer : option N;     (* claimed peer name, set by UpdateSession *)
  s_nonce : option N;    (* connection_ids entry (None also when absent) *)
  s_auth : bool          (* member of authenticated_sessions *)
}.

Record table := mkTable { t_this : N; t_sess : list sess }.

Definition find_sess (t : table) (id : N) : option sess :=
  find (fun s => N.eqb (s_id s) id) (t_sess t).

Definition open_session (t : table) (id : N) (is_srv : bool) : table :=
  if existsb (fun s => N.eqb (s_id s) id) (t_sess t) then t
  else mkTable (t_this t) (t_sess t ++ [mkSess id is_srv None None false]).

Definition register_session (t : table) (id peer conn_id : N) : table :=
  mkTable (t_this t)
    (map (fun s => if N.eqb (s_id s) id
                   then mkSess (s_id s) (s_srv s) (Some peer) (nz conn_id) (s_auth s)
                   else s) (t_sess t)).

Definition remove_session (t : table) (id : N) : table :=
  mkTable (t_this t) (filter (fun s => negb (N.eqb (s_id s) id)) (t_sess t)).

Definition cand_of (s : sess) : cand := mkCand (s_id s) (s_srv s) (s_nonce s).

Definition candidates_for_peer (t : table) (peer : N) (auth_only : bool) : list cand :=
  map cand_of
    (filter (fun s => onat_eqb (s_peer s) (Some peer) && (negb auth_only || s_auth s))
            (t_sess t)).

(* replies: 0 NoOtherConnection, 1 ThisConnectionContinues,
   2 OtherConnectionContinues, 3 DuplicateConnection *)
Definition check_candidate (t : table) (id : N) : N :=
  match find_sess t id with
  | None => 2
  | Some s =>
    match s_peer s with
    | None => 2
    | Some peer =>
      let cs := candidates_for_peer t peer true in
      let cs := if s_auth s then cs else cs ++ [cand_of s] in
      let had_comp := Nat.ltb 1 (length cs) in
      let survives := existsb (N.eqb id) (elect (t_this t) peer cs) in
      if survives then (if had_comp then 1 else 0) else 2
    end
  end.

Definition check_session (t : table) (peer conn_id : N) : N :=
  let matching :=
    filter (fun s => onat_eqb (s_peer s) (Some peer) && onat_eqb (s_nonce s) (nz conn_id))
           (t_sess t) in
  match matching with
  | [s] => check_candidate t (s_id s)
  | _ :: _ => 0
  | [] =>
    let existing := candidates_for_peer t peer true in
    match existing with
    | [] => 0
    | _ => if existsb srv existing then 3
           else if N.ltb peer (t_this t) then 1 else 2
    end
  end.

Definition set_auth (id : N) (v : bool) (s : sess) : sess :=
  if N.eqb (s_id s) id then mkSess (s_id s) (s_srv s) (s_peer s) (s_nonce s) v else s.

(* commit_authenticated: returns the new table, and (candidate_survives, losers);
   None when the session or its peer name is unknown (table unchanged). *)
Definition commit_authenticated (t : table) (id : N) : table * option (bool * list N) :=
  match find_sess t id with
  | None => (t, None)
  | Some s =>
    match s_peer s with
    | None => (t, None)
    | Some peer =>
      let t1 := mkTable (t_this t) (map (set_auth id true) (t_sess t)) in
      let elected := elect (t_this t) peer (candidates_for_peer t1 peer true) in
      let losers :=
        map s_id
          (filter (fun s' => s_auth s' && onat_eqb (s_peer s') (Some peer)
                             && negb (existsb (N.eqb (s_id s')) elected))
                  (t_sess t1)) in
      let t2 := mkTable (t_this t)
                  (map (fun s' => if existsb (N.eqb (s_id s')) losers
                                  then set_auth (s_id s') false s' else s')
                       (t_sess t1)) in
      (t2, Some (existsb (N.eqb id) elected, losers))
    end
  end.

Definition is_elected (t : table) (id : N) : bool :=
  match find_sess t id with
  | None => false
  | Some s =>
    if negb (s_auth s) then false else
    match s_peer s with
    | None => false
    | Some peer =>
      existsb (N.eqb id) (elect (t_this t) peer (candidates_for_peer t peer true))
    end
  end.

(* ---------- executable history interface (correspondence) ---------- *)

Inductive top :=
| TOpen (id : N) (is_srv : bool)
| TRegister (id peer conn_id : N)
| TCheckCand (id : N)
| TCheckSess (peer conn_id : N)
| TCommit (id : N)
| TIsElected (id : N)
| TRemove (id : N)
| TReady (id : N)    (* ConnectionReady: is a ready event published? *)
| TCommitH (id : N). (* the ConnectionAuthenticated handler: (authenticated event published?, sessions stopped) *)

Inductive tout :=
| OUnit
| ONum (n : N)
| OBool (b : bool)
| OCommit (r : option (bool * list N))
| OCommitH (published : bool) (stopped : list N).

Definition tstep (t : table) (o : top) : table * tout :=
  match o with
  | TOpen id b => (open_session t id b, OUnit)
  | TRegister id p c => (register_session t id p c, OUnit)
  | TCheckCand id => (t, ONum (check_candidate t id))
  | TCheckSess p c => (t, ONum (check_session t p c))
  | TCommit id => let '(t', r) := commit_authenticated t id in (t', OCommit r)
  | TIsElected id => (t, OBool (is_elected t id))
  | TRemove id => (remove_session t id, OUnit)
  | TReady id => (t, OBool (is_elected t id))
  | TCommitH id =>
    let '(t', r) := commit_authenticated t id in
    match r with
    | None => (t', OCommitH false [])
    | Some (surv, losers) => (t', OCommitH surv losers)
    end
  end.

Fixpoint trun (t : table) (ops : list top) : table * list tout :=
  match ops with
  | [] => (t, [])
  | o :: r => let '(t1, x) := tstep t o in
              let '(t2, xs) := trun t1 r in (t2, x :: xs)
  end.

Definition table_run (this : N) (ops : list top) : list tout :=
  snd (trun (mkTable this []) ops).

(* ---------- the property as an executable oracle ---------- *)

Fixpoint insert_sorted (x : N) (l : list N) : list N :=
  match l with
  | [] => [x]
  | y :: t => if N.leb x y then x :: l else y :: insert_sorted x t
  end.
Definition sortN (l : list N) : list N := fold_right insert_sorted [] l.

Fixpoint list_eqb (a b : list N) : bool :=
  match a, b with
  | [], [] => true
  | x :: a', y :: b' => N.eqb x y && list_eqb a' b'
  | _, _ => false
  end.

(* check_C18_mirror f na nb cs: [f this peer cands] is an election function
   (the model's or the implementation's, tabulated on the inputs needed).
   With distinct names: the connections node A keeps and those node B keeps
   are comparable; the accepting side keeps exactly one; and when all nonces
   are non-zero and pairwise distinct both keep the same single one. *)
Definition phys_a (ids : list N) (cs : list conn) : list conn :=
  filter (fun c => existsb (N.eqb (id_a c)) ids) cs.
Definition phys_b (ids : list N) (cs : list conn) : list conn :=
  filter (fun c => existsb (N.eqb (id_b c)) ids) cs.

Definition conn_key (c : conn) : N := id_a c.

Definition subset_keys (x y : list conn) : bool :=
  forallb (fun c => existsb (N.eqb (conn_key c)) (map conn_key y)) x.

Definition check_C18_mirror (ea eb : list N) (cs : list conn) : bool :=
  let pa := phys_a ea cs in
  let pb := phys_b eb cs in
  match cs with
  | [] => true
  | _ =>
    (* one side elected exactly one connection and the other side still holds it *)
    ((Nat.eqb (length pa) 1 && subset_keys pa pb)
     || (Nat.eqb (length pb) 1 && subset_keys pb pa))
  end.

Fixpoint nodupb (l : list N) : bool :=
  match l with
  | [] => true
  | x :: t => negb (existsb (N.eqb x) t) && nodupb t
  end.

Definition nonces_okb (cs : list conn) : bool :=
  forallb (fun c => negb (N.eqb (cnonce c) 0)) cs && nodupb (map cnonce cs).

Definition ids_okb (cs : list conn) : bool :=
  nodupb (map id_a cs) && nodupb (map id_b cs).

(* both ends keep exactly one connection, the same one *)
Definition check_C18_strict (ea eb : list N) (cs : list conn) : bool :=
  let pa := phys_a ea cs in
  let pb := phys_b eb cs in
  Nat.eqb (length ea) 1 && Nat.eqb (length eb) 1
  && Nat.eqb (length pa) 1 && Nat.eqb (length pb) 1 && subset_keys pa pb.

(* one generated case: the two endpoints' answers on the connection multiset in
   its given order (ea, eb) and in a permuted order (ea', eb') *)
Definition check_C18 (na nb : N) (ea ea' eb eb' : list N) (cs : list conn) : bool :=
  list_eqb (sortN ea) (sortN ea') && list_eqb (sortN eb) (sortN eb')
  && match cs with
     | [] => true
     | _ => (N.eqb na nb || check_C18_mirror ea eb cs)
            && (if nonces_okb cs then check_C18_strict ea eb cs else true)
     end.
