(* Proofs about the proxy (Part 1 of Remote.v) and about chains of FIFO stages (Part 2). *)
From Coq Require Import List NArith Bool Lia Sorted Arith PeanoNat.
From RV Require Import Cluster.Remote.
Import ListNotations.
Local Open Scope N_scope.

(* ------------------------------------------------------------------ *)
(* generic list facts                                                  *)

Lemma NoDup_map_filter {A B} (f : A -> B) (g : A -> bool) l :
  NoDup (map f l) -> NoDup (map f (filter g l)).
Proof.
  induction l as [|x t IH]; simpl; intros H; [constructor|].
  inversion H as [|? ? Hn Hd]; subst. destruct (g x); simpl; auto.
  constructor; auto. intros Hin. apply Hn.
  apply in_map_iff in Hin. destruct Hin as [y [Hy Hin]]. apply filter_In in Hin.
  apply in_map_iff. exists y. tauto.
Qed.

Lemma NoDup_snoc {A} (l : list A) x : NoDup l -> ~ In x l -> NoDup (l ++ [x]).
Proof.
  induction l as [|y t IH]; simpl; intros Hn Hx.
  - constructor; [tauto|constructor].
  - inversion Hn; subst. constructor.
    + intros Hin. apply in_app_or in Hin. destruct Hin as [?|[->|[]]]; tauto.
    + apply IH; tauto.
Qed.

Lemma pair_eq_dec (a b : N * N) : {a = b} + {a <> b}.
Proof. decide equality; apply N.eq_dec. Qed.

Lemma memN_In x l : memN x l = true <-> In x l.
Proof.
  unfold memN. rewrite existsb_exists. split.
  - intros [y [Hy He]]. apply N.eqb_eq in He. now subst.
  - intros H. exists x. split; auto. apply N.eqb_refl.
Qed.

Lemma memN_false x l : memN x l = false <-> ~ In x l.
Proof. rewrite <- memN_In. destruct (memN x l); split; congruence. Qed.

(* ------------------------------------------------------------------ *)
(* the proxy                                                           *)

Definition pinv (st : pst) : Prop :=
  NoDup (map fst (p_pend st)) /\ forall e, In e (p_pend st) -> fst e <= p_tag st.

Lemma pinv0 : pinv pst0.
Proof. split; simpl; [constructor|tauto]. Qed.

Lemma cleanup_tag c st : p_tag (cleanup c st) = p_tag st.
Proof. unfold cleanup. destruct (Nat.min _ _); reflexivity. Qed.

Lemma cleanup_pend c st :
  exists g, p_pend (cleanup c st) = filter g (p_pend st)
            /\ forall e, In e (p_pend st) -> g e = false -> c (snd e) = true.
Proof.
  unfold cleanup. destruct (Nat.min _ _) eqn:E.
  - exists (fun _ => true). simpl. split; [|discriminate].
    induction (p_pend st) as [|a l IH]; simpl; [reflexivity|now f_equal].
  - eexists. simpl. split; [reflexivity|].
    intros e _ H. apply negb_false_iff in H. apply andb_true_iff in H. tauto.
Qed.

Lemma cleanup_incl c st : incl (p_pend (cleanup c st)) (p_pend st).
Proof.
  destruct (cleanup_pend c st) as [g [E _]]. rewrite E. intros e H. apply filter_In in H. tauto.
Qed.

(* only requests whose caller is gone are reclaimed *)
Lemma cleanup_keeps_open c st e :
  In e (p_pend st) -> c (snd e) = false -> In e (p_pend (cleanup c st)).
Proof.
  intros Hin Hc. destruct (cleanup_pend c st) as [g [E H]]. rewrite E. apply filter_In.
  split; auto. destruct (g e) eqn:G; auto. rewrite (H e Hin G) in Hc. discriminate.
Qed.

Lemma cleanup_pinv c st : pinv st -> pinv (cleanup c st).
Proof.
  intros [Hn Hb]. destruct (cleanup_pend c st) as [g [E _]]. split.
  - rewrite E. now apply NoDup_map_filter.
  - intros e He. rewrite cleanup_tag. apply Hb. now apply cleanup_incl in He.
Qed.

Lemma find_tag_In t pend e : find_tag t pend = Some e -> In e pend /\ fst e = t.
Proof.
  unfold find_tag. intros H. apply find_some in H. destruct H as [H1 H2].
  apply N.eqb_eq in H2. tauto.
Qed.

Lemma find_tag_nodup t p pend :
  NoDup (map fst pend) -> In (t, p) pend -> find_tag t pend = Some (t, p).
Proof.
  unfold find_tag. induction pend as [|[t' p'] r IH]; simpl; intros Hn Hin; [tauto|].
  inversion Hn as [|? ? Hnot Hd]; subst.
  destruct (N.eqb_spec t' t) as [->|Hne].
  - destruct Hin as [Heq|Hin]; [now inversion Heq|].
    exfalso. apply Hnot. apply in_map_iff. exists (t, p). auto.
  - destruct Hin as [Heq|Hin]; [inversion Heq; congruence|]. auto.
Qed.

Lemma remove_tag_notin t pend : ~ In t (map fst (remove_tag t pend)).
Proof.
  unfold remove_tag. intros H. apply in_map_iff in H. destruct H as [e [He Hin]].
  apply filter_In in Hin. destruct Hin as [_ Hf]. apply negb_true_iff in Hf.
  apply N.eqb_neq in Hf. congruence.
Qed.

Lemma remove_tag_incl t pend : incl (remove_tag t pend) pend.
Proof. intros e H. apply filter_In in H. tauto. Qed.

(* everything one step can do *)
Ltac six := split; [|split; [|split; [|split; [|split]]]].

Lemma pstep_spec c ok st i st' o :
  pinv st -> pstep c ok st i = (st', o) ->
  pinv st'
  /\ p_tag st' = p_tag st + match i with PSend m _ => if m_call m then 1 else 0 | _ => 0 end
  /\ incl (p_pend st') (p_pend st ++ inserted_of i o)
  /\ (forall e, In e (inserted_of i o) -> fst e = p_tag st')
  /\ (forall e, In e (resolved_of i o) -> In e (p_pend st) /\ ~ In (fst e) (map fst (p_pend st')))
  /\ (forall e, In e (p_pend st) -> ~ In e (p_pend st') -> c (snd e) = true \/ In e (resolved_of i o)).
Proof.
  intros Hinv H. unfold pstep in H.
  pose proof (cleanup_pinv c st Hinv) as [Cn Cb].
  pose proof (cleanup_tag c st) as Ct.
  pose proof (cleanup_incl c st) as Ci.
  assert (Ck : forall e, In e (p_pend st) -> ~ In e (p_pend (cleanup c st)) -> c (snd e) = true).
  { intros e He Hn. destruct (c (snd e)) eqn:E; auto. exfalso. apply Hn.
    now apply cleanup_keeps_open. }
  remember (cleanup c st) as s eqn:Es. clear Es.
  unfold pinv.
  destruct i as [m port|t d].
  - destruct (m_call m) eqn:Em.
    + destruct ok; inversion H; subst; clear H; cbn [p_tag p_pend p_cur inserted_of resolved_of]; rewrite ?Em.
      * six.
        -- split.
           ++ rewrite map_app. simpl. apply NoDup_snoc; auto.
              intros Hin. apply in_map_iff in Hin. destruct Hin as [e [He Hin]].
              apply Cb in Hin. lia.
           ++ intros e He. apply in_app_or in He. destruct He as [He|[<-|[]]]; simpl; [|lia].
              apply Cb in He. lia.
        -- lia.
        -- intros e He. apply in_app_or in He. apply in_or_app.
           destruct He as [He|He]; [left; auto|right; auto].
        -- intros e [<-|[]]. reflexivity.
        -- intros e [].
        -- intros e He Hn. left. apply Ck; auto. intros Hc. apply Hn. apply in_or_app. now left.
      * six.
        -- split; auto. intros e He. apply Cb in He. lia.
        -- lia.
        -- intros e He. apply in_or_app. left. auto.
        -- intros e [].
        -- intros e [].
        -- intros e He Hn. left. auto.
    + inversion H; subst; clear H. cbn [p_tag p_pend p_cur inserted_of resolved_of]. rewrite ?Em.
      destruct ok; (six;
        [ split; auto | lia
        | intros e He; apply in_or_app; left; auto | intros e [] | intros e []
        | intros e He Hn; left; auto ]).
  - destruct (find_tag t (p_pend s)) as [[t' port]|] eqn:Ef.
    + inversion H; subst; clear H. cbn [p_tag p_pend p_cur inserted_of resolved_of].
      apply find_tag_In in Ef. simpl in Ef. destruct Ef as [Ein ->].
      six.
      * split; [now apply NoDup_map_filter|].
        intros e He. apply remove_tag_incl in He. apply Cb in He. lia.
      * lia.
      * intros e He. apply remove_tag_incl in He. apply in_or_app. left. auto.
      * intros e [].
      * intros e [<-|[]]. split; auto. apply remove_tag_notin.
      * intros e He Hn. destruct (in_dec pair_eq_dec e (p_pend s)) as [Hs|Hs].
        -- right. left.
           destruct e as [te pe]. destruct (N.eqb_spec te t) as [->|Hne].
           ++ f_equal. pose proof (find_tag_nodup t pe (p_pend s) Cn Hs) as F1.
              pose proof (find_tag_nodup t port (p_pend s) Cn Ein) as F2. congruence.
           ++ exfalso. apply Hn. unfold remove_tag. apply filter_In. split; auto.
              simpl. apply negb_true_iff. now apply N.eqb_neq.
        -- left. auto.
    + inversion H; subst; clear H. cbn [p_tag p_pend p_cur inserted_of resolved_of].
      six; [ split; auto | lia | intros e He; apply in_or_app; left; auto | intros e []
           | intros e [] | intros e He Hn; left; auto ].
Qed.

Lemma inserted_of_call i o e :
  In e (inserted_of i o) -> exists m port, i = PSend m port /\ m_call m = true.
Proof.
  destruct i as [m port|t d]; simpl; [|tauto].
  destruct o as [|[t m'|] [|]]; simpl; try tauto.
  destruct (m_call m) eqn:E; simpl; [|tauto]. intros _. eauto.
Qed.

Lemma inserted_of_shape i o : inserted_of i o = [] \/ exists e, inserted_of i o = [e].
Proof.
  destruct i as [m port|t d]; simpl; auto.
  destruct o as [|[t m'|] [|]]; simpl; auto. destruct (m_call m); eauto.
Qed.

Lemma resolved_of_shape i o : resolved_of i o = [] \/ exists e, resolved_of i o = [e].
Proof.
  destruct i as [m port|t d]; simpl; auto.
  destruct o as [|[t' m'|] [|]]; simpl; eauto.
Qed.

(* everything a history can do *)
Lemma prun_spec : forall evs st st' outs, pinv st -> prun st evs = (st', outs) ->
  pinv st'
  /\ p_tag st' = p_tag st + ncalls evs
  /\ incl (p_pend st') (p_pend st ++ inserted evs outs)
  /\ (forall e, In e (inserted evs outs) -> p_tag st < fst e <= p_tag st')
  /\ StronglySorted N.lt (map fst (inserted evs outs))
  /\ (forall e, In e (resolved evs outs) -> In e (p_pend st ++ inserted evs outs))
  /\ NoDup (map fst (resolved evs outs))
  /\ (forall e, In e (resolved evs outs) -> In (fst e) (map fst (p_pend st)) \/ p_tag st < fst e).
Proof.
  induction evs as [|[[ab ok] i] r IH]; intros st st' outs Hinv H; simpl in H.
  - inversion H; subst. simpl. rewrite app_nil_r.
    split; [exact Hinv|]. split; [lia|]. split; [apply incl_refl|].
    repeat split; try tauto; constructor.
  - destruct (pstep (fun p => memN p ab) ok st i) as [st1 o] eqn:E1.
    destruct (prun st1 r) as [st2 os] eqn:E2. inversion H; subst; clear H.
    destruct (pstep_spec _ _ _ _ _ _ Hinv E1) as (S1 & S2 & S3 & S4 & S5 & _).
    destruct (IH _ _ _ S1 E2) as (I1 & I2 & I3 & I4 & I5 & I6 & I7 & I8).
    assert (Hle : p_tag st <= p_tag st1) by (rewrite S2; lia).
    assert (Hins : forall e, In e (inserted_of i o) -> fst e = p_tag st1 /\ p_tag st1 = p_tag st + 1).
    { intros e He. split; [now apply S4|].
      destruct (inserted_of_call _ _ _ He) as (m & port & -> & Em). rewrite S2, Em. reflexivity. }
    cbn [inserted resolved].
    split; [exact I1|]. split.
    { rewrite I2, S2. simpl. destruct i as [m port|]; [destruct (m_call m)|]; lia. }
    split.
    { intros e He. apply I3 in He. rewrite app_assoc. apply in_app_or in He. apply in_or_app.
      destruct He as [He|He]; [left; now apply S3|now right]. }
    split.
    { intros e He. apply in_app_or in He. destruct He as [He|He].
      - destruct (Hins e He) as [E1' E2']. lia.
      - apply I4 in He. lia. }
    split.
    { rewrite map_app. destruct (inserted_of_shape i o) as [->|[e Ee]]; [exact I5|].
      rewrite Ee. simpl. constructor; [exact I5|].
      apply Forall_forall. intros t Ht. apply in_map_iff in Ht. destruct Ht as [e' [<- He']].
      apply I4 in He'. destruct (Hins e) as [E1' _]; [rewrite Ee; now left|]. lia. }
    split.
    { intros e He. apply in_app_or in He. rewrite app_assoc. apply in_or_app.
      destruct He as [He|He].
      - left. apply in_or_app. left. now apply S5.
      - apply I6 in He. apply in_app_or in He. destruct He as [He|He]; [left; now apply S3|now right]. }
    split.
    { rewrite map_app. destruct (resolved_of_shape i o) as [->|[e Ee]]; [exact I7|].
      rewrite Ee. simpl. constructor; [|exact I7].
      destruct (S5 e) as [Hp Hn]; [rewrite Ee; now left|].
      intros Hin. apply in_map_iff in Hin. destruct Hin as [e' [Hf He']].
      destruct (I8 e' He') as [Hc|Hc].
      - rewrite Hf in Hc. contradiction.
      - destruct Hinv as [_ Hb]. apply Hb in Hp. rewrite Hf in Hc. lia. }
    intros e He. apply in_app_or in He. destruct He as [He|He].
    + left. apply in_map. now apply S5.
    + destruct (I8 e He) as [Hc|Hc]; [|right; lia].
      apply in_map_iff in Hc. destruct Hc as [e' [Hf He']]. apply S3 in He'.
      apply in_app_or in He'. destruct He' as [He'|He'].
      * left. rewrite <- Hf. now apply in_map.
      * right. destruct (Hins e' He') as [E1' E2']. rewrite <- Hf, E1', E2'. lia.
Qed.

Lemma ssorted_nodup l : StronglySorted N.lt l -> NoDup l.
Proof.
  induction 1 as [|a l _ IH Hf]; constructor; auto.
  intros Hin. rewrite Forall_forall in Hf. apply Hf in Hin. lia.
Qed.

(* ---- the two proxy-level theorems, from the initial proxy state ---- *)

(* tags handed out over any history are strictly increasing (so pairwise distinct), and the
   counter equals the number of calls so far: below 2^64 calls it is the code's u64 *)
Theorem proxy_tags_fresh : forall evs st outs,
  prun pst0 evs = (st, outs) ->
  StronglySorted N.lt (map fst (inserted evs outs))
  /\ NoDup (map fst (inserted evs outs))
  /\ p_tag st = ncalls evs
  /\ forall e, In e (inserted evs outs) -> 0 < fst e <= ncalls evs.
Proof.
  intros evs st outs H. destruct (prun_spec _ _ _ _ pinv0 H) as (_ & I2 & _ & I4 & I5 & _).
  simpl in I2. repeat split; auto.
  - now apply ssorted_nodup.
  - apply I4 in H0. simpl in H0. lia.
  - apply I4 in H0. lia.
Qed.

(* a reply with tag t resolves the port that was inserted under t — which is the only port ever
   inserted under t — and every inserted request is resolved at most once *)
Theorem proxy_reply_correlation : forall evs st outs t p,
  prun pst0 evs = (st, outs) ->
  In (t, p) (resolved evs outs) ->
  In (t, p) (inserted evs outs)
  /\ (forall p', In (t, p') (inserted evs outs) -> p' = p)
  /\ NoDup (map fst (resolved evs outs)).
Proof.
  intros evs st outs t p H Hr. destruct (prun_spec _ _ _ _ pinv0 H) as (_ & _ & _ & _ & I5 & I6 & I7 & _).
  apply I6 in Hr. simpl in Hr. split; [exact Hr|]. split; [|exact I7].
  intros p' Hp'. apply ssorted_nodup in I5.
  revert I5 Hr Hp'. generalize (inserted evs outs). induction l as [|[t0 p0] l IH]; simpl; [tauto|].
  intros Hn. inversion Hn as [|? ? Hnot Hd]; subst.
  intros [E1|H1] [E2|H2].
  - congruence.
  - inversion E1; subst. exfalso. apply Hnot. apply in_map_iff. exists (t, p'). auto.
  - inversion E2; subst. exfalso. apply Hnot. apply in_map_iff. exists (t, p). auto.
  - auto.
Qed.

(* a request whose caller is still there is not reclaimed: the reply finds it *)
Theorem proxy_reply_finds_open : forall c ok st t p d,
  pinv st -> In (t, p) (p_pend st) -> c p = false ->
  snd (pstep c ok st (PReply t d)) = [OResolve p d].
Proof.
  intros c ok st t p d Hinv Hin Hc. unfold pstep.
  pose proof (cleanup_pinv c st Hinv) as [Cn _].
  pose proof (cleanup_keeps_open c st (t, p) Hin Hc) as Hk.
  rewrite (find_tag_nodup t p _ Cn Hk). reflexivity.
Qed.

(* ------------------------------------------------------------------ *)
(* chains of FIFO stages behave like one FIFO queue                     *)

Section ChainFacts.
  Context {A : Type}.
  Implicit Types l : list (list A).

  Lemma flat_push x l : flat (push x l) = flat l ++ [x].
  Proof. destruct l as [|q r]; simpl; [reflexivity|]. now rewrite app_assoc. Qed.

  Lemma flat_hop i l : flat (hop i l) = flat l.
  Proof.
    revert l. induction i as [|i IH]; intros l.
    - destruct l as [|[|x q] [|q' r]]; simpl; try reflexivity.
      rewrite <- !app_assoc. reflexivity.
    - destruct l as [|q r]; simpl; [reflexivity|]. now rewrite IH.
  Qed.

  Lemma flat_pop l x l' : pop_last l = Some (x, l') -> flat l = x :: flat l'.
  Proof.
    revert x l'. induction l as [|q r IH]; intros x l' H; simpl in H; [discriminate|].
    destruct r as [|q2 r2].
    - destruct q as [|y q']; inversion H; subst. reflexivity.
    - destruct (pop_last (q2 :: r2)) as [[y r']|] eqn:E; inversion H; subst.
      change (flat (q :: q2 :: r2)) with (flat (q2 :: r2) ++ q).
      rewrite (IH _ _ eq_refl). reflexivity.
  Qed.

  Lemma flat_cut k l : exists rest, flat l = flat (cut k l) ++ rest.
  Proof.
    revert l. induction k as [|k IH]; intros l.
    - exists []. destruct l; simpl; rewrite ?app_nil_r; reflexivity.
    - destruct l as [|q r]; simpl; [now exists []|].
      destruct (IH r) as [rest E]. exists (rest ++ q). rewrite app_nil_r, E, app_assoc. reflexivity.
  Qed.

  Lemma flat_empty (l : list (list A)) : flat (map (fun _ => @nil A) l) = [].
  Proof. induction l as [|q r IH]; simpl; [reflexivity|]. now rewrite IH. Qed.

  Lemma flat_repeat n : flat (repeat ([] : list A) n) = [].
  Proof. induction n as [|n IH]; simpl; [reflexivity|]. now rewrite IH. Qed.
End ChainFacts.

(* ------------------------------------------------------------------ *)
(* subsequences                                                         *)

Lemma subseq_refl {A} (l : list A) : subseq l l.
Proof. induction l; constructor; auto. Qed.

Lemma subseq_trans {A} (a b c : list A) : subseq a b -> subseq b c -> subseq a c.
Proof.
  intros H1 H2. revert a H1. induction H2 as [l|x l l' _ IH|x l l' _ IH]; intros a H1.
  - inversion H1; subst. constructor.
  - inversion H1; subst; constructor; auto.
  - constructor. auto.
Qed.

Lemma subseq_app {A} (a a' b b' : list A) : subseq a a' -> subseq b b' -> subseq (a ++ b) (a' ++ b').
Proof.
  intros H1 H2. induction H1 as [l|x l l' _ IH|x l l' _ IH]; simpl.
  - induction l; simpl; [exact H2|constructor; auto].
  - constructor; auto.
  - constructor; auto.
Qed.

Lemma subseq_app_l {A} (a b : list A) : subseq a (a ++ b).
Proof. rewrite <- (app_nil_r a) at 1. apply subseq_app; [apply subseq_refl|constructor]. Qed.

Lemma subseq_app_r {A} (a b : list A) : subseq b (a ++ b).
Proof. change b with ([] ++ b) at 1. apply subseq_app; [constructor|apply subseq_refl]. Qed.

Lemma subseq_filter {A} (f : A -> bool) (a b : list A) : subseq a b -> subseq (filter f a) (filter f b).
Proof.
  induction 1 as [l|x l l' _ IH|x l l' _ IH]; simpl.
  - constructor.
  - destruct (f x); [constructor|]; auto.
  - destruct (f x); [constructor|]; auto.
Qed.

Lemma subseq_snoc {A} (a b : list A) x : subseq a b -> subseq (a ++ [x]) (b ++ [x]).
Proof. intros H. apply subseq_app; [exact H|apply subseq_refl]. Qed.

(* ------------------------------------------------------------------ *)
(* a byte pipe cut at ANY byte offset delivers a prefix of the frames written into it *)

Section BytePipeFacts.
  Context {F : Type}.
  Variable enc : F -> list N.
  Variable dec : list N -> option (F * list N).
  (* the encoding is self-delimiting, and an incomplete frame cannot be read *)
  Hypothesis dec_enc : forall f rest, dec (enc f ++ rest) = Some (f, rest).
  Hypothesis dec_partial : forall f bs c tl, enc f = bs ++ c :: tl -> dec bs = None.
  Hypothesis dec_nil : dec [] = None.

  Lemma enc_nonempty f : enc f <> [].
  Proof.
    intros E. pose proof (dec_enc f []) as H. rewrite E in H. simpl in H. congruence.
  Qed.

  Theorem cut_at_any_byte : forall fs n fuel,
    (length (firstn n (concat (map enc fs))) <= fuel)%nat ->
    exists k, read_all dec fuel (firstn n (concat (map enc fs))) = firstn k fs.
  Proof.
    induction fs as [|f r IH]; intros n fuel Hf.
    - exists 0%nat. simpl. rewrite firstn_nil. destruct fuel; simpl; [reflexivity|]. now rewrite dec_nil.
    - cbn [map concat] in *. set (B := concat (map enc r)) in *.
      destruct (Nat.lt_ge_cases n (length (enc f))) as [Hlt|Hge].
      + exists 0%nat. simpl.
        assert (E1 : firstn n (enc f ++ B) = firstn n (enc f)).
        { rewrite firstn_app. replace (n - length (enc f))%nat with 0%nat by lia. simpl. apply app_nil_r. }
        rewrite E1. destruct fuel; [reflexivity|]. simpl.
        assert (Hs : skipn n (enc f) <> []).
        { intros E. apply (f_equal (@length N)) in E. rewrite skipn_length in E. simpl in E. lia. }
        destruct (skipn n (enc f)) as [|c tl] eqn:Es; [congruence|].
        rewrite (dec_partial f (firstn n (enc f)) c tl); [reflexivity|].
        rewrite <- Es. symmetry. apply firstn_skipn.
      + assert (E1 : firstn n (enc f ++ B) = enc f ++ firstn (n - length (enc f)) B).
        { rewrite firstn_app. rewrite firstn_all2 by lia. reflexivity. }
        rewrite E1 in *. rewrite app_length in Hf.
        pose proof (enc_nonempty f) as Hne.
        assert (1 <= length (enc f))%nat by (destruct (enc f); [congruence|simpl; lia]).
        destruct fuel as [|fuel']; [lia|]. simpl. rewrite dec_enc.
        destruct (IH (n - length (enc f))%nat fuel') as [k Hk]; [fold B; lia|].
        exists (S k). simpl. fold B in Hk. now rewrite Hk.
  Qed.
End BytePipeFacts.

(* ------------------------------------------------------------------ *)
(* the unit-level oracle accepts every history of the model proxy       *)

Lemma sorted_ltb_of_ssorted l : StronglySorted N.lt l -> sorted_ltb l = true.
Proof.
  induction 1 as [|a l Hs IH Hf]; [reflexivity|].
  destruct l as [|b t]; [reflexivity|].
  change (sorted_ltb (a :: b :: t)) with (N.ltb a b && sorted_ltb (b :: t)). rewrite IH.
  inversion Hf as [|? ? Hab ?]; subst. apply N.ltb_lt in Hab. now rewrite Hab.
Qed.

Lemma nodupN_of_NoDup l : NoDup l -> nodupN l = true.
Proof.
  induction 1 as [|a l Hn Hd IH]; [reflexivity|]. simpl. rewrite IH.
  apply memN_false in Hn. now rewrite Hn.
Qed.

Theorem proxy_oracle_sound : forall evs st outs,
  prun pst0 evs = (st, outs) -> check_C20_proxy evs outs = true.
Proof.
  intros evs st outs H. destruct (prun_spec _ _ _ _ pinv0 H) as (_ & _ & _ & _ & I5 & I6 & I7 & _).
  unfold check_C20_proxy. rewrite (sorted_ltb_of_ssorted _ I5), (nodupN_of_NoDup _ I7).
  rewrite andb_true_r. simpl. apply forallb_forall. intros r Hr. apply I6 in Hr. simpl in Hr.
  apply existsb_exists. exists r. split; [exact Hr|]. now rewrite !N.eqb_refl.
Qed.
