(* GetSessions (node.rs, arm GetSessions) on C18's table model Cluster/Elect.v:
   the sessions it lists are those in authenticated_sessions.  Definitions only. *)
From Coq Require Import List NArith Bool.
From RV Require Import Cluster.Elect.
Import ListNotations.
Local Open Scope N_scope.

(* the actor ids GetSessions reports *)
Definition listed (t : table) : list N := map s_id (filter s_auth (t_sess t)).

(* the sessions for which ConnectionAuthenticated was received in a history *)
Definition committed (ops : list top) : list N :=
  flat_map (fun o => match o with TCommit id => [id] | TCommitH id => [id] | _ => [] end) ops.
