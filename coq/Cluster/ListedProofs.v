From Coq Require Import List NArith Bool.
From RV Require Import Cluster.Elect Cluster.Listed.
Import ListNotations.
Local Open Scope N_scope.

Definition auth_in (t : table) (c : list N) : Prop :=
  forall s, In s (t_sess t) -> s_auth s = true -> In (s_id s) c.

Lemma set_auth_id : forall id v s, s_id (set_auth id v s) = s_id s.
Proof. intros id v s; unfold set_auth; destruct (N.eqb (s_id s) id); reflexivity. Qed.

Lemma set_auth_self_false : forall s, s_auth (set_auth (s_id s) false s) = false.
Proof. intros s; unfold set_auth; rewrite N.eqb_refl; reflexivity. Qed.

Lemma commit_auth_in : forall t id c,
  auth_in t c -> auth_in (fst (commit_authenticated t id)) (c ++ [id]).
Proof.
  intros t id c H. unfold commit_authenticated.
  assert (Hmono : auth_in t (c ++ [id])).
  { intros s Hs Ha. apply in_or_app; left; auto. }
  destruct (find_sess t id) as [s0|]; [|exact Hmono].
  destruct (s_peer s0) as [peer|]; [|exact Hmono].
  cbv zeta. simpl fst.
  intros s Hs Ha. simpl in Hs.
  apply in_map_iff in Hs. destruct Hs as [s1 [Hs1 Hin1]].
  apply in_map_iff in Hin1. destruct Hin1 as [s2 [Hs2 Hin2]].
  destruct (existsb _ _) in Hs1.
  - subst s. rewrite set_auth_self_false in Ha. discriminate.
  - subst s s1. rewrite set_auth_id. unfold set_auth in Ha.
    destruct (N.eqb (s_id s2) id) eqn:E.
    + apply N.eqb_eq in E. rewrite E. apply in_or_app; right; left; reflexivity.
    + apply in_or_app; left. apply H; auto.
Qed.

Lemma tstep_auth_in : forall t o c,
  auth_in t c -> auth_in (fst (tstep t o)) (c ++ committed [o]).
Proof.
  intros t o c H.
  assert (Hmono : forall l, auth_in t (c ++ l)).
  { intros l s Hs Ha. apply in_or_app; left; auto. }
  destruct o; simpl; try apply Hmono.
  - (* TOpen *) unfold open_session. destruct (existsb _ _); [apply Hmono|].
    intros s Hs Ha. simpl in Hs. apply in_app_or in Hs. destruct Hs as [Hs|[Hs|[]]].
    + apply in_or_app; left; auto.
    + subst s; discriminate.
  - (* TRegister *) intros s Hs Ha. simpl in Hs. apply in_map_iff in Hs.
    destruct Hs as [s1 [Hs1 Hin1]]. rewrite app_nil_r.
    destruct (N.eqb (s_id s1) id); subst s; simpl in *; apply H; auto.
  - (* TCommit *)
    pose proof (commit_auth_in t id c H) as C.
    destruct (commit_authenticated t id) as [t' r]; exact C.
  - (* TRemove *) intros s Hs Ha. simpl in Hs. apply filter_In in Hs. destruct Hs as [Hs _].
    apply in_or_app; left; auto.
  - (* TCommitH: the handler form of TCommit *)
    pose proof (commit_auth_in t id c H) as C.
    destruct (commit_authenticated t id) as [t' r]. destruct r as [[sv ls]|]; exact C.
Qed.

Lemma trun_cons : forall t o r, fst (trun t (o :: r)) = fst (trun (fst (tstep t o)) r).
Proof.
  intros t o r; simpl. destruct (tstep t o) as [t1 x]; simpl.
  destruct (trun t1 r) as [t2 xs]; reflexivity.
Qed.

Lemma trun_auth_in : forall ops t c,
  auth_in t c -> auth_in (fst (trun t ops)) (c ++ committed ops).
Proof.
  induction ops as [|o r IH]; intros t c H.
  - simpl. rewrite app_nil_r; exact H.
  - rewrite trun_cons.
    assert (E : committed (o :: r) = committed [o] ++ committed r).
    { unfold committed; simpl. rewrite app_nil_r. reflexivity. }
    rewrite E, app_assoc. apply IH. apply tstep_auth_in; exact H.
Qed.

(* GetSessions lists a session only if the node server received ConnectionAuthenticated
   for it earlier in the history (which the session sends only on entering Ok). *)
Theorem listed_needs_commit : forall this ops id,
  In id (listed (fst (trun (mkTable this []) ops))) -> In id (committed ops).
Proof.
  intros this ops id H. unfold listed in H. apply in_map_iff in H.
  destruct H as [s [Hid Hs]]. apply filter_In in Hs. destruct Hs as [Hin Ha].
  assert (A : auth_in (mkTable this []) []) by (intros s0 []).
  pose proof (trun_auth_in ops _ _ A s Hin Ha) as R. simpl in R. subst id; exact R.
Qed.
