(* Completeness of replies in the two-node transition system: as long as no fault hit the
   target, a call whose caller is still there and which the real actor answers is always
   somewhere on its way (proxy mailbox, forward chain, target mailbox, reply task, backward chain,
   proxy mailbox again) with its pending entry in place, or its port has been resolved. Hence at
   quiescence the port HAS been resolved with the actor's answer. *)
From Coq Require Import List NArith Bool Lia Sorted.
From RV Require Import Cluster.Remote Cluster.RemoteProofs Cluster.RemoteNetProofs.
Import ListNotations.
Local Open Scope N_scope.

Section Reply.
  Variable resp : N -> msg -> option (list N).

  Definition stage (st : sys) (pid : N) (m : msg) (port : N) (d : list N) : Prop :=
    In port (aband st)
    \/ In (ISend m port) (x_mbox (px st pid))
    \/ (exists tag, In (tag, port) (p_pend (x_st (px st pid)))
                    /\ (In (FMsg pid tag m port) (flat (fwd st))
                        \/ In (TMsg tag m port) (t_mbox (tg st pid))))
    \/ (exists tag, In (tag, port) (p_pend (x_st (px st pid)))
                    /\ (In (FReply pid tag d port) (pool st ++ flat (bwd st))
                        \/ In (IReply tag d port) (x_mbox (px st pid))))
    \/ In (port, d) (res st).

  Definition invR (st : sys) : Prop :=
    forall pid m port d,
      In (pid, m, port) (calls st) -> m_call m = true -> resp pid m = Some d ->
      lossy st pid = false -> stage st pid m port d.

  (* the stage of a call survives any change that only adds to the places it may be in *)
  Lemma stage_mono st st' pid m port d :
    incl (aband st) (aband st') ->
    incl (x_mbox (px st pid)) (x_mbox (px st' pid)) ->
    incl (p_pend (x_st (px st pid))) (p_pend (x_st (px st' pid))) ->
    incl (flat (fwd st)) (flat (fwd st')) ->
    incl (t_mbox (tg st pid)) (t_mbox (tg st' pid)) ->
    incl (pool st ++ flat (bwd st)) (pool st' ++ flat (bwd st')) ->
    incl (res st) (res st') ->
    stage st pid m port d -> stage st' pid m port d.
  Proof.
    intros Ha Hm Hp Hf Ht Hb Hr [H|[H|[(tag & H1 & H2)|[(tag & H1 & H2)|H]]]].
    - left. auto.
    - right. left. auto.
    - right. right. left. exists tag. split; auto. destruct H2; [left|right]; auto.
    - right. right. right. left. exists tag. split; auto. destruct H2; [left|right]; auto.
    - right. right. right. right. auto.
  Qed.

  (* calls are made through proxies that have been alive; without a fault they still are *)
  Definition invK (st : sys) : Prop :=
    (forall pid m port, In (pid, m, port) (calls st) -> x_was (px st pid) = true)
    /\ (forall pid, lossy st pid = false -> x_was (px st pid) = true -> x_alive (px st pid) = true).

  Lemma invK_init nf nb : invK (init nf nb).
  Proof. split; simpl; [intros ? ? ? []|discriminate]. Qed.

  Lemma invK_step st l : invL st -> invK st -> invK (step resp st l).
  Proof.
    intros [(Wp & _ & _) _] K. pose proof K as [K1 K2]. destruct l; simpl; try exact K.
    - (* send *)
      unfold do_send. destruct (x_alive (px st pid) && _) eqn:E; [|exact K].
      apply andb_true_iff in E as [Ea _]. destruct (Wp pid) as [_ Wa].
      split; cbn [px calls lossy].
      + intros q m' port' Hc. upd_cases' pid q; cbn [x_was].
        * now apply Wa.
        * destruct (m_call m); [|eauto]. apply in_app_or in Hc. destruct Hc as [Hc|[E|[]]]; [eauto|].
          inversion E; subst. congruence.
      + intros q Hl Hw. upd_cases' pid q; cbn [x_was x_alive] in *; auto.
    - (* proxy *)
      unfold do_proxy. destruct (x_alive (px st pid)) eqn:Ea; [|exact K].
      destruct (x_mbox (px st pid)) as [|it rest]; [exact K|]. destruct (pstep _ _ _ _) as [ps outs].
      split; cbn [px calls lossy].
      + intros q m' port' Hc. upd_cases' pid q; cbn [x_was]; eauto.
      + intros q Hl Hw. upd_cases' pid q; cbn [x_was x_alive] in *; auto.
        apply K2; auto. destruct it; [destruct outs|]; auto. rewrite upd_other in Hl by congruence. exact Hl.
    - (* deliverf *)
      unfold do_deliverf. destruct (pop_last (fwd st)) as [[f fwd']|]; [|exact K].
      destruct f; try exact K. destruct (t_alive (tg st to)); [exact K|].
      split; cbn [px calls lossy]; auto. intros q Hl Hw. apply K2; auto.
      upd_cases' to q; [discriminate|exact Hl].
    - (* target *)
      unfold do_target. destruct (t_alive (tg st pid)); [|exact K].
      destruct (t_mbox (tg st pid)) as [|[tag m port] rest]; exact K.
    - unfold do_replytask. destruct (nth_error (pool st) i); exact K.
    - unfold do_ctl. destruct (ctl st); exact K.
    - (* deliverb *)
      unfold do_deliverb. destruct (up st); [|exact K].
      destruct (pop_last (bwd st)) as [[f bwd']|]; [|exact K].
      split; cbn [px calls lossy].
      + intros q m' port' Hc. specialize (K1 q m' port' Hc).
        destruct f as [to tag m port|to tag d port|p|p|g p|g p]; simpl; auto.
        * destruct (x_alive (px st to)); auto. upd_cases' to q; cbn [x_was]; auto.
        * upd_cases' p q; auto. unfold get_or_spawn. destruct (x_alive (px st q)); auto.
        * destruct (x_alive (px st p)); auto. upd_cases' p q; auto.
        * upd_cases' p q; auto.
        * destruct (x_alive (px st p)); auto. upd_cases' p q; cbn [x_was]; auto.
      + intros q Hl Hw. destruct (Wp q) as [_ Wa].
        destruct f as [to tag m port|to tag d port|p|p|g p|g p]; simpl in *; auto.
        * destruct (x_alive (px st to)) eqn:Ea; auto. upd_cases' to q; cbn [x_was x_alive] in *; auto.
        * upd_cases' p q; auto. unfold get_or_spawn in *. destruct (x_alive (px st q)) eqn:Ea; auto.
        * destruct (x_alive (px st p)) eqn:Ea; auto.
          upd_cases' p q; [discriminate|auto].
        * upd_cases' p q; auto.
        * destruct (x_alive (px st p)) eqn:Ea; auto. upd_cases' p q; cbn [x_was x_alive] in *; auto.
    - unfold do_spawn. destruct (t_used (tg st pid)); exact K.
    - (* exit *)
      unfold do_exit. destruct (t_alive (tg st pid)); [|exact K].
      split; cbn [px calls lossy set_y]; auto. intros q Hl Hw. apply K2; auto.
      upd_cases' pid q; [discriminate|exact Hl].
    - unfold do_join. destruct (t_alive (tg st pid)); exact K.
    - unfold do_leave. destruct (t_alive (tg st pid)); exact K.
    - (* close *)
      split; cbn [px calls lossy do_close]; [|discriminate].
      intros q m' port' Hc. rewrite (K1 q m' port' Hc). reflexivity.
  Qed.
End Reply.

Section Reply2.
  Variable resp : N -> msg -> option (list N).

  Lemma in_remove_nth_or {A} i (l : list A) x y :
    nth_error l i = Some y -> In x l -> x = y \/ In x (remove_nth i l).
  Proof.
    revert l. induction i as [|i IH]; intros [|z r] Hn Hx; simpl in *; try discriminate.
    - inversion Hn; subst. destruct Hx; auto.
    - destruct Hx as [->|Hx]; [right; now left|]. destruct (IH r Hn Hx); auto.
  Qed.

  Ltac refl_incl := try apply incl_refl.

  Lemma invR_send st pid m port : invL st -> invR resp st -> invR resp (do_send st pid m port).
  Proof.
    intros [(Wp & _ & _) _] R. unfold do_send.
    destruct (x_alive (px st pid) && _) eqn:E; [|exact R].
    intros q m0 port0 d0 Hc Hm Hr Hl. cbn [calls lossy] in *.
    assert (Hold : In (q, m0, port0) (calls st) -> stage (mkSys (upd (px st) pid
              (mkPx true (x_was (px st pid)) (x_mbox (px st pid) ++ [ISend m port]) (x_st (px st pid)) (x_groups (px st pid))))
              (fwd st) (bwd st) (ctl st) (pool st) (tg st) (up st) (aband st)
              (upd (sent st) pid (sent st pid ++ [m])) (dlv st) (ins st)
              (if m_call m then calls st ++ [(pid, m, port)] else calls st) (res st) (lossy st)) q m0 port0 d0).
    { intros Hc'. eapply stage_mono; [..|apply (R q m0 port0 d0 Hc' Hm Hr Hl)]; cbn [px fwd bwd pool tg aband res]; refl_incl.
      - upd_cases' pid q; cbn [x_mbox]; [apply incl_appl|]; apply incl_refl.
      - upd_cases' pid q; cbn [x_st]; apply incl_refl. }
    destruct (m_call m) eqn:Emc; [|auto].
    apply in_app_or in Hc. destruct Hc as [Hc|[E'|[]]]; [auto|].
    inversion E'; subst. right. left. cbn [px]. rewrite upd_same. cbn [x_mbox].
    apply in_or_app. right. now left.
  Qed.

  Lemma invR_simple st st' :
    calls st' = calls st -> (forall q, lossy st' q = false -> lossy st q = false) ->
    (forall q, incl (x_mbox (px st q)) (x_mbox (px st' q))
               /\ incl (p_pend (x_st (px st q))) (p_pend (x_st (px st' q)))
               /\ incl (t_mbox (tg st q)) (t_mbox (tg st' q))) ->
    incl (aband st) (aband st') -> incl (flat (fwd st)) (flat (fwd st')) ->
    incl (pool st ++ flat (bwd st)) (pool st' ++ flat (bwd st')) -> incl (res st) (res st') ->
    invR resp st -> invR resp st'.
  Proof.
    intros Ec Hlz Hq Ha Hf Hb Hr R q m port d Hc Hm Hrs Hl. rewrite Ec in Hc.
    destruct (Hq q) as (H1 & H2 & H3).
    eapply stage_mono; eauto.
  Qed.

  Ltac stage_cases H :=
    destruct H as [H|[H|[(tag0 & Hp & H)|[(tag0 & Hp & H)|H]]]].
  Ltac st_a := left.
  Ltac st_b := right; left.
  Ltac st_e := right; right; right; right.

  Lemma invR_deliverf st : invR resp st -> invR resp (do_deliverf st).
  Proof.
    intros R. unfold do_deliverf. destruct (pop_last (fwd st)) as [[f fwd']|] eqn:Ep; [|exact R].
    apply flat_pop in Ep.
    assert (Hgen : forall lz' tg',
               (forall q, lz' q = false -> lossy st q = false) ->
               (forall q, incl (t_mbox (tg st q)) (t_mbox (tg' q))) ->
               (forall q tag0 m0 port0, lz' q = false -> f = FMsg q tag0 m0 port0 -> In (TMsg tag0 m0 port0) (t_mbox (tg' q))) ->
               invR resp (mkSys (px st) fwd' (bwd st) (ctl st) (pool st) tg' (up st) (aband st)
                           (sent st) (dlv st) (ins st) (calls st) (res st) lz')).
    { intros lz' tg' Hlz Htg Hmv q m0 port0 d0 Hc Hm Hr Hl. cbn [calls lossy] in *.
      pose proof (R q m0 port0 d0 Hc Hm Hr (Hlz q Hl)) as H. unfold stage in *. cbn [px fwd bwd pool tg aband res].
      stage_cases H.
      - st_a. auto.
      - st_b. auto.
      - (right; right; left; exists tag0). split; auto. destruct H as [H|H].
        + rewrite Ep in H. destruct H as [E|H]; [right; eapply Hmv; eauto|left; auto].
        + right. apply Htg. auto.
      - (right; right; right; left; exists tag0). split; auto.
      - st_e. auto. }
    destruct f as [to tag m port| | | | |]; try (apply Hgen; auto; [intros; apply incl_refl|intros; discriminate]).
    destruct (t_alive (tg st to)) eqn:Ea.
    - apply Hgen; auto.
      + intros q. upd_cases' to q; cbn [t_mbox]; [apply incl_appl|]; apply incl_refl.
      + intros q tag0 m0 port0 _ E. inversion E; subst. rewrite upd_same. cbn [t_mbox].
        apply in_or_app. right. now left.
    - apply Hgen.
      + intros q Hq. upd_cases' to q; [discriminate|auto].
      + intros; apply incl_refl.
      + intros q tag0 m0 port0 Hq E. inversion E; subst. rewrite upd_same in Hq. discriminate.
  Qed.

  Lemma invR_target st pid : invR resp st -> invR resp (do_target resp st pid).
  Proof.
    intros R. unfold do_target. destruct (t_alive (tg st pid)) eqn:Ea; [|exact R].
    destruct (t_mbox (tg st pid)) as [|[tag m port] rest] eqn:Em; [exact R|].
    intros q m0 port0 d0 Hc Hm Hr Hl. cbn [calls lossy] in *.
    pose proof (R q m0 port0 d0 Hc Hm Hr Hl) as H. unfold stage in *. cbn [px fwd bwd pool tg aband res].
    assert (Hpool : incl (pool st ++ flat (bwd st))
                      ((if m_call m then match resp pid m with Some d => pool st ++ [FReply pid tag d port] | None => pool st end
                        else pool st) ++ flat (bwd st))).
    { destruct (m_call m); [|apply incl_refl]. destruct (resp pid m); [|apply incl_refl].
      intros x Hx. apply in_app_or in Hx. apply in_or_app. destruct Hx; [left; apply in_or_app; now left|now right]. }
    stage_cases H.
    - st_a. auto.
    - st_b. auto.
    - destruct H as [H|H].
      + (right; right; left; exists tag0). split; auto.
      + destruct (N.eq_dec pid q) as [->|Hne].
        * rewrite Em in H. destruct H as [E|H].
          -- inversion E as [[E1 E2 E3]]. subst tag m port. (right; right; right; left; exists tag0). split; auto. left. rewrite Hm, Hr.
             apply in_or_app. left. apply in_or_app. right. now left.
          -- (right; right; left; exists tag0). split; auto. right. rewrite upd_same. cbn [t_mbox]. exact H.
        * (right; right; left; exists tag0). split; auto. right. rewrite upd_other by congruence. exact H.
    - (right; right; right; left; exists tag0). split; auto. destruct H as [H|H]; [left; apply Hpool; exact H|right; exact H].
    - st_e. auto.
  Qed.

  Lemma invR_deliverb st : invL st -> invK st -> invR resp st -> invR resp (do_deliverb st).
  Proof.
    intros [(Wp & _ & _) _] [K1 K2] R. unfold do_deliverb. destruct (up st); [|exact R].
    destruct (pop_last (bwd st)) as [[f bwd']|] eqn:Ep; [|exact R].
    apply flat_pop in Ep.
    intros q m0 port0 d0 Hc Hm Hr Hl. cbn [calls lossy] in *.
    assert (Hl0 : lossy st q = false).
    { destruct (kills f (px st)) as [p|]; [|exact Hl]. destruct (N.eq_dec p q) as [->|Hne].
      - rewrite upd_same in Hl. discriminate.
      - rewrite upd_other in Hl by congruence. exact Hl. }
    pose proof (R q m0 port0 d0 Hc Hm Hr Hl0) as H.
    pose proof (K2 q Hl0 (K1 q m0 port0 Hc)) as Hal.
    (* the proxy of q keeps its mailbox and pending table, unless it is terminated *)
    assert (Hkeep : incl (x_mbox (px st q)) (x_mbox (handle_b f (px st) q))
                    /\ p_pend (x_st (handle_b f (px st) q)) = p_pend (x_st (px st q))).
    { destruct f as [to tag m port|to tag d port|p|p|g p|g p]; simpl.
      - split; [apply incl_refl|reflexivity].
      - destruct (x_alive (px st to)); [|split; [apply incl_refl|reflexivity]].
        upd_cases' to q; cbn [x_mbox x_st]; split; try apply incl_refl; try reflexivity. apply incl_appl, incl_refl.
      - upd_cases' p q; [|split; [apply incl_refl|reflexivity]].
        unfold get_or_spawn. rewrite Hal. split; [apply incl_refl|reflexivity].
      - destruct (x_alive (px st p)) eqn:Ea; [|split; [apply incl_refl|reflexivity]].
        upd_cases' p q; [|split; [apply incl_refl|reflexivity]].
        exfalso. simpl in Hl. rewrite Ea in Hl. rewrite upd_same in Hl. discriminate.
      - upd_cases' p q; [|split; [apply incl_refl|reflexivity]].
        unfold get_or_spawn. rewrite Hal. cbn [x_mbox x_st]. split; [apply incl_refl|reflexivity].
      - destruct (x_alive (px st p)); [|split; [apply incl_refl|reflexivity]].
        upd_cases' p q; cbn [x_mbox x_st]; split; try apply incl_refl; reflexivity. }
    destruct Hkeep as [Hk1 Hk2].
    unfold stage in *. cbn [px fwd bwd pool tg aband res]. rewrite Hk2.
    stage_cases H.
    - st_a. auto.
    - st_b. auto.
    - (right; right; left; exists tag0). split; auto.
    - destruct H as [H|H].
      + rewrite Ep in H. apply in_app_or in H. destruct H as [H|[E|H]].
        * (right; right; right; left; exists tag0). split; auto. left. apply in_or_app. now left.
        * (* this is the frame being handled: it lands in the proxy's mailbox *)
          (right; right; right; left; exists tag0). split; auto. right. subst f. simpl. rewrite Hal. rewrite upd_same. cbn [x_mbox].
          apply in_or_app. right. now left.
        * (right; right; right; left; exists tag0). split; auto. left. apply in_or_app. now right.
      + (right; right; right; left; exists tag0). split; auto.
    - st_e. auto.
  Qed.
End Reply2.

Section Reply3.
  Variable resp : N -> msg -> option (list N).

  Lemma pstep_call_inserts c st m port ps t m' :
    pstep c true st (PSend m port) = (ps, [OSend t m']) -> m_call m = true -> In (t, port) (p_pend ps).
  Proof.
    unfold pstep. intros H Hm. rewrite Hm in H. inversion H; subst. simpl.
    apply in_or_app. right. now left.
  Qed.

  Lemma pstep_send_nook c st m port ps o :
    pstep c false st (PSend m port) = (ps, o) -> o = [].
  Proof. unfold pstep. destruct (m_call m); intros H; now inversion H. Qed.

  Ltac stage_cases H :=
    destruct H as [H|[H|[(tag0 & Hp & H)|[(tag0 & Hp & H)|H]]]].

  Lemma invR_proxy st pid : invL st -> invG resp st -> invR resp st -> invR resp (do_proxy st pid).
  Proof.
    intros [(Wp & _ & _) _] HG R. pose proof HG as (G1 & _ & _ & _ & _ & G5 & _ & _ & G8).
    unfold do_proxy. destruct (x_alive (px st pid)) eqn:Ea; [|exact R].
    destruct (x_mbox (px st pid)) as [|it rest] eqn:Em; [exact R|].
    destruct (pstep _ _ _ _) as [ps outs] eqn:Ep.
    destruct (G5 pid Ea) as (P1 & P2 & P3 & P4).
    destruct (pstep_spec _ _ _ _ _ _ P1 Ep) as (S1 & S2 & S3 & S4 & S5 & S6).
    intros q m0 port0 d0 Hc Hm Hr Hl. cbn [calls lossy] in *.
    assert (Hl0 : lossy st q = false).
    { destruct it as [mm pp|? ? ?]; [destruct outs|]; auto.
      destruct (N.eq_dec pid q) as [<-|Hne]; [rewrite upd_same in Hl; discriminate|].
      rewrite upd_other in Hl by congruence. exact Hl. }
    pose proof (R q m0 port0 d0 Hc Hm Hr Hl0) as H.
    set (fwd' := match outs with [OSend t m] => push (FMsg pid t m (port_of it)) (fwd st) | _ => fwd st end) in *.
    set (res' := match outs with
                 | [OResolve port d] => if memN port (aband st) then res st else res st ++ [(port, d)]
                 | _ => res st end) in *.
    assert (Hf : incl (flat (fwd st)) (flat fwd')).
    { unfold fwd'. destruct outs as [|[t m|p d] [|]]; try apply incl_refl.
      intros x Hx. apply in_flat_push. now left. }
    assert (Hrs : incl (res st) res').
    { unfold res'. destruct outs as [|[t m|p d] [|]]; try apply incl_refl.
      destruct (memN p (aband st)); [apply incl_refl|apply incl_appl, incl_refl]. }
    destruct (N.eq_dec pid q) as [<-|Hne].
    2: { eapply stage_mono; [..|exact H]; cbn [px fwd bwd pool tg aband res]; try apply incl_refl; auto;
         rewrite upd_other by congruence; apply incl_refl. }
    unfold stage in *. cbn [px fwd bwd pool tg aband res]. rewrite upd_same. cbn [x_mbox x_st].
    destruct (memN port0 (aband st)) eqn:Eab; [left; now apply memN_In|].
    assert (Hpend : forall tag0, In (tag0, port0) (p_pend (x_st (px st pid))) ->
               In (tag0, port0) (p_pend ps) \/ In (tag0, port0) (resolved_of (pin_of it) outs)).
    { intros tag0 Hp. destruct (in_dec pair_eq_dec (tag0, port0) (p_pend ps)) as [Hi|Hn]; auto.
      destruct (S6 _ Hp Hn) as [Hcl|Hres]; auto. simpl in Hcl. congruence. }
    assert (Hres : forall tag0, In (tag0, port0) (resolved_of (pin_of it) outs) -> In (port0, d0) res').
    { intros tag0 Hin. destruct it as [mm pp|t d port]; cbn [pin_of] in *.
      - destruct (pstep_send_shape _ _ _ _ _ _ _ Ep) as [E|[t E]]; rewrite E in Hin; destruct Hin.
      - destruct (pstep_reply_shape _ _ _ _ _ _ _ Ep) as [E|[p E]]; rewrite E in Hin; simpl in Hin; [destruct Hin|].
        destruct Hin as [E1|[]]. inversion E1; subst t p.
        (* the reply in the mailbox is the answer to this very call *)
        assert (Hit : okitem resp (calls st) (ins st) pid (IReply tag0 d port)) by (apply G1; rewrite Em; now left).
        simpl in Hit. destruct Hit as [Hin (m' & C1 & C2 & C3)].
        assert (Hp0 : In (tag0, port0) (ins st pid)).
        { apply P2. apply (S5 (tag0, port0)). rewrite E. simpl. now left. }
        pose proof (ssorted_nodup _ P4) as P4n.
        assert (port0 = port) by (eapply nodup_fst_inj; eauto). subst port.
        pose proof (nodup_snd_inj _ _ _ _ G8 Hc C1) as Epm. inversion Epm; subst m'.
        assert (d = d0) by congruence. subst d.
        unfold res'. rewrite E, Eab. apply in_or_app. right. now left. }
    stage_cases H.
    - apply memN_In in H. congruence.
    - rewrite Em in H. destruct H as [E|H]; [|right; left; exact H].
      subst it. cbn [pin_of port_of] in *.
      destruct (up st) eqn:Eu.
      + destruct (pstep_send_shape _ _ _ _ _ _ _ Ep) as [E|[t E]].
        * subst outs. rewrite upd_same in Hl. discriminate.
        * right. right. left. exists t. split.
          -- rewrite E in Ep. eapply pstep_call_inserts; eauto.
          -- left. unfold fwd'. rewrite E. apply in_flat_push. now right.
      + apply pstep_send_nook in Ep. subst outs. rewrite upd_same in Hl. discriminate.
    - destruct (Hpend tag0 Hp) as [Hp'|Hr'].
      + right. right. left. exists tag0. split; auto. destruct H; [left; auto|right; auto].
      + right. right. right. right. eapply Hres; eauto.
    - destruct (Hpend tag0 Hp) as [Hp'|Hr']; [|right; right; right; right; eapply Hres; eauto].
      destruct H as [H|H].
      + right. right. right. left. exists tag0. split; auto.
      + rewrite Em in H. destruct H as [E|H].
        * subst it. cbn [pin_of] in *.
          pose proof (proxy_reply_finds_open (fun q => memN q (aband st)) (up st) _ tag0 port0 d0 P1 Hp Eab) as Hfo.
          rewrite Ep in Hfo. simpl in Hfo. subst outs.
          right. right. right. right. unfold res'. rewrite Eab. apply in_or_app. right. now left.
        * right. right. right. left. exists tag0. split; auto.
    - right. right. right. right. auto.
  Qed.
End Reply3.

Section Reply4.
  Variable resp : N -> msg -> option (list N).

  Lemma invR_init nf nb : invR resp (init nf nb).
  Proof. intros pid m port d []. Qed.

  Lemma invR_step st l :
    invAll resp st -> invK st -> invR resp st -> invR resp (step resp st l).
  Proof.
    intros (L & _ & G) K R. pose proof L as [(Wp & Wt & _) _].
    assert (Triv : forall q : N, incl (x_mbox (px st q)) (x_mbox (px st q))
                           /\ incl (p_pend (x_st (px st q))) (p_pend (x_st (px st q)))
                           /\ incl (t_mbox (tg st q)) (t_mbox (tg st q))).
    { intros q. repeat split; apply incl_refl. }
    destruct l; simpl.
    - now apply invR_send.
    - eapply invR_simple; [..|exact R]; cbn [calls lossy px tg aband fwd bwd pool res do_abandon];
        auto; try apply incl_refl. apply incl_tl, incl_refl.
    - now apply invR_proxy.
    - eapply invR_simple; [..|exact R]; cbn [calls lossy px tg aband fwd bwd pool res do_hopf];
        auto; try apply incl_refl. rewrite flat_hop. apply incl_refl.
    - now apply invR_deliverf.
    - now apply invR_target.
    - unfold do_replytask. destruct (nth_error (pool st) i) as [f|] eqn:En; [|exact R].
      eapply invR_simple; [..|exact R]; cbn [calls lossy px tg aband fwd bwd pool res];
        auto; try apply incl_refl.
      intros x Hx. apply in_app_or in Hx. apply in_or_app. destruct Hx as [Hx|Hx].
      + destruct (in_remove_nth_or _ _ _ _ En Hx) as [->|Hx']; [right; apply in_flat_push; now right|now left].
      + right. apply in_flat_push. now left.
    - unfold do_ctl. destruct (ctl st) as [|f rest]; [exact R|].
      eapply invR_simple; [..|exact R]; cbn [calls lossy px tg aband fwd bwd pool res];
        auto; try apply incl_refl.
      intros x Hx. apply in_app_or in Hx. apply in_or_app. destruct Hx as [Hx|Hx]; [now left|].
      right. apply in_flat_push. now left.
    - eapply invR_simple; [..|exact R]; cbn [calls lossy px tg aband fwd bwd pool res do_hopb];
        auto; try apply incl_refl. rewrite flat_hop. apply incl_refl.
    - now apply invR_deliverb.
    - (* spawn *)
      unfold do_spawn. destruct (t_used (tg st pid)) eqn:Eu; [exact R|].
      eapply invR_simple; [..|exact R]; cbn [calls lossy px tg aband fwd bwd pool res set_y];
        auto; try apply incl_refl.
      intros q. repeat split; try apply incl_refl. upd_cases' pid q; [|apply incl_refl].
      destruct (Wt q) as [Wd Wa]. destruct (t_alive (tg st q)) eqn:Ea.
      + rewrite Wa in Eu by reflexivity. discriminate.
      + destruct (Wd eq_refl) as [_ ->]. intros x [].
    - (* exit *)
      unfold do_exit. destruct (t_alive (tg st pid)) eqn:Ea; [|exact R].
      intros q m0 port0 d0 Hc Hm Hr Hl. cbn [calls lossy set_y] in *.
      destruct (N.eq_dec pid q) as [<-|Hne]; [rewrite upd_same in Hl; discriminate|].
      rewrite upd_other in Hl by congruence.
      eapply stage_mono; [..|exact (R q m0 port0 d0 Hc Hm Hr Hl)];
        cbn [px tg aband fwd bwd pool res set_y]; try apply incl_refl.
      rewrite upd_other by congruence. apply incl_refl.
    - (* join *)
      unfold do_join. destruct (t_alive (tg st pid)); [|exact R].
      eapply invR_simple; [..|exact R]; cbn [calls lossy px tg aband fwd bwd pool res set_y];
        auto; try apply incl_refl.
      intros q. repeat split; try apply incl_refl. upd_cases' pid q; apply incl_refl.
    - (* leave *)
      unfold do_leave. destruct (t_alive (tg st pid)); [|exact R].
      eapply invR_simple; [..|exact R]; cbn [calls lossy px tg aband fwd bwd pool res set_y];
        auto; try apply incl_refl.
      intros q. repeat split; try apply incl_refl. upd_cases' pid q; apply incl_refl.
    - (* close *)
      intros q m0 port0 d0 _ _ _ Hl. cbn [lossy do_close] in Hl. discriminate.
  Qed.

  Lemma invRK_run ls st :
    invAll resp st -> invK st -> invR resp st ->
    invK (run resp st ls) /\ invR resp (run resp st ls).
  Proof.
    revert st. induction ls as [|l r IH]; intros st A K R; simpl; [split; assumption|].
    pose proof A as (L & F & G).
    apply IH.
    - now apply invAll_step.
    - now apply invK_step.
    - now apply invR_step.
  Qed.

  (* the theorem: no fault for the target, the caller is still there, the real actor answers,
     and nothing about this call is on its way any more => the port has been resolved with the
     actor's answer *)
  Theorem net_reply_complete : forall nf nb ls pid m port d,
    let st := run resp (init nf nb) ls in
    In (pid, m, port) (calls st) -> m_call m = true -> resp pid m = Some d ->
    lossy st pid = false -> ~ In port (aband st) ->
    x_mbox (px st pid) = [] -> fmsgs pid (flat (fwd st)) = [] -> t_mbox (tg st pid) = [] ->
    pool st = [] -> flat (bwd st) = [] ->
    In (port, d) (res st).
  Proof.
    intros nf nb ls pid m port d st Hc Hm Hr Hl Hab Q1 Q2 Q3 Q4 Q5.
    destruct (invRK_run ls (init nf nb) (invAll_init resp nf nb) (invK_init nf nb) (invR_init nf nb)) as [_ R].
    fold st in R. destruct (R pid m port d Hc Hm Hr Hl) as [H|[H|[(tag & Hp & H)|[(tag & Hp & H)|H]]]].
    - contradiction.
    - rewrite Q1 in H. destruct H.
    - destruct H as [H|H]; [|rewrite Q3 in H; destruct H].
      exfalso. assert (In m (fmsgs pid (flat (fwd st)))); [|rewrite Q2 in *; auto].
      clear -H. induction (flat (fwd st)) as [|f r IH]; [destruct H|].
      destruct H as [->|H]; simpl.
      + rewrite N.eqb_refl. now left.
      + destruct f; auto. destruct (N.eqb to pid); [right|]; auto.
    - rewrite Q4, Q5, Q1 in H. destruct H as [[]|[]].
    - exact H.
  Qed.
End Reply4.
